#!/bin/bash
# usage: ./replay.sh <replay.json> — re-runs the property named in the replay file and prints the obligation again
set -u
cd "$(dirname "$0")"
P=$(python3 -c "import json,sys; print(json.load(open(sys.argv[1]))['property'])" "$1") || exit 2
python3 -c "import json,sys; print(json.dumps(json.load(open(sys.argv[1]))['obligation'], indent=1))" "$1"
exec ./check.sh "$P" quick
