#!/usr/bin/env python3
"""Regenerates MANIFEST.json from the table below (kept in one place so that it is always valid)."""
import json, subprocess, sys

CLAIMED = {}

TECH = {
 "C01": "per-path reaching definitions of the decoder options' setters, dominance of the character-data store by a non-emptiness test of the stored text, total-replacement form of the snake-case fold, counter-advance pairing of the tag sequence number, influence sets (data + phi-selecting control dependence) of decoder map writes; must-pass-through of child insertion; nil/type-set/bounds obligations, who-may-trim rule on values derived from character data, sibling agreement of decoder set-up",
 "C02": "total-replacement (idempotence) form of the decoder's key folding, path-sensitive typestate of the element encoder's buffer writes (tag protocol, content-written obligation) over a product of tag state, branch-fact and dynamic-type-set valuations, interprocedural over local closures and helpers, numeric-conversion scan of the rendering functions, shared-key/literal scan, predicate-atom comparison of the two key scans, escape taint over SSA with a gated-phi sanitiser model, escape-table evaluation, map-range order effects, type-test dominance of the default-root wrap in the encoders' single-member loop, control-dependence classification of the ParseFloat call",
 "C03": "path-sensitive typestate of the element encoder's buffer writes (tag protocol, content-written obligation), loop path-cover of recursive encoder calls, error path search with phi renaming, escape taint, zone (DBM) facts at the reads of the optional tag arguments",
 "C04": "token-level path-sensitive typestate of the sequence encoder's writes (tag protocol, content-written obligation), sequence-counter pairing per block, dominance of the character-data store by a non-emptiness test of the stored text, map-range order effects with sort-dominance and own-value provenance of cached sort keys, producer/consumer shape contract, nil/type-set/bounds obligations, who-may-trim rule on values derived from character data (cut set = the option's variable), call-graph reachability of the escaping function from the markup arms, type-test dominance of the default-root wrap, unsafe-conversion scan, influence sets of the sequence decoder's cast inputs",
 "C05": "path-sensitive typestate of both element encoders' markup writes, escape taint, escape-table evaluation, path enumeration of the coupled setters, accumulator-coupling of validator input and returned bytes, use classification of the validating decoder (strict, reads a copy), error path search",
 "C06": "whole-program points-to ownership of the returned bytes (not reachable from package state), backward slice of returned bytes for textual rewriting, option-to-SetEscapeHTML flow or must-pass-through of json.HTMLEscape on option-true paths, who-may-decode rule for JSON over readers and files, wrapper composition, error path search, guard analysis of the top-level-array wrapper (under the first-byte test only, on every such path), no json.Marshal below the encoder, dominance of decoder-less success returns by the empty-input test, single-Decode reachability, call-graph load scope of XML options below the JSON functions",
 "C07": "append/count pairing invariant, recursion-argument shape (keys[1:]) resolved through helper functions, per-iteration freshness of parsed records (no loop-carried value in a stored field), comma-ok presence discipline, append dominance by len(keys)==0, alias lint for y[:0] reuse, zone (DBM) proof that a segment remains wherever the indexed walker tests a value's type, compiler BCE report + zone analysis, backing-array ownership of the returned slice, verbatim (split/slice only) provenance of segment names, no numeric conversion of path segments in the legacy walker",
 "C08": "loop path-cover of walkers and must-reach of the member loops from the type test, locality of the predicate's rejections (inside the condition loop), referrer classification of the sub-key map, influence sets of breadcrumbs, comparison-operand provenance, points-to receiver effects, per-path reaching definitions of the field-separator setter, amount-wise pairing of appends and counter advances, loop-carried-influence test of the sub-key map's entries, option load scopes of the query functions",
 "C09": "loop path-cover with allowed skip conditions, guard implication for attribute-prefix tests (prefix known non-empty, through boolean phis and parameters), comma-ok presence discipline on the walker and the path resolution, leaf-append shape, zone proof for the final indexed step, wrapper composition and option forwarding, compiler BCE report, skip-path analysis of member loops (a key/prefix-dependent test with an outcome that bypasses the walker call)",
 "C10": "dominance of every write by presence evidence for the written key, guard/node agreement of sub-key tests and writes, self-call re-entry test, comma-ok presence discipline, per-block pairing of replacements and counter increments, key/value operand provenance, flag-gated list store, recursion-argument shape, loop-carried-influence test of the sub-key map's entries",
 "C11": "write enumeration through helpers, return-after-write reachability, operand provenance of the move, positional-termination or loop-exhaustion test of the parent walker, classification of path parts (last segment / path without it) through helper returns, type-set/bounds obligations, control independence of the write from the value parameter, zone (DBM) lower bound of the segment list handed to the lookup walker",
 "C12": "whole-program inclusion-based points-to analysis (receiver effects), loop path-cover of the pair validation tests, error path search, nil/type-set/bounds obligations, non-nil result on success paths of Copy, validation coverage of every pair through helper returns, control dependence of success returns on receiver-derived tests outside the pair loop",
 "C13": "io.Reader contract rules over Read call sites (dominance by n>0 / err!=nil), ByteReader provenance, constant buffer lengths, tee write dominance, handler stop-edge reachability, who-may-decode rule for JSON, decoder set-up agreement (majority signature) across the functions that configure an xml.Decoder, value-sensitive path feasibility of the JSON scanner for the closing brace and the escape flag",
 "C14": "referrer classification of the cast flag, dominance of option loads by the flag, must-analysis of excluded NaN/Inf spellings, cast call-site coverage, backward slice of cast inputs (no value read back from the node under construction), tag operand agreement of the two decoders' cast calls, parser base/bit-size constants, control-dependence classification of the ParseFloat call",
 "C15": "Go compiler prove pass (check_bce) as bounds oracle + zone (DBM) analysis + structural rules; type-set dataflow for assertions; nil-guard analysis; self-call re-entry test; error path search, lower-bound analysis of the array-size setter",
 "C16": "map-range effect classification with sort dominance and sort-key provenance, writer/concat wrapper shapes, indent-flag dominance of whitespace writes, validator use classification, nondeterministic-callee scan, option load scopes, object-identity sources in the nondeterministic-callee scan, single-root path analysis of the four encoders",
 "C17": "whole-program inclusion-based points-to analysis: per-root external objects, write-target queries for receivers, byte-slice arguments and package state (callbacks bound through static and dynamic types), result freshness, who-may-call rule for the option setters, scan of stores through pointers loaded from package variables below the non-setter API",
 "C18": "global-writer enumeration, per-path reaching definitions of setters by argument-count class, call-graph load scopes, dominance of cast-option loads, who-may-call rule for the option setters, constant-set relation of the two trim cut sets",
 "C19": "wrapper/concat/file-loop shapes, who-may-decode rule for JSON over readers and files, gob type agreement and registration scan, result freshness by points-to, error path search, reachability of the append from the reader call without an error test, classification of end-of-input tests (identity vs errors.Is) against reachable %w wrapping",
 "C20": "wrapper composition tables checked on resolved callees with receiver chaining and err-dominance, option forwarding, influence sets of the re-implemented walkers (no loop-carried breadcrumb), handler stop-edge reachability, parameter-influence purity of forwarded option flags",
}

import json as _json
_texts = {}
for _l in open('/verif/properties.jsonl'):
    _p = _json.loads(_l)
    _texts[_p['id']] = _p['title']

for _pid, _t in TECH.items():
    CLAIMED[_pid] = dict(
        technique="static analysis over go/types + go/ssa: " + _t,
        text="Structural necessary conditions of '%s', decided soundly from /repo's type-checked SSA program on every run (all inputs / configurations / schedules, no execution). The exact clauses decided and the clauses NOT decided are listed in DESIGN.md section 4 under %s and in the evidence file's coverage.explanation. The behavioural whole of the property is not decided." % (_texts[_pid], _pid),
        note="Trusted: go/types, go/ssa (x/tools v0.29.0), the Go 1.23.5 compiler's prove pass where bounds are concerned, the standard-library effect/contract model tables in the checker, documented semantics transcribed into the checker tables. Assumptions are listed per obligation in the evidence file (status 'assumed').")

NOT_YET = "rule families for this property are not built yet (see DESIGN.md section 4); not claimed through a weaker proxy"

ALL = ["C%02d" % i for i in range(1, 21)]

def main():
    checks = []
    for pid in ALL:
        if pid not in CLAIMED:
            continue
        c = CLAIMED[pid]
        checks.append({
            "property_id": pid,
            "quick_cmd": "./check.sh %s quick" % pid,
            "thorough_cmd": "./check.sh %s thorough" % pid,
            "evidence_file": "/verif/evidence/%s.json" % pid,
            "replay_cmd_template": "./replay.sh {path}",
            "engine": "mxjcheck",
            "level_claimed": {"category": "other", "text": c["text"], "design_ref": "DESIGN.md section 4, " + pid},
            "level_note": c["note"],
            "technique": c["technique"],
        })
    na = [{"property_id": pid, "reason": NOT_YET} for pid in ALL if pid not in CLAIMED]
    m = {
        "version": 1,
        "setup_cmd": "./build.sh",
        "hooks": {
            "guard": "verif",
            "enable": "no source hooks: the checker reads /repo's sources (loaded with -tags verif)",
            "baseline_off_cmd": "cd /repo && GOFLAGS=-mod=mod GOPROXY=off GOSUMDB=off go test -json -vet=off -count=1 -timeout 25m ./...",
            "source_commits": [],
            "add_only": True,
        },
        "engines": [{"name": "mxjcheck", "path": "/verif/cmd/mxjcheck", "serves_properties": sorted(CLAIMED),
                     "kind_free_text": "repository-specific static analyser over go/types + go/ssa (x/tools v0.29.0) and the Go compiler's bounds-check-elimination report"}],
        "checks": checks,
        "not_applicable": na,
        "notes": "Static analysis only: every check type-checks /repo's working tree and decides structural clauses of its property; see DESIGN.md.",
    }
    json.dump(m, open("/verif/MANIFEST.json", "w"), indent=1)
    print("claimed:", sorted(CLAIMED), "not_applicable:", len(na))

main()
