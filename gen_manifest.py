#!/usr/bin/env python3
"""Regenerates MANIFEST.json from the table below (kept in one place so that it is always valid)."""
import json, subprocess, sys

CLAIMED = {
 "C18": dict(
   technique="custom SSA analyses: global-writer enumeration, per-path reaching definitions of setters by argument-count class, call-graph load scopes",
   text="Structural necessary conditions, decided soundly from the type-checked SSA program for all option-call histories: no hidden writers of option state, each setter stores the documented value on every path per argument-count class, escaping switches mutually exclusive, derived variables recomputed, API groups never load options documented not to affect them. The behavioural whole (equality with a fresh process) is not decided.",
   note="Trusted: go/types, go/ssa, the option documentation transcribed into the checker tables. Assumes no reflection/unsafe/linkname access to package variables (none in the module)."),
}

NOT_YET = "rule families for this property are not built yet (see DESIGN.md section 4); not claimed through a weaker proxy"

ALL = ["C%02d" % i for i in range(1, 21)]

def main():
    checks = []
    for pid in ALL:
        if pid not in CLAIMED:
            continue
        c = CLAIMED[pid]
        checks.append({
            "property_id": pid,
            "quick_cmd": "./check.sh %s quick" % pid,
            "thorough_cmd": "./check.sh %s thorough" % pid,
            "evidence_file": "/verif/evidence/%s.json" % pid,
            "replay_cmd_template": "./replay.sh {path}",
            "engine": "mxjcheck",
            "level_claimed": {"category": "other", "text": c["text"], "design_ref": "DESIGN.md section 4, " + pid},
            "level_note": c["note"],
            "technique": c["technique"],
        })
    na = [{"property_id": pid, "reason": NOT_YET} for pid in ALL if pid not in CLAIMED]
    m = {
        "version": 1,
        "setup_cmd": "./build.sh",
        "hooks": {
            "guard": "verif",
            "enable": "no source hooks: the checker reads /repo's sources (loaded with -tags verif)",
            "baseline_off_cmd": "cd /repo && GOFLAGS=-mod=mod GOPROXY=off GOSUMDB=off go test -json -vet=off -count=1 -timeout 25m ./...",
            "source_commits": [],
            "add_only": True,
        },
        "engines": [{"name": "mxjcheck", "path": "/verif/cmd/mxjcheck", "serves_properties": sorted(CLAIMED),
                     "kind_free_text": "repository-specific static analyser over go/types + go/ssa (x/tools v0.29.0) and the Go compiler's bounds-check-elimination report"}],
        "checks": checks,
        "not_applicable": na,
        "notes": "Static analysis only: every check type-checks /repo's working tree and decides structural clauses of its property; see DESIGN.md.",
    }
    json.dump(m, open("/verif/MANIFEST.json", "w"), indent=1)
    print("claimed:", sorted(CLAIMED), "not_applicable:", len(na))

main()
