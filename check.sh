#!/bin/bash
# usage: ./check.sh <property> [quick|thorough]     — builds bin/mxjcheck when stale, runs it against /repo's working tree
set -u
cd "$(dirname "$0")"
export GOFLAGS=-mod=mod GOPROXY=off GOSUMDB=off GOTOOLCHAIN=local GOWORK=off CGO_ENABLED=0
unset GOARCH GOOS
./build.sh || { echo "CHECKER-BUILD-FAILED"; exit 2; }
PROP="${1:?property id}"; TIER="${2:-${VERIF_TIER:-quick}}"
exec ./bin/mxjcheck -property "$PROP" -tier "$TIER" -repo "${MXJ_REPO:-/repo}" -verif "$(pwd)"
