#!/usr/bin/env python3
# usage: seeded/run_all.sh > matrix.txt; selftest/gen_catches.py matrix.txt   — rewrites selftest/catches.json (seed -> properties whose check reports it)
import sys, json, re
out = {}
for l in open(sys.argv[1]):
    m = re.match(r'(C\d\d-\w+) =>(.*)', l.strip())
    if not m:
        continue
    props = sorted({p.split(':')[0] for p in m.group(2).split()})
    if props == ['NOT-DETECTED'] or 'PATCH-DOES-NOT-APPLY' in l:
        print("WARNING:", l.strip()); props = []
    out[m.group(1)] = props
json.dump(out, open('/verif/selftest/catches.json', 'w'), indent=1, sort_keys=True)
print(len(out), "seeds;", sum(1 for k, v in out.items() if k[:3] in v), "reported by their own property")
