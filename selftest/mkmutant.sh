#!/bin/bash
# usage: mkmutant.sh <Cxx-name> <file> <find> <replace>  — writes selftest/mutants/<Cxx-name>.diff (a hand-written break the
# thorough tier of property Cxx must report); the edit is made on a scratch copy of /repo, never in /repo.
set -eu
NAME=$1; FILE=$2; FIND=$3; REPL=$4
D=$(mktemp -d /tmp/mxjmut.XXXXXX)
mkdir -p $D/a $D/b
cp /repo/$FILE $D/a/$FILE 2>/dev/null || { mkdir -p $D/a/$(dirname $FILE) $D/b/$(dirname $FILE); cp /repo/$FILE $D/a/$FILE; }
mkdir -p $D/b/$(dirname $FILE)
python3 - "$D/a/$FILE" "$D/b/$FILE" "$FIND" "$REPL" <<'PY'
import sys
a,b,find,repl=sys.argv[1:5]
s=open(a).read()
if s.count(find)!=1:
    print("mkmutant: find text occurs %d times"%s.count(find)); sys.exit(3)
open(b,'w').write(s.replace(find,repl))
PY
(cd $D && diff -u a/$FILE b/$FILE > /verif/selftest/mutants/$NAME.diff || true)
rm -rf $D
echo "wrote selftest/mutants/$NAME.diff ($(wc -l < /verif/selftest/mutants/$NAME.diff) lines)"
