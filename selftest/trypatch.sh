#!/bin/bash
# usage: trypatch.sh <patch.diff> <property>...   — applies a patch to a scratch copy of /repo and runs the checks on it
set -u
PATCH=$1; shift
D=$(mktemp -d /tmp/mxjtry.XXXXXX)
rsync -a --exclude .git --exclude examples /repo/ $D/
(cd $D && patch -p1 -s < $PATCH) || { echo "TRY: patch does not apply"; rm -rf $D; exit 3; }
(cd $D && GOFLAGS=-mod=mod GOPROXY=off GOSUMDB=off GOTOOLCHAIN=local go build ./ ./j2x ./x2j ./x2j-wrapper 2>&1 | head -5)
cd /verif && ./build.sh
for P in "$@"; do
  ./bin/mxjcheck -property $P -repo $D -verif /verif -no-evidence | grep -E 'VIOLATED|UNDECIDED|summary|KNOWN' | sed "s#$D/##g" | cut -c1-400
done
rm -rf $D
