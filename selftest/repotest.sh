#!/bin/bash
# runs the repository's own suite (the three packages that have tests)
cd /repo && GOFLAGS=-mod=mod GOPROXY=off GOSUMDB=off GOTOOLCHAIN=local go test -vet=off -count=1 . ./j2x ./x2j-wrapper 2>&1 | tail -5
