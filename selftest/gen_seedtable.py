#!/usr/bin/env python3
# usage: selftest/gen_seedtable.py matrix.txt   — prints the markdown table of DESIGN.md 9.6 from the seed matrix and the seeds' meta.json
import sys, json, re, os
rows = []
for l in sorted(open(sys.argv[1])):
    m = re.match(r'(C\d\d-\w+) =>(.*)', l.strip())
    if not m:
        continue
    name, rest = m.group(1), m.group(2).strip()
    meta = json.load(open(f'/verif/seeded/{name}/meta.json'))
    summ = meta.get('summary', '').replace('|', '/').replace('\n', ' ')
    if len(summ) > 150:
        summ = summ[:147] + '...'
    rows.append(f'| {name} | {summ} | {rest} |')
print('| change | what it does | reported by (property:rules) |\n|---|---|---|')
print('\n'.join(rows))
