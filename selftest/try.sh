#!/bin/bash
# usage: try.sh <property> <file> <python-regex-find> <replace>   — applies one edit to a scratch copy of /repo and runs the check on it
set -u
PROP=$1; FILE=$2; FIND=$3; REPL=$4
D=$(mktemp -d /tmp/mxjtry.XXXXXX)
rsync -a --exclude .git --exclude examples /repo/ $D/
python3 - "$D/$FILE" "$FIND" "$REPL" <<'PY'
import sys,re
f,find,repl=sys.argv[1:4]
s=open(f).read()
n=s.count(find)
if n==0:
    print("TRY: find text not present"); sys.exit(3)
s=s.replace(find,repl,1)
open(f,'w').write(s)
PY
rc=$?
if [ $rc -ne 0 ]; then rm -rf $D; exit 3; fi
(cd $D && GOFLAGS=-mod=mod GOPROXY=off GOSUMDB=off GOTOOLCHAIN=local go build ./... 2>&1 | head -5)
cd /verif && ./build.sh && ./bin/mxjcheck -property $PROP -repo $D -verif /verif -no-evidence | grep -E 'VIOLATED|UNDECIDED|summary|KNOWN' | sed "s#$D/##g"
rm -rf $D
