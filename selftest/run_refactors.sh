#!/bin/bash
# applies every behaviour-preserving refactoring to a scratch copy of /repo and runs all property checks: any report is a false alarm
set -u
# MXJCHECK=<binary> runs with a frozen copy of the checker (so that the checker can be rebuilt while a long battery runs)
if [ -z "${MXJCHECK:-}" ]; then cd /verif && ./build.sh || exit 2; fi
export MXJCHECK=${MXJCHECK:-/verif/bin/mxjcheck}
one() {
  S=${1%/}; N=$(basename $S)
  D=$(mktemp -d /tmp/mxjref.XXXXXX)
  rsync -a --exclude .git --exclude examples /repo/ $D/
  if ! (cd $D && patch -p1 -s --no-backup-if-mismatch < $S/patch.diff >/dev/null 2>&1); then echo "$N PATCH-DOES-NOT-APPLY"; rm -rf $D; return; fi
  if ! (cd $D && GOFLAGS=-mod=mod GOPROXY=off GOSUMDB=off GOTOOLCHAIN=local go build ./ ./j2x ./x2j ./x2j-wrapper >/dev/null 2>&1); then echo "$N DOES-NOT-BUILD"; rm -rf $D; return; fi
  OUT=""
  for P in $(seq -w 1 20); do
    R=$($MXJCHECK -property C$P -repo $D -verif /verif -no-evidence 2>/dev/null | grep -E '^(VIOLATED|UNDECIDED|CHECKER)' | awk '{print $2":"$3}' | sort -u | tr '\n' ',' )
    [ -n "$R" ] && OUT="$OUT C$P:${R%,}"
  done
  echo "$N =>${OUT:- silent}"
  rm -rf $D
}
export -f one
SEEDS=("$@"); if [ ${#SEEDS[@]} -eq 0 ]; then SEEDS=(/verif/selftest/refactors/R*/); fi
printf '%s\n' "${SEEDS[@]}" | xargs -P ${PAR:-8} -I{} bash -c 'one {}' | sort
