// mxjcheck decides structural clauses of the mxj properties C01..C20 by static analysis of /repo.
package main

import (
	"flag"
	"fmt"
	"os"
	"path/filepath"
	"sort"

	"verif/internal/chk"
)

func main() {
	prop := flag.String("property", "", "property id (C01..C20)")
	tier := flag.String("tier", "quick", "quick|thorough")
	repo := flag.String("repo", "/repo", "repository root")
	verif := flag.String("verif", "/verif", "verification directory (evidence, known findings)")
	tags := flag.String("tags", "verif", "build tags")
	goarch := flag.String("goarch", "", "GOARCH override")
	noEvidence := flag.Bool("no-evidence", false, "do not write evidence (used by self-tests on scratch copies)")
	list := flag.Bool("list", false, "list registered properties")
	flag.Parse()
	if *list {
		var ids []string
		for id := range chk.Props {
			ids = append(ids, id)
		}
		sort.Strings(ids)
		for _, id := range ids {
			fmt.Println(id)
		}
		return
	}
	spec, ok := chk.Props[*prop]
	if !ok {
		fmt.Fprintf(os.Stderr, "mxjcheck: property %q is not registered\n", *prop)
		os.Exit(2)
	}
	defer func() {
		if e := recover(); e != nil {
			fmt.Fprintf(os.Stderr, "CHECKER-PANIC: %v\n", e)
			panic(e)
		}
	}()
	cfg := chk.Config{Repo: *repo, Tags: *tags, GOARCH: *goarch}
	p, err := chk.Load(cfg)
	if err != nil {
		fmt.Fprintf(os.Stderr, "CHECKER-LOAD-FAILED: %v\n", err)
		os.Exit(2)
	}
	r := chk.NewReport(*prop, *tier)
	for _, t := range spec.Trusted {
		r.Trusted[t] = true
	}
	for _, rule := range spec.Rules {
		rule(p, r)
	}
	known, err := chk.LoadKnown(filepath.Join(*verif, "known_findings.txt"))
	if err != nil {
		fmt.Fprintf(os.Stderr, "CHECKER-KNOWN-FINDINGS: %v\n", err)
		os.Exit(2)
	}
	note := fmt.Sprintf("repo=%s tags=%s goarch=%s packages=%d files=%d functions=%d", *repo, *tags, *goarch, len(p.Pkgs), p.NumFiles, len(p.Funcs))
	out := *verif
	if *noEvidence {
		out, _ = os.MkdirTemp("", "mxjcheck-noev")
		defer os.RemoveAll(out)
	}
	code := r.Finish(out, known, note, spec.Explain)
	if *noEvidence {
		os.RemoveAll(out)
	}
	os.Exit(code)
}
