// mxjcheck decides structural clauses of the mxj properties C01..C20 by static analysis of /repo.
package main

import (
	"flag"
	"fmt"
	"os"
	"path/filepath"
	"sort"

	"verif/internal/chk"
)

func main() {
	prop := flag.String("property", "", "property id (C01..C20)")
	tier := flag.String("tier", "quick", "quick|thorough")
	repo := flag.String("repo", "/repo", "repository root")
	verif := flag.String("verif", "/verif", "verification directory (evidence, known findings)")
	tags := flag.String("tags", "verif", "build tags")
	goarch := flag.String("goarch", "", "GOARCH override")
	noEvidence := flag.Bool("no-evidence", false, "do not write evidence (used by self-tests on scratch copies)")
	list := flag.Bool("list", false, "list registered properties")
	flag.Parse()
	if *list {
		var ids []string
		for id := range chk.Props {
			ids = append(ids, id)
		}
		sort.Strings(ids)
		for _, id := range ids {
			fmt.Println(id)
		}
		return
	}
	spec, ok := chk.Props[*prop]
	if !ok {
		fmt.Fprintf(os.Stderr, "mxjcheck: property %q is not registered\n", *prop)
		os.Exit(2)
	}
	defer func() {
		if e := recover(); e != nil {
			fmt.Fprintf(os.Stderr, "CHECKER-PANIC: %v\n", e)
			panic(e)
		}
	}()
	cfg := chk.Config{Repo: *repo, Tags: *tags, GOARCH: *goarch}
	p, err := chk.Load(cfg)
	if err != nil {
		fmt.Fprintf(os.Stderr, "CHECKER-LOAD-FAILED: %v\n", err)
		os.Exit(2)
	}
	r := chk.RunRules(p, spec, *prop, *tier)
	selfTestFailed := false
	if *tier == "thorough" && !*noEvidence {
		// (1) further build configurations
		cfgs := []chk.Config{{Repo: *repo, Tags: *tags, GOARCH: "386"}, {Repo: *repo, Tags: "", GOARCH: ""}}
		r.Notes = append(r.Notes, chk.CompareConfigs(r, spec, *prop, cfgs)...)
		// (2) VTA call-graph cross-check from every exported non-setter entry point
		r.Notes = append(r.Notes, chk.VTACrossCheck(p, r, chk.AllAPIRoots(p)))
		// (3) self-test battery in subprocesses on scratch copies
		self, _ := os.Executable()
		res, _ := chk.RunSelfTests(*repo, *verif, *prop, self)
		nOK := 0
		for _, t := range res {
			line := fmt.Sprintf("selftest %-40s expect=%-9s %s", t.Case.Name, t.Case.Expect, t.Detail)
			r.Notes = append(r.Notes, line)
			fmt.Println(line)
			if t.OK {
				nOK++
			} else {
				selfTestFailed = true
			}
		}
		r.Notes = append(r.Notes, fmt.Sprintf("self-test battery: %d cases, %d as expected", len(res), nOK))
		// (4) cross-reference tools, information only
		r.Notes = append(r.Notes, chk.CrossReference(*repo)...)
	}
	known, err := chk.LoadKnown(filepath.Join(*verif, "known_findings.txt"))
	if err != nil {
		fmt.Fprintf(os.Stderr, "CHECKER-KNOWN-FINDINGS: %v\n", err)
		os.Exit(2)
	}
	note := fmt.Sprintf("repo=%s tags=%s goarch=%s packages=%d files=%d functions=%d", *repo, *tags, *goarch, len(p.Pkgs), p.NumFiles, len(p.Funcs))
	out := *verif
	if *noEvidence {
		out, _ = os.MkdirTemp("", "mxjcheck-noev")
		defer os.RemoveAll(out)
	}
	code := r.Finish(out, known, note, spec.Explain)
	if *noEvidence {
		os.RemoveAll(out)
	}
	if selfTestFailed {
		fmt.Println("CHECKER-SELFTEST-FAILED: the checker did not react to a self-test variant as expected (a defect of the machinery, not of mxj)")
		os.Exit(2)
	}
	os.Exit(code)
}
