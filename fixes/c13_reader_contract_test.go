package mxj
import ("testing";"strings";"testing/iotest";"io")
type zeroReader struct{ r io.Reader; flip bool }
func (z *zeroReader) Read(p []byte)(int,error){ z.flip=!z.flip; if z.flip {return 0,nil}; return z.r.Read(p) }
func TestReproReaderContract(t *testing.T){
 doc:=`<a><b>x</b></a>`
 for _,mk:=range []func() io.Reader{
   func() io.Reader{return iotest.DataErrReader(iotest.OneByteReader(strings.NewReader(doc)))},
   func() io.Reader{return &zeroReader{r:iotest.OneByteReader(strings.NewReader(doc))}},
 }{
   m,err:=NewMapXmlReader(mk()); if err!=nil { t.Fatal("xml",err) }
   if v,_:=m.ValueForPath("a.b"); v!="x" { t.Fatal(m) }
   m,raw,err:=NewMapXmlReaderRaw(mk()); if err!=nil || string(raw)!=doc { t.Fatal("xmlraw",err,string(raw)) }
   ms,err:=NewMapXmlSeqReader(mk()); if err!=nil || ms==nil { t.Fatal("seq",err) }
 }
 j:=`{"a":"b}"}`
 for _,mk:=range []func() io.Reader{
   func() io.Reader{return iotest.DataErrReader(iotest.OneByteReader(strings.NewReader(j)))},
   func() io.Reader{return &zeroReader{r:iotest.OneByteReader(strings.NewReader(j))}},
 }{
   m,raw,err:=NewMapJsonReaderRaw(mk()); if err!=nil || string(raw)!=j || m["a"]!="b}" { t.Fatal("json",err,string(raw),m) }
 }
}
