package mxj
import "testing"
func TestReproAnyXmlErrorLost(t *testing.T){
 v:=[]interface{}{map[string]interface{}{"a":map[string]interface{}{"-x":[]int{1}}}, "tail"}
 if out,err:=AnyXml(v); err==nil { t.Fatalf("AnyXml lost the element error: %s", out) }
 if out,err:=AnyXmlIndent(v,""," "); err==nil { t.Fatalf("AnyXmlIndent lost the element error: %s", out) }
 v2:=[]interface{}{map[string]interface{}{"a":map[string]interface{}{"-x":[]int{1}},"b":1}}
 if out,err:=AnyXmlIndent(v2,""," "); err==nil { t.Fatalf("AnyXmlIndent lost the element error: %s", out) }
}
