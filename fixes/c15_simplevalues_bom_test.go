package mxj
import "testing"
func TestReproSimpleValuesLeadingText(t *testing.T){
 DecodeSimpleValuesAsMap(true); defer DecodeSimpleValuesAsMap(false)
 m,err:=NewMapXml([]byte("\xef\xbb\xbf<a>x</a>"))
 if err!=nil { t.Fatal(err) }
 if v,_:=m.ValueForPath("a.#text"); v!="x" { t.Fatal(m) }
}
