package mxj
import ("testing";"strings")
func TestReproJsonReaderRawLoneBrace(t *testing.T){
 _,_,err:=NewMapJsonReaderRaw(strings.NewReader("}"))
 if err==nil { t.Fatal("expected error") }
}
