package x2j
import ("testing";"sort";"reflect")
func TestReproWrapperCrumb(t *testing.T){
 m:=map[string]interface{}{"a":map[string]interface{}{"key":"v1","b":map[string]interface{}{"key":"v2"}}}
 got:=PathsForKey(m,"key"); sort.Strings(got)
 want:=[]string{"a.b.key","a.key"}
 if !reflect.DeepEqual(got,want) { t.Fatalf("got %v want %v",got,want) }
}
