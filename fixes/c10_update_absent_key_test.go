package mxj

// Repro for: fix: UpdateValuesForPath created the key (and counted 1) when the path ends in a key the addressed map does not have

import (
	"reflect"
	"testing"
)

func TestUpdateAbsentLastKey(t *testing.T) {
	m := Map{"a": map[string]interface{}{"b": 1}}
	n, err := m.UpdateValuesForPath("c:5", "a.c")
	if err != nil || n != 0 {
		t.Fatalf("n=%d err=%v: nothing is stored under a.c, nothing can be replaced", n, err)
	}
	if !reflect.DeepEqual(m, Map{"a": map[string]interface{}{"b": 1}}) {
		t.Fatalf("a count of zero must leave the Map untouched: %v", m)
	}
	// the other addressing form already behaves like that
	n, _ = m.UpdateValuesForPath("c:5", "a")
	if n != 0 {
		t.Fatalf("n=%d", n)
	}
	// a key holding null is present and is replaced
	m = Map{"a": map[string]interface{}{"c": nil}}
	n, _ = m.UpdateValuesForPath("c:5", "a.c")
	if n != 1 {
		t.Fatalf("null value not replaced: n=%d m=%v", n, m)
	}
}
