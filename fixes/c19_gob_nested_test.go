package mxj
import ("testing";"reflect")
func TestReproGobNested(t *testing.T){
 m:=Map{"a":map[string]interface{}{"b":[]interface{}{"x",1.0,map[string]interface{}{"c":true}}}}
 g,err:=m.Gob(); if err!=nil { t.Fatal(err) }
 m2,err:=NewMapGob(g); if err!=nil || !reflect.DeepEqual(m,m2) { t.Fatal(err,m2) }
}
