package mxj
import ("testing";"strings")
func TestReproMapsSafeEncoding(t *testing.T){
 ms:=Maps{Map{"a":"<x>"}}
 s,err:=ms.JsonString(true); if err!=nil || strings.Contains(s,"<") { t.Fatalf("JsonString(true): %s %v",s,err) }
 s,err=ms.JsonStringIndent("","  ",true); if err!=nil || strings.Contains(s,"<") { t.Fatalf("JsonStringIndent(true): %s %v",s,err) }
}
