package mxj
import "testing"
func TestReproEmptySubkey(t *testing.T){
 m:=Map{"a":map[string]interface{}{"b":"c"}}
 if _,err:=m.ValuesForKey("a", ":x"); err!=nil { t.Fatal(err) }
 if _,err:=m.ValuesForPath("a", ":x"); err!=nil { t.Fatal(err) }
}
