package mxj
import "testing"
func TestReproSeqTextBeforeChildren(t *testing.T){
 doc:=`<a x="1">hello &amp; co<b>x</b><c>y</c><b>z</b></a>`
 m,err:=NewMapXmlSeq([]byte(doc)); if err!=nil { t.Fatal(err) }
 XMLEscapeChars(true); defer XMLEscapeChars(false)
 out,err:=m.Xml(); if err!=nil { t.Fatal(err) }
 if string(out)!=doc { t.Fatalf("got %s", out) }
 ind,err:=m.XmlIndent("","  "); if err!=nil { t.Fatal(err) }
 m2,err:=NewMapFormattedXmlSeq(ind); if err!=nil { t.Fatal(err) }
 out2,_:=m2.Xml()
 if string(out2)!=doc { t.Fatalf("indent round trip got %s from %s", out2, ind) }
}
