package x2j
import ("testing";"math")
func TestReproWrapperCastNanInf(t *testing.T){
 CastNanInf(true); defer CastNanInf(false)
 m,err:=DocToMap("<a>NaN</a>", true); if err!=nil { t.Fatal(err) }
 f,ok:=m["a"].(float64); if !ok || !math.IsNaN(f) { t.Fatalf("CastNanInf(true) had no effect: %T %v",m["a"],m["a"]) }
}
