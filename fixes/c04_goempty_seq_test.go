package mxj

// Repro for: fix: MapSeq encoder did not close the start tag of an empty element under XmlGoEmptyElemSyntax
// (found by TAGS.seqprotocol: token "</" written in state "open", xmlseq.go else-if branch after the end-tag block)

import "testing"

func TestGoEmptyElemSeq(t *testing.T) {
	XmlGoEmptyElemSyntax()
	defer XmlDefaultEmptyElemSyntax()
	for _, doc := range []string{`<doc><a/></doc>`, `<doc><a x="1"/></doc>`} {
		m, err := NewMapXmlSeq([]byte(doc))
		if err != nil {
			t.Fatal(err)
		}
		x, err := m.Xml()
		if err != nil {
			t.Fatal(err)
		}
		if _, err := NewMapXmlSeq(x); err != nil {
			t.Fatalf("%s: re-encoded as %s does not decode: %v", doc, x, err)
		}
	}
}
