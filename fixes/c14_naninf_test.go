package mxj
import "testing"
func TestReproNanInfSpellings(t *testing.T){
 for _,sp:=range []string{"NaN","inf","+Inf","-inf","Infinity","+infinity","-INFINITY"}{
  m,err:=NewMapXml([]byte("<a>"+sp+"</a>"),true); if err!=nil { t.Fatal(err) }
  if _,ok:=m["a"].(string); !ok { t.Fatalf("%s cast to %T although CastNanInf is off",sp,m["a"]) }
  if _,err:=m.Json(); err!=nil { t.Fatal(sp,err) }
 }
}
