package mxj
import ("testing";"reflect";"encoding/json")
func TestReproJsonRewrite(t *testing.T){
 m:=Map{"a":`lit \u003c seq \u0026`, "b":"<&>", "c":[]interface{}{1.0,"x"}}
 for _,safe:=range []bool{false,true}{
  j,err:=m.Json(safe); if err!=nil { t.Fatal(err) }
  m2,err:=NewMapJson(j); if err!=nil { t.Fatalf("%v: %s",err,j) }
  if !reflect.DeepEqual(m,m2) { t.Fatalf("safe=%v: %v != %v (%s)",safe,m,m2,j) }
  ji,err:=m.JsonIndent("","  ",safe); if err!=nil { t.Fatal(err) }
  m3,err:=NewMapJson(ji); if err!=nil || !reflect.DeepEqual(m,m3) { t.Fatalf("indent safe=%v: %v %v",safe,err,m3) }
  ref,_:=json.MarshalIndent(map[string]interface{}(m),"","  ")
  if safe && string(ji)!=string(ref) { t.Fatalf("indent differs from json.MarshalIndent:\n%s\n%s",ji,ref) }
 }
 // error case as before: nil bytes? (json.Marshal returned nil bytes on error)
 if b,err:=(Map{"x":make(chan int)}).Json(); err==nil || b!=nil { t.Fatal("expected error") }
}
