package mxj
import "testing"
func TestReproLeafProjectionsOption(t *testing.T){
 m,_:=NewMapXml([]byte(`<a x="1"><b>y</b></a>`))
 if n:=len(m.LeafPaths(NoAttributes)); n!=len(m.LeafNodes(NoAttributes)) { t.Fatalf("LeafPaths(NoAttributes) has %d entries",n) }
 if n:=len(m.LeafValues(NoAttributes)); n!=len(m.LeafNodes(NoAttributes)) { t.Fatalf("LeafValues(NoAttributes) has %d entries",n) }
}
