package mxj
import "testing"
func TestReproSetBelowScalar(t *testing.T){
 m:=Map{"a":map[string]interface{}{"b":"scalar"}}
 if err:=m.SetValueForPath("x","a.b.c"); err==nil { t.Fatal("expected an error") }
 if m["a"].(map[string]interface{})["b"]!="scalar" { t.Fatal("modified") }
}
