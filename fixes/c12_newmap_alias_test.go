package mxj
import ("testing";"reflect")
func TestReproNewMapModifiesReceiver(t *testing.T){
 m:=Map{"a":map[string]interface{}{"y":"1"},"c":"2"}
 ref,_:=m.Copy()
 n,err:=m.NewMap("a:x","c:x.z"); if err!=nil { t.Fatal(err) }
 if !reflect.DeepEqual(m,ref) { t.Fatalf("receiver modified: %v",m) }
 want:=Map{"x":map[string]interface{}{"y":"1","z":"2"}}
 if !reflect.DeepEqual(n,want) { t.Fatalf("got %v",n) }
}
