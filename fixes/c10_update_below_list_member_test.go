package mxj

// Repro for: fix: UpdateValuesForPath wrote into the list member instead of the node the path addresses

import (
	"reflect"
	"testing"
)

func TestUpdateBelowListMember(t *testing.T) {
	m, _ := NewMapJson([]byte(`{"items":[{"x":"top1","sub":{"x":"in1"}},{"x":"top2","sub":{"x":"in2"}}]}`))
	n, err := m.UpdateValuesForPath("x:new", "items.sub")
	if err != nil || n != 2 {
		t.Fatalf("n=%d err=%v", n, err)
	}
	in, _ := m.ValuesForPath("items.sub.x")
	top, _ := m.ValuesForPath("items.x")
	if !reflect.DeepEqual(in, []interface{}{"new", "new"}) || !reflect.DeepEqual(top, []interface{}{"top1", "top2"}) {
		t.Fatalf("items.sub.x=%v items.x=%v", in, top)
	}
	// the key is the last segment: members are updated as before
	m2, _ := NewMapJson([]byte(`{"items":[{"x":"a"},{"y":"b"},{"x":"c"}]}`))
	n2, _ := m2.UpdateValuesForPath("x:new", "items.x")
	xs, _ := m2.ValuesForPath("items.x")
	if n2 != 2 || !reflect.DeepEqual(xs, []interface{}{"new", "new"}) {
		t.Fatalf("n=%d items.x=%v", n2, xs)
	}
}
