package mxj
import "testing"
func TestReproEmptyKeyLeafNodes(t *testing.T){
 m:=Map{"a":map[string]interface{}{"":"c"}}
 ln:=m.LeafNodes()
 if len(ln)!=1 { t.Fatalf("%v",ln) }
}
