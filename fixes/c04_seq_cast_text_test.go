package mxj

// Repro for: fix: MapSeq encoder dropped the text of a simple element when the decoder had cast it to a number or boolean

import "testing"

func TestSeqCastSimple(t *testing.T) {
	doc := `<doc><a>3.14</a><b>true</b><c x="1">2</c><d>5<e/></d></doc>`
	m, err := NewMapXmlSeq([]byte(doc), true)
	if err != nil {
		t.Fatal(err)
	}
	x, err := m.Xml()
	if err != nil || string(x) != doc {
		t.Fatalf("%v -> %s %v", m, x, err)
	}
}
