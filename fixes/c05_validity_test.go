package mxj
import "testing"
func TestReproValidityAndEncoderErrors(t *testing.T){
 XmlCheckIsValid(true); defer XmlCheckIsValid(false)
 // invalid output of the sequence encoder must be an error
 ms:=MapSeq{"a":map[string]interface{}{"#text":"x<y","#seq":0}}
 if out,err:=ms.Xml(); err==nil { t.Fatalf("MapSeq.Xml returned invalid XML without error: %s", out) }
 // an encoder error must survive the validity check
 type bad struct{ C chan int }
 m:=Map{"a":map[string]interface{}{"-attr":[]int{1}}}
 if _,err:=m.Xml(); err==nil { t.Fatal("Map.Xml: encoder error lost") }
 if _,err:=m.XmlIndent("", " "); err==nil { t.Fatal("Map.XmlIndent: encoder error lost") }
 ms2:=MapSeq{"a":map[string]interface{}{"#attr":map[string]interface{}{"x":map[string]interface{}{"#text":[]int{1},"#seq":0}},"#seq":0}}
 if _,err:=ms2.Xml(); err==nil { t.Fatal("MapSeq.Xml: encoder error lost") }
 if _,err:=ms2.XmlIndent("", " "); err==nil { t.Fatal("MapSeq.XmlIndent: encoder error lost") }
}
