module fixes

go 1.23
