package mxj
import "testing"
func TestReproNegIndex(t *testing.T){
 m:=Map{"a":[]interface{}{1.0,2.0}}
 v,err:=m.ValuesForPath("a[-1]")
 if err!=nil || len(v)!=0 { t.Fatalf("got %v %v",v,err) }
}
