package mxj
import "testing"
func TestReproIndexedPathStaleValues(t *testing.T){
 m,_:=NewMapJson([]byte(`{"doc":{"items":[{"sub":{"list":["a","b"]}},{"sub":{"list":["c","d"]}}]}}`))
 v,err:=m.ValuesForPath("doc.items[1].sub.list[0]")
 if err!=nil || len(v)!=1 || v[0]!="c" { t.Fatal(v,err) }
}
