package mxj
import "testing"
func TestReproSeqStrayEndTag(t *testing.T){
 if _,err:=NewMapXmlSeq([]byte("</a>")); err==nil { t.Fatal("expected an error") }
}
