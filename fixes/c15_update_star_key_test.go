package mxj

// Repro for: fix: UpdateValuesForPath recursed without bound on a Map that has a key named "*"

import "testing"

func TestUpdateWildcardOverStarKey(t *testing.T) {
	m := Map{"*": "x", "a": "y"}
	n, err := m.UpdateValuesForPath("a:z", "*")
	if err != nil || n != 1 || m["a"] != "z" || m["*"] != "x" {
		t.Fatalf("n=%d err=%v m=%v", n, err, m)
	}
}
