package mxj
import ("testing";"strings";"io")
func TestReproJsonEscapedBackslash(t *testing.T){
 j:=`{"a":"c:\\"} {"b":"he said \\\"}{\" ok"}{"c":"x\\\\"}`
 r:=strings.NewReader(j)
 want:=[]string{`c:\`, `he said \"}{" ok`, `x\\`}
 keys:=[]string{"a","b","c"}
 for i:=range want {
  m,err:=NewMapJsonReader(r); if err!=nil { t.Fatal(i,err) }
  if m[keys[i]]!=want[i] { t.Fatalf("doc %d: %q",i,m[keys[i]]) }
 }
 if _,err:=NewMapJsonReader(r); err!=io.EOF { t.Fatal(err) }
}
