package mxj
import "testing"
func TestReproRenameTopLevelOverwrite(t *testing.T){
 m:=Map{"a":1,"b":2}
 if err:=m.RenameKey("a","b"); err==nil { t.Fatalf("existing top level key overwritten: %v",m) }
 if m["a"]!=1 || m["b"]!=2 { t.Fatal(m) }
}
