package mxj

// Repro for: fix: close the start tag of an attribute-only element under XmlGoEmptyElemSyntax
// (found by TAGS.protocol: "an end tag is written while the element is in state open", xml.go attribute-only arm)

import "testing"

func TestGoEmptyElemAttrOnly(t *testing.T) {
	XmlGoEmptyElemSyntax()
	defer XmlDefaultEmptyElemSyntax()
	m := Map{"a": map[string]interface{}{"-x": "1"}}
	x, err := m.Xml()
	if err != nil {
		t.Fatal(err)
	}
	if string(x) != `<a x="1"></a>` {
		t.Fatalf("got %s", x)
	}
	if _, err := NewMapXml(x); err != nil {
		t.Fatalf("does not decode: %v", err)
	}
}
