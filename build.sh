#!/bin/bash
# builds bin/mxjcheck from the sources in /verif (offline; x/tools v0.29.0 from the module cache)
set -eu
cd "$(dirname "$0")"
export GOFLAGS=-mod=mod GOPROXY=off GOSUMDB=off GOTOOLCHAIN=local GOWORK=off CGO_ENABLED=0
unset GOARCH GOOS
mkdir -p bin
if [ ! -x bin/mxjcheck ] || [ -n "$(find cmd internal go.mod -newer bin/mxjcheck -print -quit 2>/dev/null)" ]; then
  go build -o bin/mxjcheck ./cmd/mxjcheck
fi
