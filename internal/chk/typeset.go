package chk

import (
	"fmt"
	"go/token"
	"go/types"
	"sort"
	"strings"

	"golang.org/x/tools/go/ssa"
)

// F3 — dynamic type sets of interface values: forward dataflow per function over canonical value keys.
// A set is finite (pos) or co-finite (neg); "nil" is a pseudo type for the nil interface.

type tset struct {
	neg bool
	ts  map[string]bool
}

func topT() tset { return tset{neg: true, ts: map[string]bool{}} }
func posT(names ...string) tset {
	s := tset{ts: map[string]bool{}}
	for _, n := range names {
		s.ts[n] = true
	}
	return s
}

func (s tset) isTop() bool { return s.neg && len(s.ts) == 0 }

func (s tset) String() string {
	var ks []string
	for k := range s.ts {
		ks = append(ks, k)
	}
	sort.Strings(ks)
	if s.neg {
		if len(ks) == 0 {
			return "any"
		}
		return "any but {" + strings.Join(ks, ",") + "}"
	}
	return "{" + strings.Join(ks, ",") + "}"
}

func (s tset) clone() tset {
	c := tset{neg: s.neg, ts: map[string]bool{}}
	for k := range s.ts {
		c.ts[k] = true
	}
	return c
}

func unionT(a, b tset) tset {
	switch {
	case !a.neg && !b.neg:
		c := a.clone()
		for k := range b.ts {
			c.ts[k] = true
		}
		return c
	case a.neg && b.neg:
		c := tset{neg: true, ts: map[string]bool{}}
		for k := range a.ts {
			if b.ts[k] {
				c.ts[k] = true
			}
		}
		return c
	case a.neg:
		c := tset{neg: true, ts: map[string]bool{}}
		for k := range a.ts {
			if !b.ts[k] {
				c.ts[k] = true
			}
		}
		return c
	default:
		return unionT(b, a)
	}
}

// meetWith: intersect with the positive singleton {t}.
func (s tset) only(t string) tset {
	if s.neg {
		if s.ts[t] {
			return posT() // contradiction: unreachable
		}
		return posT(t)
	}
	if s.ts[t] {
		return posT(t)
	}
	return posT()
}

// without: remove t.
func (s tset) without(t string) tset {
	c := s.clone()
	if s.neg {
		c.ts[t] = true
	} else {
		delete(c.ts, t)
	}
	return c
}

func eqT(a, b tset) bool {
	if a.neg != b.neg || len(a.ts) != len(b.ts) {
		return false
	}
	for k := range a.ts {
		if !b.ts[k] {
			return false
		}
	}
	return true
}

type tstate map[string]tset

func (s tstate) clone() tstate {
	c := tstate{}
	for k, v := range s {
		c[k] = v
	}
	return c
}

func joinStates(a, b tstate) tstate {
	c := tstate{}
	for k, va := range a {
		if vb, ok := b[k]; ok {
			u := unionT(va, vb)
			if !u.isTop() {
				c[k] = u
			}
		}
	}
	return c
}

func eqStates(a, b tstate) bool {
	if len(a) != len(b) {
		return false
	}
	for k, va := range a {
		vb, ok := b[k]
		if !ok || !eqT(va, vb) {
			return false
		}
	}
	return true
}

type typeFlow struct {
	p      *Prog
	fn     *ssa.Function
	cz     *canonizer
	in     map[*ssa.BasicBlock]tstate
	seenIn map[*ssa.BasicBlock]bool
	// results: state just before each non-commaok TypeAssert
	at  map[*ssa.TypeAssert]tset
	cmp map[*ssa.BinOp][2]tset // operand type sets just before each ==/!= of two interface values
	out map[*ssa.BasicBlock]tstate
}

func tname(t types.Type) string {
	return types.TypeString(t, func(p *types.Package) string { return p.Path() })
}

// mayWriteMaps: module functions that (transitively) contain a MapUpdate/delete, call a function value, or call a stdlib decoder.
func (p *Prog) mayWriteMaps() map[*ssa.Function]bool {
	if v, ok := p.facts["mwm"]; ok {
		return v.(map[*ssa.Function]bool)
	}
	w := map[*ssa.Function]bool{}
	cg := p.CG()
	for _, f := range p.FuncList {
		eachInstr(f, func(b *ssa.BasicBlock, in ssa.Instruction) {
			switch x := in.(type) {
			case *ssa.MapUpdate:
				w[f] = true
			case ssa.CallInstruction:
				c := x.Common()
				if bi, ok := c.Value.(*ssa.Builtin); ok {
					if bi.Name() == "delete" || bi.Name() == "clear" {
						w[f] = true
					}
					return
				}
				if g := staticCallee(c); g != nil {
					if !p.InModule(g) && extWritesMaps(extName(g)) {
						w[f] = true
					}
					return
				}
				if !c.IsInvoke() {
					w[f] = true // dynamic call of a function value (handler)
				}
			}
		})
	}
	changed := true
	for changed {
		changed = false
		for _, f := range p.FuncList {
			if w[f] {
				continue
			}
			for _, g := range cg.out[f] {
				if w[g] {
					w[f] = true
					changed = true
					break
				}
			}
		}
	}
	p.facts["mwm"] = w
	return w
}

func extWritesMaps(name string) bool {
	return strings.Contains(name, ".Decode") || strings.Contains(name, ".Unmarshal")
}

func (p *Prog) typeFlowOf(fn *ssa.Function) *typeFlow {
	key := fmt.Sprintf("tf:%p", fn)
	if v, ok := p.facts[key]; ok {
		return v.(*typeFlow)
	}
	tf := &typeFlow{p: p, fn: fn, cz: p.canonFor(fn), in: map[*ssa.BasicBlock]tstate{}, seenIn: map[*ssa.BasicBlock]bool{}, at: map[*ssa.TypeAssert]tset{}}
	tf.run()
	p.facts[key] = tf
	return tf
}

// intrinsic: the type set a value has by construction, independent of the path.
func (tf *typeFlow) intrinsic(v ssa.Value) (tset, bool) {
	switch x := v.(type) {
	case *ssa.MakeInterface:
		return posT(tname(x.X.Type())), true
	case *ssa.Const:
		if x.Value == nil {
			if _, ok := x.Type().Underlying().(*types.Interface); ok {
				return posT("nil"), true
			}
		}
	case *ssa.ChangeInterface:
		return tf.intrinsic(x.X)
	}
	return tset{}, false
}

func (tf *typeFlow) get(st tstate, v ssa.Value) tset {
	if s, ok := tf.intrinsic(v); ok {
		return s
	}
	if ci, ok := v.(*ssa.ChangeInterface); ok {
		return tf.get(st, ci.X)
	}
	if s, ok := st[tf.cz.of(v)]; ok {
		return s
	}
	return topT()
}

func (tf *typeFlow) set(st tstate, v ssa.Value, s tset) {
	if _, ok := tf.intrinsic(v); ok {
		return
	}
	if ci, ok := v.(*ssa.ChangeInterface); ok {
		tf.set(st, ci.X, s)
		return
	}
	k := tf.cz.of(v)
	if s.isTop() {
		delete(st, k)
	} else {
		st[k] = s
	}
}

func isIfaceType(t types.Type) bool {
	_, ok := t.Underlying().(*types.Interface)
	return ok
}

// refine applies a branch condition to the state of an edge.
func (tf *typeFlow) refine(st tstate, cond ssa.Value, taken bool) {
	g := normGuard(guard{cond, taken})
	switch c := g.Cond.(type) {
	case *ssa.Extract:
		ta, ok := c.Tuple.(*ssa.TypeAssert)
		if !ok || !ta.CommaOk || c.Index != 1 {
			return
		}
		cur := tf.get(st, ta.X)
		if isIfaceType(ta.AssertedType) {
			if it := ta.AssertedType.Underlying().(*types.Interface); it.Empty() {
				// x.(interface{}) succeeds iff x is non-nil
				if g.Pol {
					tf.set(st, ta.X, cur.without("nil"))
				} else {
					tf.set(st, ta.X, cur.only("nil"))
				}
			} else if g.Pol {
				tf.set(st, ta.X, cur.without("nil"))
			}
			return
		}
		tn := tname(ta.AssertedType)
		if g.Pol {
			tf.set(st, ta.X, cur.only(tn))
		} else {
			tf.set(st, ta.X, cur.without(tn))
		}
	case *ssa.BinOp:
		if c.Op != token.EQL && c.Op != token.NEQ {
			return
		}
		var x ssa.Value
		if isNilConst(c.Y) && isIfaceType(c.X.Type()) {
			x = c.X
		} else if isNilConst(c.X) && isIfaceType(c.Y.Type()) {
			x = c.Y
		} else {
			return
		}
		isNil := (c.Op == token.EQL) == g.Pol
		cur := tf.get(st, x)
		if isNil {
			tf.set(st, x, cur.only("nil"))
		} else {
			tf.set(st, x, cur.without("nil"))
		}
	}
}

func (tf *typeFlow) killLookups(st tstate, mapType types.Type) {
	for k := range st {
		if strings.Contains(k, "lookup(") {
			delete(st, k)
		}
	}
}

// transfer runs the block, recording the set seen at each single-value assertion.
func (tf *typeFlow) transfer(b *ssa.BasicBlock, st tstate, record bool) tstate {
	mwm := tf.p.mayWriteMaps()
	for _, in := range b.Instrs {
		if v, ok := in.(ssa.Value); ok {
			if _, isPhi := in.(*ssa.Phi); !isPhi {
				killName(st, "%"+v.Name())
			}
		}
		switch x := in.(type) {
		case *ssa.BinOp:
			if record && (x.Op == token.EQL || x.Op == token.NEQ) && isIfaceType(x.X.Type()) && isIfaceType(x.Y.Type()) {
				if tf.cmp == nil {
					tf.cmp = map[*ssa.BinOp][2]tset{}
				}
				tf.cmp[x] = [2]tset{tf.get(st, x.X), tf.get(st, x.Y)}
			}
		case *ssa.TypeAssert:
			if !x.CommaOk {
				cur := tf.get(st, x.X)
				if record {
					tf.at[x] = cur
				}
				if !isIfaceType(x.AssertedType) {
					// past this point the operand has the asserted type
					tf.set(st, x.X, cur.only(tname(x.AssertedType)))
				}
			}
		case *ssa.MapUpdate:
			tf.killLookups(st, x.Map.Type())
			if isIfaceType(x.Value.Type()) || true {
				key := "lookup(" + tf.cz.of(x.Map) + "," + tf.cz.of(x.Key) + ")"
				var s tset
				if isIfaceType(x.Value.Type()) {
					s = tf.get(st, x.Value)
				} else {
					s = topT()
				}
				if !s.isTop() {
					st[key] = s
				}
			}
		case ssa.CallInstruction:
			c := x.Common()
			if bi, ok := c.Value.(*ssa.Builtin); ok {
				if bi.Name() == "delete" || bi.Name() == "clear" {
					tf.killLookups(st, nil)
				}
				continue
			}
			g := staticCallee(c)
			switch {
			case g == nil && !c.IsInvoke():
				tf.killLookups(st, nil)
			case g != nil && tf.p.InModule(g) && mwm[g]:
				tf.killLookups(st, nil)
			case g != nil && !tf.p.InModule(g) && extWritesMaps(extName(g)):
				tf.killLookups(st, nil)
			case c.IsInvoke():
				// interface method of a user type or module type: module implementations that write maps
				for _, m := range tf.p.CG().out[tf.fn] {
					_ = m
				}
			}
		}
	}
	return st
}

func (tf *typeFlow) edgeState(pred *ssa.BasicBlock, succIdx int, out tstate) tstate {
	st := out.clone()
	if ifi, ok := pred.Instrs[len(pred.Instrs)-1].(*ssa.If); ok {
		tf.refine(st, ifi.Cond, succIdx == 0)
	}
	return st
}

func (tf *typeFlow) run() {
	fn := tf.fn
	if len(fn.Blocks) == 0 {
		return
	}
	out := map[*ssa.BasicBlock]tstate{}
	tf.out = out
	computed := map[*ssa.BasicBlock]bool{}
	work := []*ssa.BasicBlock{fn.Blocks[0]}
	inWork := map[*ssa.BasicBlock]bool{fn.Blocks[0]: true}
	tf.in[fn.Blocks[0]] = tstate{}
	tf.seenIn[fn.Blocks[0]] = true
	iter := 0
	for len(work) > 0 {
		iter++
		if iter > 20000 {
			break
		}
		b := work[0]
		work = work[1:]
		inWork[b] = false
		// entry state: join over computed predecessors of their edge states, with phi handling
		var st tstate
		if b == fn.Blocks[0] {
			st = tstate{}
		} else {
			first := true
			for pi, pr := range b.Preds {
				if !computed[pr] {
					continue
				}
				si := succIndex(pr, b, pi)
				es := tf.edgeState(pr, si, out[pr])
				// phis: the phi value takes the set of its incoming value on this edge
				for _, in := range b.Instrs {
					ph, ok := in.(*ssa.Phi)
					if !ok {
						break
					}
					if !isIfaceType(ph.Type()) {
						continue
					}
					s := tf.get(es, ph.Edges[pi])
					k := tf.cz.of(ph)
					if s.isTop() {
						delete(es, k)
					} else {
						es[k] = s
					}
				}
				if first {
					st = es
					first = false
				} else {
					st = joinStates(st, es)
				}
			}
			if first {
				continue // no predecessor computed yet
			}
		}
		if computed[b] && eqStates(tf.in[b], st) {
			continue
		}
		tf.in[b] = st
		o := tf.transfer(b, st.clone(), false)
		changed := !computed[b] || !eqStates(out[b], o)
		out[b] = o
		computed[b] = true
		if changed {
			for _, s := range b.Succs {
				if !inWork[s] {
					inWork[s] = true
					work = append(work, s)
				}
			}
		}
	}
	// final recording pass
	for _, b := range fn.Blocks {
		if st, ok := tf.in[b]; ok && computed[b] {
			tf.transfer(b, st.clone(), true)
		}
	}
}

// succIndex: which successor slot of pr leads to b for predecessor slot pi (handles duplicate edges).
func succIndex(pr, b *ssa.BasicBlock, pi int) int {
	// count how many earlier pred slots of b are also pr
	k := 0
	for j := 0; j < pi; j++ {
		if b.Preds[j] == pr {
			k++
		}
	}
	for si, s := range pr.Succs {
		if s == b {
			if k == 0 {
				return si
			}
			k--
		}
	}
	return 0
}

// killName removes facts whose key mentions the (re)defined SSA value name as a whole token.
func killName(st tstate, name string) {
	for k := range st {
		idx := 0
		for {
			j := strings.Index(k[idx:], name)
			if j < 0 {
				break
			}
			end := idx + j + len(name)
			if end == len(k) || !(k[end] >= '0' && k[end] <= '9') {
				delete(st, k)
				break
			}
			idx = end
		}
	}
}

// setOnEdge: the type set of v on the control-flow edge pred -> succ (slot = predecessor slot in succ).
func (tf *typeFlow) setOnEdge(v ssa.Value, pred, succ *ssa.BasicBlock, slot int) tset {
	o, ok := tf.out[pred]
	if !ok {
		return posT()
	}
	es := tf.edgeState(pred, succIndex(pred, succ, slot), o)
	return tf.get(es, v)
}

// setAtEntry: the type set of v at the entry of block b.
func (tf *typeFlow) setAtEntry(v ssa.Value, b *ssa.BasicBlock) tset {
	st, ok := tf.in[b]
	if !ok {
		return posT()
	}
	return tf.get(st, v)
}
