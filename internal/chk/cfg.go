package chk

import (
	"fmt"
	"go/token"

	"golang.org/x/tools/go/ssa"
)

// F1 — dominators (from go/ssa), post-dominators, control dependence, edge dominance, path enumeration.

type cfgInfo struct {
	fn    *ssa.Function
	ipdom []int // immediate post-dominator per block index; -1 = virtual exit
	// cdep[b] = list of (branch block, successor index) the block is control dependent on
	cdep map[int][]ctrlEdge
}

type ctrlEdge struct {
	Block *ssa.BasicBlock // block ending in If
	Succ  int             // 0 = true edge, 1 = false edge
}

func (p *Prog) cfgOf(fn *ssa.Function) *cfgInfo {
	key := fmt.Sprintf("cfg:%p", fn)
	if v, ok := p.facts[key]; ok {
		return v.(*cfgInfo)
	}
	ci := &cfgInfo{fn: fn, cdep: map[int][]ctrlEdge{}}
	n := len(fn.Blocks)
	// post-dominators by iterative dataflow on the reversed CFG with a virtual exit (index n).
	const undef = -2
	pd := make([][]bool, n+1)
	for i := range pd {
		pd[i] = make([]bool, n+1)
		for j := range pd[i] {
			pd[i][j] = true
		}
	}
	for j := range pd[n] {
		pd[n][j] = j == n
	}
	isExit := func(b *ssa.BasicBlock) bool { return len(b.Succs) == 0 }
	changed := true
	for changed {
		changed = false
		for i := n - 1; i >= 0; i-- {
			b := fn.Blocks[i]
			nw := make([]bool, n+1)
			for j := range nw {
				nw[j] = true
			}
			succs := []int{}
			for _, s := range b.Succs {
				succs = append(succs, s.Index)
			}
			if isExit(b) {
				succs = append(succs, n)
			}
			if len(succs) == 0 {
				succs = append(succs, n)
			}
			for _, s := range succs {
				for j := range nw {
					nw[j] = nw[j] && pd[s][j]
				}
			}
			nw[i] = true
			for j := range nw {
				if nw[j] != pd[i][j] {
					changed = true
				}
			}
			pd[i] = nw
		}
	}
	_ = undef
	// control dependence: block X is control dependent on edge (B -> S) iff X post-dominates S (or X==S) and X does not strictly post-dominate B.
	for _, b := range fn.Blocks {
		if len(b.Succs) < 2 {
			continue
		}
		for si, s := range b.Succs {
			for x := 0; x < n; x++ {
				if pd[s.Index][x] && !(pd[b.Index][x] && x != b.Index) {
					ci.cdep[x] = append(ci.cdep[x], ctrlEdge{b, si})
				}
			}
		}
	}
	p.facts[key] = ci
	return ci
}

// edgeDominates: every path from entry to blk passes through the edge from -> from.Succs[si].
func edgeDominates(from *ssa.BasicBlock, si int, blk *ssa.BasicBlock) bool {
	to := from.Succs[si]
	if len(to.Preds) == 1 {
		return to.Dominates(blk)
	}
	// 'to' has several predecessors: the edge dominates blk iff to dominates blk and every other predecessor of 'to' is dominated by 'to' (back edges only)
	if !to.Dominates(blk) {
		return false
	}
	for _, pr := range to.Preds {
		if pr == from {
			continue
		}
		if !to.Dominates(pr) {
			return false
		}
	}
	// the other successor of from must not be 'to' as well
	for j, s := range from.Succs {
		if j != si && s == to {
			return false
		}
	}
	return true
}

// guard is a branch condition known to hold (Pol==true) or not hold at a program point.
type guard struct {
	Cond ssa.Value
	Pol  bool
}

// dominatingGuards returns the branch conditions whose edge dominates blk.
func dominatingGuards(blk *ssa.BasicBlock) []guard {
	var out []guard
	fn := blk.Parent()
	for _, b := range fn.Blocks {
		if len(b.Instrs) == 0 {
			continue
		}
		ifi, ok := b.Instrs[len(b.Instrs)-1].(*ssa.If)
		if !ok {
			continue
		}
		for si := 0; si < 2; si++ {
			if edgeDominates(b, si, blk) {
				out = append(out, guard{ifi.Cond, si == 0})
			}
		}
	}
	return out
}

// normGuard peels negations: !(x) with polarity p  ==  x with polarity !p; x != y == !(x == y).
func normGuard(g guard) guard {
	for {
		if u, ok := g.Cond.(*ssa.UnOp); ok && u.Op == token.NOT {
			g = guard{u.X, !g.Pol}
			continue
		}
		return g
	}
}

// reachableFrom returns the blocks reachable from start (inclusive) following successor edges.
func reachableFrom(start *ssa.BasicBlock) map[*ssa.BasicBlock]bool {
	seen := map[*ssa.BasicBlock]bool{start: true}
	work := []*ssa.BasicBlock{start}
	for len(work) > 0 {
		b := work[len(work)-1]
		work = work[:len(work)-1]
		for _, s := range b.Succs {
			if !seen[s] {
				seen[s] = true
				work = append(work, s)
			}
		}
	}
	return seen
}

// hasCycle reports whether the CFG of fn has a cycle.
func hasCycle(fn *ssa.Function) bool {
	color := map[*ssa.BasicBlock]int{}
	var dfs func(b *ssa.BasicBlock) bool
	dfs = func(b *ssa.BasicBlock) bool {
		color[b] = 1
		for _, s := range b.Succs {
			if color[s] == 1 {
				return true
			}
			if color[s] == 0 && dfs(s) {
				return true
			}
		}
		color[b] = 2
		return false
	}
	if len(fn.Blocks) == 0 {
		return false
	}
	return dfs(fn.Blocks[0])
}

// cfgPath is one entry-to-exit path of an acyclic function.
type cfgPath struct {
	Blocks []*ssa.BasicBlock
	Conds  []guard // branch conditions taken along the path
}

// enumPaths enumerates all entry-to-exit paths of an acyclic function (bounded).
func enumPaths(fn *ssa.Function, limit int) ([]cfgPath, bool) {
	if hasCycle(fn) || len(fn.Blocks) == 0 {
		return nil, false
	}
	var out []cfgPath
	var rec func(b *ssa.BasicBlock, cur cfgPath) bool
	rec = func(b *ssa.BasicBlock, cur cfgPath) bool {
		cur.Blocks = append(append([]*ssa.BasicBlock{}, cur.Blocks...), b)
		if len(b.Succs) == 0 {
			out = append(out, cur)
			return len(out) <= limit
		}
		if ifi, ok := b.Instrs[len(b.Instrs)-1].(*ssa.If); ok {
			for si, s := range b.Succs {
				nc := cur
				nc.Conds = append(append([]guard{}, cur.Conds...), guard{ifi.Cond, si == 0})
				if !condsConsistent(nc.Conds) {
					continue // e.g. the fall-through of `switch x { case true: … case false: … }`: x is neither true nor false
				}
				if !rec(s, nc) {
					return false
				}
			}
			return true
		}
		for _, s := range b.Succs {
			if !rec(s, cur) {
				return false
			}
		}
		return true
	}
	ok := rec(fn.Blocks[0], cfgPath{})
	return out, ok
}

// boolTest: the boolean value a branch condition tests and the value it has on the edge taken: `x`, `!x`, `x == true`,
// `x != false`, … all test x.
func boolTest(c guard) (ssa.Value, bool) {
	g := normGuard(c)
	v, want := g.Cond, g.Pol
	if bo, ok := g.Cond.(*ssa.BinOp); ok && (bo.Op == token.EQL || bo.Op == token.NEQ) {
		var side ssa.Value
		var k bool
		if b, isC := constBool(bo.Y); isC {
			side, k = bo.X, b
		} else if b, isC := constBool(bo.X); isC {
			side, k = bo.Y, b
		}
		if side != nil {
			v = side
			if bo.Op == token.EQL {
				want = k == g.Pol
			} else {
				want = k != g.Pol
			}
			if u, isU := v.(*ssa.UnOp); isU && u.Op == token.NOT {
				v, want = u.X, !want
			}
		}
	}
	return v, want
}

// condsConsistent: the branch conditions taken along a path do not contradict each other as far as plain boolean values and their
// comparisons with true / false go (the same SSA value cannot be both true and false).
func condsConsistent(conds []guard) bool {
	val := map[ssa.Value]bool{}
	for _, c := range conds {
		g := normGuard(c)
		v, want := g.Cond, g.Pol
		if bo, ok := g.Cond.(*ssa.BinOp); ok && (bo.Op == token.EQL || bo.Op == token.NEQ) {
			var side ssa.Value
			var k bool
			if b, isC := constBool(bo.Y); isC {
				side, k = bo.X, b
			} else if b, isC := constBool(bo.X); isC {
				side, k = bo.Y, b
			}
			if side != nil {
				// (side == k) has polarity want  <=>  side == (k == want) for ==, side == (k != want) for !=
				v = side
				if bo.Op == token.EQL {
					want = k == g.Pol
				} else {
					want = k != g.Pol
				}
				if u, isU := v.(*ssa.UnOp); isU && u.Op == token.NOT {
					v, want = u.X, !want
				}
			}
		}
		if !isBoolType(v.Type()) {
			continue
		}
		if old, ok := val[v]; ok && old != want {
			return false
		}
		val[v] = want
	}
	return true
}

// phiValueOnPath resolves a value through the phis along a concrete path: returns the incoming value selected by the path.
func phiValueOnPath(v ssa.Value, path []*ssa.BasicBlock) ssa.Value {
	for {
		ph, ok := v.(*ssa.Phi)
		if !ok {
			return v
		}
		blk := ph.Block()
		idx := -1
		for i, b := range path {
			if b == blk {
				idx = i
			}
		}
		if idx <= 0 {
			return v
		}
		pred := path[idx-1]
		found := false
		for pi, pr := range blk.Preds {
			if pr == pred {
				v = ph.Edges[pi]
				found = true
				break
			}
		}
		if !found {
			return v
		}
	}
}
