package chk

import (
	"fmt"
	"go/constant"
	"go/token"
	"go/types"
	"sort"

	"golang.org/x/tools/go/ssa"
)

// RENDER.lossless — "every scalar rendered as its text" (C03, C02): between the encoded value and the bytes written there is no
// numeric conversion that can change the number. In the element encoders and in every module function they (transitively) call,
// a conversion float→integer, integer→float, or to a narrower integer whose result reaches a formatting call, a buffer write or a
// returned string is reported, unless the converted value is bounded on both sides by constants that make the conversion exact
// (a guard the conversion's block is dominated by).
func ruleRenderLossless(p *Prog, r *Report, roots []string) {
	const rule = "RENDER.lossless"
	seen := map[*ssa.Function]bool{}
	var order []*ssa.Function
	var visit func(f *ssa.Function, depth int)
	visit = func(f *ssa.Function, depth int) {
		if f == nil || seen[f] || !p.InModule(f) || len(f.Blocks) == 0 || depth > 4 {
			return
		}
		seen[f] = true
		order = append(order, f)
		eachInstr(f, func(b *ssa.BasicBlock, in ssa.Instruction) {
			if ci, ok := in.(ssa.CallInstruction); ok {
				visit(staticCallee(ci.Common()), depth+1)
			}
		})
	}
	for _, n := range roots {
		f := p.Fn(n)
		if f == nil {
			r.Anchor(rule, n)
			continue
		}
		visit(f, 0)
	}
	nconv := 0
	for _, f := range order {
		// comparison methods of the sort interfaces do not render anything
		if f.Name() == "Less" || f.Name() == "Len" || f.Name() == "Swap" {
			continue
		}
		fname := p.Name(f)
		ord := newOrdinals()
		eachInstr(f, func(b *ssa.BasicBlock, in ssa.Instruction) {
			cv, ok := in.(*ssa.Convert)
			if !ok {
				return
			}
			kind := lossyNumeric(cv.X.Type(), cv.Type())
			if kind == "" {
				return
			}
			// does the converted number reach text?
			reaches := false
			for ins := range forwardSlice(f, cv) {
				switch y := ins.(type) {
				case *ssa.Return:
					for _, res := range y.Results {
						if isStringType(res.Type()) {
							reaches = true
						}
					}
				case ssa.CallInstruction:
					cm := y.Common()
					if isCallTo(cm, "strconv.FormatInt", "strconv.FormatUint", "strconv.FormatFloat", "strconv.Itoa", "fmt.Sprintf", "fmt.Sprint", "fmt.Sprintln",
						"(*bytes.Buffer).WriteString", "(*strings.Builder).WriteString", "(*bytes.Buffer).Write", "strconv.AppendInt", "strconv.AppendFloat") {
						reaches = true
					}
				}
			}
			if !reaches {
				return
			}
			nconv++
			construct := ord.key(fname, kind+" conversion")
			if lo, hi := boundedByGuards(cv.X, b); lo && hi {
				r.OK(rule, fname, construct, p.Pos(cv.Pos()), "the converted value is bounded on both sides by constants on every path to the conversion")
				return
			}
			r.Bad(rule, fname, construct, p.Pos(cv.Pos()), fmt.Sprintf("a %s conversion (%s to %s) lies between the encoded value and its text and is not range-guarded: numbers outside the target's exact range are written as a different number", kind, cv.X.Type(), cv.Type()))
		})
	}
	var names []string
	for _, f := range order {
		names = append(names, p.Name(f))
	}
	sort.Strings(names)
	r.OK(rule, "encoders", "rendering functions scanned", "", fmt.Sprintf("%d functions reachable from the element encoders scanned (%d numeric conversions reach text): no unguarded value-changing conversion", len(order), nconv))
}

// lossyNumeric: "" when converting from → to cannot change a number.
func lossyNumeric(from, to types.Type) string {
	fb, ok1 := from.Underlying().(*types.Basic)
	tb, ok2 := to.Underlying().(*types.Basic)
	if !ok1 || !ok2 {
		return ""
	}
	fi, ff := fb.Info()&types.IsInteger != 0, fb.Info()&types.IsFloat != 0
	ti, tf := tb.Info()&types.IsInteger != 0, tb.Info()&types.IsFloat != 0
	size := func(b *types.Basic) int {
		switch b.Kind() {
		case types.Int8, types.Uint8:
			return 8
		case types.Int16, types.Uint16:
			return 16
		case types.Int32, types.Uint32, types.Float32:
			return 32
		}
		return 64
	}
	switch {
	case ff && ti:
		return "float-to-integer"
	case fi && tf:
		if size(fb) >= 64 || size(tb) == 32 && size(fb) >= 32 {
			return "integer-to-float"
		}
	case ff && tf:
		if size(tb) < size(fb) {
			return "narrowing float"
		}
	case fi && ti:
		if size(tb) < size(fb) {
			return "narrowing integer"
		}
		if size(tb) == size(fb) && (fb.Info()&types.IsUnsigned != 0) != (tb.Info()&types.IsUnsigned != 0) {
			return "sign-changing integer"
		}
	}
	return ""
}

// boundedByGuards: the block is dominated by comparisons of x (or math.Abs(x)) with constants from above / from below.
func boundedByGuards(x ssa.Value, blk *ssa.BasicBlock) (lower, upper bool) {
	isX := func(v ssa.Value) (same bool, abs bool) {
		if v == x {
			return true, false
		}
		if c, ok := v.(*ssa.Call); ok && isCallTo(&c.Call, "math.Abs") && c.Call.Args[0] == x {
			return true, true
		}
		return false, false
	}
	for _, g := range dominatingGuards(blk) {
		ng := normGuard(g)
		bo, ok := ng.Cond.(*ssa.BinOp)
		if !ok {
			continue
		}
		op := bo.Op
		l, rr := bo.X, bo.Y
		// normalise to x OP const
		if _, isC := l.(*ssa.Const); isC {
			l, rr = rr, l
			switch op {
			case token.LSS:
				op = token.GTR
			case token.LEQ:
				op = token.GEQ
			case token.GTR:
				op = token.LSS
			case token.GEQ:
				op = token.LEQ
			}
		}
		c, isC := rr.(*ssa.Const)
		same, abs := isX(l)
		if !isC || !same || c.Value == nil || (c.Value.Kind() != constant.Int && c.Value.Kind() != constant.Float) {
			continue
		}
		if !ng.Pol {
			switch op {
			case token.LSS:
				op = token.GEQ
			case token.LEQ:
				op = token.GTR
			case token.GTR:
				op = token.LEQ
			case token.GEQ:
				op = token.LSS
			default:
				continue
			}
		}
		// the constant must itself be within ±2^63
		f, _ := constant.Float64Val(constant.ToFloat(c.Value))
		if f > 9.3e18 || f < -9.3e18 {
			continue
		}
		switch op {
		case token.LSS, token.LEQ:
			upper = true
			if abs {
				lower = true
			}
		case token.GTR, token.GEQ:
			lower = true
		}
	}
	return
}
