package chk

import (
	"fmt"
	"go/token"
	"go/types"
	"strings"

	"golang.org/x/tools/go/ssa"
)

// F4 — length / index facts as a zone (difference-bound matrix) domain over integer SSA values and len(x) terms.
// v_i - v_j <= m[i][j]; node 0 is the constant zero. Values of the form x+c / x-c are (node(x), c) terms.

const zinf = int64(1) << 50

type dbm struct {
	n int
	m []int64
}

func newDBM(n int) *dbm {
	d := &dbm{n: n, m: make([]int64, n*n)}
	for i := range d.m {
		d.m[i] = zinf
	}
	for i := 0; i < n; i++ {
		d.m[i*n+i] = 0
	}
	return d
}

func (d *dbm) clone() *dbm {
	c := &dbm{n: d.n, m: make([]int64, len(d.m))}
	copy(c.m, d.m)
	return c
}

func (d *dbm) get(i, j int) int64 { return d.m[i*d.n+j] }

// add v_i - v_j <= c and restore closure incrementally.
func (d *dbm) add(i, j int, c int64) {
	if c >= d.get(i, j) {
		return
	}
	n := d.n
	d.m[i*n+j] = c
	for a := 0; a < n; a++ {
		ai := d.m[a*n+i]
		if ai >= zinf {
			continue
		}
		for b := 0; b < n; b++ {
			jb := d.m[j*n+b]
			if jb >= zinf {
				continue
			}
			if s := ai + c + jb; s < d.m[a*n+b] {
				d.m[a*n+b] = s
			}
		}
	}
}

func (d *dbm) infeasible() bool {
	for i := 0; i < d.n; i++ {
		if d.m[i*d.n+i] < 0 {
			return true
		}
	}
	return false
}

func (d *dbm) forget(k int) {
	n := d.n
	for i := 0; i < n; i++ {
		if i != k {
			d.m[i*n+k] = zinf
			d.m[k*n+i] = zinf
		}
	}
	d.m[k*n+k] = 0
}

// shift: v_k := v_k + c
func (d *dbm) shift(k int, c int64) {
	n := d.n
	for i := 0; i < n; i++ {
		if i == k {
			continue
		}
		if d.m[k*n+i] < zinf {
			d.m[k*n+i] += c
		}
		if d.m[i*n+k] < zinf {
			d.m[i*n+k] -= c
		}
	}
}

func joinDBM(a, b *dbm) *dbm {
	c := a.clone()
	for i := range c.m {
		if b.m[i] > c.m[i] {
			c.m[i] = b.m[i]
		}
	}
	return c
}

func widenDBM(old, nw *dbm) *dbm {
	c := old.clone()
	for i := range c.m {
		if nw.m[i] > old.m[i] {
			c.m[i] = zinf
		}
	}
	return c
}

func eqDBM(a, b *dbm) bool {
	for i := range a.m {
		if a.m[i] != b.m[i] {
			return false
		}
	}
	return true
}

type zterm struct {
	n   int
	off int64
	ok  bool
}

type zdef struct {
	i, j int
	c    int64
	at   ssa.Instruction // the constraint holds only after this instruction executed without panicking (nil: always)
}

type zoneFlow struct {
	p     *Prog
	fn    *ssa.Function
	cz    *canonizer
	nodes map[string]int
	names []string
	defs  []zdef
	in    map[*ssa.BasicBlock]*dbm
	// conditional axioms: if idx >= 0 then len(s) >= len(p) (+ split >= 2)
	idxAx   []idxAxiom
	assumes []zdef // preconditions assumed at entry (B11)
	lenSeen map[ssa.Value]bool
}

type idxAxiom struct {
	r      int // node of strings.Index result
	lenS   zterm
	lenP   zterm
	splits []int // nodes of len(strings.Split(s,p)) with equal arguments and constant non-empty p
}

func (z *zoneFlow) node(key string) int {
	if n, ok := z.nodes[key]; ok {
		return n
	}
	n := len(z.names)
	z.nodes[key] = n
	z.names = append(z.names, key)
	return n
}

func isIntType(t types.Type) bool {
	b, ok := t.Underlying().(*types.Basic)
	return ok && b.Info()&types.IsInteger != 0
}

// term: v as (node, offset).
func (z *zoneFlow) term(v ssa.Value) zterm {
	if v == nil {
		return zterm{}
	}
	if k, ok := constInt(v); ok {
		return zterm{0, k, true}
	}
	if !isIntType(v.Type()) {
		return zterm{}
	}
	switch x := v.(type) {
	case *ssa.BinOp:
		if x.Op == token.ADD {
			if k, ok := constInt(x.Y); ok {
				if t := z.term(x.X); t.ok {
					return zterm{t.n, t.off + k, true}
				}
			}
			if k, ok := constInt(x.X); ok {
				if t := z.term(x.Y); t.ok {
					return zterm{t.n, t.off + k, true}
				}
			}
		}
		if x.Op == token.SUB {
			if k, ok := constInt(x.Y); ok {
				if t := z.term(x.X); t.ok {
					return zterm{t.n, t.off - k, true}
				}
			}
		}
	case *ssa.Convert:
		// int(int64) etc.: value-preserving for the magnitudes that matter only when widening; treat narrowing as opaque
		if isIntType(x.X.Type()) {
			if sizeOfInt(x.Type()) >= sizeOfInt(x.X.Type()) {
				return z.term(x.X)
			}
		}
	case *ssa.Call:
		if b, ok := x.Call.Value.(*ssa.Builtin); ok && b.Name() == "len" {
			return z.lenTerm(x.Call.Args[0])
		}
	}
	return zterm{z.node(z.cz.of(v)), 0, true}
}

func sizeOfInt(t types.Type) int {
	b, ok := t.Underlying().(*types.Basic)
	if !ok {
		return 0
	}
	switch b.Kind() {
	case types.Int8, types.Uint8:
		return 1
	case types.Int16, types.Uint16:
		return 2
	case types.Int32, types.Uint32:
		return 4
	default:
		return 8
	}
}

// lenTerm: len(x) as a term; constant for arrays and constant strings; maps are not tracked (their length changes).
func (z *zoneFlow) lenTerm(x ssa.Value) zterm {
	if s, ok := constString(x); ok {
		return zterm{0, int64(len(s)), true}
	}
	t := x.Type().Underlying()
	if pt, ok := t.(*types.Pointer); ok {
		t = pt.Elem().Underlying()
	}
	if at, ok := t.(*types.Array); ok {
		return zterm{0, at.Len(), true}
	}
	if _, ok := t.(*types.Map); ok {
		return zterm{}
	}
	key := "len(" + z.cz.of(x) + ")"
	if _, seen := z.nodes[key]; !seen {
		n := z.node(key)
		z.defs = append(z.defs, zdef{0, n, 0, nil}) // 0 - len <= 0
	}
	if z.lenSeen == nil {
		z.lenSeen = map[ssa.Value]bool{}
	}
	if !z.lenSeen[x] {
		// canonically equal values are equal, but each defining instruction justifies the constraints only after it executed
		z.lenSeen[x] = true
		z.lenDefs(x, z.nodes[key])
	}
	return zterm{z.nodes[key], 0, true}
}

// lenDefs adds the definitional constraints of len(x) from how x was built.
func (z *zoneFlow) lenDefs(x ssa.Value, n int) {
	at, _ := x.(ssa.Instruction)
	eq := func(t zterm) {
		if t.ok {
			z.defs = append(z.defs, zdef{n, t.n, t.off, at}, zdef{t.n, n, -t.off, at})
		}
	}
	ge := func(t zterm) {
		if t.ok {
			z.defs = append(z.defs, zdef{t.n, n, -t.off, at}) // t - len <= 0  i.e. len >= t
		}
	}
	switch v := x.(type) {
	case *ssa.Slice:
		base := z.lenTerm(v.X)
		if _, isSl := v.X.Type().Underlying().(*types.Slice); isSl && v.High == nil && v.Low == nil {
			eq(base)
			return
		}
		switch {
		case v.High == nil && v.Low != nil:
			if k, ok := constInt(v.Low); ok && base.ok {
				eq(zterm{base.n, base.off - k, true})
			}
		case v.High != nil && v.Low == nil:
			eq(z.term(v.High))
		case v.High != nil && v.Low != nil:
			if k, ok := constInt(v.Low); ok {
				if h := z.term(v.High); h.ok {
					eq(zterm{h.n, h.off - k, true})
				}
			} else if h := z.term(v.High); h.ok {
				if l := z.term(v.Low); l.ok && l.n == h.n {
					eq(zterm{0, h.off - l.off, true})
				}
			}
		case v.High == nil && v.Low == nil:
			eq(base)
		}
	case *ssa.MakeSlice:
		eq(z.term(v.Len))
	case *ssa.Convert:
		// []byte(s) / string(b): same length
		if _, ok := v.X.Type().Underlying().(*types.Basic); ok || true {
			if isStringType(v.X.Type()) && isByteSlice(v.Type()) || isByteSlice(v.X.Type()) && isStringType(v.Type()) {
				eq(z.lenTerm(v.X))
			}
		}
	case *ssa.ChangeType:
		eq(z.lenTerm(v.X))
	case *ssa.Call:
		if isCallTo(&v.Call, "strings.Split") {
			if sep, ok := constString(v.Call.Args[1]); ok && sep != "" {
				ge(zterm{0, 1, true})
			}
		}
		if b, ok := v.Call.Value.(*ssa.Builtin); ok && b.Name() == "append" {
			ge(z.lenTerm(v.Call.Args[0]))
		}
	case *ssa.BinOp:
		if v.Op == token.ADD && isStringType(v.Type()) {
			ge(z.lenTerm(v.X))
			ge(z.lenTerm(v.Y))
		}
	}
}

func isByteSlice(t types.Type) bool {
	s, ok := t.Underlying().(*types.Slice)
	if !ok {
		return false
	}
	b, ok := s.Elem().Underlying().(*types.Basic)
	return ok && b.Kind() == types.Uint8
}

func (p *Prog) zoneFlowOf(fn *ssa.Function, assume []zdefSpec) *zoneFlow {
	key := fmt.Sprintf("zf:%p:%v", fn, assume)
	if v, ok := p.facts[key]; ok {
		return v.(*zoneFlow)
	}
	z := &zoneFlow{p: p, fn: fn, cz: p.canonFor(fn), nodes: map[string]int{"0": 0}, names: []string{"0"}, in: map[*ssa.BasicBlock]*dbm{}}
	z.prepare()
	for _, a := range assume {
		// len(param) >= c
		t := z.lenTerm(a.param)
		if t.ok {
			z.assumes = append(z.assumes, zdef{0, t.n, t.off - a.min, nil}) // 0 - len <= -min + off
		}
	}
	z.run()
	p.facts[key] = z
	return z
}

type zdefSpec struct {
	param ssa.Value
	min   int64
}

// prepare creates nodes for every integer value and len term appearing in the function, and the conditional axioms.
func (z *zoneFlow) prepare() {
	eachInstr(z.fn, func(b *ssa.BasicBlock, in ssa.Instruction) {
		for _, op := range in.Operands(nil) {
			if op == nil || *op == nil {
				continue
			}
			if isIntType((*op).Type()) {
				z.term(*op)
			}
		}
		switch x := in.(type) {
		case *ssa.IndexAddr:
			z.lenTerm(x.X)
		case *ssa.Index:
			z.lenTerm(x.X)
		case *ssa.Lookup:
			if isStringType(x.X.Type()) {
				z.lenTerm(x.X)
			}
		case *ssa.Slice:
			z.lenTerm(x.X)
			z.lenTerm(x)
		case *ssa.BinOp:
			if isStringType(x.X.Type()) && (x.Op == token.EQL || x.Op == token.NEQ) {
				z.lenTerm(x.X)
				z.lenTerm(x.Y)
			}
		case *ssa.Call:
			if isCallTo(&x.Call, "strings.Index", "strings.Contains", "strings.HasPrefix", "strings.HasSuffix", "strings.LastIndex", "bytes.Index") {
				z.lenTerm(x.Call.Args[0])
				z.lenTerm(x.Call.Args[1])
			}
			if isCallTo(&x.Call, "strings.Split") {
				z.lenTerm(x)
			}
		}
		if v, ok := in.(ssa.Value); ok && isIntType(v.Type()) {
			z.term(v)
		}
	})
	// axioms for strings.Index(s, p) results
	eachInstr(z.fn, func(b *ssa.BasicBlock, in ssa.Instruction) {
		c, ok := in.(*ssa.Call)
		if !ok || !isCallTo(&c.Call, "strings.Index", "strings.LastIndex", "bytes.Index") {
			return
		}
		ax := idxAxiom{r: z.term(c).n, lenS: z.lenTerm(c.Call.Args[0]), lenP: z.lenTerm(c.Call.Args[1])}
		cs, cp := z.cz.of(c.Call.Args[0]), z.cz.of(c.Call.Args[1])
		if sep, ok := constString(c.Call.Args[1]); ok && sep != "" {
			eachInstr(z.fn, func(b2 *ssa.BasicBlock, in2 ssa.Instruction) {
				if c2, ok := in2.(*ssa.Call); ok && isCallTo(&c2.Call, "strings.Split") {
					if z.cz.of(c2.Call.Args[0]) == cs && z.cz.of(c2.Call.Args[1]) == cp {
						ax.splits = append(ax.splits, z.lenTerm(c2).n)
					}
				}
			})
		}
		z.idxAx = append(z.idxAx, ax)
		// Index result is >= -1 and < len(s)
		z.defs = append(z.defs, zdef{0, ax.r, 1, nil})
		if ax.lenS.ok {
			z.defs = append(z.defs, zdef{ax.r, ax.lenS.n, ax.lenS.off - 1, nil})
		}
	})
	// single-byte / rune / set searches: -1 <= r < len(s)
	eachInstr(z.fn, func(b *ssa.BasicBlock, in ssa.Instruction) {
		c, ok := in.(*ssa.Call)
		if !ok || !isCallTo(&c.Call, "strings.IndexByte", "strings.LastIndexByte", "strings.IndexRune", "strings.IndexAny", "strings.LastIndexAny",
			"bytes.IndexByte", "bytes.LastIndexByte", "bytes.LastIndex", "bytes.IndexRune", "bytes.IndexAny", "bytes.LastIndexAny") {
			return
		}
		rt, ls := z.term(c), z.lenTerm(c.Call.Args[0])
		if !rt.ok {
			return
		}
		z.defs = append(z.defs, zdef{0, rt.n, 1, nil})
		if ls.ok {
			z.defs = append(z.defs, zdef{rt.n, ls.n, ls.off - 1, nil})
		}
	})
}

func (z *zoneFlow) fresh() *dbm {
	d := newDBM(len(z.names))
	z.saturate(d, nil)
	return d
}

// saturate re-adds definitional constraints and fires the conditional axioms.
func (z *zoneFlow) saturate(d *dbm, blk *ssa.BasicBlock) {
	for _, df := range z.defs {
		if df.at != nil {
			if blk == nil || df.at.Block() == blk || !df.at.Block().Dominates(blk) {
				continue
			}
		}
		if df.i < d.n && df.j < d.n {
			d.add(df.i, df.j, df.c)
		}
	}
	for _, df := range z.assumes {
		d.add(df.i, df.j, df.c)
	}
	for _, ax := range z.idxAx {
		if d.get(0, ax.r) <= 0 { // r >= 0
			if ax.lenS.ok && ax.lenP.ok {
				// len(p) - len(s) <= 0
				d.add(ax.lenP.n, ax.lenS.n, ax.lenS.off-ax.lenP.off)
			}
			for _, sp := range ax.splits {
				d.add(0, sp, -2)
			}
		}
	}
}

func (z *zoneFlow) refine(d *dbm, cond ssa.Value, taken bool) {
	g := normGuard(guard{cond, taken})
	switch c := g.Cond.(type) {
	case *ssa.BinOp:
		if isStringType(c.X.Type()) && (c.Op == token.EQL || c.Op == token.NEQ) {
			var other ssa.Value
			if s, ok := constString(c.Y); ok && s == "" {
				other = c.X
			} else if s, ok := constString(c.X); ok && s == "" {
				other = c.Y
			}
			if other != nil {
				t := z.lenTerm(other)
				if !t.ok || t.n >= d.n {
					return
				}
				empty := (c.Op == token.EQL) == g.Pol
				if empty {
					d.add(t.n, 0, -t.off)
				} else {
					d.add(0, t.n, t.off-1)
				}
			}
			return
		}
		// v != nil where v is the result of an unexported helper every non-nil result of which is a slice x[p:p+k]: len(v) >= k
		if (c.Op == token.EQL || c.Op == token.NEQ) && z.p != nil {
			var v ssa.Value
			if isNilConst(c.Y) {
				v = c.X
			} else if isNilConst(c.X) {
				v = c.Y
			}
			if v != nil && (c.Op == token.NEQ) == g.Pol {
				src := v
				for k := 0; k < 4; k++ { // through phis that merge the call result with itself / nil
					ph, isPhi := src.(*ssa.Phi)
					if !isPhi {
						break
					}
					var only ssa.Value
					for _, e := range ph.Edges {
						if isNilConst(e) || e == ssa.Value(ph) {
							continue
						}
						if only != nil && only != e {
							only = nil
							break
						}
						only = e
					}
					if only == nil {
						break
					}
					src = only
				}
				if call, isC := src.(*ssa.Call); isC {
					if h := staticCallee(&call.Call); h != nil && z.p.InModule(h) && !z.p.Exported(h) && len(h.Blocks) > 0 {
						if k := minLenOfNonNilResult(h); k > 0 {
							if t := z.lenTerm(v); t.ok && t.n < d.n {
								d.add(0, t.n, t.off-k)
							}
						}
					}
				}
			}
		}
		if !isIntType(c.X.Type()) {
			return
		}
		a, b := z.term(c.X), z.term(c.Y)
		if !a.ok || !b.ok || a.n >= d.n || b.n >= d.n {
			return
		}
		op := c.Op
		if !g.Pol {
			switch op {
			case token.LSS:
				op = token.GEQ
			case token.LEQ:
				op = token.GTR
			case token.GTR:
				op = token.LEQ
			case token.GEQ:
				op = token.LSS
			case token.EQL:
				op = token.NEQ
			case token.NEQ:
				op = token.EQL
			}
		}
		// a.n + a.off  op  b.n + b.off
		switch op {
		case token.LSS:
			d.add(a.n, b.n, b.off-a.off-1)
		case token.LEQ:
			d.add(a.n, b.n, b.off-a.off)
		case token.GTR:
			d.add(b.n, a.n, a.off-b.off-1)
		case token.GEQ:
			d.add(b.n, a.n, a.off-b.off)
		case token.EQL:
			d.add(a.n, b.n, b.off-a.off)
			d.add(b.n, a.n, a.off-b.off)
		case token.NEQ:
			// a != b with a <= b known gives a < b (and symmetric)
			if d.get(a.n, b.n) <= b.off-a.off {
				d.add(a.n, b.n, b.off-a.off-1)
			} else if d.get(b.n, a.n) <= a.off-b.off {
				d.add(b.n, a.n, a.off-b.off-1)
			}
		}
	case *ssa.Call:
		// a predicate helper whose true answer implies strings.HasPrefix(param, prefix): the same length fact for the arguments
		if g.Pol {
			if h := staticCallee(&c.Call); h != nil && z.p != nil && z.p.InModule(h) && !z.p.Exported(h) && len(h.Blocks) > 0 {
				for _, pf := range predicatePrefixFacts(z.p, h) {
					if pf.s >= len(c.Call.Args) {
						continue
					}
					st := z.lenTerm(c.Call.Args[pf.s])
					var pt zterm
					if pf.p >= 0 && pf.p < len(c.Call.Args) {
						pt = z.lenTerm(c.Call.Args[pf.p])
					} else if pf.g != "" {
						if n, ok := z.nodes["len(load("+pf.g+"))"]; ok {
							pt = zterm{n, 0, true}
						}
					}
					if st.ok && pt.ok && st.n < d.n && pt.n < d.n {
						d.add(pt.n, st.n, st.off-pt.off)
					}
				}
			}
		}
		if g.Pol && isCallTo(&c.Call, "strings.HasPrefix", "strings.HasSuffix", "strings.Contains") {
			s, p := z.lenTerm(c.Call.Args[0]), z.lenTerm(c.Call.Args[1])
			if s.ok && p.ok && s.n < d.n && p.n < d.n {
				d.add(p.n, s.n, s.off-p.off)
			}
			// s contains the constant non-empty separator p: strings.Split(s, p) has at least two elements
			if sep, ok := constString(c.Call.Args[1]); ok && sep != "" {
				cs, cp := z.cz.of(c.Call.Args[0]), z.cz.of(c.Call.Args[1])
				eachInstr(z.fn, func(b2 *ssa.BasicBlock, in2 ssa.Instruction) {
					if c2, ok := in2.(*ssa.Call); ok && isCallTo(&c2.Call, "strings.Split") {
						if z.cz.of(c2.Call.Args[0]) == cs && z.cz.of(c2.Call.Args[1]) == cp {
							if t := z.lenTerm(c2); t.ok && t.n < d.n {
								d.add(0, t.n, t.off-2)
							}
						}
					}
				})
			}
		}
	}
}

func (z *zoneFlow) run() {
	fn := z.fn
	if len(fn.Blocks) == 0 {
		return
	}
	out := map[*ssa.BasicBlock]*dbm{}
	visits := map[*ssa.BasicBlock]int{}
	z.in[fn.Blocks[0]] = z.fresh()
	out[fn.Blocks[0]] = z.in[fn.Blocks[0]]
	work := append([]*ssa.BasicBlock{}, fn.Blocks[0].Succs...)
	inWork := map[*ssa.BasicBlock]bool{}
	for _, s := range work {
		inWork[s] = true
	}
	steps := 0
	for len(work) > 0 {
		steps++
		if steps > 5000 {
			// give up: everything unknown
			for _, b := range fn.Blocks {
				z.in[b] = z.fresh()
			}
			return
		}
		b := work[0]
		work = work[1:]
		inWork[b] = false
		var st *dbm
		for pi, pr := range b.Preds {
			o, ok := out[pr]
			if !ok {
				continue
			}
			es := o.clone()
			if ifi, ok := pr.Instrs[len(pr.Instrs)-1].(*ssa.If); ok {
				z.refine(es, ifi.Cond, succIndex(pr, b, pi) == 0)
			}
			z.saturate(es, b)
			if es.infeasible() {
				continue
			}
			// phis
			var assigned []int
			for _, in := range b.Instrs {
				ph, ok := in.(*ssa.Phi)
				if !ok {
					break
				}
				if !isIntType(ph.Type()) {
					continue
				}
				pn := z.term(ph).n
				ev := ph.Edges[pi]
				t := z.term(ev)
				conflict := false
				for _, an := range assigned {
					if t.ok && t.n == an {
						conflict = true
					}
				}
				switch {
				case !t.ok || conflict:
					es.forget(pn)
				case t.n == pn:
					es.shift(pn, t.off)
				default:
					es.forget(pn)
					es.add(pn, t.n, t.off)
					es.add(t.n, pn, -t.off)
				}
				assigned = append(assigned, pn)
			}
			z.saturate(es, b)
			if st == nil {
				st = es
			} else {
				st = joinDBM(st, es)
			}
		}
		if st == nil {
			continue
		}
		z.saturate(st, b)
		visits[b]++
		if old, ok := z.in[b]; ok {
			if visits[b] > 3 {
				st = widenDBM(old, joinDBM(old, st))
				z.saturate(st, b)
			} else {
				st = joinDBM(old, st)
			}
			if eqDBM(old, st) {
				continue
			}
		}
		z.in[b] = st
		out[b] = st
		for _, s := range b.Succs {
			if !inWork[s] {
				inWork[s] = true
				work = append(work, s)
			}
		}
	}
	// one narrowing pass: recompute entry states from predecessors without joining with the old value
	for pass := 0; pass < 2; pass++ {
		for _, b := range fn.Blocks {
			if b == fn.Blocks[0] {
				continue
			}
			var st *dbm
			for pi, pr := range b.Preds {
				o, ok := z.in[pr]
				if !ok {
					continue
				}
				es := o.clone()
				if ifi, ok := pr.Instrs[len(pr.Instrs)-1].(*ssa.If); ok {
					z.refine(es, ifi.Cond, succIndex(pr, b, pi) == 0)
				}
				z.saturate(es, b)
				if es.infeasible() {
					continue
				}
				for _, in := range b.Instrs {
					ph, ok := in.(*ssa.Phi)
					if !ok {
						break
					}
					if !isIntType(ph.Type()) {
						continue
					}
					pn := z.term(ph).n
					t := z.term(ph.Edges[pi])
					switch {
					case !t.ok:
						es.forget(pn)
					case t.n == pn:
						es.shift(pn, t.off)
					default:
						es.forget(pn)
						es.add(pn, t.n, t.off)
						es.add(t.n, pn, -t.off)
					}
				}
				z.saturate(es, b)
				if st == nil {
					st = es
				} else {
					st = joinDBM(st, es)
				}
			}
			if st != nil {
				if old, ok := z.in[b]; ok {
					// narrowing: keep the tighter of old and recomputed only where old was widened to infinity
					for i := range st.m {
						if old.m[i] < st.m[i] {
							st.m[i] = old.m[i]
						}
					}
				}
				z.in[b] = st
			}
		}
	}
}

// stateAt: the block entry state plus the definitional constraints of instructions of the same block that precede `at`.
func (z *zoneFlow) stateAt(at ssa.Instruction) (*dbm, bool) {
	b := at.Block()
	d, ok := z.in[b]
	if !ok {
		return nil, false
	}
	d = z.pointState(b, d).clone()
	ai := indexIn(at)
	for _, df := range z.defs {
		if df.at != nil && df.at.Block() == b && indexIn(df.at) < ai && df.i < d.n && df.j < d.n {
			d.add(df.i, df.j, df.c)
		}
	}
	z.saturate(d, b)
	return d, true
}

// inBounds decides 0 <= idx < len for an access at instruction `at`.
func (z *zoneFlow) idxInBounds(at ssa.Instruction, idx ssa.Value, ln zterm) (lower, upper bool) {
	d, ok := z.stateAt(at)
	if !ok {
		return true, true // unreachable
	}
	t := z.term(idx)
	if !t.ok || !ln.ok || t.n >= d.n || ln.n >= d.n {
		return false, false
	}
	lower = d.get(0, t.n) <= t.off
	upper = d.get(t.n, ln.n) <= ln.off-t.off-1
	return
}

// leq decides a <= b just before instruction `at`.
func (z *zoneFlow) leq(at ssa.Instruction, x, y zterm) bool {
	d, ok := z.stateAt(at)
	if !ok {
		return true
	}
	if !x.ok || !y.ok || x.n >= d.n || y.n >= d.n {
		return false
	}
	return d.get(x.n, y.n) <= y.off-x.off
}

// pointState: nodes created after the analysis (none normally) are tolerated by padding.
func (z *zoneFlow) pointState(b *ssa.BasicBlock, d *dbm) *dbm {
	if d.n == len(z.names) {
		return d
	}
	nd := newDBM(len(z.names))
	for i := 0; i < d.n; i++ {
		for j := 0; j < d.n; j++ {
			nd.m[i*nd.n+j] = d.get(i, j)
		}
	}
	z.saturate(nd, b)
	return nd
}

func (z *zoneFlow) describe(at ssa.Instruction, t zterm) string {
	d, ok := z.stateAt(at)
	if !ok || !t.ok || t.n >= d.n {
		return "?"
	}
	lo, hi := "-inf", "+inf"
	if v := d.get(0, t.n); v < zinf {
		lo = fmt.Sprint(-v + t.off)
	}
	if v := d.get(t.n, 0); v < zinf {
		hi = fmt.Sprint(v + t.off)
	}
	return "[" + lo + "," + hi + "]"
}

var _ = strings.Join

type prefixFact struct {
	s, p int    // parameter indexes of the string and of the prefix (p < 0: the prefix is a package variable)
	g    string // "pkg.name" of the package variable
}

// predicatePrefixFacts: h returns true only if strings.HasPrefix / HasSuffix / Contains(param_s, P) returned true, P being another
// parameter or a load of a package variable. Every return of h hands back the constant false, the call itself, or a phi of those.
func predicatePrefixFacts(p *Prog, h *ssa.Function) []prefixFact {
	key := fmt.Sprintf("prefixfacts:%p", h)
	if v, ok := p.facts[key]; ok {
		return v.([]prefixFact)
	}
	var out []prefixFact
	p.facts[key] = out
	if h.Signature.Results().Len() != 1 || !isBoolType(h.Signature.Results().At(0).Type()) {
		return nil
	}
	var calls []*ssa.Call
	eachInstr(h, func(b *ssa.BasicBlock, in ssa.Instruction) {
		if c, ok := in.(*ssa.Call); ok && isCallTo(&c.Call, "strings.HasPrefix", "strings.HasSuffix", "strings.Contains") {
			calls = append(calls, c)
		}
	})
	for _, c := range calls {
		var onlyVia func(v ssa.Value, d int) bool
		onlyVia = func(v ssa.Value, d int) bool {
			if d > 4 {
				return false
			}
			if v == ssa.Value(c) {
				return true
			}
			if b, isC := constBool(v); isC {
				return !b
			}
			if ph, isPhi := v.(*ssa.Phi); isPhi {
				for _, e := range ph.Edges {
					if !onlyVia(e, d+1) {
						return false
					}
				}
				return true
			}
			return false
		}
		all := true
		eachInstr(h, func(b *ssa.BasicBlock, in ssa.Instruction) {
			if ret, ok := in.(*ssa.Return); ok && !onlyVia(ret.Results[0], 0) {
				all = false
			}
		})
		if !all {
			continue
		}
		si, pi, gname := -1, -1, ""
		for i, prm := range h.Params {
			if c.Call.Args[0] == ssa.Value(prm) {
				si = i
			}
			if c.Call.Args[1] == ssa.Value(prm) {
				pi = i
			}
		}
		if g := globalOf(c.Call.Args[1]); g != nil && p.stableGlobal(g) {
			gname = g.Pkg.Pkg.Name() + "." + g.Name()
		}
		if si >= 0 && (pi >= 0 || gname != "") {
			out = append(out, prefixFact{si, pi, gname})
		}
	}
	p.facts[key] = out
	return out
}

// minLenOfNonNilResult: every return of h (one slice result) is the nil constant or a slice expression x[p:p+k] with constant k >= 1;
// returns the smallest such k (0 if h is not of that form).
func minLenOfNonNilResult(h *ssa.Function) int64 {
	if h.Signature.Results().Len() != 1 {
		return 0
	}
	if _, ok := h.Signature.Results().At(0).Type().Underlying().(*types.Slice); !ok {
		return 0
	}
	min := int64(0)
	ok := true
	eachInstr(h, func(b *ssa.BasicBlock, in ssa.Instruction) {
		ret, isRet := in.(*ssa.Return)
		if !isRet {
			return
		}
		rv := ret.Results[0]
		if isNilConst(rv) {
			return
		}
		sl, isSl := rv.(*ssa.Slice)
		if !isSl || sl.Low == nil || sl.High == nil {
			ok = false
			return
		}
		bo, isB := sl.High.(*ssa.BinOp)
		if !isB || bo.Op != token.ADD || bo.X != sl.Low {
			ok = false
			return
		}
		k, isK := constInt(bo.Y)
		if !isK || k < 1 {
			ok = false
			return
		}
		if min == 0 || k < min {
			min = k
		}
	})
	if !ok {
		return 0
	}
	return min
}
