package chk

import (
	"bufio"
	"encoding/json"
	"fmt"
	"os"
	"path/filepath"
	"sort"
	"strings"
	"time"
)

type Status string

const (
	Discharged Status = "discharged"
	Assumed    Status = "assumed"
	Violated   Status = "violated"
	Undecided  Status = "undecided"
)

// Ob is one proof obligation of a rule, keyed by rule + function + construct (never by line).
type Ob struct {
	Rule      string   `json:"rule"`
	Func      string   `json:"func"`
	Construct string   `json:"construct"`
	Pos       string   `json:"pos,omitempty"`
	Status    Status   `json:"status"`
	Why       string   `json:"why,omitempty"`
	Path      []string `json:"path,omitempty"`
}

func (o *Ob) Key() string { return o.Rule + "|" + o.Func + "|" + o.Construct }

// Report accumulates the obligations of one property check.
type Report struct {
	Property  string
	Tier      string
	Obs       []*Ob
	Instances map[string]int // rule -> matched instances
	Notes     []string
	Funcs     map[string]bool // functions analysed
	Trusted   map[string]bool
	Assumes   map[string]bool
	start     time.Time
	seen      map[string]*Ob
}

func NewReport(prop, tier string) *Report {
	return &Report{Property: prop, Tier: tier, Instances: map[string]int{}, Funcs: map[string]bool{},
		Trusted: map[string]bool{}, Assumes: map[string]bool{}, start: time.Now(), seen: map[string]*Ob{}}
}

// Add records an obligation. A second obligation with the same key keeps the worse status.
func (r *Report) Add(o *Ob) {
	if prev, ok := r.seen[o.Key()]; ok {
		if rank(o.Status) > rank(prev.Status) {
			*prev = *o
		}
		return
	}
	r.seen[o.Key()] = o
	r.Obs = append(r.Obs, o)
	r.Instances[o.Rule]++
	if o.Func != "" {
		r.Funcs[o.Func] = true
	}
}

func rank(s Status) int {
	switch s {
	case Discharged:
		return 0
	case Assumed:
		return 1
	case Undecided:
		return 2
	default:
		return 3
	}
}

func (r *Report) OK(rule, fn, construct, pos, why string) {
	r.Add(&Ob{Rule: rule, Func: fn, Construct: construct, Pos: pos, Status: Discharged, Why: why})
}
func (r *Report) Assume(rule, fn, construct, pos, why string) {
	r.Add(&Ob{Rule: rule, Func: fn, Construct: construct, Pos: pos, Status: Assumed, Why: why})
	r.Assumes[rule+" "+fn+" "+construct+": "+why] = true
}
func (r *Report) Bad(rule, fn, construct, pos, why string, path ...string) {
	r.Add(&Ob{Rule: rule, Func: fn, Construct: construct, Pos: pos, Status: Violated, Why: why, Path: path})
}
func (r *Report) Unknown(rule, fn, construct, pos, why string) {
	r.Add(&Ob{Rule: rule, Func: fn, Construct: construct, Pos: pos, Status: Undecided, Why: why})
}

// Floor fails the check when a rule matched fewer instances than confirmed by hand ("a rule matching zero sites passes vacuously").
func (r *Report) Floor(rule string, min int) {
	n := r.Instances[rule]
	if n < min {
		r.Add(&Ob{Rule: rule + ".floor", Func: "", Construct: fmt.Sprintf("instances<%d", min), Status: Undecided,
			Why: fmt.Sprintf("rule %s matched %d instances, floor is %d: anchors of the property are missing or no longer recognised", rule, n, min)})
		r.Instances[rule+".floor"]--
	}
}

// Anchor reports an unresolved anchor (entry point, variable) the property is stated over.
func (r *Report) Anchor(rule, name string) {
	r.Add(&Ob{Rule: rule, Func: name, Construct: "anchor", Status: Undecided, Why: "anchor " + name + " not found in the loaded program"})
}

// ---------------------------------------------------------------------------------------------

// Known is one line of known_findings.txt.
type Known struct {
	Kind      string // known | fixed
	Property  string
	Rule      string
	Func      string
	Construct string
	Text      string
}

// LoadKnown parses /verif/known_findings.txt. It is never written at run time.
func LoadKnown(path string) ([]Known, error) {
	f, err := os.Open(path)
	if err != nil {
		if os.IsNotExist(err) {
			return nil, nil
		}
		return nil, err
	}
	defer f.Close()
	var out []Known
	sc := bufio.NewScanner(f)
	sc.Buffer(make([]byte, 1<<20), 1<<20)
	for sc.Scan() {
		line := strings.TrimSpace(sc.Text())
		if line == "" || strings.HasPrefix(line, "#") {
			continue
		}
		var k Known
		switch {
		case strings.HasPrefix(line, "known:"):
			k.Kind = "known"
			line = strings.TrimSpace(line[len("known:"):])
		case strings.HasPrefix(line, "fixed:"):
			k.Kind = "fixed"
			line = strings.TrimSpace(line[len("fixed:"):])
		default:
			return nil, fmt.Errorf("known_findings: unrecognised line %q", line)
		}
		rest := line
		for rest != "" {
			rest = strings.TrimLeft(rest, " \t")
			eq := strings.IndexAny(rest, "= \t")
			if eq < 0 || rest[eq] != '=' {
				break
			}
			key := rest[:eq]
			rest = rest[eq+1:]
			var val string
			if strings.HasPrefix(rest, "\"") {
				end := strings.Index(rest[1:], "\"")
				if end < 0 {
					return nil, fmt.Errorf("known_findings: unterminated quote in %q", line)
				}
				val = rest[1 : 1+end]
				rest = rest[2+end:]
			} else {
				sp := strings.IndexAny(rest, " \t")
				if sp < 0 {
					sp = len(rest)
				}
				val = rest[:sp]
				rest = rest[sp:]
			}
			switch key {
			case "property":
				k.Property = val
			case "rule":
				k.Rule = val
			case "func":
				k.Func = val
			case "construct":
				k.Construct = val
			case "commit":
			default:
				// free text containing '=': stop parsing keys
				rest = key + "=" + val + rest
				goto done
			}
		}
	done:
		k.Text = strings.TrimSpace(rest)
		out = append(out, k)
	}
	return out, sc.Err()
}

// Finish prints the report, writes evidence and the replay files, and returns the process exit code.
func (r *Report) Finish(verifDir string, known []Known, cfgNote string, explanation string) int {
	sort.SliceStable(r.Obs, func(i, j int) bool { return r.Obs[i].Key() < r.Obs[j].Key() })
	var nDis, nAss, nViol, nKnown int
	knownSet := map[string]Known{}
	for _, k := range known {
		if k.Kind == "known" && k.Property == r.Property {
			knownSet[k.Rule+"|"+k.Func+"|"+k.Construct] = k
		}
	}
	fmt.Printf("== property %s tier=%s %s\n", r.Property, r.Tier, cfgNote)
	var rules []string
	for ru := range r.Instances {
		rules = append(rules, ru)
	}
	sort.Strings(rules)
	for _, ru := range rules {
		fmt.Printf("rule %-18s instances=%d\n", ru, r.Instances[ru])
	}
	var violations []*Ob
	var knownHit []*Ob
	for _, o := range r.Obs {
		switch o.Status {
		case Discharged:
			nDis++
		case Assumed:
			nAss++
			fmt.Printf("ASSUMED   %-16s %-34s %-40s %s -- %s\n", o.Rule, o.Func, o.Construct, o.Pos, o.Why)
		default:
			if _, ok := knownSet[o.Key()]; ok {
				nKnown++
				knownHit = append(knownHit, o)
			} else {
				nViol++
				violations = append(violations, o)
			}
		}
	}
	for _, o := range knownHit {
		fmt.Printf("KNOWN-FINDING: property=%s rule=%s func=%s construct=%q at %s -- %s\n", r.Property, o.Rule, o.Func, o.Construct, o.Pos, o.Why)
	}
	// stale known entries are reported for information (they do not fail the check)
	for key, k := range knownSet {
		hit := false
		for _, o := range knownHit {
			if o.Key() == key {
				hit = true
			}
		}
		if !hit {
			fmt.Printf("note: known finding no longer reproduced: rule=%s func=%s construct=%q\n", k.Rule, k.Func, k.Construct)
		}
	}
	replayDir := filepath.Join(verifDir, "replay")
	os.MkdirAll(replayDir, 0o755)
	// remove stale replay files of this property
	if old, _ := filepath.Glob(filepath.Join(replayDir, r.Property+"-*.json")); old != nil {
		for _, f := range old {
			os.Remove(f)
		}
	}
	for i, o := range violations {
		path := filepath.Join(replayDir, fmt.Sprintf("%s-%02d.json", r.Property, i+1))
		b, _ := json.MarshalIndent(map[string]interface{}{"property": r.Property, "obligation": o}, "", " ")
		os.WriteFile(path, b, 0o644)
		fmt.Printf("%s %s func=%s construct=%q at %s -- %s\n", strings.ToUpper(string(o.Status)), o.Rule, o.Func, o.Construct, o.Pos, o.Why)
		for _, p := range o.Path {
			fmt.Printf("      path: %s\n", p)
		}
		fmt.Printf("VIOLATION property=%s replay=%s\n", r.Property, path)
	}
	total := len(r.Obs)
	fmt.Printf("summary property=%s obligations=%d discharged=%d assumed=%d known_findings=%d violations=%d functions=%d wall=%.1fs\n",
		r.Property, total, nDis, nAss, nKnown, nViol, len(r.Funcs), time.Since(r.start).Seconds())

	// evidence
	var samples []interface{}
	perRule := map[string]int{}
	for _, o := range r.Obs {
		if perRule[o.Rule] < 3 || o.Status != Discharged {
			perRule[o.Rule]++
			samples = append(samples, o)
		}
		if len(samples) >= 80 {
			break
		}
	}
	var funcs []string
	for f := range r.Funcs {
		funcs = append(funcs, f)
	}
	sort.Strings(funcs)
	trusted := []string{"go/types and go/ssa (x/tools v0.29.0)", "Go language semantics of panicking operations"}
	for t := range r.Trusted {
		trusted = append(trusted, t)
	}
	sort.Strings(trusted)
	var assumes []string
	for a := range r.Assumes {
		assumes = append(assumes, a)
	}
	sort.Strings(assumes)
	if assumes == nil {
		assumes = []string{}
	}
	seed := 0
	fmt.Sscanf(os.Getenv("VERIF_SEED"), "%d", &seed)
	ev := map[string]interface{}{
		"property_id": r.Property,
		"tier":        r.Tier,
		"seed":        seed,
		"level":       "other",
		"coverage": map[string]interface{}{
			"explanation":        explanation,
			"obligations":        total,
			"discharged":         nDis,
			"assumed":            nAss,
			"known_findings":     nKnown,
			"undischarged":       nViol,
			"rule_instances":     r.Instances,
			"functions_analysed": funcs,
			"samples":            samples,
			"checker_cmd":        "./check.sh " + r.Property + " " + r.Tier,
			"trusted_base":       trusted,
			"configuration":      cfgNote,
			"notes":              r.Notes,
			"exhaustive":         false,
		},
		"assumptions": assumes,
		"wall_s":      time.Since(r.start).Seconds(),
		"violations":  nViol,
	}
	os.MkdirAll(filepath.Join(verifDir, "evidence"), 0o755)
	b, _ := json.MarshalIndent(ev, "", " ")
	if err := os.WriteFile(filepath.Join(verifDir, "evidence", r.Property+".json"), append(b, '\n'), 0o644); err != nil {
		fmt.Fprintf(os.Stderr, "cannot write evidence: %v\n", err)
		return 2
	}
	if nViol > 0 {
		return 1
	}
	return 0
}
