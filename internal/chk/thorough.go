package chk

import (
	"encoding/json"
	"fmt"
	"os"
	"os/exec"
	"path/filepath"
	"sort"
	"strings"
	"sync"

	"golang.org/x/tools/go/callgraph"
	"golang.org/x/tools/go/callgraph/cha"
	"golang.org/x/tools/go/callgraph/vta"
	"golang.org/x/tools/go/ssa"
	"golang.org/x/tools/go/ssa/ssautil"
)

// Thorough tier: (1) the same rules under further build configurations with identical obligation sets required,
// (2) a VTA call-graph cross-check of the reachability the rules rely on, (3) the self-test battery — seeded breaks
// must be reported, behaviour-preserving refactorings must stay silent — each on a scratch copy in its own subprocess,
// (4) the generic cross-reference tools, summarised as information only.

// RunRules runs the rules of a property on a loaded program.
func RunRules(p *Prog, spec *PropSpec, prop, tier string) *Report {
	r := NewReport(prop, tier)
	for _, t := range spec.Trusted {
		r.Trusted[t] = true
	}
	for _, rule := range spec.Rules {
		rule(p, r)
	}
	return r
}

func obKeys(r *Report) map[string]Status {
	m := map[string]Status{}
	for _, o := range r.Obs {
		m[o.Key()] = o.Status
	}
	return m
}

// CompareConfigs re-runs the property under the other configurations and records divergences as undecided obligations.
func CompareConfigs(base *Report, spec *PropSpec, prop string, cfgs []Config) []string {
	var notes []string
	b := obKeys(base)
	for _, cfg := range cfgs {
		p2, err := Load(cfg)
		label := fmt.Sprintf("tags=%q goarch=%q", cfg.Tags, cfg.GOARCH)
		if err != nil {
			base.Unknown("CONFIG", label, "load", "", "the repository does not load under this configuration: "+err.Error())
			continue
		}
		r2 := RunRules(p2, spec, prop, "thorough")
		o := obKeys(r2)
		diff := 0
		for k, st := range b {
			if strings.HasPrefix(k, "CONFIG|") {
				continue
			}
			if st2, ok := o[k]; !ok || st2 != st {
				diff++
				if diff <= 5 {
					base.Unknown("CONFIG", label, "obligation "+k, "", fmt.Sprintf("status %s in the default configuration, %q under %s", st, st2, label))
				}
			}
		}
		for k := range o {
			if _, ok := b[k]; !ok {
				diff++
				if diff <= 5 {
					base.Unknown("CONFIG", label, "obligation "+k, "", "present only under "+label)
				}
			}
		}
		notes = append(notes, fmt.Sprintf("configuration %s: %d obligations, %d divergences from the default configuration", label, len(o), diff))
		if diff == 0 {
			base.OK("CONFIG", label, "identical obligation set", "", fmt.Sprintf("%d obligations with identical status", len(o)))
		}
	}
	return notes
}

// VTACrossCheck: every module function reachable from the roots in the VTA call graph is also reachable in the graph the rules use.
func VTACrossCheck(p *Prog, r *Report, roots []string) string {
	all := ssautil.AllFunctions(p.SSA)
	g := vta.CallGraph(all, cha.CallGraph(p.SSA))
	vreach := map[*ssa.Function]bool{}
	var work []*callgraph.Node
	for _, rn := range roots {
		f := p.Fn(rn)
		if f == nil {
			continue
		}
		if n := g.Nodes[f]; n != nil && !vreach[f] {
			vreach[f] = true
			work = append(work, n)
		}
	}
	for len(work) > 0 {
		n := work[len(work)-1]
		work = work[:len(work)-1]
		for _, e := range n.Out {
			c := e.Callee.Func
			if c == nil || vreach[c] {
				continue
			}
			vreach[c] = true
			// do not descend through the standard library: its callbacks into the module are modelled explicitly
			if p.InModule(c) {
				work = append(work, e.Callee)
			}
		}
	}
	var rs []*ssa.Function
	for _, rn := range roots {
		if f := p.Fn(rn); f != nil {
			rs = append(rs, f)
		}
	}
	mine := p.Reach(rs...)
	a := p.PointsTo()
	for _, f := range rs {
		rr, _ := a.reachFuncs(f)
		for g := range rr {
			mine[g] = true
		}
	}
	missing := 0
	nv := 0
	for f := range vreach {
		if !p.InModule(f) {
			continue
		}
		nv++
		if !mine[f] {
			missing++
			r.Unknown("CALLGRAPH.vta", p.Name(f), "reachable in the VTA call graph only", p.Pos(f.Pos()), "the call graph used by the rules does not reach this function although VTA does: the rules' scope may be too small")
		}
	}
	if missing == 0 {
		r.OK("CALLGRAPH.vta", "roots", "rule call graph covers the VTA call graph", "", fmt.Sprintf("%d module functions reachable by VTA from %d roots, all inside the rules' reachability set", nv, len(rs)))
	}
	return fmt.Sprintf("VTA cross-check: %d module functions VTA-reachable from %d roots, %d missing from the rules' call graph", nv, len(rs), missing)
}

// SelfTestCase is one variant of the repository the check must react to in a known way.
type SelfTestCase struct {
	Name   string
	Patch  string // path of a unified diff (applied with patch -p1)
	Expect string // "violation" or "silent"
	Source string
}

// selfTestCases collects the seeded breaks of this property and the behaviour-preserving refactorings.
func selfTestCases(verif, prop string) []SelfTestCase {
	var out []SelfTestCase
	// which properties' seeds must this check report? its own, plus those recorded in selftest/catches.json
	catches := map[string][]string{}
	if b, err := os.ReadFile(filepath.Join(verif, "selftest", "catches.json")); err == nil {
		json.Unmarshal(b, &catches)
	}
	seeds, _ := filepath.Glob(filepath.Join(verif, "seeded", "C*-*", "patch.diff"))
	sort.Strings(seeds)
	for _, s := range seeds {
		name := filepath.Base(filepath.Dir(s))
		must := false
		for _, pr := range catches[name] {
			if pr == prop {
				must = true
			}
		}
		if must {
			out = append(out, SelfTestCase{Name: "seeded/" + name, Patch: s, Expect: "violation", Source: "sub-agent seeded change"})
		}
	}
	muts, _ := filepath.Glob(filepath.Join(verif, "selftest", "mutants", prop+"-*.diff"))
	sort.Strings(muts)
	for _, m := range muts {
		out = append(out, SelfTestCase{Name: "mutants/" + filepath.Base(m), Patch: m, Expect: "violation", Source: "hand-written break"})
	}
	refs, _ := filepath.Glob(filepath.Join(verif, "selftest", "refactors", "*", "patch.diff"))
	sort.Strings(refs)
	for _, m := range refs {
		out = append(out, SelfTestCase{Name: "refactors/" + filepath.Base(filepath.Dir(m)), Patch: m, Expect: "silent", Source: "behaviour-preserving refactoring"})
	}
	return out
}

type selfTestResult struct {
	Case   SelfTestCase
	OK     bool
	Detail string
}

// RunSelfTests applies each case to a scratch copy of the current tree and runs this checker on it in a subprocess.
func RunSelfTests(repo, verif, prop, self string) ([]selfTestResult, error) {
	cases := selfTestCases(verif, prop)
	res := make([]selfTestResult, len(cases))
	sem := make(chan struct{}, 12)
	var wg sync.WaitGroup
	for i, c := range cases {
		wg.Add(1)
		go func(i int, c SelfTestCase) {
			defer wg.Done()
			sem <- struct{}{}
			defer func() { <-sem }()
			res[i] = runSelfTest(repo, verif, prop, self, c)
		}(i, c)
	}
	wg.Wait()
	return res, nil
}

func runSelfTest(repo, verif, prop, self string, c SelfTestCase) selfTestResult {
	d, err := os.MkdirTemp("", "mxjselftest")
	if err != nil {
		return selfTestResult{c, false, err.Error()}
	}
	defer os.RemoveAll(d)
	cp := exec.Command("rsync", "-a", "--exclude", ".git", "--exclude", "examples", repo+"/", d+"/")
	if out, err := cp.CombinedOutput(); err != nil {
		return selfTestResult{c, false, "copy failed: " + string(out)}
	}
	pf, err := os.Open(c.Patch)
	if err != nil {
		return selfTestResult{c, false, err.Error()}
	}
	pa := exec.Command("patch", "-p1", "-s", "--no-backup-if-mismatch")
	pa.Dir = d
	pa.Stdin = pf
	out, err := pa.CombinedOutput()
	pf.Close()
	if err != nil {
		// the tree under test was changed so that the edit no longer applies: skipped, recorded, not failed
		return selfTestResult{c, true, "skipped: patch does not apply to the current tree (" + strings.TrimSpace(firstLine(string(out))) + ")"}
	}
	ck := exec.Command(self, "-property", prop, "-repo", d, "-verif", verif, "-no-evidence")
	o, err := ck.CombinedOutput()
	code := 0
	if ee, ok := err.(*exec.ExitError); ok {
		code = ee.ExitCode()
	} else if err != nil {
		return selfTestResult{c, false, err.Error()}
	}
	var rules []string
	for _, l := range strings.Split(string(o), "\n") {
		if strings.HasPrefix(l, "VIOLATED ") || strings.HasPrefix(l, "UNDECIDED ") {
			f := strings.Fields(l)
			if len(f) > 1 {
				rules = append(rules, f[1])
			}
		}
	}
	rules = uniq(rules)
	switch c.Expect {
	case "violation":
		if code == 1 {
			return selfTestResult{c, true, "reported by " + strings.Join(rules, ",")}
		}
		if code == 2 {
			return selfTestResult{c, true, "skipped: variant does not load (" + firstLine(string(o)) + ")"}
		}
		return selfTestResult{c, false, "the seeded break was NOT reported"}
	default:
		if code == 0 {
			return selfTestResult{c, true, "silent"}
		}
		if code == 2 {
			return selfTestResult{c, true, "skipped: variant does not load (" + firstLine(string(o)) + ")"}
		}
		return selfTestResult{c, false, "false alarm on a behaviour-preserving refactoring: " + strings.Join(rules, ",")}
	}
}

func firstLine(s string) string {
	if i := strings.Index(s, "\n"); i >= 0 {
		return s[:i]
	}
	return s
}

// CrossReference runs the generic tools and returns one-line summaries (information only, never a verdict).
func CrossReference(repo string) []string {
	var out []string
	env := append(os.Environ(), "GOFLAGS=-mod=mod", "GOPROXY=off", "GOSUMDB=off", "GOTOOLCHAIN=local", "GOWORK=off")
	run := func(name string, args ...string) {
		cmd := exec.Command(name, args...)
		cmd.Dir = repo
		cmd.Env = env
		o, _ := cmd.CombinedOutput()
		n := 0
		for _, l := range strings.Split(string(o), "\n") {
			if strings.Contains(l, ".go:") {
				n++
			}
		}
		out = append(out, fmt.Sprintf("cross-reference %s %s: %d diagnostics (information only)", name, strings.Join(args, " "), n))
	}
	run("go", "vet", ".", "./j2x", "./x2j", "./x2j-wrapper")
	if _, err := exec.LookPath("staticcheck"); err == nil {
		run("staticcheck", "-checks", "SA4006,SA4017,SA5011", ".", "./j2x", "./x2j", "./x2j-wrapper")
	}
	if _, err := exec.LookPath("errcheck"); err == nil {
		run("errcheck", ".", "./j2x", "./x2j", "./x2j-wrapper")
	}
	return out
}

// AllAPIRoots: every exported function/method of the four packages.
func AllAPIRoots(p *Prog) []string {
	var out []string
	for _, f := range p.FuncList {
		if p.Exported(f) {
			out = append(out, p.Name(f))
		}
	}
	return out
}
