package chk

import (
	"fmt"
	"go/token"
	"go/types"
	"strings"

	"golang.org/x/tools/go/ssa"
)

// ---- VALID.coupling (C05) ----------------------------------------------------------------------------------------

// ruleValidCoupling: in each of the four XML encoders the validity branch decodes the very bytes that are returned.
func ruleValidCoupling(p *Prog, r *Report) {
	const rule = "VALID.coupling"
	flag := p.Globals["mxj.xmlCheckIsValid"]
	for _, n := range []string{"mxj.Map.Xml", "mxj.Map.XmlIndent", "mxj.MapSeq.Xml", "mxj.MapSeq.XmlIndent"} {
		fn := p.Fn(n)
		if fn == nil || flag == nil {
			r.Anchor(rule, n)
			continue
		}
		// the accumulator: the buffer/builder handed to the recursive encoder
		var acc ssa.Value
		eachInstr(fn, func(b *ssa.BasicBlock, in ssa.Instruction) {
			c, ok := in.(*ssa.Call)
			if !ok {
				return
			}
			g := staticCallee(&c.Call)
			if g == nil || !p.InModule(g) || p.Exported(g) {
				return
			}
			for _, a := range c.Call.Args {
				if isOutputSinkType(a.Type()) {
					acc = a
				}
			}
		})
		if acc == nil {
			r.Unknown(rule, n, "output accumulator", p.Pos(fn.Pos()), "no call of the recursive encoder with a buffer argument found")
			continue
		}
		fromAcc := func(v ssa.Value) bool {
			for x := range backwardSlice(fn, v) {
				if x == acc {
					return true
				}
				if c, ok := x.(*ssa.Call); ok && len(c.Call.Args) > 0 && c.Call.Args[0] == acc {
					return true
				}
			}
			return false
		}
		// validator inputs under the validity switch
		nVal := 0
		okVal := true
		bad := ""
		eachInstr(fn, func(b *ssa.BasicBlock, in ssa.Instruction) {
			c, ok := in.(*ssa.Call)
			if !ok {
				return
			}
			isValidator := isCallTo(&c.Call, "encoding/xml.NewDecoder")
			if g := staticCallee(&c.Call); g != nil && p.InModule(g) && len(c.Call.Args) > 0 {
				// a module function that decodes its argument: NewMapXml / NewMapXmlSeq, or a helper that runs an xml.Decoder over it
				if p.Name(g) == "mxj.NewMapXml" || p.Name(g) == "mxj.NewMapXmlSeq" {
					isValidator = true
				} else if !p.Exported(g) {
					for h := range p.Reach(g) {
						if !p.InModule(h) && (extName(h) == "(*encoding/xml.Decoder).Token" || extName(h) == "(*encoding/xml.Decoder).RawToken") {
							isValidator = true
						}
					}
					// the recursive encoders also reach nothing of the kind; exclude functions that receive the accumulator itself
					for _, a := range c.Call.Args {
						if isOutputSinkType(a.Type()) {
							isValidator = false
						}
					}
				}
			}
			if !isValidator {
				return
			}
			under := false
			for _, gd := range dominatingGuards(b) {
				ng := normGuard(gd)
				if globalOf(ng.Cond) == flag && ng.Pol {
					under = true
				}
			}
			if !under {
				return
			}
			nVal++
			if !fromAcc(c.Call.Args[0]) {
				okVal = false
				bad = p.Pos(c.Pos())
			}
		})
		if nVal == 0 {
			r.Bad(rule, n, "validity branch present", p.Pos(fn.Pos()), "no decoding of the output under xmlCheckIsValid found: XmlCheckIsValid has no effect on this encoder")
			continue
		}
		// the whole document is validated: one of the validators reads tokens until the decoder reports an error (io.EOF at the end);
		// NewMapXml / NewMapXmlSeq alone stop at the end of the root element and never see what follows it
		drains := drainsToEOF(fn)
		if !drains {
			eachInstr(fn, func(b *ssa.BasicBlock, in ssa.Instruction) {
				c, ok := in.(*ssa.Call)
				if !ok || len(c.Call.Args) == 0 {
					return
				}
				g := staticCallee(&c.Call)
				if g == nil || !p.InModule(g) || p.Exported(g) || !fromAcc(c.Call.Args[0]) {
					return
				}
				for h := range p.Reach(g) {
					if p.InModule(h) && !p.Exported(h) && drainsToEOF(h) {
						drains = true
					}
				}
				if drainsToEOF(g) {
					drains = true
				}
			})
		}
		if drains {
			r.OK(rule, n, "validation reads to the end of the output", p.Pos(fn.Pos()), "a token loop over the output runs until the decoder reports an error (io.EOF)")
		} else {
			r.Bad(rule, n, "validation reads to the end of the output", p.Pos(fn.Pos()), "no validator reads the output to its end with Decoder.Token: a decode that stops when the root element closes accepts garbage after it, and RawToken does not check that tags match and nest")
		}
		// the check must not consume what is returned, and must be made with a strict decoder
		consumed, relaxed := "", ""
		nDec := 0
		var scanDec func(f *ssa.Function, depth int)
		seenDec := map[*ssa.Function]bool{}
		scanDec = func(f *ssa.Function, depth int) {
			if seenDec[f] || depth > 2 {
				return
			}
			seenDec[f] = true
			eachInstr(f, func(b *ssa.BasicBlock, in ssa.Instruction) {
				c, ok := in.(*ssa.Call)
				if !ok {
					return
				}
				if g := staticCallee(&c.Call); g != nil && p.InModule(g) && !p.Exported(g) && g != f {
					// the output accumulator itself handed to a helper that decodes from it
					if f == fn {
						for i, a := range c.Call.Args {
							src := a
							if mi, ok := src.(*ssa.MakeInterface); ok {
								src = mi.X
							}
							if src != acc || i >= len(g.Params) {
								continue
							}
							prm := g.Params[i]
							eachInstr(g, func(b4 *ssa.BasicBlock, i4 ssa.Instruction) {
								if c4, ok := i4.(*ssa.Call); ok && isCallTo(&c4.Call, "encoding/xml.NewDecoder") {
									s4 := c4.Call.Args[0]
									for {
										if mi, ok := s4.(*ssa.MakeInterface); ok {
											s4 = mi.X
											continue
										}
										if ci, ok := s4.(*ssa.ChangeInterface); ok {
											s4 = ci.X
											continue
										}
										break
									}
									if s4 == ssa.Value(prm) {
										consumed = p.Pos(c.Pos())
										nDec++
									}
								}
							})
						}
					}
					reads := false
					for h := range p.Reach(g) {
						if !p.InModule(h) && (extName(h) == "(*encoding/xml.Decoder).Token" || extName(h) == "(*encoding/xml.Decoder).RawToken") {
							reads = true
						}
					}
					sink := false
					for _, a := range c.Call.Args {
						if isOutputSinkType(a.Type()) {
							sink = true
						}
					}
					if reads && !sink {
						scanDec(g, depth+1)
					}
					return
				}
				if !isCallTo(&c.Call, "encoding/xml.NewDecoder") {
					return
				}
				if f == fn {
					under := false
					for _, gd := range dominatingGuards(b) {
						ng := normGuard(gd)
						if globalOf(ng.Cond) == flag && ng.Pol {
							under = true
						}
					}
					if !under {
						return
					}
				}
				nDec++
				src := c.Call.Args[0]
				for {
					if mi, ok := src.(*ssa.MakeInterface); ok {
						src = mi.X
						continue
					}
					if ci, ok := src.(*ssa.ChangeInterface); ok {
						src = ci.X
						continue
					}
					break
				}
				if f == fn && src == acc {
					consumed = p.Pos(c.Pos())
				}
				// uses of the decoder
				for _, ref := range *c.Referrers() {
					switch x := ref.(type) {
					case *ssa.FieldAddr:
						fname := fieldName(x.X.Type(), x.Field)
						if fname == "Strict" || fname == "AutoClose" || fname == "Entity" {
							for _, r2 := range *x.Referrers() {
								if _, isSt := r2.(*ssa.Store); isSt {
									relaxed = "field " + fname + " is assigned at " + p.Pos(r2.Pos())
								}
							}
						}
					case *ssa.Call:
						if h := staticCallee(&x.Call); h != nil && p.InModule(h) {
							for hh := range p.Reach(h) {
								if !p.InModule(hh) {
									continue
								}
								eachInstr(hh, func(b3 *ssa.BasicBlock, i3 ssa.Instruction) {
									st, ok := i3.(*ssa.Store)
									if !ok {
										return
									}
									if fa, ok := st.Addr.(*ssa.FieldAddr); ok && typeStr(derefType(fa.X.Type())) == "xml.Decoder" {
										fname := fieldName(fa.X.Type(), fa.Field)
										if fname == "Strict" || fname == "AutoClose" || fname == "Entity" {
											relaxed = "the decoder is handed to " + p.Name(h) + " (" + p.Pos(x.Pos()) + "), which assigns its " + fname + " field"
										}
									}
								})
							}
						}
					}
				}
			})
		}
		scanDec(fn, 0)
		if nDec > 0 {
			if consumed == "" {
				r.OK(rule, n, "validation leaves the output intact", p.Pos(fn.Pos()), "the validating decoder reads a reader over the output's bytes, not the output buffer itself")
			} else {
				r.Bad(rule, n, "validation leaves the output intact", consumed, "the validating decoder reads from the output buffer itself: the check consumes the document and the encoder returns what is left of it")
			}
			if relaxed == "" {
				r.OK(rule, n, "validation is strict", p.Pos(fn.Pos()), "the validating decoder keeps encoding/xml's default strict settings")
			} else {
				r.Bad(rule, n, "validation is strict", p.Pos(fn.Pos()), "the decoder used for the validity check can be made non-strict ("+relaxed+"): output that is not well-formed XML passes the check")
			}
		}
		if okVal {
			r.OK(rule, n, "validator reads the encoder's output", p.Pos(fn.Pos()), fmt.Sprintf("%d validator call(s) under xmlCheckIsValid, each fed from the output accumulator", nVal))
		} else {
			r.Bad(rule, n, "validator reads the encoder's output", bad, "the bytes decoded for the validity check do not come from the buffer the encoder wrote to: invalid XML passes the check")
		}
		// returned bytes come from the accumulator
		okRet := true
		eachInstr(fn, func(b *ssa.BasicBlock, in ssa.Instruction) {
			if ret, ok := in.(*ssa.Return); ok && !isNilConst(ret.Results[0]) && !fromAcc(ret.Results[0]) {
				okRet = false
			}
		})
		// no return of encoded bytes can bypass the validity switch: the block testing xmlCheckIsValid dominates every such return
		var optBlocks []*ssa.BasicBlock
		for _, b := range fn.Blocks {
			if ifi, ok := b.Instrs[len(b.Instrs)-1].(*ssa.If); ok {
				if globalOf(normGuard(guard{ifi.Cond, true}).Cond) == flag {
					optBlocks = append(optBlocks, b)
				}
			}
		}
		bypass := ""
		isOpt := map[*ssa.BasicBlock]bool{}
		for _, ob := range optBlocks {
			isOpt[ob] = true
		}
		// forward search from the entry that neither enters the option test nor follows an edge on which an error is known non-nil
		seenB := map[*ssa.BasicBlock]bool{}
		workB := []*ssa.BasicBlock{fn.Blocks[0]}
		for len(workB) > 0 {
			b := workB[len(workB)-1]
			workB = workB[:len(workB)-1]
			if seenB[b] || isOpt[b] {
				continue
			}
			seenB[b] = true
			for _, in := range b.Instrs {
				if ret, ok := in.(*ssa.Return); ok && !isNilConst(ret.Results[0]) && fromAcc(ret.Results[0]) {
					bypass = p.Pos(ret.Pos())
				}
			}
			for si, sb := range b.Succs {
				if ifi, ok := b.Instrs[len(b.Instrs)-1].(*ssa.If); ok {
					ng := normGuard(guard{ifi.Cond, si == 0})
					if bo, ok := ng.Cond.(*ssa.BinOp); ok && (bo.Op == token.EQL || bo.Op == token.NEQ) && isErrorType(bo.X.Type()) {
						if isNilConst(bo.Y) || isNilConst(bo.X) {
							nonNil := (bo.Op == token.NEQ) == ng.Pol
							if nonNil {
								continue // encoding failed on this edge: nothing to validate
							}
						}
					}
				}
				workB = append(workB, sb)
			}
		}
		if bypass == "" {
			r.OK(rule, n, "no return bypasses the validity switch", p.Pos(fn.Pos()), "the xmlCheckIsValid test dominates every return of encoded bytes")
		} else {
			r.Bad(rule, n, "no return bypasses the validity switch", bypass, "encoded bytes are returned on a path that never reaches the xmlCheckIsValid test: invalid XML is returned without an error on that path")
		}
		if okRet {
			r.OK(rule, n, "returned bytes are the accumulator's", p.Pos(fn.Pos()), "")
		} else {
			r.Bad(rule, n, "returned bytes are the accumulator's", p.Pos(fn.Pos()), "a return hands back bytes that do not come from the output accumulator")
		}
	}
}

// drainsToEOF: fn contains a loop around (*xml.Decoder).Token / RawToken that can only be left when the call returned an error.
func drainsToEOF(fn *ssa.Function) bool {
	found := false
	eachInstr(fn, func(b *ssa.BasicBlock, in ssa.Instruction) {
		c, ok := in.(*ssa.Call)
		// Token, not RawToken: only Token verifies that start and end tags match and nest
		if !ok || !isCallTo(&c.Call, "(*encoding/xml.Decoder).Token") {
			return
		}
		hdr := innermostLoopHeader(b)
		if hdr == nil {
			return
		}
		loop := naturalLoop(hdr)
		var errV ssa.Value
		for _, ref := range *c.Referrers() {
			if ex, ok := ref.(*ssa.Extract); ok && ex.Index == 1 {
				errV = ex
			}
		}
		if errV == nil {
			return
		}
		onErr := func(cond ssa.Value) bool {
			ng := normGuard(guard{cond, true})
			bo, ok := ng.Cond.(*ssa.BinOp)
			return ok && (bo.X == errV || bo.Y == errV || phiChainReachesValue(bo.X, errV))
		}
		ok2 := true
		nExit := 0
		for lb := range loop {
			for _, sc := range lb.Succs {
				if loop[sc] {
					continue
				}
				nExit++
				ifi, isIf := lb.Instrs[len(lb.Instrs)-1].(*ssa.If)
				if isIf && onErr(ifi.Cond) {
					continue
				}
				// or the exiting block is reached only over an error test inside the loop
				dominated := false
				for _, g := range dominatingGuards(lb) {
					if onErr(g.Cond) {
						dominated = true
					}
				}
				if !dominated {
					ok2 = false
				}
			}
		}
		if ok2 && nExit > 0 {
			found = true
		}
	})
	return found
}

// ---- PAIR.seq (C04) ----------------------------------------------------------------------------------------------

func rulePairSeq(p *Prog, r *Report) {
	const rule = "PAIR.seq"
	fn := p.Fn("mxj.xmlSeqToMapParser")
	if fn == nil {
		r.Anchor(rule, "mxj.xmlSeqToMapParser")
		return
	}
	n := p.Name(fn)
	cz := p.canonFor(fn)
	ord := newOrdinals()
	nSeq, nAttr := 0, 0
	// the stores under the sequence key: made directly, or inside a helper that builds the map (the number is then the helper's
	// argument at the call, and the call is where the number is handed out)
	type seqStore struct {
		at ssa.Instruction // instruction of fn
		S  ssa.Value       // the int stored, a value of fn (nil: not an int of fn)
	}
	var stores []seqStore
	for _, in := range instrsByPos(fn) {
		if mu, ok := in.(*ssa.MapUpdate); ok && cz.of(mu.Key) == "load(mxj.seqK)" {
			var S ssa.Value
			if mi, ok := mu.Value.(*ssa.MakeInterface); ok && isIntType(mi.X.Type()) {
				S = mi.X
			}
			stores = append(stores, seqStore{in, S})
			continue
		}
		if c, ok := in.(*ssa.Call); ok {
			// a helper of the decoder that stores under the sequence key: the number is its own range index (attributes), or one of
			// its parameters — then the call is where the number is handed out, and the number is the argument
			if h := staticCallee(&c.Call); h != nil && p.InModule(h) && !p.Exported(h) && h != fn && len(h.Blocks) > 0 {
				czh := p.canonFor(h)
				eachInstr(h, func(hb *ssa.BasicBlock, hi ssa.Instruction) {
					mu, ok := hi.(*ssa.MapUpdate)
					if !ok || czh.of(mu.Key) != "load(mxj.seqK)" {
						return
					}
					var S ssa.Value
					if mi, ok := mu.Value.(*ssa.MakeInterface); ok && isIntType(mi.X.Type()) {
						if isRangeIndex(mi.X) {
							S = mi.X // numbered by position inside the helper
						} else if prm, isP := mi.X.(*ssa.Parameter); isP {
							for i, q := range h.Params {
								if q == prm && i < len(c.Call.Args) {
									S = c.Call.Args[i]
								}
							}
						}
					}
					stores = append(stores, seqStore{in, S})
				})
			}
		}
	}
	for _, ss := range stores {
		mu := ss.at
		if ss.S == nil {
			r.Bad(rule, n, ord.key(n, "sequence number store"), p.Pos(mu.Pos()), "the value stored under the sequence key is not an int")
			continue
		}
		if isRangeIndex(ss.S) {
			nAttr++
			r.OK(rule, n, ord.key(n, "attribute sequence number"), p.Pos(mu.Pos()), "attributes are numbered by their index in the start tag")
			continue
		}
		nSeq++
		construct := ord.key(n, "sequence number store")
		// the stored counter value S; S+1 must be computed in this block and flow back to the loop header
		S := ss.S
		okInc := false
		for _, i2 := range mu.Block().Instrs {
			if bo, ok := i2.(*ssa.BinOp); ok && bo.Op == token.ADD && bo.X == S {
				if k, isK := constInt(bo.Y); isK && k == 1 {
					// reaches a loop-header phi of which S is (derived from) the current value
					if reachesHeaderPhi(bo, S) {
						okInc = true
					}
				}
			}
		}
		if okInc {
			r.OK(rule, n, construct, p.Pos(mu.Pos()), "followed in its block by seq+1, which becomes the counter of the next token")
		} else {
			r.Bad(rule, n, construct, p.Pos(mu.Pos()), "a sequence number is handed out without advancing the counter: two siblings get the same position")
		}
	}
	if nSeq < 3 {
		r.Add(&Ob{Rule: rule + ".floor", Func: n, Construct: "instances<3", Status: Undecided, Why: fmt.Sprintf("only %d sequence-number stores found (elements, text and markup items: at least 3 expected)", nSeq)})
	}
	if nAttr < 1 {
		r.Add(&Ob{Rule: rule + ".floor", Func: n, Construct: "attributes<1", Status: Undecided, Why: "no attribute numbering site found"})
	}
	// encoder: the child collection loop skips exactly the attribute and sequence keys
	enc := p.Fn("mxj.mapToXmlSeqIndent")
	if enc == nil {
		r.Anchor(rule, "mxj.mapToXmlSeqIndent")
		return
	}
	cze := p.canonFor(enc)
	var skipSets [][]string
	for _, l := range findMapLoops(enc) {
		if l.next == nil {
			continue
		}
		var key ssa.Value
		for _, ref := range *l.next.Referrers() {
			if ex, ok := ref.(*ssa.Extract); ok && ex.Index == 1 {
				key = ex
			}
		}
		if key == nil {
			continue
		}
		kc := cze.of(key)
		var atoms []string
		for b := range l.body {
			if ifi, ok := b.Instrs[len(b.Instrs)-1].(*ssa.If); ok {
				c := cze.of(ifi.Cond)
				if strings.Contains(c, kc) {
					atoms = append(atoms, strings.ReplaceAll(c, kc, "KEY"))
				}
			}
		}
		if len(atoms) > 0 {
			skipSets = append(skipSets, uniq(atoms))
		}
	}
	// the collection loop skips the attribute and sequence keys; it may also skip the text key, provided the text is written separately
	base := "(KEY == load(mxj.attrK)),(KEY == load(mxj.seqK))"
	withText := "(KEY == load(mxj.attrK)),(KEY == load(mxj.seqK)),(KEY == load(mxj.textK))"
	// sinks fed from val[textK]: the simple-element branch, and (if present) the mixed-content branch
	nText := 0
	eachInstr(enc, func(b *ssa.BasicBlock, in ssa.Instruction) {
		ci, ok := in.(ssa.CallInstruction)
		if !ok || !isCallTo(ci.Common(), "(*strings.Builder).WriteString", "(*bytes.Buffer).WriteString") {
			return
		}
		if exemptKeyGuard(cze, in.Block()) {
			return // comment / directive text
		}
		for v := range backwardSlice(enc, ci.Common().Args[1]) {
			if strings.HasSuffix(cze.of(v), ",load(mxj.textK))") && strings.HasPrefix(cze.of(v), "lookup(") {
				nText++
				return
			}
		}
	})
	want := base
	if nText >= 2 {
		want = withText // the text is written on its own: it must not be collected as a child as well
	}
	found := false
	for _, s := range skipSets {
		if strings.Join(s, ",") == want {
			found = true
		}
	}
	if found {
		r.OK(rule, p.Name(enc), "child collection skips exactly the attribute, sequence (and separately written text) keys", p.Pos(enc.Pos()), fmt.Sprintf("%v", skipSets))
	} else {
		r.Bad(rule, p.Name(enc), "child collection skips exactly the attribute, sequence (and separately written text) keys", p.Pos(enc.Pos()), fmt.Sprintf("key tests found in the collection loops: %v", skipSets))
	}
}

// reachesHeaderPhi: inc flows (through phis) into a phi from which S is reachable through phis (S is the counter's current value).
func reachesHeaderPhi(inc ssa.Value, S ssa.Value) bool {
	seen := map[ssa.Value]bool{}
	var rec func(v ssa.Value) bool
	rec = func(v ssa.Value) bool {
		if seen[v] {
			return false
		}
		seen[v] = true
		refs := v.Referrers()
		if refs == nil {
			return false
		}
		for _, ref := range *refs {
			if ph, ok := ref.(*ssa.Phi); ok {
				if ssa.Value(ph) == S || phiChainReaches(S, ph) {
					return true
				}
				if rec(ph) {
					return true
				}
			}
		}
		return false
	}
	return rec(inc)
}

// ---- DECODE.sibling (C01): no sibling dropped, list order is document order ------------------------------------------

func ruleDecodeSibling(p *Prog, r *Report, names []string) {
	const rule = "DECODE.sibling"
	for _, n := range names {
		fn := p.Fn(n)
		if fn == nil {
			r.Anchor(rule, n)
			continue
		}
		// the recursive call whose result is used (not the tail call)
		var rc *ssa.Call
		for _, c := range selfCalls(fn) {
			// a tail call: its Map result goes nowhere but into a return (one call may serve the root, whose result is handed up,
			// and the children, whose result is inserted)
			isTail := false
			otherUse := false
			for _, ref := range *c.Referrers() {
				if ex, ok := ref.(*ssa.Extract); ok && ex.Index == 0 {
					for _, r2 := range *ex.Referrers() {
						switch r2.(type) {
						case *ssa.Return:
							isTail = true
						case *ssa.DebugRef:
						default:
							otherUse = true
						}
					}
				}
			}
			if !isTail || otherUse {
				rc = c
			}
		}
		// for the sequence decoder the call sits in two branches merged by a phi: accept any non-tail call
		if rc == nil {
			r.Bad(rule, n, "child decoding call", p.Pos(fn.Pos()), "no recursive call whose result is inserted into the parent")
			continue
		}
		// the loop around the token reads
		hdr := innermostLoopHeader(rc.Block())
		if hdr == nil {
			r.Bad(rule, n, "token loop", p.Pos(rc.Pos()), "the child decoding call is not inside the token loop")
			continue
		}
		body := naturalLoop(hdr)
		// map writes whose value derives from a recursive call's result
		var stores []*ssa.MapUpdate
		for _, c := range selfCalls(fn) {
			res := resultsOf(c)
			if res[0] == nil {
				continue
			}
			sl := forwardSlice(fn, res[0])
			for in := range sl {
				if mu, ok := in.(*ssa.MapUpdate); ok && body[mu.Block()] {
					if backwardSlice(fn, mu.Value)[res[0]] {
						stores = append(stores, mu)
					}
				}
			}
		}
		// the insertion may have moved into an unexported helper that receives the parent map, the key and the child: its stores count
		// as the stores of the call site, provided every path through the helper makes one
		type helperStore struct {
			h     *ssa.Function
			mu    *ssa.MapUpdate
			child *ssa.Parameter
		}
		var hstores []helperStore
		helperCallBlk := map[*ssa.BasicBlock]bool{}
		for _, c := range selfCalls(fn) {
			res := resultsOf(c)
			if res[0] == nil {
				continue
			}
			eachInstr(fn, func(b *ssa.BasicBlock, in ssa.Instruction) {
				hc, ok := in.(*ssa.Call)
				if !ok || !body[b] {
					return
				}
				h := staticCallee(&hc.Call)
				if h == nil || h == fn || !p.InModule(h) || p.Exported(h) || len(h.Blocks) == 0 {
					return
				}
				var mapP, childP *ssa.Parameter
				for i, a := range hc.Call.Args {
					if i >= len(h.Params) {
						continue
					}
					if isMapShaped(a.Type()) {
						mapP = h.Params[i]
					} else if isEmptyIface(a.Type()) && backwardSlice(fn, a)[res[0]] {
						childP = h.Params[i]
					}
				}
				if mapP == nil || childP == nil {
					return
				}
				var mus []*ssa.MapUpdate
				storeB := map[*ssa.BasicBlock]bool{}
				eachInstr(h, func(b2 *ssa.BasicBlock, i2 ssa.Instruction) {
					if mu, ok := i2.(*ssa.MapUpdate); ok && mu.Map == ssa.Value(mapP) && backwardSlice(h, mu.Value)[childP] {
						mus = append(mus, mu)
						storeB[b2] = true
					}
				})
				if len(mus) == 0 {
					return
				}
				// every path through the helper stores
				all := true
				seenH := map[*ssa.BasicBlock]bool{h.Blocks[0]: true}
				workH := []*ssa.BasicBlock{h.Blocks[0]}
				for len(workH) > 0 {
					hb := workH[len(workH)-1]
					workH = workH[:len(workH)-1]
					if storeB[hb] {
						continue
					}
					if _, isRet := hb.Instrs[len(hb.Instrs)-1].(*ssa.Return); isRet {
						all = false
					}
					for _, sc := range hb.Succs {
						if !seenH[sc] {
							seenH[sc] = true
							workH = append(workH, sc)
						}
					}
				}
				if !all {
					return
				}
				already := false
				for _, hs := range hstores {
					if hs.h == h {
						already = true
					}
				}
				helperCallBlk[b] = true
				if !already {
					for _, mu := range mus {
						hstores = append(hstores, helperStore{h, mu, childP})
					}
				}
			})
		}
		if len(stores)+len(hstores) < 2 {
			r.Bad(rule, n, "child inserted into the parent", p.Pos(rc.Pos()), fmt.Sprintf("expected the singleton store and the list store of the decoded child, found %d", len(stores)+len(hstores)))
			continue
		}
		// (1) every path from the err==nil edge after the call(s) to the next iteration passes one of the stores
		storeBlk := map[*ssa.BasicBlock]bool{}
		for _, mu := range stores {
			storeBlk[mu.Block()] = true
		}
		for b := range helperCallBlk {
			storeBlk[b] = true
		}
		var starts []*ssa.BasicBlock
		for _, c := range selfCalls(fn) {
			ev := errResult(c)
			if ev == nil {
				continue
			}
			// the block reached when err == nil: successor of the If on err
			for _, ref := range *ev.Referrers() {
				if bo, ok := ref.(*ssa.BinOp); ok && (bo.Op == token.NEQ || bo.Op == token.EQL) {
					for _, r2 := range *bo.Referrers() {
						if ifi, ok := r2.(*ssa.If); ok {
							b := ifi.Block()
							if bo.Op == token.NEQ {
								starts = append(starts, b.Succs[1])
							} else {
								starts = append(starts, b.Succs[0])
							}
						}
					}
				}
			}
			// err merged by a phi (two call sites): handled through the phi's referrers
			for _, ref := range *ev.Referrers() {
				if ph, ok := ref.(*ssa.Phi); ok {
					for _, r2 := range *ph.Referrers() {
						if bo, ok := r2.(*ssa.BinOp); ok && (bo.Op == token.NEQ || bo.Op == token.EQL) {
							for _, r3 := range *bo.Referrers() {
								if ifi, ok := r3.(*ssa.If); ok {
									b := ifi.Block()
									if bo.Op == token.NEQ {
										starts = append(starts, b.Succs[1])
									} else {
										starts = append(starts, b.Succs[0])
									}
								}
							}
						}
					}
				}
			}
		}
		if len(starts) == 0 {
			r.Unknown(rule, n, "child inserted on every path", p.Pos(rc.Pos()), "the err == nil continuation of the child decoding call was not found")
			continue
		}
		skipped := ""
		seen := map[*ssa.BasicBlock]bool{}
		work := append([]*ssa.BasicBlock{}, starts...)
		for len(work) > 0 {
			b := work[len(work)-1]
			work = work[:len(work)-1]
			if seen[b] || storeBlk[b] {
				continue
			}
			seen[b] = true
			for _, s := range b.Succs {
				if s == hdr || !body[s] {
					if _, isRet := firstInstr(s).(*ssa.Return); isRet && !body[s] {
						continue
					}
					skipped = p.Pos(firstPos(b))
					continue
				}
				work = append(work, s)
			}
		}
		if skipped == "" {
			r.OK(rule, n, "child inserted on every path", p.Pos(rc.Pos()), "every path from the successful child decoding to the next token passes a store of the child into the parent map")
		} else {
			r.Bad(rule, n, "child inserted on every path", skipped, "a decoded child can be dropped: the next token is read without the child having been stored")
		}
		// (2) the list store appends the child last: value is append(existing..., child)
		okAppend := false
		badAppend := ""
		czs := p.canonFor(fn)
		for _, mu := range stores {
			mi, ok := mu.Value.(*ssa.MakeInterface)
			if !ok {
				continue
			}
			ap, ok := mi.X.(*ssa.Call)
			if !ok {
				continue
			}
			bi, ok := ap.Call.Value.(*ssa.Builtin)
			if !ok || bi.Name() != "append" || !appendsExactlyOne(ap) {
				continue
			}
			// every list store grows the entry found under the very key that is written — not a list remembered from an earlier
			// sibling (state carried from one token to the next)
			sameKey, carriedList := false, false
			for v := range backwardSlice(fn, ap.Call.Args[0]) {
				var lk *ssa.Lookup
				if l2, ok := v.(*ssa.Lookup); ok {
					lk = l2
				}
				if ex, ok := v.(*ssa.Extract); ok {
					if l2, ok := ex.Tuple.(*ssa.Lookup); ok {
						lk = l2
					}
				}
				if lk != nil && lk.X == mu.Map && czs.of(lk.Index) == czs.of(mu.Key) {
					sameKey = true
				}
				if ph, ok := v.(*ssa.Phi); ok && ph.Block() == hdr {
					if _, isSl := ph.Type().Underlying().(*types.Slice); isSl || isEmptyIface(ph.Type()) {
						carriedList = true
					}
				}
			}
			if !sameKey || carriedList {
				badAppend = p.Pos(mu.Pos())
			}
			// base derives from the existing entry (lookup of the parent under the same key), appended element derives from the child
			baseFromLookup := false
			for v := range backwardSlice(fn, ap.Call.Args[0]) {
				if lk, ok := v.(*ssa.Lookup); ok && lk.X == mu.Map {
					baseFromLookup = true
				}
				if ex, ok := v.(*ssa.Extract); ok {
					if lk, ok := ex.Tuple.(*ssa.Lookup); ok && lk.X == mu.Map {
						baseFromLookup = true
					}
				}
			}
			elemFromChild := false
			for _, c := range selfCalls(fn) {
				if res := resultsOf(c); res[0] != nil && backwardSlice(fn, ap.Call.Args[1])[res[0]] {
					elemFromChild = true
				}
			}
			if baseFromLookup && elemFromChild {
				okAppend = true
			}
		}
		// list stores made inside the helper: append(entry found under the key parameter …, child parameter)
		for _, hs := range hstores {
			mi, ok := hs.mu.Value.(*ssa.MakeInterface)
			if !ok {
				continue
			}
			ap, ok := mi.X.(*ssa.Call)
			if !ok || !isBuiltin(ap, "append") || !appendsExactlyOne(ap) {
				continue
			}
			czh := p.canonFor(hs.h)
			sameKey := false
			for v := range backwardSlice(hs.h, ap.Call.Args[0]) {
				var lk *ssa.Lookup
				if l2, ok := v.(*ssa.Lookup); ok {
					lk = l2
				}
				if ex, ok := v.(*ssa.Extract); ok {
					if l2, ok := ex.Tuple.(*ssa.Lookup); ok {
						lk = l2
					}
				}
				if lk != nil && lk.X == hs.mu.Map && czh.of(lk.Index) == czh.of(hs.mu.Key) {
					sameKey = true
				}
			}
			if !sameKey {
				badAppend = p.Pos(hs.mu.Pos())
			} else if backwardSlice(hs.h, ap.Call.Args[1])[hs.child] {
				okAppend = true
			}
		}
		if badAppend != "" {
			r.Bad(rule, n, "repeated siblings appended in document order", badAppend, "the list stored at "+badAppend+" is not grown from the entry found under the key that is written (it comes from another lookup or from a list remembered from an earlier sibling): children end up under the wrong name or are lost")
		} else if okAppend {
			r.OK(rule, n, "repeated siblings appended in document order", p.Pos(rc.Pos()), "existing entry (list or singleton) first, the new child appended last")
		} else {
			r.Bad(rule, n, "repeated siblings appended in document order", p.Pos(rc.Pos()), "the list store is not append(existing entry..., new child)")
		}
	}
}

// ---- WALK.arms (C03) --------------------------------------------------------------------------------------------------

// ruleWalkArms: list members are encoded one by one in ascending order under the same key; collected children are all emitted.
func ruleWalkArms(p *Prog, r *Report, names []string) {
	const rule = "WALK.arms"
	for _, n := range names {
		fn := p.Fn(n)
		if fn == nil {
			r.Anchor(rule, n)
			continue
		}
		var keyP, nodeP *ssa.Parameter
		for _, prm := range fn.Params {
			if isStringType(prm.Type()) && keyP == nil {
				keyP = prm
			}
			if isEmptyIface(prm.Type()) {
				nodeP = prm
			}
		}
		if keyP == nil || nodeP == nil {
			r.Unknown(rule, n, "parameters", p.Pos(fn.Pos()), "key/value parameters not recognised")
			continue
		}
		ki, ni := -1, -1
		for i, prm := range fn.Params {
			if prm == keyP {
				ki = i
			}
			if prm == nodeP {
				ni = i
			}
		}
		listOK, childOK := "", ""
		var listWhy, childWhy string
		calls := p.encodeCalls(fn)
		for _, ec := range calls {
			c := ec.call
			arg := ec.args[ni]
			u, ok := arg.(*ssa.UnOp)
			if !ok {
				continue
			}
			ia, ok := u.X.(*ssa.IndexAddr)
			if !ok {
				continue
			}
			// list arm: &value.([]interface{})[i]
			if isRangeIndex(ia.Index) && assertOfPhi(ia.X, nodeP) {
				if _, isIface := ia.X.Type().Underlying().(*types.Slice).Elem().Underlying().(*types.Interface); isIface {
					hdr := ia.Index.(*ssa.BinOp).X.(*ssa.Phi).Block()
					sameKey := ec.args[ki] == ssa.Value(keyP)
					why := p.callsCoverBody(fn, []*ssa.Call{c}, hdr, nil)
					if sameKey && why == "" {
						listOK = p.Pos(c.Pos())
					} else if !sameKey {
						listWhy = "list members are encoded under a different key"
					} else {
						listWhy = why
					}
				}
			}
			// children: component 1 of the sorted pair list / field v of the keyval list
			if k, isK := constInt(ia.Index); isK && k == 1 {
				childOK = p.Pos(c.Pos())
			}
		}
		// keyval form (sequence encoder): node argument is a field load
		for _, ec := range calls {
			c := ec.call
			arg := ec.args[ni]
			if u, ok := arg.(*ssa.UnOp); ok {
				if fa, ok := u.X.(*ssa.FieldAddr); ok && fieldName(fa.X.Type(), fa.Field) == "v" {
					childOK = p.Pos(c.Pos())
				}
			}
			if f, ok := arg.(*ssa.Field); ok && fieldName(f.X.Type(), f.Field) == "v" {
				childOK = p.Pos(c.Pos())
			}
		}
		if listOK != "" {
			r.OK(rule, n, "every list member encoded in order under the list's key", listOK, "ascending range over the list, recursive call on each member with the same key")
		} else {
			if listWhy == "" {
				listWhy = "no recursive call over the members of a list value"
			}
			r.Bad(rule, n, "every list member encoded in order under the list's key", p.Pos(fn.Pos()), listWhy)
		}
		if childOK != "" {
			// the child loop must cover its body
			var cc []*ssa.Call
			var hdr *ssa.BasicBlock
			for _, ec := range calls {
				c := ec.call
				if p.Pos(c.Pos()) == childOK {
					cc = append(cc, c)
					hdr = innermostLoopHeader(c.Block())
				}
			}
			if hdr != nil {
				if why := p.callsCoverBody(fn, cc, hdr, nil); why != "" {
					childWhy = why
				}
			} else {
				childWhy = "the child encoding call is not in a loop"
			}
			if childWhy == "" {
				r.OK(rule, n, "every collected child encoded", childOK, "recursive call on each collected (key, value) pair, unconditional in the loop over the sorted list")
			} else {
				r.Bad(rule, n, "every collected child encoded", childOK, childWhy)
			}
		} else {
			r.Bad(rule, n, "every collected child encoded", p.Pos(fn.Pos()), "no recursive call over the collected children")
		}
	}
}

// assertOfPhi: v is an assertion of the node parameter or of a phi that merges it (value is re-assigned in the encoders).
func assertOfPhi(v ssa.Value, node ssa.Value) bool {
	var operand ssa.Value
	switch x := v.(type) {
	case *ssa.TypeAssert:
		operand = x.X
	case *ssa.Extract:
		if ta, ok := x.Tuple.(*ssa.TypeAssert); ok && x.Index == 0 {
			operand = ta.X
		}
	}
	if operand == nil {
		return false
	}
	return operand == node || phiChainReachesValue(operand, node)
}

func phiChainReachesValue(v, target ssa.Value) bool {
	seen := map[ssa.Value]bool{}
	var rec func(v ssa.Value) bool
	rec = func(v ssa.Value) bool {
		if v == target {
			return true
		}
		if seen[v] {
			return false
		}
		seen[v] = true
		if ph, ok := v.(*ssa.Phi); ok {
			for _, e := range ph.Edges {
				if rec(e) {
					return true
				}
			}
		}
		return false
	}
	return rec(v)
}

// ruleAnyXmlList: AnyXml/AnyXmlIndent encode every member of a list value.
func ruleAnyXmlList(p *Prog, r *Report) {
	const rule = "WALK.arms"
	enc := p.Fn("mxj.marshalMapToXmlIndent")
	for _, n := range []string{"mxj.AnyXml", "mxj.AnyXmlIndent"} {
		fn := p.Fn(n)
		if fn == nil || enc == nil {
			r.Anchor(rule, n)
			continue
		}
		// calls of the element encoder inside the loop over v.([]interface{})
		var hdr *ssa.BasicBlock
		var calls []*ssa.Call
		loopFn := fn
		encodes := func(c *ssa.Call) bool {
			g := staticCallee(&c.Call)
			return g == enc || (g != nil && p.InModule(g) && !p.Exported(g) && p.alwaysCalls(g, enc, 0))
		}
		eachInstr(fn, func(b *ssa.BasicBlock, in ssa.Instruction) {
			if c, ok := in.(*ssa.Call); ok && encodes(c) {
				if h := outermostRangeOverParam(c.Block(), fn.Params[0]); h != nil {
					hdr = h
					calls = append(calls, c)
				}
			}
		})
		if hdr == nil {
			// the loop over the list may have moved into an unexported helper that is handed v.([]interface{})
			eachInstr(fn, func(b *ssa.BasicBlock, in ssa.Instruction) {
				c, ok := in.(*ssa.Call)
				if !ok || hdr != nil {
					return
				}
				h := staticCallee(&c.Call)
				if h == nil || !p.InModule(h) || p.Exported(h) || len(h.Blocks) == 0 {
					return
				}
				for i, a := range c.Call.Args {
					if i >= len(h.Params) || !assertOf(a, fn.Params[0]) {
						continue
					}
					if _, isSl := a.Type().Underlying().(*types.Slice); !isSl {
						continue
					}
					prm := h.Params[i]
					eachInstr(h, func(b2 *ssa.BasicBlock, i2 ssa.Instruction) {
						ia, ok := i2.(*ssa.IndexAddr)
						if !ok || ia.X != ssa.Value(prm) || !isRangeIndex(ia.Index) {
							return
						}
						hh := ia.Index.(*ssa.BinOp).X.(*ssa.Phi).Block()
						body := naturalLoop(hh)
						eachInstr(h, func(b3 *ssa.BasicBlock, i3 ssa.Instruction) {
							if c3, ok := i3.(*ssa.Call); ok && body[b3] && encodes(c3) {
								hdr, loopFn = hh, h
								calls = append(calls, c3)
							}
						})
					})
				}
			})
		}
		if hdr == nil {
			r.Bad(rule, n, "every list member encoded", p.Pos(fn.Pos()), "no encoder call inside a range over the list value")
			continue
		}
		if why := p.callsCoverBody(loopFn, calls, hdr, nil); why == "" {
			r.OK(rule, n, "every list member encoded", p.Pos(calls[0].Pos()), fmt.Sprintf("%d encoder call sites cover every path through the loop body", len(calls)))
		} else {
			r.Bad(rule, n, "every list member encoded", p.Pos(fn.Pos()), why)
		}
	}
	// ROOT.explicit: AnyXml names the root itself. Where it hands a map to Map.Xml / Map.XmlIndent it passes a root tag: without
	// one those methods choose the root from the map's shape (a single key becomes the root, a single key holding a list of maps
	// yields one top-level element per member) — which is not "exactly one root" for any value.
	for _, n := range []string{"mxj.AnyXml", "mxj.AnyXmlIndent"} {
		fn := p.Fn(n)
		if fn == nil {
			continue
		}
		ord := newOrdinals()
		eachInstr(fn, func(b *ssa.BasicBlock, in ssa.Instruction) {
			c, ok := in.(*ssa.Call)
			if !ok {
				return
			}
			g := staticCallee(&c.Call)
			if g == nil || (p.Name(g) != "mxj.Map.Xml" && p.Name(g) != "mxj.Map.XmlIndent") {
				return
			}
			cons := ord.key(n, "root tag handed to "+p.Name(g))
			last := c.Call.Args[len(c.Call.Args)-1]
			if isNilConst(last) {
				r.Bad("ROOT.explicit", n, cons, p.Pos(c.Pos()), "the map is encoded without a root tag: the document's root then depends on the shape of the map (several top-level elements for a single key holding a list of maps)")
				return
			}
			if sl, ok := last.(*ssa.Slice); ok {
				if al, ok := sl.X.(*ssa.Alloc); ok {
					if at, ok := derefType(al.Type()).Underlying().(*types.Array); ok && at.Len() >= 1 {
						r.OK("ROOT.explicit", n, cons, p.Pos(c.Pos()), "a root tag is passed")
						return
					}
				}
			}
			r.Unknown("ROOT.explicit", n, cons, p.Pos(c.Pos()), "the root tag argument is not a literal list: it may be empty")
		})
	}
}

// alwaysCalls: every path from the entry of h to a return passes a call of target (directly, or through an unexported function
// for which the same holds); a range over a map known to have exactly one entry runs its body.
func (p *Prog) alwaysCalls(h *ssa.Function, target *ssa.Function, depth int) bool {
	if len(h.Blocks) == 0 || depth > 2 {
		return false
	}
	callBlk := map[*ssa.BasicBlock]bool{}
	eachInstr(h, func(b *ssa.BasicBlock, in ssa.Instruction) {
		if c, ok := in.(*ssa.Call); ok {
			g := staticCallee(&c.Call)
			if g == target || (g != nil && g != h && p.InModule(g) && !p.Exported(g) && p.alwaysCalls(g, target, depth+1)) {
				callBlk[b] = true
			}
		}
	})
	if len(callBlk) == 0 {
		return false
	}
	oneIter := map[*ssa.BasicBlock]map[*ssa.BasicBlock]bool{}
	for _, l := range findMapLoops(h) {
		if l.next != nil && p.lenIsOneGuard(l) {
			oneIter[l.header] = l.body
		}
	}
	seen := map[*ssa.BasicBlock]bool{h.Blocks[0]: true}
	work := []*ssa.BasicBlock{h.Blocks[0]}
	for len(work) > 0 {
		b := work[len(work)-1]
		work = work[:len(work)-1]
		if callBlk[b] {
			continue
		}
		if _, ok := b.Instrs[len(b.Instrs)-1].(*ssa.Return); ok {
			return false
		}
		body, single := oneIter[b]
		for _, sc := range b.Succs {
			if single && !body[sc] {
				continue
			}
			if !seen[sc] {
				seen[sc] = true
				work = append(work, sc)
			}
		}
	}
	return true
}

// outermostRangeOverParam: the header of a range loop over an assertion of prm that contains blk.
func outermostRangeOverParam(blk *ssa.BasicBlock, prm ssa.Value) *ssa.BasicBlock {
	fn := blk.Parent()
	var found *ssa.BasicBlock
	eachInstr(fn, func(b *ssa.BasicBlock, in ssa.Instruction) {
		ia, ok := in.(*ssa.IndexAddr)
		if !ok || !isRangeIndex(ia.Index) || !assertOf(ia.X, prm) {
			return
		}
		hdr := ia.Index.(*ssa.BinOp).X.(*ssa.Phi).Block()
		if naturalLoop(hdr)[blk] {
			found = hdr
		}
	})
	return found
}

// exemptKeyGuard: the block is dominated by key == commentK / directiveK / procinstK.
func exemptKeyGuard(cz *canonizer, blk *ssa.BasicBlock) bool {
	for _, g := range dominatingGuards(blk) {
		ng := normGuard(g)
		bo, ok := ng.Cond.(*ssa.BinOp)
		if !ok || (bo.Op != token.EQL && bo.Op != token.NEQ) || (bo.Op == token.EQL) != ng.Pol {
			continue
		}
		for _, side := range []ssa.Value{bo.X, bo.Y} {
			if g := globalOf(side); g != nil && (g.Name() == "commentK" || g.Name() == "directiveK" || g.Name() == "procinstK") {
				return true
			}
		}
	}
	return false
}

// ---- SEQ.cover (C01): every non-list child gets its sequence number under IncludeTagSeqNum -------------------------

// ruleSeqCover: in the Map decoder, on every path through the IncludeTagSeqNum block that does NOT pass a "_seq" map
// write, the child value can only be nil or a list (the documented no-op) — decided with the dynamic type sets on the edges.
func ruleSeqCover(p *Prog, r *Report) {
	const rule = "SEQ.cover"
	fn := p.Fn("mxj.xmlToMapParser")
	g := p.Globals["mxj.includeTagSeqNum"]
	if fn == nil || g == nil {
		r.Anchor(rule, "mxj.xmlToMapParser")
		return
	}
	n := p.Name(fn)
	tf := p.typeFlowOf(fn)
	// the branch on the option
	var optBlk *ssa.BasicBlock
	for _, b := range fn.Blocks {
		if ifi, ok := b.Instrs[len(b.Instrs)-1].(*ssa.If); ok && globalOf(normGuard(guard{ifi.Cond, true}).Cond) == g {
			optBlk = b
		}
	}
	if optBlk == nil {
		r.Bad(rule, n, "sequence numbers under the option", p.Pos(fn.Pos()), "no branch on includeTagSeqNum")
		return
	}
	ifi := optBlk.Instrs[len(optBlk.Instrs)-1].(*ssa.If)
	ng := normGuard(guard{ifi.Cond, true})
	onIdx := 0
	if !ng.Pol {
		onIdx = 1
	}
	start, join := optBlk.Succs[onIdx], optBlk.Succs[1-onIdx]
	// blocks with a "_seq" write
	seqBlk := map[*ssa.BasicBlock]bool{}
	var val ssa.Value
	eachInstr(fn, func(b *ssa.BasicBlock, in ssa.Instruction) {
		if mu, ok := in.(*ssa.MapUpdate); ok {
			if s, ok := constString(mu.Key); ok && s == "_seq" {
				seqBlk[b] = true
			}
		}
	})
	// the switched value: operand of the first comma-ok assertion in the region
	for _, in := range start.Instrs {
		if ta, ok := in.(*ssa.TypeAssert); ok && ta.CommaOk {
			val = ta.X
			break
		}
	}
	if val == nil || len(seqBlk) == 0 {
		r.Unknown(rule, n, "sequence numbers under the option", p.Pos(ifi.Pos()), "type switch on the child value or the _seq writes not found")
		return
	}
	// walk from start to the join avoiding _seq blocks; every edge that reaches the join must carry only nil or list values
	bad := ""
	seen := map[*ssa.BasicBlock]bool{}
	work := []*ssa.BasicBlock{start}
	for len(work) > 0 {
		b := work[len(work)-1]
		work = work[:len(work)-1]
		if seen[b] || seqBlk[b] {
			continue
		}
		seen[b] = true
		for si, s := range b.Succs {
			if s == join {
				// predecessor slot of b in join for this successor index
				slot := -1
				cnt := 0
				for k, pr := range join.Preds {
					if pr == b {
						if cnt == predOrdinal(b, si) {
							slot = k
						}
						cnt++
					}
				}
				ts := tf.setOnEdge(val, b, join, slot)
				okSet := !ts.neg
				if okSet {
					for t := range ts.ts {
						if t != "nil" && t != "[]interface{}" {
							okSet = false
						}
					}
				}
				if !okSet {
					bad = fmt.Sprintf("the edge from block %d (%s) skips the _seq injection with a child value of type set %s", b.Index, p.Pos(firstPos(b)), ts.String())
				}
				continue
			}
			work = append(work, s)
		}
	}
	if bad == "" {
		r.OK(rule, n, "sequence numbers under the option", p.Pos(ifi.Pos()), "every path that skips the _seq write carries only a nil or list child (the documented no-op)")
	} else {
		r.Bad(rule, n, "sequence numbers under the option", p.Pos(ifi.Pos()), bad+": such children get no sequence number and later siblings are misnumbered")
	}
}

// ---- TABLE.castparsers (C14/C01): each cast option guards its documented parser(s) --------------------------------------

func ruleCastParsers(p *Prog, r *Report) {
	const rule = "TABLE.castparsers"
	fn := p.Fn("mxj.cast")
	if fn == nil {
		r.Anchor(rule, "mxj.cast")
		return
	}
	want := map[string][]string{
		"mxj.castToInt":   {"strconv.ParseInt", "strconv.ParseUint"},
		"mxj.castToFloat": {"strconv.ParseFloat"},
		"mxj.castToBool":  {"strconv.ParseBool"},
	}
	for vn, parsers := range want {
		g := p.Globals[vn]
		if g == nil {
			r.Anchor(rule, vn)
			continue
		}
		for _, ps := range parsers {
			found := false
			foreign := ""
			eachInstr(fn, func(b *ssa.BasicBlock, in ssa.Instruction) {
				c, ok := in.(*ssa.Call)
				if !ok || !isCallTo(&c.Call, ps) || c.Call.Args[0] != ssa.Value(fn.Params[0]) {
					return
				}
				for _, gd := range dominatingGuards(b) {
					ng := normGuard(gd)
					if globalOf(ng.Cond) == g && ng.Pol {
						found = true
					}
					if og := globalOf(ng.Cond); og != nil && og != g && castOptionVar(p, og) {
						foreign = og.Name() + " at " + p.Pos(c.Pos())
					}
				}
			})
			// … or in an unexported helper that receives the input
			for _, ch := range p.castHelpers(fn) {
				eachInstr(ch.h, func(b *ssa.BasicBlock, in ssa.Instruction) {
					c, ok := in.(*ssa.Call)
					if !ok || !isCallTo(&c.Call, ps) || c.Call.Args[0] != ssa.Value(ch.prm) {
						return
					}
					for _, gd := range dominatingGuards(b) {
						ng := normGuard(gd)
						if globalOf(ng.Cond) == g && ng.Pol {
							found = true
						}
						if og := globalOf(ng.Cond); og != nil && og != g && castOptionVar(p, og) {
							foreign = og.Name() + " at " + p.Pos(c.Pos())
						}
					}
					for _, gd := range dominatingGuards(ch.site.Block()) {
						ng := normGuard(gd)
						if og := globalOf(ng.Cond); og != nil && og != g && castOptionVar(p, og) {
							foreign = og.Name() + " at " + p.Pos(ch.site.Pos())
						}
					}
					// the option may be tested where the helper is called
					for _, gd := range dominatingGuards(ch.site.Block()) {
						ng := normGuard(gd)
						if globalOf(ng.Cond) == g && ng.Pol {
							found = true
						}
					}
				})
			}
			// the text denotes a decimal number of 64 bits: base 10 (a base of 0 reads "010" as octal), bit size 64
			badArgs := ""
			scanArgs := func(f *ssa.Function) {
				eachInstr(f, func(b *ssa.BasicBlock, in ssa.Instruction) {
					c, ok := in.(*ssa.Call)
					if !ok || !isCallTo(&c.Call, ps) {
						return
					}
					switch ps {
					case "strconv.ParseInt", "strconv.ParseUint":
						if k, isK := constInt(c.Call.Args[1]); !isK || k != 10 {
							badArgs = "base argument at " + p.Pos(c.Pos()) + " is not 10"
						}
						if k, isK := constInt(c.Call.Args[2]); !isK || k != 64 {
							badArgs = "bit size at " + p.Pos(c.Pos()) + " is not 64"
						}
					case "strconv.ParseFloat":
						if k, isK := constInt(c.Call.Args[1]); !isK || k != 64 {
							badArgs = "bit size at " + p.Pos(c.Pos()) + " is not 64"
						}
					}
				})
			}
			scanArgs(fn)
			for _, ch := range p.castHelpers(fn) {
				scanArgs(ch.h)
			}
			if badArgs != "" {
				r.Bad(rule, "mxj.cast", ps+" reads the text as a decimal 64-bit number", p.Pos(fn.Pos()), badArgs+": the number stored is not the one the text denotes (a leading zero would mean octal, a narrower size rounds)")
			} else if found {
				r.OK(rule, "mxj.cast", ps+" reads the text as a decimal 64-bit number", p.Pos(fn.Pos()), "base 10 / 64 bits")
			}
			if foreign != "" {
				r.Bad(rule, "mxj.cast", vn+" alone enables "+ps, p.Pos(fn.Pos()), "the call of "+ps+" is also conditional on another cast switch ("+foreign+"): the switches are documented as independent, so one of them silently disables the other")
			} else if found {
				r.OK(rule, "mxj.cast", vn+" alone enables "+ps, p.Pos(fn.Pos()), "no other cast switch guards the call")
			}
			cons := vn + " enables " + ps
			if found {
				r.OK(rule, "mxj.cast", cons, p.Pos(fn.Pos()), "the parser is applied to the input under the option")
			} else {
				r.Bad(rule, "mxj.cast", cons, p.Pos(fn.Pos()), "documented: int64 or uint64 / float64 / bool — the option does not guard a call of "+ps+" on the input")
			}
		}
	}
}

// castOptionVar: one of the switches that select what cast() converts.
func castOptionVar(p *Prog, g *ssa.Global) bool {
	for _, n := range []string{"mxj.castToInt", "mxj.castToFloat", "mxj.castToBool"} {
		if p.Globals[n] == g {
			return true
		}
	}
	return false
}

// ---- JSON.decoder (C06): every decode of NewMapJson goes through the decoder that honours JsonUseNumber ------------------

func ruleJsonDecoder(p *Prog, r *Report) { ruleJsonDecoderFor([]string{"mxj.NewMapJson"})(p, r) }

// ruleJsonDecoderFor: the same obligation over everything the given JSON entry points reach: a reader or file function that
// decodes on its own (json.Unmarshal, a second Decoder) would ignore JsonUseNumber on that path.
func ruleJsonDecoderFor(roots []string) func(p *Prog, r *Report) {
	return func(p *Prog, r *Report) { jsonDecoderRule(p, r, roots) }
}

func jsonDecoderRule(p *Prog, r *Report, roots []string) {
	const rule = "JSON.decoder"
	fn := p.Fn("mxj.NewMapJson")
	g := p.Globals["mxj.JsonUseNumber"]
	if fn == nil || g == nil {
		r.Anchor(rule, "mxj.NewMapJson")
		return
	}
	var rfs []*ssa.Function
	for _, rn := range roots {
		if f := p.Fn(rn); f != nil {
			rfs = append(rfs, f)
		} else {
			r.Anchor(rule, rn)
		}
	}
	reach := p.Reach(rfs...)
	nDec := 0
	for f := range reach {
		if !p.InModule(f) {
			continue
		}
		eachInstr(f, func(b *ssa.BasicBlock, in ssa.Instruction) {
			c, ok := in.(*ssa.Call)
			if !ok {
				return
			}
			if isCallTo(&c.Call, "encoding/json.Unmarshal") {
				nDec++
				r.Bad(rule, p.Name(f), "decode through the configured decoder", p.Pos(c.Pos()), "json.Unmarshal bypasses the decoder on which UseNumber is applied: with JsonUseNumber numbers lose their exact text on this path")
				return
			}
			if !isCallTo(&c.Call, "(*encoding/json.Decoder).Decode") {
				return
			}
			nDec++
			// a UseNumber call on the same decoder under JsonUseNumber must precede (its block, or the option's join, dominates)
			dec := c.Call.Args[0]
			ok2 := false
			eachInstr(f, func(b2 *ssa.BasicBlock, i2 ssa.Instruction) {
				u, isC := i2.(ssa.CallInstruction)
				if !isC || !isCallTo(u.Common(), "(*encoding/json.Decoder).UseNumber") || u.Common().Args[0] != dec {
					return
				}
				// under the option, and on every path to the Decode the option test was passed
				for _, gd := range dominatingGuards(b2) {
					ng := normGuard(gd)
					if globalOf(ng.Cond) == g && ng.Pol {
						// the block testing the option dominates the Decode
						for _, blk := range f.Blocks {
							if ifi, ok := blk.Instrs[len(blk.Instrs)-1].(*ssa.If); ok && normGuard(guard{ifi.Cond, true}).Cond == ng.Cond && blk.Dominates(c.Block()) {
								ok2 = true
							}
						}
					}
				}
			})
			if ok2 {
				r.OK(rule, p.Name(f), "decode through the configured decoder", p.Pos(c.Pos()), "Decode on a decoder whose UseNumber switch was set under JsonUseNumber on every path")
			} else {
				r.Bad(rule, p.Name(f), "decode through the configured decoder", p.Pos(c.Pos()), "this Decode is reachable without the JsonUseNumber test having configured the decoder")
			}
		})
	}
	if nDec == 0 {
		r.Bad(rule, p.Name(fn), "decode through the configured decoder", p.Pos(fn.Pos()), "no JSON decoding call found")
	}
}

// ---- FWD.pure (C09): an option value is forwarded without depending on package state -------------------------------------

func ruleFwdPure(p *Prog, r *Report, api, callee string) {
	const rule = "FWD.pure"
	fn, cal := p.Fn(api), p.Fn(callee)
	if fn == nil || cal == nil {
		r.Anchor(rule, api+"/"+callee)
		return
	}
	va := variadicParam(fn)
	n := 0
	eachInstr(fn, func(b *ssa.BasicBlock, in ssa.Instruction) {
		c, ok := in.(*ssa.Call)
		if !ok || staticCallee(&c.Call) != cal {
			return
		}
		for i, a := range c.Call.Args {
			if !isBoolType(a.Type()) {
				continue
			}
			infl := p.influence(fn, true, a)
			if va != nil && !infl.params[va] {
				continue
			}
			n++
			cons := fmt.Sprintf("option argument #%d of %s", i, callee)
			other := ""
			for prm := range infl.params {
				if va != nil && prm != va && prm.Parent() == fn {
					other = prm.Name()
				}
			}
			if len(infl.globals) == 0 && other != "" {
				r.Bad(rule, api, cons, p.Pos(c.Pos()), "the option value handed on depends on the parameter '"+other+"' as well: what the caller asked for is overridden for some arguments")
			} else if len(infl.globals) == 0 {
				r.OK(rule, api, cons, p.Pos(c.Pos()), "derived from the caller's option only")
			} else {
				r.Bad(rule, api, cons, p.Pos(c.Pos()), "the option value handed on depends on package state ("+strings.Join(infl.globalNames(), ",")+"): the callee's other uses of the option see a different value than the caller asked for")
			}
		}
	})
	if n == 0 {
		r.Bad(rule, api, "option argument of "+callee, p.Pos(fn.Pos()), "the option is not passed to the walker")
	}
}

// ---- WRAP.exactarg (C12): the paths of a key pair are used exactly as written -------------------------------------------

func ruleNewMapArgs(p *Prog, r *Report) {
	const rule = "WRAP.exactarg"
	fn := p.Fn("mxj.Map.NewMap")
	if fn == nil {
		r.Anchor(rule, "mxj.Map.NewMap")
		return
	}
	n := p.Name(fn)
	// identity-derivation from an element of a strings.Split result of the key pair
	var fromPair func(v ssa.Value, seen map[ssa.Value]bool) bool
	fromPair = func(v ssa.Value, seen map[ssa.Value]bool) bool {
		if seen[v] {
			return true
		}
		seen[v] = true
		switch x := v.(type) {
		case *ssa.Phi:
			for _, e := range x.Edges {
				if !fromPair(e, seen) {
					return false
				}
			}
			return true
		case *ssa.UnOp:
			if ia, ok := x.X.(*ssa.IndexAddr); ok {
				if c, ok := ia.X.(*ssa.Call); ok && isCallTo(&c.Call, "strings.Split") {
					return true
				}
			}
			// the pair itself: "key" is shorthand for "key:key"
			if isPairLoad(fn, x) {
				return true
			}
		case *ssa.Slice:
			// the pair cut at its colon: pair[:i], pair[i+1:] with i = strings.Index(pair, ":")
			if !isPairLoad(fn, x.X) {
				return false
			}
			colon := func(v ssa.Value) bool {
				c, ok := v.(*ssa.Call)
				if !ok || !isCallTo(&c.Call, "strings.Index", "strings.IndexByte", "strings.LastIndex") || c.Call.Args[0] != x.X {
					return false
				}
				if sv, ok := constString(c.Call.Args[1]); ok {
					return sv == ":"
				}
				k, ok := constInt(c.Call.Args[1])
				return ok && k == ':'
			}
			okLow := x.Low == nil
			if bo, ok := x.Low.(*ssa.BinOp); ok && bo.Op == token.ADD && colon(bo.X) {
				if k, isK := constInt(bo.Y); isK && k == 1 {
					okLow = true
				}
			}
			okHigh := x.High == nil || colon(x.High)
			return okLow && okHigh && (x.Low != nil || x.High != nil)
		case *ssa.Extract:
			// a part handed back by an unexported helper that takes the pair apart: every non-constant value it returns
			// in that position is itself such an element
			if c, ok := x.Tuple.(*ssa.Call); ok {
				if h := staticCallee(&c.Call); h != nil && p.InModule(h) && !p.Exported(h) && len(h.Blocks) > 0 {
					okAll, nRet := true, 0
					eachInstr(h, func(b *ssa.BasicBlock, in ssa.Instruction) {
						ret, isR := in.(*ssa.Return)
						if !isR || x.Index >= len(ret.Results) {
							return
						}
						rv := ret.Results[x.Index]
						if _, isC := rv.(*ssa.Const); isC {
							return
						}
						nRet++
						if !fromPair(rv, seen) {
							okAll = false
						}
					})
					return okAll && nRet > 0
				}
			}
		}
		return false
	}
	checked := 0
	eachInstr(fn, func(b *ssa.BasicBlock, in ssa.Instruction) {
		c, ok := in.(*ssa.Call)
		if !ok {
			return
		}
		if g := staticCallee(&c.Call); g != nil && p.Name(g) == "mxj.Map.ValuesForPath" {
			checked++
			if fromPair(c.Call.Args[1], map[ssa.Value]bool{}) {
				r.OK(rule, n, "old path is the pair's old part as written", p.Pos(c.Pos()), "the argument of ValuesForPath is an element of strings.Split(pair, \":\") unmodified")
			} else {
				r.Bad(rule, n, "old path is the pair's old part as written", p.Pos(c.Pos()), "the old path is transformed before the lookup: keys that differ only by the transformation (e.g. surrounding blanks) are confused")
			}
		}
		// the split may have moved into an unexported helper that receives the new part
		if g := staticCallee(&c.Call); g != nil && p.InModule(g) && !p.Exported(g) && len(g.Blocks) > 0 && g != fn {
			eachInstr(g, func(b2 *ssa.BasicBlock, in2 ssa.Instruction) {
				c2, ok := in2.(*ssa.Call)
				if !ok || !isCallTo(&c2.Call, "strings.Split") {
					return
				}
				if sep, ok := constString(c2.Call.Args[1]); !ok || sep != "." {
					return
				}
				for i, prm := range g.Params {
					if c2.Call.Args[0] == ssa.Value(prm) && i < len(c.Call.Args) {
						checked++
						if fromPair(c.Call.Args[i], map[ssa.Value]bool{}) {
							r.OK(rule, n, "new path is the pair's new part as written", p.Pos(c.Pos()), "the new path is split (in "+p.Name(g)+") from an unmodified element of the pair")
						} else {
							r.Bad(rule, n, "new path is the pair's new part as written", p.Pos(c.Pos()), "the new path is transformed before it is split into keys")
						}
					}
				}
			})
		}
		if isCallTo(&c.Call, "strings.Split") {
			if sep, ok := constString(c.Call.Args[1]); ok && sep == "." {
				checked++
				subject := c.Call.Args[0]
				// "ignore a trailing dot in the new key": TrimSuffix(x, ".") before the split is the documented tolerance itself
				if tc, isC := subject.(*ssa.Call); isC && isCallTo(&tc.Call, "strings.TrimSuffix") {
					if sv, isS := constString(tc.Call.Args[1]); isS && sv == "." {
						subject = tc.Call.Args[0]
					}
				}
				if fromPair(subject, map[ssa.Value]bool{}) {
					r.OK(rule, n, "new path is the pair's new part as written", p.Pos(c.Pos()), "the new path is split from an unmodified element of the pair")
				} else {
					r.Bad(rule, n, "new path is the pair's new part as written", p.Pos(c.Pos()), "the new path is transformed before it is split into keys")
				}
			}
		}
	})
	if checked < 2 {
		r.Bad(rule, n, "pair parts located", p.Pos(fn.Pos()), "the lookup of the old path or the split of the new path was not found")
	}
	// what is inserted for a pair is what ValuesForPath yields for its old part — on every path (no second way of looking the
	// old key up, which would not expand a final list into its members or skip an empty one)
	var vfp *ssa.Call
	eachInstr(fn, func(b *ssa.BasicBlock, in ssa.Instruction) {
		if c, ok := in.(*ssa.Call); ok {
			if g := staticCallee(&c.Call); g != nil && p.Name(g) == "mxj.Map.ValuesForPath" {
				vfp = c
			}
		}
	})
	if vfp != nil {
		var fromVFP func(v ssa.Value, seen map[ssa.Value]bool) bool
		fromVFP = func(v ssa.Value, seen map[ssa.Value]bool) bool {
			if seen[v] {
				return true
			}
			seen[v] = true
			switch x := v.(type) {
			case *ssa.Extract:
				return x.Tuple == ssa.Value(vfp) && x.Index == 0
			case *ssa.Phi:
				for _, e := range x.Edges {
					if !fromVFP(e, seen) {
						return false
					}
				}
				return len(x.Edges) > 0
			case *ssa.Call:
				// a copy made by an unexported helper of the values (copyList)
				if h := staticCallee(&x.Call); h != nil && p.InModule(h) && !p.Exported(h) && len(x.Call.Args) == 1 {
					return fromVFP(x.Call.Args[0], seen)
				}
			case *ssa.Slice:
				return x.Low == nil && x.High == nil && fromVFP(x.X, seen)
			}
			return false
		}
		nIns := 0
		eachInstr(fn, func(b *ssa.BasicBlock, in ssa.Instruction) {
			c, ok := in.(*ssa.Call)
			if !ok {
				return
			}
			g := staticCallee(&c.Call)
			if g == nil || !p.InModule(g) || p.Exported(g) {
				return
			}
			// the insertion helper: receives the address of the new map and a list of values
			takesNew := false
			for _, a := range c.Call.Args {
				if pt, ok := a.Type().Underlying().(*types.Pointer); ok && isMapShaped(pt.Elem()) {
					takesNew = true
				}
			}
			if !takesNew {
				return
			}
			for _, a := range c.Call.Args {
				sl, ok := a.Type().Underlying().(*types.Slice)
				if !ok || !isEmptyIface(sl.Elem()) {
					continue
				}
				nIns++
				if fromVFP(a, map[ssa.Value]bool{}) {
					r.OK(rule, n, "inserted values are what ValuesForPath yields", p.Pos(c.Pos()), "the value list handed to "+p.Name(g)+" is the result of ValuesForPath (copied) on every path")
				} else {
					r.Bad(rule, n, "inserted values are what ValuesForPath yields", p.Pos(c.Pos()), "on some path the value list handed to "+p.Name(g)+" is not the result of ValuesForPath for the old part: a key looked up another way is not expanded (a final list stays a list, an empty list is inserted instead of skipped)")
				}
			}
		})
		if nIns == 0 {
			r.Unknown(rule, n, "inserted values are what ValuesForPath yields", p.Pos(fn.Pos()), "the call that inserts the values into the new map was not found")
		}
	}
	// every non-empty pair is validated: the tests that reject a wildcard or an index in the new part lie on every path through
	// one iteration of the loop over the pairs (a pair whose old path yields nothing is skipped only after them)
	// afterColon: the value is the whole pair or what follows its first separator (never only what precedes it)
	var afterColon func(v ssa.Value, d int) bool
	afterColon = func(v ssa.Value, d int) bool {
		if d > 4 {
			return false
		}
		if isPairLoad(fn, v) {
			return true
		}
		switch x := v.(type) {
		case *ssa.Slice:
			return isPairLoad(fn, x.X) && x.Low != nil
		case *ssa.Phi:
			for _, e := range x.Edges {
				if !afterColon(e, d+1) {
					return false
				}
			}
			return len(x.Edges) > 0
		}
		return false
	}
	for _, ch := range []string{"*", "[", ":"} {
		var sites []*ssa.BasicBlock
		isTest := func(cc *ssa.CallCommon, arg0ok func(ssa.Value) bool) bool {
			if ch == ":" {
				// a surplus separator: counted on the whole pair, or searched for in what follows the first one
				if !isCallTo(cc, "strings.Index", "strings.Contains", "strings.ContainsAny", "strings.IndexAny", "strings.IndexByte", "strings.ContainsRune", "strings.IndexRune", "strings.Count", "strings.LastIndex") || len(cc.Args) < 2 {
					return false
				}
				sv, isS := constString(cc.Args[1])
				if !isS {
					if k, isK := constInt(cc.Args[1]); isK && k == ':' {
						sv, isS = ":", true
					}
				}
				if !isS || sv != ":" {
					return false
				}
				if isCallTo(cc, "strings.Count", "strings.LastIndex") {
					return isPairLoad(fn, cc.Args[0])
				}
				if sl, isSl := cc.Args[0].(*ssa.Slice); isSl {
					return isPairLoad(fn, sl.X) && sl.Low != nil
				}
				if ph, isPhi := cc.Args[0].(*ssa.Phi); isPhi {
					return afterColon(ph, 0) && !isPairLoad(fn, ph)
				}
				return false
			}
			if !isCallTo(cc, "strings.Index", "strings.Contains", "strings.ContainsAny", "strings.IndexAny", "strings.IndexByte", "strings.ContainsRune", "strings.IndexRune", "strings.Count") || len(cc.Args) < 2 {
				return false
			}
			if !arg0ok(cc.Args[0]) {
				return false
			}
			if sv, ok := constString(cc.Args[1]); ok {
				return strings.Contains(sv, ch)
			}
			if k, ok := constInt(cc.Args[1]); ok {
				return k == int64(ch[0])
			}
			return false
		}
		eachInstr(fn, func(b *ssa.BasicBlock, in ssa.Instruction) {
			if ch == ":" {
				// len(strings.Split(pair, ":")) compared with a constant
				if bo, isB := in.(*ssa.BinOp); isB {
					for _, side := range []ssa.Value{bo.X, bo.Y} {
						lc, isL := side.(*ssa.Call)
						if !isL || !isBuiltin(lc, "len") {
							continue
						}
						if sc, isS := lc.Call.Args[0].(*ssa.Call); isS && isCallTo(&sc.Call, "strings.Split", "strings.SplitN") && isPairLoad(fn, sc.Call.Args[0]) {
							if sv, okS := constString(sc.Call.Args[1]); okS && sv == ":" {
								sites = append(sites, b)
							}
						}
					}
				}
			}
			c, ok := in.(*ssa.Call)
			if !ok {
				return
			}
			if isTest(&c.Call, func(v ssa.Value) bool { return fromPair(v, map[ssa.Value]bool{}) }) {
				sites = append(sites, b)
				return
			}
			if g := staticCallee(&c.Call); g != nil && p.InModule(g) && !p.Exported(g) && len(g.Blocks) > 0 && g != fn {
				found := false
				if ch == ":" {
					// the helper that takes the pair apart tests for a surplus separator itself
					for i, prm := range g.Params {
						if i < len(c.Call.Args) && isStringType(prm.Type()) && isPairLoad(fn, c.Call.Args[i]) && surplusSeparatorTest(g, prm) {
							found = true
						}
					}
				}
				eachInstr(g, func(b2 *ssa.BasicBlock, in2 ssa.Instruction) {
					c2, ok := in2.(*ssa.Call)
					if !ok || ch == ":" {
						return
					}
					if isTest(&c2.Call, func(v ssa.Value) bool {
						if fromPair(v, map[ssa.Value]bool{}) {
							return true
						}
						for i, prm := range g.Params {
							if v == ssa.Value(prm) && i < len(c.Call.Args) && isStringType(prm.Type()) && fromPair(c.Call.Args[i], map[ssa.Value]bool{}) {
								return true
							}
						}
						return false
					}) {
						found = true
					}
				})
				if found {
					sites = append(sites, b)
				}
			}
		})
		cons := "new part tested for '" + ch + "' in every iteration"
		if ch == ":" {
			cons = "a surplus separator is tested for in every iteration"
		}
		if len(sites) == 0 {
			r.Bad(rule, n, cons, p.Pos(fn.Pos()), "no test of the pair's new part for '"+ch+"' found: malformed pairs are not rejected")
			continue
		}
		hdr := innermostLoopHeader(sites[0])
		if hdr == nil {
			r.Unknown(rule, n, cons, p.Pos(firstPos(sites[0])), "the test is not inside the loop over the pairs")
			continue
		}
		body := naturalLoop(hdr)
		isSite := map[*ssa.BasicBlock]bool{}
		for _, sb := range sites {
			isSite[sb] = true
		}
		seen := map[*ssa.BasicBlock]bool{}
		var work []*ssa.BasicBlock
		for _, sc := range hdr.Succs {
			if body[sc] && sc != hdr {
				seen[sc] = true
				work = append(work, sc)
			}
		}
		bad := ""
		for len(work) > 0 && bad == "" {
			b := work[len(work)-1]
			work = work[:len(work)-1]
			if isSite[b] {
				continue
			}
			skip := -1
			if ifi, ok := b.Instrs[len(b.Instrs)-1].(*ssa.If); ok {
				// the empty pair is skipped as a whole: the edge opposite to the one that establishes "pair non-empty"
				for si := 0; si < 2; si++ {
					if x := nonEmptyGuard(guard{ifi.Cond, si == 0}); x != nil {
						if _, isLoad := x.(*ssa.UnOp); isLoad && (isPairLoad(fn, x) || !fromPair(x, map[ssa.Value]bool{})) {
							skip = 1 - si
						}
					}
				}
			}
			for si, sc := range b.Succs {
				if si == skip {
					continue
				}
				if sc == hdr {
					bad = p.Pos(firstPos(b))
					break
				}
				if !body[sc] || seen[sc] {
					continue // leaving the loop: a return
				}
				seen[sc] = true
				work = append(work, sc)
			}
		}
		if bad == "" {
			r.OK(rule, n, cons, p.Pos(firstPos(sites[0])), "every path through one iteration of the pair loop passes the test (only an empty pair is skipped before it)")
		} else {
			r.Bad(rule, n, cons, bad, "an iteration can go on to the next pair (from "+bad+") without the new part having been tested for '"+ch+"': a malformed pair whose old path yields nothing is silently accepted")
		}
	}
}

// ---- IO.retry (C13): a bounded retry budget for empty reads is restored whenever a byte arrives ---------------------------

func ruleIORetry(p *Prog, r *Report, fns []*ssa.Function) {
	const rule = "IO.retry"
	for _, rs := range p.readSites(fns) {
		if p.isDelegation(rs) || rs.n == nil {
			continue
		}
		fn := rs.fn
		in := rs.call.(ssa.Instruction)
		hdr := innermostLoopHeader(in.Block())
		if hdr == nil {
			continue
		}
		body := naturalLoop(hdr)
		// counters: integer phis of the loop header that are incremented inside the loop
		for _, hin := range hdr.Instrs {
			ph, ok := hin.(*ssa.Phi)
			if !ok {
				break
			}
			if !isIntType(ph.Type()) {
				continue
			}
			isCounter := false
			for i, e := range ph.Edges {
				if body[hdr.Preds[i]] {
					if bo, ok := e.(*ssa.BinOp); ok && bo.Op == token.ADD && phiChainReaches(bo.X, ph) {
						isCounter = true
					}
					if p2, ok := e.(*ssa.Phi); ok {
						for _, e2 := range p2.Edges {
							if bo, ok := e2.(*ssa.BinOp); ok && bo.Op == token.ADD && phiChainReaches(bo.X, ph) {
								isCounter = true
							}
						}
					}
				}
			}
			if !isCounter {
				continue
			}
			// is it a retry budget? compared against a bound on the n == 0 path
			budget := false
			if refs := ph.Referrers(); refs != nil {
				for _, ref := range *refs {
					if bo, ok := ref.(*ssa.BinOp); ok && !nPositiveGuard(rs.n, bo.Block()) {
						for _, r2 := range *bo.Referrers() {
							if b2, ok := r2.(*ssa.BinOp); ok && (b2.Op == token.GEQ || b2.Op == token.GTR || b2.Op == token.LSS || b2.Op == token.LEQ) {
								budget = true
							}
						}
					}
				}
			}
			// for-loop form `for i := 0; i < max; i++`: the loop is left after each byte, so the budget is per call
			if !budget {
				continue
			}
			// every back edge that comes from the n > 0 region must carry the constant 0
			bad := ""
			for i, e := range ph.Edges {
				pred := hdr.Preds[i]
				if !body[pred] {
					continue
				}
				if !nPositiveGuard(rs.n, pred) {
					continue
				}
				if k, ok := constInt(phiValueOnEdgeChain(e)); !ok || k != 0 {
					bad = p.Pos(pred.Instrs[len(pred.Instrs)-1].Pos())
				}
			}
			cons := "retry budget " + ph.Comment + " restored after progress"
			if bad == "" {
				r.OK(rule, p.Name(fn), cons, p.Pos(ph.Pos()), "every path that received a byte returns to the Read with the empty-read counter at zero")
			} else {
				r.Bad(rule, p.Name(fn), cons, bad, "a path on which a byte was received returns to the Read without resetting the empty-read counter: interspersed (0, nil) reads accumulate across bytes and end in a spurious io.ErrNoProgress")
			}
		}
	}
}

// phiValueOnEdgeChain: if v is a phi all of whose edges are the same constant, that constant; otherwise v.
func phiValueOnEdgeChain(v ssa.Value) ssa.Value {
	ph, ok := v.(*ssa.Phi)
	if !ok {
		return v
	}
	var first ssa.Value
	for _, e := range ph.Edges {
		e = phiValueOnEdgeChain(e)
		k, isK := constInt(e)
		if !isK {
			return v
		}
		if first == nil {
			first = e
		} else if k2, _ := constInt(first); k2 != k {
			return v
		}
	}
	if first != nil {
		return first
	}
	return v
}

// isPairLoad: v is an element of the function's variadic string parameter (one "old:new" pair as written by the caller).
func isPairLoad(fn *ssa.Function, v ssa.Value) bool {
	u, ok := v.(*ssa.UnOp)
	if !ok || u.Op != token.MUL {
		return false
	}
	ia, ok := u.X.(*ssa.IndexAddr)
	if !ok {
		return false
	}
	va := variadicParam(fn)
	return va != nil && ia.X == ssa.Value(va) && isStringSlice(va.Type())
}

// surplusSeparatorTest: f tests its string parameter pair for a second ':' — len(strings.Split(pair, ":")) compared, or
// strings.Count / LastIndex on the pair, or a search for ':' in what follows the first one.
func surplusSeparatorTest(f *ssa.Function, pair *ssa.Parameter) bool {
	found := false
	isColon := func(v ssa.Value) bool {
		if sv, ok := constString(v); ok {
			return sv == ":"
		}
		k, ok := constInt(v)
		return ok && k == ':'
	}
	eachInstr(f, func(b *ssa.BasicBlock, in ssa.Instruction) {
		switch x := in.(type) {
		case *ssa.BinOp:
			for _, side := range []ssa.Value{x.X, x.Y} {
				lc, isL := side.(*ssa.Call)
				if !isL || !isBuiltin(lc, "len") {
					continue
				}
				if sc, isS := lc.Call.Args[0].(*ssa.Call); isS && isCallTo(&sc.Call, "strings.Split", "strings.SplitN") && sc.Call.Args[0] == ssa.Value(pair) && isColon(sc.Call.Args[1]) {
					found = true
				}
			}
		case *ssa.Call:
			if isCallTo(&x.Call, "strings.Count", "strings.LastIndex") && x.Call.Args[0] == ssa.Value(pair) && isColon(x.Call.Args[1]) {
				found = true
			}
			if isCallTo(&x.Call, "strings.Index", "strings.Contains", "strings.IndexByte", "strings.ContainsRune") && len(x.Call.Args) > 1 && isColon(x.Call.Args[1]) {
				if sl, isSl := x.Call.Args[0].(*ssa.Slice); isSl && sl.X == ssa.Value(pair) && sl.Low != nil {
					found = true
				}
			}
		}
	})
	return found
}
