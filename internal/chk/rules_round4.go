package chk

import (
	"fmt"
	"go/token"
	"go/types"
	"strings"

	"golang.org/x/tools/go/ssa"
)

// Rules added after the fourth round of seeded changes.

// ITER.fresh (C07) — a loop that builds one record per iteration (a struct allocated in the body) fills the record from the
// current iteration only: no value stored into a field derives from loop-carried state other than the induction variable and the
// result being accumulated. parsePath turning `a[1].b.c` into a[1].b[1].c[1] (index and array flag declared outside the loop and
// left over from the previous segment) is the defect this excludes.
func ruleIterFresh(p *Prog, r *Report, names []string) {
	const rule = "ITER.fresh"
	for _, n := range names {
		fn := p.Fn(n)
		if fn == nil {
			r.Anchor(rule, n)
			continue
		}
		ord := newOrdinals()
		cnt := 0
		eachInstr(fn, func(b *ssa.BasicBlock, in ssa.Instruction) {
			st, ok := in.(*ssa.Store)
			if !ok {
				return
			}
			fa, ok := st.Addr.(*ssa.FieldAddr)
			if !ok {
				return
			}
			al, ok := fa.X.(*ssa.Alloc)
			if !ok {
				return
			}
			hdr := innermostLoopHeader(al.Block())
			if hdr == nil {
				return
			}
			loop := naturalLoop(hdr)
			if !loop[b] {
				return
			}
			cnt++
			construct := ord.key(n, "record field "+fieldName(fa.X.Type(), fa.Field))
			// loop-carried phis in the backward slice of the stored value
			var carried []string
			for v := range backwardSlice(fn, st.Val) {
				ph, isPhi := v.(*ssa.Phi)
				if !isPhi || ph.Block() != hdr {
					continue
				}
				if isInductionPhi(ph) {
					continue
				}
				// state that can survive an iteration: some back edge brings the phi itself (or something computed from it) round again
				self := false
				for i, pr := range hdr.Preds {
					if !hdr.Dominates(pr) {
						continue
					}
					if ph.Edges[i] == ssa.Value(ph) || backwardSlice(fn, ph.Edges[i])[ph] {
						self = true
					}
				}
				if self {
					carried = append(carried, ph.Comment)
				}
			}
			if len(carried) == 0 {
				r.OK(rule, n, construct, p.Pos(st.Pos()), "computed from the current iteration only")
			} else {
				r.Bad(rule, n, construct, p.Pos(st.Pos()), "the value stored in this iteration's record can be left over from an earlier iteration (loop-carried: "+strings.Join(uniq(carried), ", ")+")")
			}
		})
		if cnt == 0 {
			// the record may be built by a helper called once per iteration: then its arguments must be of this iteration only
			eachInstr(fn, func(b *ssa.BasicBlock, in ssa.Instruction) {
				c, ok := in.(*ssa.Call)
				if !ok {
					return
				}
				h := staticCallee(&c.Call)
				if h == nil || !p.InModule(h) || len(h.Blocks) == 0 || h == fn {
					return
				}
				builds := false
				eachInstr(h, func(hb *ssa.BasicBlock, hi ssa.Instruction) {
					if al, ok := hi.(*ssa.Alloc); ok {
						if _, isStruct := derefType(al.Type()).Underlying().(*types.Struct); isStruct {
							builds = true
						}
					}
				})
				hdr := innermostLoopHeader(b)
				if !builds || hdr == nil {
					return
				}
				cnt++
				construct := ord.key(n, "record built by "+p.Name(h))
				var carried []string
				for _, a := range c.Call.Args {
					for v := range backwardSlice(fn, a) {
						ph, isPhi := v.(*ssa.Phi)
						if !isPhi || ph.Block() != hdr || isInductionPhi(ph) {
							continue
						}
						for i, pr := range hdr.Preds {
							if hdr.Dominates(pr) && (ph.Edges[i] == ssa.Value(ph) || backwardSlice(fn, ph.Edges[i])[ph]) {
								carried = append(carried, ph.Comment)
							}
						}
					}
				}
				if len(carried) == 0 {
					r.OK(rule, n, construct, p.Pos(c.Pos()), "the helper gets values of the current iteration only")
				} else {
					r.Bad(rule, n, construct, p.Pos(c.Pos()), "the record is built from a value left over from an earlier iteration (loop-carried: "+strings.Join(uniq(carried), ", ")+")")
				}
			})
		}
		if cnt == 0 {
			r.Unknown(rule, n, "per-iteration records", p.Pos(fn.Pos()), "no record built inside a loop was found")
		}
	}
}

// isInductionPhi: i = phi(c, i ± k), or the index go/ssa introduces for `range`.
func isInductionPhi(ph *ssa.Phi) bool {
	if !isIntType(ph.Type()) {
		return false
	}
	for _, e := range ph.Edges {
		if _, isC := e.(*ssa.Const); isC {
			continue
		}
		bo, ok := e.(*ssa.BinOp)
		if !ok || (bo.Op != token.ADD && bo.Op != token.SUB) || bo.X != ssa.Value(ph) {
			// continue statements route the unchanged increment through other phis
			if q, isPhi := e.(*ssa.Phi); isPhi && isInductionPhiVia(q, ph, map[*ssa.Phi]bool{}) {
				continue
			}
			return false
		}
		if _, isC := bo.Y.(*ssa.Const); !isC {
			return false
		}
	}
	return true
}

func isInductionPhiVia(q, ph *ssa.Phi, seen map[*ssa.Phi]bool) bool {
	if seen[q] {
		return true
	}
	seen[q] = true
	for _, e := range q.Edges {
		switch x := e.(type) {
		case *ssa.BinOp:
			if (x.Op != token.ADD && x.Op != token.SUB) || x.X != ssa.Value(ph) {
				return false
			}
		case *ssa.Phi:
			if x != ph && !isInductionPhiVia(x, ph, seen) {
				return false
			}
		default:
			return false
		}
	}
	return true
}

// PRED.local (C08) — the sub-key predicate says "no" about a map only because one of the conditions fails: every `return false`
// reached after the node was found to be a map lies inside the loop over the conditions. A rejection computed from anything
// else (sizes, for instance: a negated condition is satisfied by an absent key, so a small map can satisfy many conditions)
// filters out nodes that satisfy every condition.
func rulePredLocal(p *Prog, r *Report) {
	const rule = "PRED.local"
	fn := p.Fn("mxj.hasSubKeys")
	if fn == nil {
		r.Anchor(rule, "mxj.hasSubKeys")
		return
	}
	n := p.Name(fn)
	var subP *ssa.Parameter
	var nodeP *ssa.Parameter
	for _, prm := range fn.Params {
		if typeStr(prm.Type()) == "map[string]interface{}" {
			subP = prm
		}
		if isEmptyIface(prm.Type()) {
			nodeP = prm
		}
	}
	if subP == nil || nodeP == nil {
		r.Unknown(rule, n, "parameters", p.Pos(fn.Pos()), "node / condition-map parameters not recognised")
		return
	}
	var body map[*ssa.BasicBlock]bool
	var hdr *ssa.BasicBlock
	for _, l := range findMapLoops(fn) {
		if l.src == ssa.Value(subP) {
			body = l.body
			hdr = l.header
		}
	}
	// "inside the loop": reached over the header's has-next edge (a return leaves the loop, so it is not in the natural loop)
	inLoop := func(b *ssa.BasicBlock) bool {
		if body[b] && b != hdr {
			return true
		}
		if hdr == nil {
			return false
		}
		if _, isIf := hdr.Instrs[len(hdr.Instrs)-1].(*ssa.If); isIf {
			return edgeDominates(hdr, 0, b)
		}
		return false
	}
	if body == nil {
		r.Bad(rule, n, "loop over the conditions", p.Pos(fn.Pos()), "no loop over the sub-key conditions found")
		return
	}
	// the conditions are judged independently of each other: the map of conditions is ranged over in random order, so nothing a
	// condition's test reads may be carried over from the condition visited before it (a flag set for a "!key" condition and not
	// reset makes the conditions after it negated as well — for some iteration orders)
	carried := ""
	for _, in := range hdr.Instrs {
		ph, ok := in.(*ssa.Phi)
		if !ok {
			break
		}
		backVaries := false
		for i, pr := range hdr.Preds {
			if hdr.Dominates(pr) && ph.Edges[i] != ssa.Value(ph) {
				backVaries = true
			}
		}
		if !backVaries || ph.Referrers() == nil {
			continue
		}
		// the carried value and the merges inside the loop that may still hold it
		set := map[ssa.Value]bool{ph: true}
		for changed := true; changed; {
			changed = false
			for v := range set {
				if v.Referrers() == nil {
					continue
				}
				for _, ref := range *v.Referrers() {
					if q, ok := ref.(*ssa.Phi); ok && !set[q] && inLoop(q.Block()) {
						set[q] = true
						changed = true
					}
				}
			}
		}
		for v := range set {
			if v.Referrers() == nil {
				continue
			}
			for _, ref := range *v.Referrers() {
				ri, ok := ref.(ssa.Instruction)
				if !ok || !inLoop(ri.Block()) {
					continue
				}
				switch x := ref.(type) {
				case *ssa.Phi:
					// carried on: not a use
				case *ssa.BinOp:
					// acc = acc && c / acc || c : an accumulator update, not a use in a test
					if x.Op != token.AND && x.Op != token.OR {
						carried = p.Pos(x.Pos())
					}
				case *ssa.DebugRef:
				default:
					carried = p.Pos(ri.Pos())
					if !ri.Pos().IsValid() {
						carried = p.Pos(firstPos(ri.Block()))
					}
				}
			}
		}
	}
	if carried == "" {
		r.OK(rule, n, "conditions judged independently", p.Pos(fn.Pos()), "no value carried from one iteration of the condition loop to the next is read inside the loop")
	} else {
		r.Bad(rule, n, "conditions judged independently", carried, "a value carried over from the previously visited condition is read while the current one is judged (at "+carried+"): the outcome depends on the order in which the conditions are visited, which is random for a map")
	}
	// without conditions everything qualifies, whatever the node is: no `return false` is reachable while len(conditions) == 0
	{
		lenSub := "len(" + p.canonFor(fn).of(subP) + ")"
		badEmpty := ""
		eachInstr(fn, func(b *ssa.BasicBlock, in ssa.Instruction) {
			ret, ok := in.(*ssa.Return)
			if !ok || len(ret.Results) != 1 {
				return
			}
			bv, isC := constBool(ret.Results[0])
			if !isC || bv {
				return
			}
			if inLoop(b) {
				return // inside the loop over the conditions there is at least one
			}
			guarded := false
			for _, g := range expandAndGuards(dominatingGuards(b)) {
				ng := normGuard(g)
				bo, ok := ng.Cond.(*ssa.BinOp)
				if !ok || p.canonFor(fn).of(bo.X) != lenSub {
					continue
				}
				k, isK := constInt(bo.Y)
				if !isK {
					continue
				}
				switch {
				case bo.Op == token.EQL && k == 0 && !ng.Pol, bo.Op == token.NEQ && k == 0 && ng.Pol, bo.Op == token.GTR && k == 0 && ng.Pol, bo.Op == token.GEQ && k == 1 && ng.Pol, bo.Op == token.LSS && k == 1 && !ng.Pol, bo.Op == token.LEQ && k == 0 && !ng.Pol:
					guarded = true
				}
			}
			if !guarded {
				badEmpty = p.Pos(ret.Pos())
			}
		})
		if badEmpty == "" {
			r.OK(rule, n, "no conditions, no rejection", p.Pos(fn.Pos()), "every return of false outside the condition loop is dominated by len(conditions) != 0")
		} else {
			r.Bad(rule, n, "no conditions, no rejection", badEmpty, "the predicate can return false although no condition was given (return at "+badEmpty+"): callers that filter unconditionally through it lose every value that is not a map")
		}
	}
	ord := newOrdinals()
	cnt := 0
	eachInstr(fn, func(b *ssa.BasicBlock, in ssa.Instruction) {
		ret, ok := in.(*ssa.Return)
		if !ok || len(ret.Results) != 1 {
			return
		}
		bv, isC := constBool(ret.Results[0])
		if !isC || bv {
			return
		}
		// under "the node is a map"?
		isMap := false
		for _, g := range dominatingGuards(b) {
			ng := normGuard(g)
			if ex, ok := ng.Cond.(*ssa.Extract); ok && ex.Index == 1 && ng.Pol {
				if ta, ok := ex.Tuple.(*ssa.TypeAssert); ok && typeStr(ta.AssertedType) == "map[string]interface{}" && (ta.X == ssa.Value(nodeP) || phiChainReachesValue(ta.X, nodeP)) {
					isMap = true
				}
			}
		}
		if !isMap {
			return
		}
		cnt++
		construct := ord.key(n, "rejection of a map node")
		if inLoop(b) {
			r.OK(rule, n, construct, p.Pos(ret.Pos()), "inside the loop over the conditions")
		} else {
			r.Bad(rule, n, construct, p.Pos(ret.Pos()), "a map node is rejected outside the loop over the conditions: the answer does not come from a failed condition")
		}
	})
	if cnt == 0 {
		r.Unknown(rule, n, "rejections of a map node", p.Pos(fn.Pos()), "no `return false` under the map test found")
	}
}

// PAIR.seqnum (C01) — IncludeTagSeqNum: the number stored under "_seq" is a running counter of the element's children: it is
// stored and advanced in the same block, and the advanced value is what the next child gets. A number computed from the size of
// the map of children stops counting once two children share a name.
func rulePairSeqNum(p *Prog, r *Report) {
	const rule = "PAIR.seqnum"
	fn := p.Fn("mxj.xmlToMapParser")
	if fn == nil {
		r.Anchor(rule, "mxj.xmlToMapParser")
		return
	}
	n := p.Name(fn)
	ord := newOrdinals()
	cnt := 0
	for _, in := range instrsByPos(fn) {
		mu, ok := in.(*ssa.MapUpdate)
		if !ok {
			continue
		}
		if s, isS := constString(mu.Key); !isS || s != "_seq" {
			continue
		}
		cnt++
		construct := ord.key(n, "tag sequence number store")
		mi, ok := mu.Value.(*ssa.MakeInterface)
		if !ok || !isIntType(mi.X.Type()) {
			r.Bad(rule, n, construct, p.Pos(mu.Pos()), "the value stored under _seq is not an int")
			continue
		}
		S := mi.X
		okInc := false
		for _, i2 := range mu.Block().Instrs {
			if bo, ok := i2.(*ssa.BinOp); ok && bo.Op == token.ADD && bo.X == S {
				if k, isK := constInt(bo.Y); isK && k == 1 && reachesHeaderPhi(bo, S) {
					okInc = true
				}
			}
		}
		if okInc {
			r.OK(rule, n, construct, p.Pos(mu.Pos()), "a loop-carried counter, advanced in the block that stores it")
		} else {
			r.Bad(rule, n, construct, p.Pos(mu.Pos()), "the number stored is not a counter that is advanced with every child: siblings can get the same or a skipped number")
		}
	}
	if cnt < 1 {
		r.Unknown(rule, n, "tag sequence number stores", p.Pos(fn.Pos()), "no store under \"_seq\" found")
	}
}

// ATTR.guard (C09 C02 C01) — "this key is an attribute" means: the attribute prefix is not empty and the key starts with it.
// Every test that a key starts with attrPrefix is taken only where the prefix is known non-empty (len(attrPrefix) > 0 or
// lenAttrPrefix > 0 on the path, directly or through a boolean computed from it): with an empty prefix every key starts with it.
func ruleAttrGuard(p *Prog, r *Report, scope []*ssa.Function, what string) {
	const rule = "ATTR.guard"
	n := 0
	for _, fn := range scope {
		if len(fn.Blocks) == 0 {
			continue
		}
		cz := p.canonFor(fn)
		name := p.Name(fn)
		ord := newOrdinals()
		nonEmptyAtom := func(v ssa.Value, pol bool) bool {
			ng := normGuard(guard{v, pol})
			bo, ok := ng.Cond.(*ssa.BinOp)
			if !ok {
				return false
			}
			c := cz.of(bo)
			// attrPrefix != ""
			if bo.Op == token.EQL || bo.Op == token.NEQ {
				var other ssa.Value
				if cz.of(bo.X) == "load(mxj.attrPrefix)" {
					other = bo.Y
				} else if cz.of(bo.Y) == "load(mxj.attrPrefix)" {
					other = bo.X
				}
				if other != nil {
					if sc, isS := constString(other); isS && sc == "" {
						return (bo.Op == token.NEQ) == ng.Pol
					}
				}
			}
			isLen := strings.Contains(c, "len(load(mxj.attrPrefix))") || strings.Contains(c, "load(mxj.lenAttrPrefix)")
			if !isLen {
				return false
			}
			k, isK := constInt(bo.Y)
			if !isK || k != 0 {
				if k2, isK2 := constInt(bo.X); isK2 && k2 == 0 {
					// 0 < len
					return (bo.Op == token.LSS) == ng.Pol && (bo.Op == token.LSS || bo.Op == token.GEQ)
				}
				return false
			}
			switch bo.Op {
			case token.GTR, token.NEQ:
				return ng.Pol
			case token.EQL, token.LEQ:
				return !ng.Pol
			}
			return false
		}
		// impliesNonEmpty: the boolean v being `pol` implies the prefix is non-empty
		var implies func(v ssa.Value, pol bool, depth int) bool
		implies = func(v ssa.Value, pol bool, depth int) bool {
			if depth > 6 {
				return false
			}
			if nonEmptyAtom(v, pol) {
				return true
			}
			ng := normGuard(guard{v, pol})
			if ph, ok := ng.Cond.(*ssa.Phi); ok && ng.Pol {
				// a && b … as a phi: every edge that can deliver true delivers a value that implies it, and false constants
				if len(ph.Edges) == 0 {
					return false
				}
				some := false
				for i, e := range ph.Edges {
					if b, isC := constBool(e); isC {
						if b {
							// true constant: the edge itself must be under a non-empty test
							pred := ph.Block().Preds[i]
							okEdge := false
							for _, g := range dominatingGuards(pred) {
								if implies(g.Cond, g.Pol, depth+1) {
									okEdge = true
								}
							}
							if ifi, isIf := pred.Instrs[len(pred.Instrs)-1].(*ssa.If); isIf {
								if implies(ifi.Cond, pred.Succs[0] == ph.Block(), depth+1) {
									okEdge = true
								}
							}
							if !okEdge {
								return false
							}
							some = true
						}
						continue
					}
					// a non-constant edge: either it implies the fact itself, or the edge is under the test
					pred := ph.Block().Preds[i]
					okEdge := implies(e, true, depth+1)
					for _, g := range dominatingGuards(pred) {
						if implies(g.Cond, g.Pol, depth+1) {
							okEdge = true
						}
					}
					if !okEdge {
						return false
					}
					some = true
				}
				return some
			}
			// a parameter of an unexported function: every caller passes a value that implies it
			if prm, ok := ng.Cond.(*ssa.Parameter); ok && ng.Pol && !p.Exported(fn) {
				idx := -1
				for i, q := range fn.Params {
					if q == prm {
						idx = i
					}
				}
				sites := p.CG().sites[fn]
				if idx < 0 || len(sites) == 0 {
					return false
				}
				for _, site := range sites {
					caller := site.Parent()
					if caller == fn {
						// recursion passes the parameter on
						if site.Common().Args[idx] == ssa.Value(prm) {
							continue
						}
						return false
					}
					if !p.boolImpliesNonEmptyPrefix(caller, site.Common().Args[idx]) {
						return false
					}
				}
				return true
			}
			return false
		}
		var checkCond func(b *ssa.BasicBlock, condV ssa.Value)
		checkCond = func(b *ssa.BasicBlock, condV ssa.Value) {
			ifi := struct{ Cond ssa.Value }{condV}
			ng := normGuard(guard{ifi.Cond, true})
			c := cz.of(ng.Cond)
			isPrefixTest := false
			switch x := ng.Cond.(type) {
			case *ssa.Call:
				if isCallTo(&x.Call, "strings.HasPrefix") && cz.of(x.Call.Args[1]) == "load(mxj.attrPrefix)" {
					isPrefixTest = true
				}
			case *ssa.BinOp:
				if strings.Contains(c, "strings.Index(") && strings.Contains(c, ",load(mxj.attrPrefix))") && (x.Op == token.EQL || x.Op == token.NEQ) {
					if k, isK := constInt(x.Y); isK && k == 0 {
						isPrefixTest = true
					}
				}
				if (x.Op == token.EQL || x.Op == token.NEQ) && strings.Contains(c, "slice(") && strings.Contains(c, "load(mxj.attrPrefix)") && !strings.Contains(c, "len(") {
					isPrefixTest = true
				}
			}
			if !isPrefixTest {
				return
			}
			n++
			construct := ord.key(name, "attribute prefix test")
			guarded := false
			for _, g := range dominatingGuards(b) {
				if implies(g.Cond, g.Pol, 0) {
					guarded = true
				}
			}
			if guarded {
				r.OK(rule, name, construct, p.Pos(ifi.Cond.Pos()), "taken only where the attribute prefix is known non-empty")
			} else {
				r.Bad(rule, name, construct, p.Pos(ifi.Cond.Pos()), "a key is tested for the attribute prefix where the prefix may be empty: with an empty prefix every key passes the test")
			}
		}
		eachInstr(fn, func(b *ssa.BasicBlock, in ssa.Instruction) {
			// a prefix test used as a branch condition, or handed back by a predicate helper
			switch x := in.(type) {
			case *ssa.If:
				checkCond(b, x.Cond)
			case *ssa.Return:
				if len(x.Results) == 1 && isBoolType(x.Results[0].Type()) {
					// "return prefix != "" && strings.HasPrefix(k, prefix)": the test is an edge of the returned phi, evaluated in its own block
					if ph, ok := x.Results[0].(*ssa.Phi); ok {
						for _, e := range ph.Edges {
							if ei, ok := e.(ssa.Instruction); ok && ei.Block() != nil {
								checkCond(ei.Block(), e)
							}
						}
						return
					}
					checkCond(b, x.Results[0])
				}
			}
		})
	}
	if n == 0 {
		r.Unknown(rule, what, "attribute prefix tests", "", "no test of a key against attrPrefix found in scope")
	}
}

// boolImpliesNonEmptyPrefix: in caller, the boolean argument v can be true only if the prefix is non-empty (v = x && len(attrPrefix) > 0).
func (p *Prog) boolImpliesNonEmptyPrefix(fn *ssa.Function, v ssa.Value) bool {
	cz := p.canonFor(fn)
	if b, isC := constBool(v); isC {
		return !b
	}
	if bo, ok := v.(*ssa.BinOp); ok {
		if bo.Op == token.NEQ {
			if sc, isS := constString(bo.Y); isS && sc == "" && cz.of(bo.X) == "load(mxj.attrPrefix)" {
				return true
			}
			if sc, isS := constString(bo.X); isS && sc == "" && cz.of(bo.Y) == "load(mxj.attrPrefix)" {
				return true
			}
		}
		c := cz.of(bo)
		if strings.Contains(c, "len(load(mxj.attrPrefix))") || strings.Contains(c, "load(mxj.lenAttrPrefix)") {
			if k, isK := constInt(bo.Y); isK && k == 0 && (bo.Op == token.GTR || bo.Op == token.NEQ) {
				return true
			}
		}
		return false
	}
	if ph, ok := v.(*ssa.Phi); ok {
		for i, e := range ph.Edges {
			if b, isC := constBool(e); isC && !b {
				continue
			}
			if p.boolImpliesNonEmptyPrefix(fn, e) {
				continue
			}
			// the edge is taken under the test
			okEdge := false
			pred := ph.Block().Preds[i]
			for _, g := range dominatingGuards(pred) {
				ng := normGuard(g)
				if p.boolImpliesNonEmptyPrefix(fn, ng.Cond) && ng.Pol {
					okEdge = true
				}
			}
			if !okEdge {
				return false
			}
		}
		return true
	}
	return false
}

// IO.nobuffer (C13) — the stream decoders read from the caller's reader exactly what one document needs: the reader is never
// wrapped in something that reads ahead (bufio.NewReader / NewReaderSize / NewScanner, io.ReadAll), because what the wrapper has
// buffered is lost to the caller when decoding stops.
func ruleIoNoBuffer(p *Prog, r *Report, scope []*ssa.Function, what string) {
	const rule = "IO.nobuffer"
	nCalls := 0
	for _, fn := range scope {
		if len(fn.Blocks) == 0 {
			continue
		}
		name := p.Name(fn)
		ord := newOrdinals()
		eachInstr(fn, func(b *ssa.BasicBlock, in ssa.Instruction) {
			ci, ok := in.(ssa.CallInstruction)
			if !ok {
				return
			}
			cm := ci.Common()
			if cm.IsInvoke() {
				return
			}
			nCalls++
			if isCallTo(cm, "bufio.NewReader", "bufio.NewReaderSize", "bufio.NewScanner", "io.ReadAll", "io/ioutil.ReadAll", "bufio.NewReadWriter") {
				r.Bad(rule, name, ord.key(name, "reading ahead"), p.Pos(in.Pos()), "the reader is handed to "+p.calleeName(cm)+", which reads more than the document being decoded: a later read of the same reader misses what was buffered")
			}
		})
	}
	r.OK(rule, what, "no read-ahead wrapper", "", fmt.Sprintf("%d functions reachable from the stream decoders (%d static calls): none wraps a reader in a buffering reader", len(scope), nCalls))
}

// WALK.reentry (C15) — a recursive call that passes the node it was given (no descent) terminates only if the thing that made it
// recurse cannot hold again. The shape in this library: under `seg == "*"` a walker calls itself for every key k of the map with k
// as the new segment and the same map; if a key is literally "*" the call re-enters the same branch with the same arguments:
// unbounded recursion, a fatal stack overflow no recover() can stop. Required: every self call that passes all of its container
// arguments unchanged is dominated by a test that the new value of the guarding parameter differs from the guard's constant.
func ruleWalkReentry(p *Prog, r *Report, fns []*ssa.Function) {
	const rule = "WALK.reentry"
	n := 0
	for _, fn := range fns {
		if len(fn.Blocks) == 0 {
			continue
		}
		name := p.Name(fn)
		ord := newOrdinals()
		for _, c := range selfCalls(fn) {
			// does any container / path argument shrink? (an argument that is not the parameter itself)
			sameNode := true
			var changed []int
			for i, a := range c.Call.Args {
				if i >= len(fn.Params) {
					continue
				}
				prm := fn.Params[i]
				if a == ssa.Value(prm) {
					continue
				}
				switch prm.Type().Underlying().(type) {
				case *types.Basic:
					if isStringType(prm.Type()) {
						changed = append(changed, i)
						continue
					}
				}
				// a different node, slice, map …: the recursion works on something else
				sameNode = false
			}
			if !sameNode || len(changed) == 0 {
				continue
			}
			n++
			construct := ord.key(name, "recursion on the same node")
			okAll := true
			why := ""
			for _, i := range changed {
				prm := fn.Params[i]
				// the guard under which the call happens: prm == C
				var consts []string
				for _, g := range dominatingGuards(c.Block()) {
					ng := normGuard(g)
					bo, ok := ng.Cond.(*ssa.BinOp)
					if !ok || (bo.Op != token.EQL && bo.Op != token.NEQ) || (bo.Op == token.EQL) != ng.Pol {
						continue
					}
					if bo.X == ssa.Value(prm) {
						if sc, isS := constString(bo.Y); isS {
							consts = append(consts, sc)
						}
					} else if bo.Y == ssa.Value(prm) {
						if sc, isS := constString(bo.X); isS {
							consts = append(consts, sc)
						}
					}
				}
				if len(consts) == 0 {
					okAll, why = false, "the call is not under a test of parameter "+prm.Name()+" against a constant: nothing bounds the recursion"
					continue
				}
				arg := c.Call.Args[i]
				for _, cst := range consts {
					if sc, isS := constString(arg); isS && sc != cst {
						continue
					}
					excluded := false
					for _, g := range dominatingGuards(c.Block()) {
						ng := normGuard(g)
						bo, ok := ng.Cond.(*ssa.BinOp)
						if !ok || (bo.Op != token.EQL && bo.Op != token.NEQ) || (bo.Op == token.NEQ) != ng.Pol {
							continue
						}
						if (bo.X == arg && isConstStr(bo.Y, cst)) || (bo.Y == arg && isConstStr(bo.X, cst)) {
							excluded = true
						}
					}
					if !excluded {
						okAll, why = false, fmt.Sprintf("under %s == %q the function calls itself with the same node and a new %s that may again be %q (a key of that name): unbounded recursion, stack overflow", prm.Name(), cst, prm.Name(), cst)
					}
				}
			}
			if okAll {
				r.OK(rule, name, construct, p.Pos(c.Pos()), "the new segment is tested different from the constant that triggers the recursion")
			} else {
				r.Bad(rule, name, construct, p.Pos(c.Pos()), why)
			}
		}
	}
	r.OK(rule, "walkers", "self calls on the same node", "", fmt.Sprintf("%d self-recursive calls that pass their node unchanged examined in %d functions", n, len(fns)))
}

func isConstStr(v ssa.Value, s string) bool {
	sc, ok := constString(v)
	return ok && sc == s
}
