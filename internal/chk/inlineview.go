package chk

import (
	"golang.org/x/tools/go/ssa"
)

// Values across helper boundaries. Several rules about the decoders reason about the maps a function builds. When the
// construction of such a map is moved into a helper (`seqTextMap(text, seq)` returning map{#text: text, #seq: seq}) the rules
// still have to see the entries with the caller's arguments in them. madeMapOf resolves a value to the made map it denotes and
// lists the entries stored into it, each value resolved into the frame of the function the question was asked in.

type mmFrame struct {
	fn     *ssa.Function
	parent *mmFrame
	bind   map[ssa.Value]ssa.Value // Parameter -> argument, a value of parent.fn
}

// mmEntry: one entry stored into a made map: the key's canonical form (keys are loads of the package key variables or constants, so
// the canonical string is the same in every function) and the stored value, with the frame it belongs to.
type mmEntry struct {
	key   string
	val   ssa.Value
	frame *mmFrame
	at    ssa.Instruction
}

type madeMapInfo struct {
	entries []mmEntry
	site    ssa.Instruction // where the map is made
}

// resolveUp: a parameter of a helper frame stands for the argument of the call; follow it up to the outermost frame possible.
func (fr *mmFrame) resolveUp(v ssa.Value) (ssa.Value, *mmFrame) {
	for fr != nil && fr.parent != nil {
		bv, ok := fr.bind[v]
		if !ok {
			break
		}
		v, fr = bv, fr.parent
	}
	return v, fr
}

// madeMapOf: v (a value of fr.fn) is, on every way it can be computed, a map made by the module code at hand — directly, or as
// the result of an unexported helper all of whose returns are such maps. ok=false otherwise.
func (p *Prog) madeMapOf(v ssa.Value, fr *mmFrame, depth int) (*madeMapInfo, bool) {
	if depth > 3 {
		return nil, false
	}
	v, fr = fr.resolveUp(v)
	switch x := v.(type) {
	case *ssa.MakeInterface:
		return p.madeMapOf(x.X, fr, depth)
	case *ssa.ChangeType:
		return p.madeMapOf(x.X, fr, depth)
	case *ssa.MakeMap:
		info := &madeMapInfo{site: x}
		cz := p.canonFor(fr.fn)
		eachInstr(fr.fn, func(b *ssa.BasicBlock, in ssa.Instruction) {
			if mu, ok := in.(*ssa.MapUpdate); ok && mu.Map == ssa.Value(x) {
				info.entries = append(info.entries, mmEntry{key: cz.of(mu.Key), val: mu.Value, frame: fr, at: in})
			}
		})
		return info, true
	case *ssa.Call:
		h := staticCallee(&x.Call)
		if h == nil || !p.InModule(h) || len(h.Blocks) == 0 || p.Exported(h) {
			return nil, false
		}
		for f := fr; f != nil; f = f.parent {
			if f.fn == h {
				return nil, false // recursion
			}
		}
		sub := &mmFrame{fn: h, parent: fr, bind: map[ssa.Value]ssa.Value{}}
		for i, prm := range h.Params {
			if i < len(x.Call.Args) {
				sub.bind[prm] = x.Call.Args[i]
			}
		}
		var merged *madeMapInfo
		okAll, n := true, 0
		eachInstr(h, func(b *ssa.BasicBlock, in ssa.Instruction) {
			ret, isRet := in.(*ssa.Return)
			if !isRet || len(ret.Results) == 0 {
				return
			}
			n++
			info, ok := p.madeMapOf(ret.Results[0], sub, depth+1)
			if !ok {
				okAll = false
				return
			}
			if merged == nil {
				merged = &madeMapInfo{site: x}
			}
			merged.entries = append(merged.entries, info.entries...)
		})
		if !okAll || n == 0 || merged == nil {
			return nil, false
		}
		return merged, true
	}
	return nil, false
}

// entryValue: the stored value of an entry, resolved as far up the frames as parameters allow.
func (e mmEntry) value() (ssa.Value, *mmFrame) {
	return e.frame.resolveUp(e.val)
}
