package chk

import (
	"fmt"
	"go/token"
	"go/types"
	"sort"
	"strings"

	"golang.org/x/tools/go/ssa"
)

// Rules added after round 13 of seeded changes.

// ---- TEXT.trimset (C01, C04) ---------------------------------------------------------------------------------------------------------------

// ruleTextTrimSet: the decoders trim character data with the cut set the option DisableTrimWhiteSpace maintains (trimRunes) and
// with nothing else. A standard-library trimming function applied to character data with another notion of white space
// (strings.TrimSpace and strings.Fields use Unicode's, a constant cut set ignores the option) removes characters the document's
// text consists of — a no-break space is text, not padding.
func ruleTextTrimSet(p *Prog, r *Report, decoders []string) {
	const rule = "TEXT.trimset"
	tr := p.Globals["mxj.trimRunes"]
	if tr == nil {
		// no cached cut set: the cut set must then be computed from the option's flag
		tr = p.Globals["mxj.disableTrimWhiteSpace"]
	}
	if tr == nil {
		r.Anchor(rule, "mxj.trimRunes")
		return
	}
	for _, n := range decoders {
		fn := p.Fn(n)
		if fn == nil {
			r.Anchor(rule, n)
			continue
		}
		scope := []*ssa.Function{fn}
		seen := map[*ssa.Function]bool{fn: true}
		for i := 0; i < len(scope) && i < 12; i++ {
			eachInstr(scope[i], func(b *ssa.BasicBlock, in ssa.Instruction) {
				if c, ok := in.(ssa.CallInstruction); ok {
					if h := staticCallee(c.Common()); h != nil && p.InModule(h) && !p.Exported(h) && len(h.Blocks) > 0 && !seen[h] && h.Parent() == nil {
						seen[h] = true
						scope = append(scope, h)
					}
				}
			})
		}
		nTrim, bad := 0, ""
		var assumed []string
		for _, f := range scope {
			eachInstr(f, func(b *ssa.BasicBlock, in ssa.Instruction) {
				c, ok := in.(*ssa.Call)
				if !ok || bad != "" {
					return
				}
				if !isCallTo(&c.Call, "strings.TrimSpace", "strings.Trim", "strings.TrimLeft", "strings.TrimRight", "strings.Fields", "strings.TrimFunc",
					"strings.TrimLeftFunc", "strings.TrimRightFunc", "bytes.TrimSpace", "bytes.Trim", "bytes.TrimLeft", "bytes.TrimRight", "bytes.Fields") {
					return
				}
				if !p.fromCharData(f, c.Call.Args[0], 0) {
					return
				}
				nm := p.calleeName(&c.Call)
				switch {
				case strings.HasSuffix(nm, "Func"):
					assumed = append(assumed, p.Pos(c.Pos()))
				case strings.HasSuffix(nm, "TrimSpace") || strings.HasSuffix(nm, "Fields"):
					bad = "character data goes through " + nm + " at " + p.Pos(c.Pos()) + ": Unicode white space (no-break space, …) that is part of the text is removed, and DisableTrimWhiteSpace is not honoured"
				default:
					nTrim++
					cut := c.Call.Args[1]
					if cv, isConv := cut.(*ssa.Convert); isConv {
						cut = cv.X
					}
					if globalOf(cut) != tr && !p.influence(f, true, cut).globals[tr] && !p.blockInfluence(f, c).globals[tr] {
						bad = "character data is trimmed at " + p.Pos(c.Pos()) + " with a cut set that is not the one DisableTrimWhiteSpace maintains (trimRunes)"
					}
				}
			})
		}
		cons := "character data trimmed with the option's cut set only"
		switch {
		case bad != "":
			r.Bad(rule, n, cons, p.Pos(fn.Pos()), bad)
		case len(assumed) > 0:
			r.Assume(rule, n, cons, assumed[0], "character data is trimmed with a predicate function; which characters it removes is not decided")
		case nTrim == 0:
			r.Assume(rule, n, cons, p.Pos(fn.Pos()), "no standard-library trimming call on character data found: how the text is trimmed is not decided here")
		default:
			r.OK(rule, n, cons, p.Pos(fn.Pos()), fmt.Sprintf("%d trimming call(s) on character data in the decoder and its helpers, each with the cut set trimRunes", nTrim))
		}
	}
}

// ---- ESC.verbatim (C04) --------------------------------------------------------------------------------------------------------------------

// ruleEscVerbatim: comments, directives and processing instructions are markup the decoder hands over verbatim; the sequence
// encoder writes them back without escaping. Inside the arms of the encoder that are entered under `key == commentK`,
// `key == directiveK` or `key == procinstK` nothing calls escapeChars, directly or through a helper.
func ruleEscVerbatim(p *Prog, r *Report) {
	const rule = "ESC.verbatim"
	fn := p.Fn("mxj.mapToXmlSeqIndent")
	esc := p.Fn("mxj.escapeChars")
	if fn == nil || esc == nil {
		r.Anchor(rule, "mxj.mapToXmlSeqIndent")
		return
	}
	keys := map[*ssa.Global]string{}
	for _, gn := range []string{"mxj.commentK", "mxj.directiveK", "mxj.procinstK"} {
		if g := p.Globals[gn]; g != nil {
			keys[g] = gn
		} else {
			r.Anchor(rule, gn)
		}
	}
	reachesEsc := func(h *ssa.Function) bool {
		if h == esc {
			return true
		}
		if !p.InModule(h) {
			return false
		}
		return p.Reach(h)[esc]
	}
	nArms, bad := 0, ""
	arms := map[string]bool{}
	for _, b := range fn.Blocks {
		arm := ""
		for _, g := range dominatingGuards(b) {
			ng := normGuard(g)
			bo, ok := ng.Cond.(*ssa.BinOp)
			if !ok || !((bo.Op == token.EQL && ng.Pol) || (bo.Op == token.NEQ && !ng.Pol)) {
				continue
			}
			for _, side := range []ssa.Value{bo.X, bo.Y} {
				if gl := globalOf(side); gl != nil && keys[gl] != "" {
					arm = keys[gl]
				}
			}
		}
		if arm == "" {
			continue
		}
		arms[arm] = true
		for _, in := range b.Instrs {
			c, ok := in.(ssa.CallInstruction)
			if !ok {
				continue
			}
			if h := staticCallee(c.Common()); h != nil && h != fn && reachesEsc(h) && bad == "" {
				bad = "in the arm entered under key == " + strings.TrimPrefix(arm, "mxj.") + " the call of " + p.Name(h) + " at " + p.Pos(c.Pos()) + " can escape the text: comments, directives and processing instructions are written back changed when XMLEscapeChars is on"
			}
		}
	}
	nArms = len(arms)
	cons := "markup items are written verbatim"
	switch {
	case bad != "":
		r.Bad(rule, p.Name(fn), cons, p.Pos(fn.Pos()), bad)
	case nArms == 0:
		r.Assume(rule, p.Name(fn), cons, p.Pos(fn.Pos()), "no arm guarded by a comparison of the key with the comment / directive / instruction keys found in the encoder: not decided here")
	default:
		var an []string
		for a := range arms {
			an = append(an, strings.TrimPrefix(a, "mxj."))
		}
		sort.Strings(an)
		r.OK(rule, p.Name(fn), cons, p.Pos(fn.Pos()), "no call that reaches escapeChars inside the arms for "+strings.Join(an, ", "))
	}
}

// ---- JSON.emptyonly, JSON.once (C06) -------------------------------------------------------------------------------------------------------

// ruleJsonFirstValue: NewMapJson accepts exactly what encoding/json accepts and returns its first value. (a) The only input for
// which it answers without consulting the decoder is the empty one: every return of a nil error that no decoding call precedes is
// dominated by len(input) == 0. (b) The decoder is asked for one value: no Decode / Unmarshal call lies in a loop or after another.
func ruleJsonFirstValue(p *Prog, r *Report) {
	const rule = "JSON.firstvalue"
	fn := p.Fn("mxj.NewMapJson")
	if fn == nil || len(fn.Params) == 0 {
		r.Anchor(rule, "mxj.NewMapJson")
		return
	}
	isDecode := func(c *ssa.CallCommon) bool {
		return isCallTo(c, "(*encoding/json.Decoder).Decode", "encoding/json.Unmarshal")
	}
	var reachDecode func(h *ssa.Function, d int) bool
	reachDecode = func(h *ssa.Function, d int) bool {
		found := false
		eachInstr(h, func(b *ssa.BasicBlock, in ssa.Instruction) {
			c, ok := in.(ssa.CallInstruction)
			if !ok || found {
				return
			}
			if isDecode(c.Common()) {
				found = true
				return
			}
			if g := staticCallee(c.Common()); g != nil && g != h && p.InModule(g) && !p.Exported(g) && len(g.Blocks) > 0 && d < 3 && reachDecode(g, d+1) {
				found = true
			}
		})
		return found
	}
	decBlk := map[*ssa.BasicBlock]bool{}
	eachInstr(fn, func(b *ssa.BasicBlock, in ssa.Instruction) {
		c, ok := in.(ssa.CallInstruction)
		if !ok {
			return
		}
		if isDecode(c.Common()) {
			decBlk[b] = true
		} else if g := staticCallee(c.Common()); g != nil && p.InModule(g) && !p.Exported(g) && len(g.Blocks) > 0 && reachDecode(g, 0) {
			decBlk[b] = true
		}
	})
	if len(decBlk) == 0 {
		r.Unknown(rule, p.Name(fn), "decoding call", p.Pos(fn.Pos()), "no call of the JSON decoder found in or below NewMapJson")
		return
	}
	// (a)
	cz := p.canonFor(fn)
	want := "len(" + cz.of(fn.Params[0]) + ")"
	nShort, bad := 0, ""
	seen := map[*ssa.BasicBlock]bool{fn.Blocks[0]: true}
	work := []*ssa.BasicBlock{fn.Blocks[0]}
	for len(work) > 0 {
		b := work[len(work)-1]
		work = work[:len(work)-1]
		if decBlk[b] {
			continue
		}
		if ret, ok := b.Instrs[len(b.Instrs)-1].(*ssa.Return); ok {
			if len(ret.Results) == 2 && isNilConst(ret.Results[1]) {
				nShort++
				okEmpty := false
				for _, g := range expandAndGuards(dominatingGuards(b)) {
					ng := normGuard(g)
					bo, isB := ng.Cond.(*ssa.BinOp)
					if !isB || cz.of(bo.X) != want {
						continue
					}
					k, isK := constInt(bo.Y)
					if !isK {
						continue
					}
					switch {
					case bo.Op == token.EQL && k == 0 && ng.Pol, bo.Op == token.NEQ && k == 0 && !ng.Pol,
						bo.Op == token.GTR && k == 0 && !ng.Pol, bo.Op == token.LSS && k == 1 && ng.Pol,
						bo.Op == token.GEQ && k == 1 && !ng.Pol, bo.Op == token.LEQ && k == 0 && ng.Pol:
						okEmpty = true
					}
				}
				if !okEmpty && bad == "" {
					bad = p.Pos(ret.Pos())
				}
			}
			continue
		}
		for _, sc := range b.Succs {
			if !seen[sc] {
				seen[sc] = true
				work = append(work, sc)
			}
		}
	}
	if bad == "" {
		r.OK(rule, p.Name(fn), "only the empty input is answered without the decoder", p.Pos(fn.Pos()), fmt.Sprintf("%d return(s) of a nil error that no decoding call precedes, each dominated by len(input) == 0", nShort))
	} else {
		r.Bad(rule, p.Name(fn), "only the empty input is answered without the decoder", bad, "the return at "+bad+" reports success without the decoder having seen the input, on a path that is not restricted to the empty input: inputs encoding/json rejects are accepted")
	}
	// (b) in NewMapJson and the unexported helpers it reaches the decoder through
	scope := []*ssa.Function{fn}
	sseen := map[*ssa.Function]bool{fn: true}
	for i := 0; i < len(scope) && i < 8; i++ {
		eachInstr(scope[i], func(b *ssa.BasicBlock, in ssa.Instruction) {
			if c, ok := in.(ssa.CallInstruction); ok {
				if g := staticCallee(c.Common()); g != nil && p.InModule(g) && !p.Exported(g) && len(g.Blocks) > 0 && !sseen[g] && reachDecode(g, 0) {
					sseen[g] = true
					scope = append(scope, g)
				}
			}
		})
	}
	nDec, again := 0, ""
	for _, f := range scope {
		dblk := map[*ssa.BasicBlock]int{}
		eachInstr(f, func(b *ssa.BasicBlock, in ssa.Instruction) {
			if c, ok := in.(ssa.CallInstruction); ok && isDecode(c.Common()) {
				dblk[b]++
				nDec++
				if dblk[b] > 1 && again == "" {
					again = p.Pos(in.Pos())
				}
			}
		})
		for b := range dblk {
			for sc := range reachableFromSuccs(b) {
				if dblk[sc] > 0 && again == "" {
					again = p.Pos(firstPos(sc))
				}
			}
		}
	}
	// (c) what the decoder reports is what the caller gets: after the Decode call a nil error is returned only where the
	// decoder's error was tested nil (io.EOF from Decode means "no value at all", which encoding/json rejects)
	cleared, nRet := "", 0
	for _, f := range scope {
		eachInstr(f, func(b *ssa.BasicBlock, in ssa.Instruction) {
			c, ok := in.(ssa.CallInstruction)
			if !ok || !isDecode(c.Common()) {
				return
			}
			E := errResult(c)
			if E == nil {
				return
			}
			after := reachableFromSuccs(c.Block())
			after[c.Block()] = true
			for rb := range after {
				ret, isRet := rb.Instrs[len(rb.Instrs)-1].(*ssa.Return)
				if !isRet || len(ret.Results) == 0 {
					continue
				}
				rv := ret.Results[len(ret.Results)-1]
				if !isErrorType(rv.Type()) {
					continue
				}
				nRet++
				var judge func(v ssa.Value, at *ssa.BasicBlock, extra []guard, d int)
				judge = func(v ssa.Value, at *ssa.BasicBlock, extra []guard, d int) {
					if v == E || d > 4 {
						return
					}
					if isNilConst(v) {
						okNil := errCheckedBefore(E, at)
						for _, g := range extra {
							ng := normGuard(g)
							if bo, isB := ng.Cond.(*ssa.BinOp); isB && (bo.X == E && isNilConst(bo.Y) || bo.Y == E && isNilConst(bo.X)) {
								if (bo.Op == token.EQL) == ng.Pol {
									okNil = true
								}
							}
						}
						if !okNil && !decBlkBefore(c.Block(), at) {
							return // a path that does not come from the Decode call
						}
						if !okNil && cleared == "" {
							cleared = p.Pos(ret.Pos())
						}
						return
					}
					if ph, isPhi := v.(*ssa.Phi); isPhi {
						for i, e := range ph.Edges {
							pred := ph.Block().Preds[i]
							var ex []guard
							if ifi, isIf := pred.Instrs[len(pred.Instrs)-1].(*ssa.If); isIf && pred.Succs[0] != pred.Succs[1] {
								ex = append(ex, guard{ifi.Cond, pred.Succs[0] == ph.Block()})
							}
							judge(e, pred, ex, d+1)
						}
					}
				}
				judge(rv, rb, nil, 0)
			}
		})
	}
	if cleared != "" {
		r.Bad(rule, p.Name(fn), "the decoder's error is what is returned", cleared, "after the Decode call the return at "+cleared+" can report success although the decoder's error was not nil on that path: input without any JSON value (io.EOF) or otherwise rejected by encoding/json is accepted")
	} else {
		r.OK(rule, p.Name(fn), "the decoder's error is what is returned", p.Pos(fn.Pos()), fmt.Sprintf("%d return(s) after the Decode call hand back its error, or nil only where it was tested nil", nRet))
	}
	if again == "" {
		r.OK(rule, p.Name(fn), "the decoder is asked for one value", p.Pos(fn.Pos()), fmt.Sprintf("%d Decode / Unmarshal call(s), none in a loop, none after another", nDec))
	} else {
		r.Bad(rule, p.Name(fn), "the decoder is asked for one value", again, "a Decode call at "+again+" can run after another one on the same input: values after the first are merged into the Map (or make a valid first value fail)")
	}
}

// ---- LEAF.attrfilter (C09) -----------------------------------------------------------------------------------------------------------------

// ruleLeafAttrFilter: the no-attributes option removes attribute entries wherever they sit. Every loop over the members of a map
// in LeafNodes and the functions below it that hands a member's key on to the leaf walker does so under a test that depends on
// that key and on the attribute prefix (the skip of attribute keys); a loop that walks members without it lets the attributes of
// that level through.
func ruleLeafAttrFilter(p *Prog, r *Report) {
	const rule = "LEAF.attrfilter"
	api, walker := p.Fn("mxj.Map.LeafNodes"), p.Fn("mxj.getLeafNodes")
	if api == nil || walker == nil {
		r.Anchor(rule, "mxj.Map.LeafNodes/mxj.getLeafNodes")
		return
	}
	ap, lap := p.Globals["mxj.attrPrefix"], p.Globals["mxj.lenAttrPrefix"]
	scope := []*ssa.Function{api}
	seen := map[*ssa.Function]bool{api: true}
	for i := 0; i < len(scope) && i < 12; i++ {
		eachInstr(scope[i], func(b *ssa.BasicBlock, in ssa.Instruction) {
			if c, ok := in.(ssa.CallInstruction); ok {
				if h := staticCallee(c.Common()); h != nil && p.InModule(h) && !p.Exported(h) && len(h.Blocks) > 0 && !seen[h] {
					seen[h] = true
					scope = append(scope, h)
				}
			}
		})
	}
	inScope := func(h *ssa.Function) bool { return h != nil && seen[h] && h != api }
	nLoops, bad := 0, ""
	for _, f := range scope {
		for _, l := range findMapLoops(f) {
			if l.next == nil {
				continue
			}
			var key ssa.Value
			for _, ref := range *l.next.Referrers() {
				if ex, ok := ref.(*ssa.Extract); ok && ex.Index == 1 {
					key = ex
				}
			}
			if key == nil || !isStringType(key.Type()) {
				continue
			}
			for b := range l.body {
				for _, in := range b.Instrs {
					c, ok := in.(ssa.CallInstruction)
					if !ok || !inScope(staticCallee(c.Common())) {
						continue
					}
					usesKey := false
					for _, a := range c.Common().Args {
						if isStringType(a.Type()) && backwardSlice(f, a)[key] {
							usesKey = true
						}
					}
					if !usesKey {
						continue
					}
					nLoops++
					// a test inside the body that depends on the key and on the attribute prefix, one outcome of which leads back to the
					// loop header without passing this call
					filtered := false
					for x := range l.body {
						ifi, isIf := x.Instrs[len(x.Instrs)-1].(*ssa.If)
						if !isIf || x == l.header {
							continue
						}
						infl := p.influence(f, false, ifi.Cond)
						if !infl.values[key] || !(infl.globals[ap] || (lap != nil && infl.globals[lap])) {
							continue
						}
						for _, sc := range x.Succs {
							// reach the header from sc inside the body without entering b
							seenB := map[*ssa.BasicBlock]bool{}
							stack := []*ssa.BasicBlock{sc}
							for len(stack) > 0 && !filtered {
								y := stack[len(stack)-1]
								stack = stack[:len(stack)-1]
								if y == l.header {
									filtered = true
									break
								}
								if seenB[y] || y == b || !l.body[y] {
									continue
								}
								seenB[y] = true
								stack = append(stack, y.Succs...)
							}
						}
					}
					if !filtered && bad == "" {
						bad = "the member loop at " + p.Pos(l.pos) + " in " + p.Name(f) + " hands every key on to " + p.Name(staticCallee(c.Common())) + " (" + p.Pos(in.Pos()) + ") without a test of the key against the attribute prefix: with the no-attributes option the attribute entries of that level are still listed"
					}
				}
			}
		}
	}
	cons := "member loops that walk on test the key against the attribute prefix"
	switch {
	case bad != "":
		r.Bad(rule, p.Name(api), cons, p.Pos(api.Pos()), bad)
	case nLoops == 0:
		r.Assume(rule, p.Name(api), cons, p.Pos(api.Pos()), "no loop over map members that passes the key to the walker found below LeafNodes: not decided here")
	default:
		r.OK(rule, p.Name(api), cons, p.Pos(api.Pos()), fmt.Sprintf("%d walker call(s) inside member loops, each under a test that depends on the key and on the attribute prefix", nLoops))
	}
}

var _ = types.Typ

// ---- OPT.callers (C17, C18) ----------------------------------------------------------------------------------------------------------------

// ruleOptCallers: the option setters are the user's interface to the package state; the library itself never calls one, except a
// setter delegating to another setter (PrependAttrWithHyphen → SetAttrPrefix, XMLEscapeCharsDecoder → XMLEscapeChars). A decoder
// or encoder that switches an option for the duration of its own work (and "restores" it) changes what concurrent and later
// calls see.
func ruleOptCallers(p *Prog, r *Report) {
	const rule = "OPT.callers"
	cg := p.CG()
	n, bad := 0, ""
	for _, sn := range grpSetters {
		fn := p.Fn(sn)
		if fn == nil {
			continue
		}
		n++
		for _, site := range cg.sites[fn] {
			caller := site.Parent()
			if caller == nil || !p.InModule(caller) {
				continue
			}
			root := caller
			for root.Parent() != nil {
				root = root.Parent()
			}
			if p.isSetter(root) || (root.Name() == "init" && root.Synthetic != "") {
				continue
			}
			if bad == "" {
				bad = p.Name(root) + " calls " + sn + " at " + p.Pos(site.Pos())
			}
		}
	}
	cons := "setters are called by the user only"
	switch {
	case n == 0:
		r.Unknown(rule, "mxj", cons, "", "no option setter found")
	case bad != "":
		r.Bad(rule, "mxj", cons, "", bad+": a library function changes package options while it runs, which other goroutines and later calls observe")
	default:
		r.OK(rule, "mxj", cons, "", fmt.Sprintf("%d setters, called from no module function other than another setter", n))
	}
}

// ---- TABLE.trimset (C01, C02, C18) ---------------------------------------------------------------------------------------------------------

// ruleTableTrimSet: DisableTrimWhiteSpace chooses between two cut sets that differ by the blank only: with the option on, blanks
// are kept and nothing else changes — tab, carriage return and newline, which the indented encoders write between elements, are
// trimmed in both states. Stated over the constants stored to trimRunes (initial value included).
func ruleTableTrimSet(p *Prog, r *Report) {
	const rule = "TABLE.trimset"
	g := p.Globals["mxj.trimRunes"]
	if g == nil {
		if p.Globals["mxj.disableTrimWhiteSpace"] != nil {
			r.Assume(rule, "mxj.trimRunes", "the two cut sets differ by the blank only", "", "there is no cut-set variable: the sets are chosen where the text is trimmed and are not compared here")
			return
		}
		r.Anchor(rule, "mxj.trimRunes")
		return
	}
	sets := map[string]string{} // canonical rune set → where
	unknown := ""
	var all []*ssa.Function
	all = append(all, p.FuncList...)
	for _, sp := range p.SPkgs {
		if ini := sp.Func("init"); ini != nil {
			all = append(all, ini)
		}
	}
	for _, f := range all {
		eachInstr(f, func(b *ssa.BasicBlock, in ssa.Instruction) {
			st, ok := in.(*ssa.Store)
			if !ok || st.Addr != ssa.Value(g) {
				return
			}
			vals := []ssa.Value{st.Val}
			if ph, isPhi := st.Val.(*ssa.Phi); isPhi {
				vals = ph.Edges
			}
			for _, v := range vals {
				s, isC := constString(v)
				if !isC {
					unknown = p.Pos(st.Pos())
					continue
				}
				rs := []rune(s)
				sort.Slice(rs, func(i, j int) bool { return rs[i] < rs[j] })
				var uq []rune
				for i, c := range rs {
					if i == 0 || c != rs[i-1] {
						uq = append(uq, c)
					}
				}
				sets[string(uq)] = p.Pos(st.Pos())
			}
		})
	}
	cons := "the two cut sets differ by the blank only"
	if unknown != "" {
		r.Assume(rule, "mxj.trimRunes", cons, unknown, "a value stored to trimRunes is not a constant: the cut sets are not decided here")
		return
	}
	var with, without []string
	for s := range sets {
		if strings.ContainsRune(s, ' ') {
			with = append(with, s)
		} else {
			without = append(without, s)
		}
	}
	if len(with) != 1 || len(without) != 1 {
		r.Bad(rule, "mxj.trimRunes", cons, "", fmt.Sprintf("expected one cut set with the blank and one without, found %d and %d", len(with), len(without)))
		return
	}
	a, b := with[0], without[0]
	if strings.Replace(a, " ", "", -1) != b {
		r.Bad(rule, "mxj.trimRunes", cons, sets[b], fmt.Sprintf("with DisableTrimWhiteSpace on the cut set is %q, otherwise %q: the option changes more than the handling of blanks", b, a))
		return
	}
	for _, c := range "\t\r\n" {
		if !strings.ContainsRune(b, c) {
			r.Bad(rule, "mxj.trimRunes", cons, sets[b], fmt.Sprintf("the cut set %q does not contain %q: white space the indented encoders write between elements comes back as text", b, string(c)))
			return
		}
	}
	r.OK(rule, "mxj.trimRunes", cons, sets[a], fmt.Sprintf("%q and %q", a, b))
}

// ---- WALK.literalkeys (C07) ----------------------------------------------------------------------------------------------------------------

// ruleWalkLiteralKeys: the legacy path walker takes a plain path segment literally — it compares it with the wildcard and uses it
// as a map key. It never converts a segment to a number: subscripts are the business of parsePath / valuesForArray, and a key
// that happens to consist of digits is still a key.
func ruleWalkLiteralKeys(p *Prog, r *Report, walkers []string) {
	const rule = "WALK.literalkeys"
	for _, wn := range walkers {
		fn := p.Fn(wn)
		if fn == nil {
			r.Anchor(rule, wn)
			continue
		}
		var keys *ssa.Parameter
		for _, prm := range fn.Params {
			if isStringSlice(prm.Type()) {
				keys = prm
			}
		}
		if keys == nil {
			r.Unknown(rule, wn, "segments taken literally", p.Pos(fn.Pos()), "no []string path parameter")
			continue
		}
		bad := ""
		eachInstr(fn, func(b *ssa.BasicBlock, in ssa.Instruction) {
			c, ok := in.(*ssa.Call)
			if !ok || bad != "" {
				return
			}
			if !hasPrefixAny(p.calleeName(&c.Call), "strconv.Atoi", "strconv.Parse", "fmt.Sscan") {
				return
			}
			for _, a := range c.Call.Args {
				if backwardSlice(fn, a)[keys] {
					bad = p.Pos(c.Pos())
				}
			}
		})
		if bad == "" {
			r.OK(rule, wn, "segments taken literally", p.Pos(fn.Pos()), "no numeric conversion of a path segment in the walker")
		} else {
			r.Bad(rule, wn, "segments taken literally", bad, "a path segment is converted to a number at "+bad+": a key consisting of digits is treated as a position, so the entries stored under it are not found")
		}
	}
}

// ---- SET.unconditional (C11) ---------------------------------------------------------------------------------------------------------------

// ruleSetValueIndependent: whether SetValueForPath writes depends on the path and on what is found there, never on the value to
// be stored (nil is a value like any other).
func ruleSetValueIndependent(p *Prog, r *Report) {
	const rule = "PATH.segments"
	fn := p.Fn("mxj.Map.SetValueForPath")
	if fn == nil {
		r.Anchor(rule, "mxj.Map.SetValueForPath")
		return
	}
	var val *ssa.Parameter
	for _, prm := range fn.Params[1:] {
		if isEmptyIface(prm.Type()) {
			val = prm
		}
	}
	if val == nil {
		r.Unknown(rule, p.Name(fn), "the write does not depend on the new value", p.Pos(fn.Pos()), "no value parameter")
		return
	}
	n, bad := 0, ""
	eachInstr(fn, func(b *ssa.BasicBlock, in ssa.Instruction) {
		mu, ok := in.(*ssa.MapUpdate)
		if !ok || !isMapShaped(mu.Map.Type()) {
			return
		}
		n++
		if p.blockInfluence(fn, mu).params[val] {
			bad = p.Pos(mu.Pos())
		}
	})
	// returns of a nil error before the write must not be decided by the value either
	eachInstr(fn, func(b *ssa.BasicBlock, in ssa.Instruction) {
		ret, ok := in.(*ssa.Return)
		if !ok || len(ret.Results) != 1 || !isNilConst(ret.Results[0]) {
			return
		}
		if p.blockInfluence(fn, ret).params[val] && bad == "" {
			bad = p.Pos(ret.Pos())
		}
	})
	switch {
	case n == 0:
		r.Unknown(rule, p.Name(fn), "the write does not depend on the new value", p.Pos(fn.Pos()), "no map write found")
	case bad != "":
		r.Bad(rule, p.Name(fn), "the write does not depend on the new value", bad, "whether the entry is written (or success is reported without writing) at "+bad+" depends on the value to be stored: some values, nil for instance, are silently not set")
	default:
		r.OK(rule, p.Name(fn), "the write does not depend on the new value", p.Pos(fn.Pos()), fmt.Sprintf("%d write(s) and the success returns are control-independent of the value parameter", n))
	}
}

// decBlkBefore: at is reachable from from (or is it).
func decBlkBefore(from, at *ssa.BasicBlock) bool {
	return from == at || reachableFromSuccs(from)[at]
}

// ---- FOLD.whole (C01) ----------------------------------------------------------------------------------------------------------------------

// ruleFoldWhole: CoerceKeysToLower folds the key that goes into the Map, all of it — for an attribute that includes the attribute
// prefix. A key assembled by concatenating something onto an already folded part is only partly folded. Stated over the code:
// no string concatenation in the decoder (or its helpers) that feeds a map key has a strings.ToLower result as an operand.
func ruleFoldWhole(p *Prog, r *Report, decoders []string) {
	const rule = "FOLD.total"
	for _, n := range decoders {
		fn := p.Fn(n)
		if fn == nil {
			r.Anchor(rule, n)
			continue
		}
		var folded func(f *ssa.Function, v ssa.Value, d int) bool
		folded = func(f *ssa.Function, v ssa.Value, d int) bool {
			if d > 4 {
				return false
			}
			switch x := v.(type) {
			case *ssa.Call:
				if isCallTo(&x.Call, "strings.ToLower") {
					return true
				}
				if h := staticCallee(&x.Call); h != nil && p.InModule(h) && !p.Exported(h) && len(h.Blocks) > 0 {
					res := false
					eachInstr(h, func(b *ssa.BasicBlock, in ssa.Instruction) {
						if ret, ok := in.(*ssa.Return); ok && len(ret.Results) > 0 && folded(h, ret.Results[0], d+1) {
							res = true
						}
					})
					return res
				}
			case *ssa.Phi:
				for _, e := range x.Edges {
					if e != v && folded(f, e, d+1) {
						return true
					}
				}
			}
			return false
		}
		bad, nCat := "", 0
		eachInstr(fn, func(b *ssa.BasicBlock, in ssa.Instruction) {
			bo, ok := in.(*ssa.BinOp)
			if !ok || bo.Op != token.ADD || !isStringType(bo.Type()) {
				return
			}
			// feeds a map key?
			feeds := false
			for x := range forwardSlice(fn, bo) {
				if mu, ok := x.(*ssa.MapUpdate); ok && backwardSlice(fn, mu.Key)[bo] {
					feeds = true
				}
			}
			if !feeds {
				return
			}
			nCat++
			if folded(fn, bo.X, 0) || folded(fn, bo.Y, 0) {
				bad = p.Pos(bo.Pos())
			}
		})
		cons := "lower-casing applies to the assembled key"
		if bad != "" {
			r.Bad(rule, n, cons, bad, "the map key assembled at "+bad+" concatenates onto an already lower-cased part: the rest of the key (the attribute prefix) is not folded under CoerceKeysToLower")
		} else {
			r.OK(rule, n, cons, p.Pos(fn.Pos()), fmt.Sprintf("%d concatenation(s) feed a map key, none with a strings.ToLower result as operand", nCat))
		}
	}
}

// ---- FWD.castflag (C20) --------------------------------------------------------------------------------------------------------------------

// ruleFwdCastFlag: in the thin packages the decoder's cast argument is the caller's recast option and nothing else. An optional
// flag of another meaning (getAttrs) never reaches the cast argument of mxj.NewMapXml* — directly, or through a shared helper
// that resolves "the optional flag" and decodes.
func ruleFwdCastFlag(p *Prog, r *Report, pkgs ...string) {
	const rule = "FWD.names"
	isDecoder := func(g *ssa.Function) bool {
		return g != nil && strings.HasPrefix(p.Name(g), "mxj.NewMapXml") && g.Signature.Variadic()
	}
	castMeaning := func(name string) bool {
		switch strings.ToLower(name) {
		case "recast", "cast", "r", "c":
			return true
		}
		return false
	}
	n := 0
	for _, pk := range pkgs {
		for _, fn := range p.PkgFuncs(pk) {
			if len(fn.Blocks) == 0 || !p.Exported(fn) {
				continue
			}
			va := variadicParam(fn)
			if va == nil || castMeaning(va.Name()) {
				continue
			}
			if sl, ok := va.Type().Underlying().(*types.Slice); !ok || !isBoolType(sl.Elem()) {
				continue
			}
			n++
			bad := ""
			// decoder calls in f whose cast argument depends on the parameter prm
			var scan func(f *ssa.Function, prm *ssa.Parameter, d int)
			scan = func(f *ssa.Function, prm *ssa.Parameter, d int) {
				eachInstr(f, func(b *ssa.BasicBlock, in ssa.Instruction) {
					c, ok := in.(ssa.CallInstruction)
					if !ok || bad != "" {
						return
					}
					g := staticCallee(c.Common())
					if g == nil {
						return
					}
					args := c.Common().Args
					if isDecoder(g) {
						last := args[len(args)-1]
						if !isNilConst(last) && p.influence(f, true, last).params[prm] {
							bad = "the option '" + va.Name() + "' of " + p.Name(fn) + " reaches the cast argument of " + p.Name(g) + " at " + p.Pos(in.Pos())
						}
						return
					}
					if p.InModule(g) && !p.Exported(g) && len(g.Blocks) > 0 && d < 3 {
						for i, a := range args {
							if i < len(g.Params) && p.influence(f, false, a).params[prm] {
								scan(g, g.Params[i], d+1)
							}
						}
					}
				})
			}
			scan(fn, va, 0)
			cons := "option '" + va.Name() + "' does not select casting"
			if bad != "" {
				r.Bad(rule, p.Name(fn), cons, p.Pos(fn.Pos()), bad+": asking for attributes also casts the values")
			} else {
				r.OK(rule, p.Name(fn), cons, p.Pos(fn.Pos()), "no mxj.NewMapXml* call below this function takes its cast argument from the option")
			}
		}
	}
	_ = n
}

// ---- ERR.content (C04) ---------------------------------------------------------------------------------------------------------------------

// ruleErrContent: whether the sequence encoder fails depends on the types and the structure of what it is given, never on the
// content of a scalar: every string (the empty one included), number and boolean is a valid text or attribute value. A return
// of an error constructed in the encoder (or in a helper it hands values to) is therefore never controlled by a condition that
// is computed from the content of a scalar — a value taken out of an interface by a type assertion to a basic type or []byte,
// or the string a helper rendered from such a value ("" used as a sentinel for "not atomic" is the classic case).
func ruleErrContent(p *Prog, r *Report, encoders []string) {
	const rule = "ERR.content"
	isScalar := func(t types.Type) bool {
		switch u := t.Underlying().(type) {
		case *types.Basic:
			return true
		case *types.Slice:
			if b, ok := u.Elem().Underlying().(*types.Basic); ok && b.Kind() == types.Byte {
				return true
			}
		}
		return false
	}
	for _, en := range encoders {
		fn := p.Fn(en)
		if fn == nil {
			r.Anchor(rule, en)
			continue
		}
		scope := []*ssa.Function{fn}
		seen := map[*ssa.Function]bool{fn: true}
		for i := 0; i < len(scope) && i < 10; i++ {
			eachInstr(scope[i], func(b *ssa.BasicBlock, in ssa.Instruction) {
				if c, ok := in.(ssa.CallInstruction); ok {
					if h := staticCallee(c.Common()); h != nil && p.InModule(h) && !p.Exported(h) && len(h.Blocks) > 0 && !seen[h] && h.Parent() == nil {
						seen[h] = true
						scope = append(scope, h)
					}
				}
			})
		}
		nErr, bad := 0, ""
		for _, f := range scope {
			isContent := func(v ssa.Value) bool {
				switch x := v.(type) {
				case *ssa.TypeAssert:
					return !x.CommaOk && isScalar(x.AssertedType)
				case *ssa.Extract:
					if ta, ok := x.Tuple.(*ssa.TypeAssert); ok && x.Index == 0 {
						return isScalar(ta.AssertedType)
					}
					if c, ok := x.Tuple.(*ssa.Call); ok && isScalar(x.Type()) && !isBoolType(x.Type()) {
						if h := staticCallee(&c.Call); h != nil && p.InModule(h) && !p.Exported(h) {
							for _, a := range c.Call.Args {
								if types.IsInterface(a.Type()) {
									return true
								}
							}
						}
					}
				case *ssa.Call:
					if h := staticCallee(&x.Call); h != nil && p.InModule(h) && !p.Exported(h) && isScalar(x.Type()) && !isBoolType(x.Type()) {
						for _, a := range x.Call.Args {
							if types.IsInterface(a.Type()) {
								return true
							}
						}
					}
				}
				return false
			}
			eachInstr(f, func(b *ssa.BasicBlock, in ssa.Instruction) {
				ret, ok := in.(*ssa.Return)
				if !ok || len(ret.Results) == 0 || bad != "" {
					return
				}
				ev := ret.Results[len(ret.Results)-1]
				if !isErrorType(ev.Type()) {
					return
				}
				// a constructed error (not one handed up from a callee)
				constructed := false
				for x := range backwardSlice(f, ev) {
					if c, isC := x.(*ssa.Call); isC && isCallTo(&c.Call, "fmt.Errorf", "errors.New") {
						constructed = true
					}
				}
				if !constructed {
					return
				}
				nErr++
				for v := range p.blockInfluence(f, ret).values {
					if isContent(v) {
						bad = "the error returned at " + p.Pos(ret.Pos()) + " in " + p.Name(f) + " is decided by a condition computed from the content of a scalar value (" + p.Pos(v.Pos()) + ")"
						return
					}
				}
				// a phi-selected error: the conditions that select it
				if ph, isPhi := ev.(*ssa.Phi); isPhi {
					for v := range p.influence(f, true, ph).values {
						if isContent(v) {
							bad = "the error returned at " + p.Pos(ret.Pos()) + " in " + p.Name(f) + " is selected by a condition computed from the content of a scalar value (" + p.Pos(v.Pos()) + ")"
							return
						}
					}
				}
			})
		}
		cons := "failure never depends on the content of a scalar"
		if bad != "" {
			r.Bad(rule, en, cons, p.Pos(fn.Pos()), bad+": some strings or numbers (the empty string, typically) cannot be encoded although they are valid values")
		} else {
			r.OK(rule, en, cons, p.Pos(fn.Pos()), fmt.Sprintf("%d constructed error return(s) in the encoder and its helpers, none controlled by a condition that reads a scalar's content", nErr))
		}
	}
}

// ---- ITER.fresh for map entries (C08, C10) -------------------------------------------------------------------------------------------------

// ruleIterFreshMap: a function that turns a list of specifications into map entries, one per loop iteration, computes each entry
// from its own specification: neither the key nor the value stored in an iteration depends — by data or by the conditions that
// select it — on a variable that survives from an earlier iteration (a conversion type that stays set, for instance).
func ruleIterFreshMap(p *Prog, r *Report, names []string) {
	const rule = "ITER.fresh"
	for _, n := range names {
		fn := p.Fn(n)
		if fn == nil {
			r.Anchor(rule, n)
			continue
		}
		cnt, bad := 0, ""
		eachInstr(fn, func(b *ssa.BasicBlock, in ssa.Instruction) {
			mu, ok := in.(*ssa.MapUpdate)
			if !ok {
				return
			}
			hdr := innermostLoopHeader(b)
			if hdr == nil {
				return
			}
			cnt++
			infl := p.influence(fn, true, mu.Value, mu.Key)
			// which of several stores executes is part of how the entry is computed
			for v := range p.blockInfluence(fn, mu).values {
				infl.values[v] = true
			}
			for v := range infl.values {
				ph, isPhi := v.(*ssa.Phi)
				if !isPhi || ph.Block() != hdr || isInductionPhi(ph) {
					continue
				}
				if _, isIter := ph.Type().Underlying().(*types.Map); isIter {
					continue // the map being filled
				}
				self := false
				for i, pr := range hdr.Preds {
					if !hdr.Dominates(pr) {
						continue
					}
					if ph.Edges[i] == ssa.Value(ph) || backwardSlice(fn, ph.Edges[i])[ph] {
						self = true
					}
				}
				if self && bad == "" {
					bad = "the entry stored at " + p.Pos(mu.Pos()) + " depends on " + ph.Comment + ", which keeps its value from an earlier iteration"
				}
			}
		})
		cons := "each entry is computed from its own specification"
		switch {
		case cnt == 0:
			r.Assume(rule, n, cons, p.Pos(fn.Pos()), "no map store inside a loop found: not decided here")
		case bad != "":
			r.Bad(rule, n, cons, p.Pos(fn.Pos()), bad+": a specification is interpreted with something left over from the one before it")
		default:
			r.OK(rule, n, cons, p.Pos(fn.Pos()), fmt.Sprintf("%d map store(s) in the loop, none influenced by a loop-carried variable other than the loop index", cnt))
		}
	}
}

// ---- ALIAS.unsafe (C04, C17) ---------------------------------------------------------------------------------------------------------------

// ruleNoUnsafe: the module does not convert through unsafe.Pointer. A string made to alias a byte slice it does not own (the
// token buffer of xml.Decoder is reused by the next RawToken) changes after it was stored in the Map.
func ruleNoUnsafe(p *Prog, r *Report) {
	const rule = "ALIAS.unsafe"
	n, bad := 0, ""
	for _, f := range p.FuncList {
		if !p.InModule(f) || len(f.Blocks) == 0 {
			continue
		}
		n++
		eachInstr(f, func(b *ssa.BasicBlock, in ssa.Instruction) {
			cv, ok := in.(*ssa.Convert)
			if !ok || bad != "" {
				return
			}
			isUP := func(t types.Type) bool {
				bt, ok := t.Underlying().(*types.Basic)
				return ok && bt.Kind() == types.UnsafePointer
			}
			if isUP(cv.Type()) || isUP(cv.X.Type()) {
				bad = p.Name(f) + " at " + p.Pos(cv.Pos())
			}
		})
	}
	if bad != "" {
		r.Bad(rule, "module", "no conversion through unsafe.Pointer", "", "unsafe.Pointer conversion in "+bad+": a value that aliases memory it does not own can change after it was stored or returned")
	} else {
		r.OK(rule, "module", "no conversion through unsafe.Pointer", "", fmt.Sprintf("%d module functions, none converts to or from unsafe.Pointer", n))
	}
}

// ---- CAST.unscreened (C02, C14) ------------------------------------------------------------------------------------------------------------

// ruleCastUnscreened: with float casting on, cast() offers every value to strconv.ParseFloat — which is what decides what a
// number looks like (exponent notation included: it is what the encoder's %v writes for large and small floats). Whether the
// ParseFloat call executes depends on the options, on the NaN/Inf screen and on earlier Parse* attempts having failed, never on
// another test of the text.
func ruleCastUnscreened(p *Prog, r *Report) {
	const rule = "TABLE.castparsers"
	fn := p.Fn("mxj.cast")
	if fn == nil {
		r.Anchor(rule, "mxj.cast")
		return
	}
	scope := []castHelper{{fn, fn.Params[0], nil}}
	scope = append(scope, p.castHelpers(fn)...)
	n, bad := 0, ""
	for _, sc := range scope {
		f, input := sc.h, sc.prm
		eachInstr(f, func(b *ssa.BasicBlock, in ssa.Instruction) {
			c, ok := in.(*ssa.Call)
			if !ok || !isCallTo(&c.Call, "strconv.ParseFloat") || bad != "" {
				return
			}
			n++
			// conditions the call is control-dependent on
			ci := p.cfgOf(f)
			seen := map[int]bool{}
			work := []int{b.Index}
			for len(work) > 0 {
				bi := work[len(work)-1]
				work = work[:len(work)-1]
				if seen[bi] {
					continue
				}
				seen[bi] = true
				for _, ce := range ci.cdep[bi] {
					work = append(work, ce.Block.Index)
					ifi, isIf := ce.Block.Instrs[len(ce.Block.Instrs)-1].(*ssa.If)
					if !isIf {
						continue
					}
					sl := backwardSlice(f, ifi.Cond)
					if !sl[input] {
						continue // options, flags
					}
					okCond := false
					for v := range sl {
						switch x := v.(type) {
						case *ssa.Call:
							if hasPrefixAny(p.calleeName(&x.Call), "strconv.Parse") {
								okCond = true // an earlier attempt failed
							}
							if isCallTo(&x.Call, "strings.ToLower", "strings.EqualFold") {
								okCond = true // the NaN/Inf screen
							}
							// a predicate helper that folds the case of its argument: the NaN/Inf screen moved out
							if h := staticCallee(&x.Call); h != nil && p.InModule(h) && !p.Exported(h) && len(h.Blocks) > 0 {
								eachInstr(h, func(b2 *ssa.BasicBlock, i2 ssa.Instruction) {
									if c2, ok := i2.(*ssa.Call); ok && isCallTo(&c2.Call, "strings.ToLower", "strings.EqualFold") {
										okCond = true
									}
								})
							}
						}
					}
					if !okCond && bad == "" {
						bad = "the strconv.ParseFloat call at " + p.Pos(c.Pos()) + " executes only if the test at " + p.Pos(ifi.Cond.Pos()) + " of the text lets it"
					}
				}
			}
		})
	}
	cons := "ParseFloat is not behind a screen of the text"
	switch {
	case n == 0:
		r.Assume(rule, "mxj.cast", cons, p.Pos(fn.Pos()), "no strconv.ParseFloat call found in cast or its helpers")
	case bad != "":
		r.Bad(rule, "mxj.cast", cons, p.Pos(fn.Pos()), bad+": numerals ParseFloat accepts but the screen rejects (exponent notation, which the encoder itself writes) stay strings, so decode-encode-decode is not a fixed point")
	default:
		r.OK(rule, "mxj.cast", cons, p.Pos(fn.Pos()), fmt.Sprintf("%d ParseFloat call(s), control-dependent on options, the NaN/Inf screen and earlier parse failures only", n))
	}
}

// ---- WALK.progress "every node reaches the exhausted-path test" (C07) ----------------------------------------------------------------------

// ruleWalkNullLeaf: what the path walker does with a node is decided by how much of the path is left first, and by the node
// only afterwards: the test "no segments left" is not preceded by any test of the node. A nil node with no segments left is a
// JSON null that the path denotes; an early `if m == nil { return }` drops it.
func ruleWalkNullLeaf(p *Prog, r *Report, walkers []string) {
	const rule = "WALK.progress"
	for _, wn := range walkers {
		fn := p.Fn(wn)
		if fn == nil {
			r.Anchor(rule, wn)
			continue
		}
		var keys, node *ssa.Parameter
		for _, prm := range fn.Params {
			if isStringSlice(prm.Type()) {
				keys = prm
			}
			if isEmptyIface(prm.Type()) && node == nil {
				node = prm
			}
		}
		if keys == nil || node == nil {
			r.Unknown(rule, wn, "the exhausted-path test precedes every test of the node", p.Pos(fn.Pos()), "path / node parameters not recognised")
			continue
		}
		cz := p.canonFor(fn)
		want := "len(" + cz.of(keys) + ")"
		n, bad := 0, ""
		eachInstr(fn, func(b *ssa.BasicBlock, in ssa.Instruction) {
			ifi, ok := in.(*ssa.If)
			if !ok {
				return
			}
			bo, ok := normGuard(guard{ifi.Cond, true}).Cond.(*ssa.BinOp)
			if !ok || cz.of(bo.X) != want {
				return
			}
			if k, isK := constInt(bo.Y); !isK || k != 0 {
				return
			}
			n++
			if p.blockInfluence(fn, ifi).params[node] {
				bad = p.Pos(ifi.Cond.Pos())
			}
		})
		cons := "the exhausted-path test precedes every test of the node"
		switch {
		case n == 0:
			r.Assume(rule, wn, cons, p.Pos(fn.Pos()), "no test len(keys) == 0 found: the walker's end-of-path handling is not of the recognised form")
		case bad != "":
			r.Bad(rule, wn, cons, bad, "whether the walker looks at the remaining path at all depends on the node: a node the earlier test turns away (nil, i.e. a JSON null) is not returned although the path denotes it")
		default:
			r.OK(rule, wn, cons, p.Pos(fn.Pos()), "the len(keys) == 0 test is control-independent of the node parameter")
		}
	}
}

// ---- PATH.segments "SetValueForPath looks the parent up under the path without its last segment" (C11) -------------------------------------

func ruleSetParentPath(p *Prog, r *Report) {
	const rule = "PATH.segments"
	fn := p.Fn("mxj.Map.SetValueForPath")
	if fn == nil {
		r.Anchor(rule, "mxj.Map.SetValueForPath")
		return
	}
	var path *ssa.Parameter
	for _, prm := range fn.Params {
		if isStringType(prm.Type()) {
			path = prm
		}
	}
	if path == nil {
		return
	}
	n := 0
	eachInstr(fn, func(b *ssa.BasicBlock, in ssa.Instruction) {
		c, ok := in.(*ssa.Call)
		if !ok {
			return
		}
		g := staticCallee(&c.Call)
		if g == nil || (p.Name(g) != "mxj.Map.ValueForPath" && p.Name(g) != "mxj.Map.ValuesForPath") || len(c.Call.Args) < 2 {
			return
		}
		n++
		cons := "the parent is looked up under the path without its last segment"
		switch cls := p.segClass(c.Call.Args[1], func(v ssa.Value) bool { return v == ssa.Value(path) }, 0); cls {
		case "parent":
			r.OK(rule, p.Name(fn), cons, p.Pos(c.Pos()), "the queried path is the path cut before its last separator")
		case "":
			r.Unknown(rule, p.Name(fn), cons, p.Pos(c.Pos()), "the queried path is not recognised as a part of the path (cut at the last separator by Split/Join, LastIndex or a helper)")
		default:
			r.Bad(rule, p.Name(fn), cons, p.Pos(c.Pos()), "the parent is looked up under the '"+cls+"' part of the path")
		}
	})
	if n == 0 {
		r.Assume(rule, p.Name(fn), "the parent is looked up under the path without its last segment", p.Pos(fn.Pos()), "no ValueForPath / ValuesForPath call found in SetValueForPath")
	}
}

// ---- WRAP.fileloop "the file a name denotes" (C19) -----------------------------------------------------------------------------------------

// ruleFileNoLstat: readers and writers agree on which file a name denotes: both follow symbolic links (os.Open, os.Create,
// os.Stat). A reader that judges the name with os.Lstat refuses a link the writer happily wrote through.
func ruleFileNoLstat(p *Prog, r *Report) {
	const rule = "WRAP.fileloop"
	bad, n := "", 0
	for _, pr := range fileLoops {
		fn := p.Fn(pr[0])
		if fn == nil {
			continue
		}
		n++
		for f := range p.Reach(fn) {
			if !p.InModule(f) || len(f.Blocks) == 0 {
				continue
			}
			eachInstr(f, func(b *ssa.BasicBlock, in ssa.Instruction) {
				if c, ok := in.(ssa.CallInstruction); ok && isCallTo(c.Common(), "os.Lstat", "os.Readlink") && bad == "" {
					bad = p.Name(f) + " at " + p.Pos(in.Pos())
				}
			})
		}
	}
	if n == 0 {
		return
	}
	if bad != "" {
		r.Bad(rule, "file readers", "names are resolved as the writers resolve them", "", "os.Lstat below a file reader ("+bad+"): a name that is a symbolic link is judged by the link, while os.Create and os.Open follow it — a file written through the link cannot be read back")
	} else {
		r.OK(rule, "file readers", "names are resolved as the writers resolve them", "", fmt.Sprintf("%d readers: no os.Lstat / os.Readlink below them (os.Stat and os.Open follow links like os.Create)", n))
	}
}

// ruleNewMapEarly (ARGS.validated, C12): NewMap rejects malformed pairs whatever the receiver holds, so a return without an error
// that is decided before (outside) the pair loop may depend on the pairs only. Decided on control dependence: for each
// nil-error return, the branch blocks outside every loop on which it is (transitively, outside loops) control dependent have
// conditions whose backward slice does not contain the receiver.
func ruleNewMapEarly(p *Prog, r *Report) {
	const rule = "ARGS.validated"
	fn := p.Fn("mxj.Map.NewMap")
	if fn == nil || len(fn.Params) == 0 {
		r.Anchor(rule, "mxj.Map.NewMap")
		return
	}
	n := p.Name(fn)
	recv := fn.Params[0]
	ci := p.cfgOf(fn)
	nRet := 0
	for _, in := range instrsByPos(fn) {
		ret, ok := in.(*ssa.Return)
		if !ok || len(ret.Results) == 0 || !isNilConst(ret.Results[len(ret.Results)-1]) {
			continue
		}
		nRet++
		bad := ""
		seen := map[int]bool{}
		work := []int{ret.Block().Index}
		nb := 0
		for len(work) > 0 && bad == "" {
			bi := work[len(work)-1]
			work = work[:len(work)-1]
			if seen[bi] {
				continue
			}
			seen[bi] = true
			for _, ce := range ci.cdep[bi] {
				if innermostLoopHeader(ce.Block) != nil {
					continue
				}
				ifi, ok := ce.Block.Instrs[len(ce.Block.Instrs)-1].(*ssa.If)
				if !ok {
					continue
				}
				nb++
				if backwardSlice(fn, ifi.Cond)[recv] {
					bad = p.Pos(ifi.Cond.Pos())
					break
				}
				work = append(work, ce.Block.Index)
			}
		}
		c := fmt.Sprintf("success return %d is not decided by the receiver ahead of the pair loop", nRet)
		if bad != "" {
			r.Bad(rule, n, c, p.Pos(ret.Pos()), "this return without an error is taken or not depending on a test of the receiver outside the pair loop ("+bad+"): for such receivers the pairs are never parsed, so malformed pairs are accepted")
			continue
		}
		r.OK(rule, n, c, p.Pos(ret.Pos()), fmt.Sprintf("%d controlling branches outside loops; none depends on the receiver", nb))
	}
	_ = nRet
	r.Floor(rule, 1)
}

// ruleEOFTest (ERR.eoftest, C19/C13): "the reader reported the end of the input" is recognised by the identity of io.EOF. A test
// written with errors.Is matches every error that wraps io.EOF as well, so it is accepted only when no function reachable from the
// testing function builds an error with the %w verb in a constant format (in this module that is the only way an error comes to wrap another: no
// module type has an Unwrap or Is method — checked). Otherwise an error that reports a document cut short can be taken for the
// normal end of the input.
func ruleEOFTest(p *Prog, r *Report) {
	const rule = "ERR.eoftest"
	// module types with Unwrap / Is methods
	var unwrappers []string
	for _, f := range p.FuncList {
		if p.InModule(f) && f.Signature.Recv() != nil && (f.Name() == "Unwrap" || f.Name() == "Is") {
			unwrappers = append(unwrappers, p.Name(f))
		}
	}
	nTests := 0
	for _, fn := range p.FuncList {
		if !p.InModule(fn) || len(fn.Blocks) == 0 {
			continue
		}
		nIdent, k := 0, 0
		for _, in := range instrsByPos(fn) {
			switch x := in.(type) {
			case *ssa.BinOp:
				if (x.Op == token.EQL || x.Op == token.NEQ) && (isEOFLoad(x.X) || isEOFLoad(x.Y)) {
					nIdent++
				}
			case *ssa.Call:
				if !isCallTo(&x.Call, "errors.Is") || len(x.Call.Args) != 2 || !isEOFLoad(x.Call.Args[1]) {
					continue
				}
				k++
				nTests++
				c := fmt.Sprintf("errors.Is test %d against io.EOF matches the sentinel only", k)
				bad := ""
				if len(unwrappers) > 0 {
					bad = "the module defines " + strings.Join(unwrappers, ", ")
				}
				reach := p.Reach(fn)
				var rs []*ssa.Function
				for g := range reach {
					if p.InModule(g) {
						rs = append(rs, g)
					}
				}
				sort.Slice(rs, func(i, j int) bool { return p.Name(rs[i]) < p.Name(rs[j]) })
				for _, g := range rs {
					if bad != "" {
						break
					}
					for _, gi := range instrsByPos(g) {
						gc, ok := gi.(*ssa.Call)
						if !ok || !isCallTo(&gc.Call, "fmt.Errorf") || len(gc.Call.Args) == 0 {
							continue
						}
						if s, ok := constString(gc.Call.Args[0]); ok && strings.Contains(s, "%w") {
							bad = "fmt.Errorf at " + p.Pos(gc.Pos()) + " in " + p.Name(g) + " wraps an error with %w"
							break
						}
					}
				}
				if bad != "" {
					r.Bad(rule, p.Name(fn), c, p.Pos(x.Pos()), "errors.Is also matches errors that wrap io.EOF, and "+bad+": an error about input cut short can be taken for the normal end of the input")
				} else {
					r.OK(rule, p.Name(fn), c, p.Pos(x.Pos()), fmt.Sprintf("no error built in the %d reachable module functions wraps another", len(rs)))
				}
			}
		}
		if nIdent > 0 {
			nTests += nIdent
			r.OK(rule, p.Name(fn), "identity tests against io.EOF", p.Pos(fn.Pos()), fmt.Sprintf("%d comparisons with == / !=: only the sentinel itself matches", nIdent))
		}
	}
	r.Instances[rule] = nTests
	r.Floor(rule, 8)
}

// ruleEmptyPathSelf (PATH.segments clause, C11): SetValueForPath resolves the parent of a one-segment path with the empty path,
// which selects the receiver itself because the segment list handed to the walker is then empty. If the zone analysis proves that
// list non-empty at the walker call of oldValuesForPath, and no success return bypasses that call, the empty path can no longer
// select the receiver. (Not provable on a tree where the list can be empty: nothing is demanded of how it becomes empty.)
func ruleEmptyPathSelf(p *Prog, r *Report) {
	const rule = "PATH.segments"
	fn := p.Fn("mxj.Map.oldValuesForPath")
	if fn == nil {
		r.Anchor(rule, "mxj.Map.oldValuesForPath")
		return
	}
	n := p.Name(fn)
	z := p.zoneFlowOf(fn, nil)
	nCalls := 0
	for _, in := range instrsByPos(fn) {
		c, ok := in.(*ssa.Call)
		if !ok {
			continue
		}
		h := staticCallee(&c.Call)
		if h == nil || !p.InModule(h) {
			continue
		}
		for _, a := range c.Call.Args {
			if sl, ok := a.Type().Underlying().(*types.Slice); !ok || !isStringType(sl.Elem()) {
				continue
			}
			fromSplit := false
			for v := range backwardSlice(fn, a) {
				sc, ok := v.(*ssa.Call)
				if !ok {
					continue
				}
				if isCallTo(&sc.Call, "strings.Split") {
					fromSplit = true
				}
				// "split the path" as a helper of its own
				if hh := staticCallee(&sc.Call); hh != nil && p.InModule(hh) && !p.Exported(hh) && len(hh.Blocks) > 0 {
					eachInstr(hh, func(b *ssa.BasicBlock, in ssa.Instruction) {
						if hc, ok := in.(*ssa.Call); ok && isCallTo(&hc.Call, "strings.Split") {
							fromSplit = true
						}
					})
				}
			}
			if !fromSplit {
				continue
			}
			nCalls++
			cn := "the segment list handed to " + p.Name(h) + " can be empty"
			lt := z.lenTerm(a)
			if !lt.ok || !z.leq(c, zterm{0, 1, true}, lt) {
				r.OK(rule, n, cn, p.Pos(c.Pos()), "not provably non-empty: the empty path can select the receiver itself")
				continue
			}
			// a success return that does not pass through the call?
			after := reachableFrom(c.Block())
			bypass := ""
			for _, in2 := range instrsByPos(fn) {
				if ret, ok := in2.(*ssa.Return); ok && !after[ret.Block()] && len(ret.Results) > 0 && isNilConst(ret.Results[len(ret.Results)-1]) {
					bypass = p.Pos(ret.Pos())
				}
			}
			if bypass != "" {
				r.OK(rule, n, cn, p.Pos(c.Pos()), "provably non-empty here, but the success return at "+bypass+" answers without the walker")
				continue
			}
			r.Bad(rule, n, cn, p.Pos(c.Pos()), "the list of path segments is provably non-empty at this call ("+z.describe(c, lt)+") and every successful answer passes through it: the empty path — the parent of a one-segment path in SetValueForPath — no longer selects the receiver itself")
		}
	}
	if nCalls == 0 {
		r.Anchor(rule, "walker call of "+n+" with the split path")
	}
}

// ruleAnyXmlTags (ROOT.explicit, C03/C16): AnyXml(v, rootTag) and AnyXml(v, rootTag, elementTag) both name the root explicitly, so
// the first optional tag must be read when two tags are given. Decided with the zone analysis: among the reads of tags[0] — in the
// function or in a helper handed the tag list — at least one is at a point where len(tags) <= 1 is not provable. (If every read
// is confined to the one-tag case, a call with both tags silently gets the default root.)
func ruleAnyXmlTags(p *Prog, r *Report) {
	const rule = "ROOT.explicit"
	for _, name := range []string{"mxj.AnyXml", "mxj.AnyXmlIndent"} {
		fn := p.Fn(name)
		if fn == nil || len(fn.Params) == 0 {
			r.Anchor(rule, name)
			continue
		}
		type fp struct {
			f   *ssa.Function
			prm *ssa.Parameter
		}
		work := []fp{{fn, fn.Params[len(fn.Params)-1]}}
		seen := map[*ssa.Function]bool{fn: true}
		nReads, open := 0, ""
		for i := 0; i < len(work) && i < 8; i++ {
			w := work[i]
			z := p.zoneFlowOf(w.f, nil)
			lt := z.lenTerm(w.prm)
			for _, in := range instrsByPos(w.f) {
				switch x := in.(type) {
				case *ssa.IndexAddr:
					base, sliced := x.X, false
					for {
						sl, ok := base.(*ssa.Slice)
						if !ok {
							break
						}
						base, sliced = sl.X, true
					}
					if base != ssa.Value(w.prm) {
						continue
					}
					k, isConst := constInt(x.Index)
					if isConst && k != 0 && !sliced {
						continue
					}
					nReads++
					// a read through a loop counter or through a sub-slice of the list is not confined as far as this rule can tell
					if !isConst || sliced || !lt.ok || !z.leq(x, lt, zterm{0, 1, true}) {
						open = p.Pos(x.Pos())
					}
				case *ssa.Call:
					h := staticCallee(&x.Call)
					if h == nil || !p.InModule(h) || p.Exported(h) || seen[h] || len(h.Blocks) == 0 {
						continue
					}
					for ai, a := range x.Call.Args {
						if a == ssa.Value(w.prm) && ai < len(h.Params) {
							seen[h] = true
							work = append(work, fp{h, h.Params[ai]})
						}
					}
				}
			}
		}
		c := "the explicit root tag is read when an element tag is given too"
		switch {
		case nReads == 0:
			r.Bad(rule, name, c, p.Pos(fn.Pos()), "no read of the first optional tag was found in the function or the helpers handed the tag list")
		case open == "":
			r.Bad(rule, name, c, p.Pos(fn.Pos()), fmt.Sprintf("each of the %d reads of the first optional tag happens where the tag list provably has at most one member: with (rootTag, elementTag) the root silently stays the default", nReads))
		default:
			r.OK(rule, name, c, open, fmt.Sprintf("%d reads of the first optional tag; the one at %s is not confined to the one-tag case", nReads, open))
		}
	}
}

// ruleAddNewValLinear (WALK.progress clause, C12): addNewVal descends the new path once, one segment per step. A loop over the path
// nested in another loop over the path is accepted only if it continues from where the outer loop stands: an inner loop that
// starts at the head of the path (a range over path[:k], or a counter that enters the loop as the constant 0) visits segments the
// outer loop has already consumed, so a value lands under a repeated prefix when a leading part of the path exists already.
func ruleAddNewValLinear(p *Prog, r *Report) {
	const rule = "WALK.progress"
	fn := p.Fn("mxj.addNewVal")
	if fn == nil {
		r.Anchor(rule, "mxj.addNewVal")
		return
	}
	var path *ssa.Parameter
	for _, prm := range fn.Params {
		if sl, ok := prm.Type().Underlying().(*types.Slice); ok && isStringType(sl.Elem()) {
			path = prm
		}
	}
	if path == nil {
		r.Anchor(rule, "path parameter of mxj.addNewVal")
		return
	}
	n := p.Name(fn)
	var headers []*ssa.BasicBlock
	for _, b := range fn.Blocks {
		for _, pr := range b.Preds {
			if b.Dominates(pr) {
				headers = append(headers, b)
				break
			}
		}
	}
	// where does a loop's walk over the path start? ("" = it does not index the path)
	start := func(h *ssa.BasicBlock, body map[*ssa.BasicBlock]bool, inner map[*ssa.BasicBlock]bool) (string, bool) {
		found, fromHead := "", false
		for b := range body {
			if inner != nil && inner[b] {
				continue
			}
			for _, in := range b.Instrs {
				ia, ok := in.(*ssa.IndexAddr)
				if !ok {
					continue
				}
				switch x := ia.X.(type) {
				case *ssa.Parameter:
					if x != path {
						continue
					}
					found = p.Pos(ia.Pos())
					// the counter: a phi of this loop's header; its value on the entering edge
					if ph, ok := ia.Index.(*ssa.Phi); ok && ph.Block() == h {
						for i, e := range ph.Edges {
							if !body[h.Preds[i]] {
								if k, ok := constInt(e); ok && k == 0 {
									fromHead = true
								}
							}
						}
					}
				case *ssa.Slice:
					if x.X != ssa.Value(path) {
						continue
					}
					found = p.Pos(ia.Pos())
					if x.Low == nil {
						fromHead = true
					} else if k, ok := constInt(x.Low); ok && k == 0 {
						fromHead = true
					}
				}
			}
		}
		return found, fromHead
	}
	nLoops, bad := 0, ""
	for _, ho := range headers {
		outer := naturalLoop(ho)
		for _, hi := range headers {
			if hi == ho || !outer[hi] {
				continue
			}
			inner := naturalLoop(hi)
			if inner[ho] {
				continue
			}
			if at, _ := start(ho, outer, inner); at == "" {
				continue
			}
			at, fromHead := start(hi, inner, nil)
			if at == "" {
				continue
			}
			nLoops++
			if fromHead {
				bad = at
			}
		}
	}
	c := "no inner loop over the path restarts at its head"
	if bad != "" {
		r.Bad(rule, n, c, bad, "a loop over the path nested in the descent starts at the first segment again ("+bad+"): segments the outer loop has consumed are visited a second time, so the value is stored under a repeated prefix when the leading part of the new path already exists")
		return
	}
	r.OK(rule, n, c, p.Pos(fn.Pos()), fmt.Sprintf("%d loops, %d nested loops over the path, none from its head", len(headers), nLoops))
}

// ruleRootExplicitWrap (ROOT.explicit clause, C03/C16): Map.Xml(rootTag) / XmlIndent(..., rootTag) wrap the whole Map in the tag
// the caller names. At every element-encoder call of these functions whose key argument can come from the optional tag, the value
// argument is — through conversions and phis only — the receiver: not one of its members, and not something a helper made of it.
func ruleRootExplicitWrap(p *Prog, r *Report) {
	const rule = "ROOT.explicit"
	enc := p.Fn("mxj.marshalMapToXmlIndent")
	if enc == nil {
		r.Anchor(rule, "mxj.marshalMapToXmlIndent")
		return
	}
	for _, name := range []string{"mxj.Map.Xml", "mxj.Map.XmlIndent"} {
		fn := p.Fn(name)
		if fn == nil || len(fn.Params) < 2 {
			r.Anchor(rule, name)
			continue
		}
		recv, tags := fn.Params[0], fn.Params[len(fn.Params)-1]
		n := 0
		bad := ""
		for _, in := range instrsByPos(fn) {
			c, ok := in.(*ssa.Call)
			if !ok || staticCallee(&c.Call) != enc {
				continue
			}
			var key, val ssa.Value
			for _, a := range c.Call.Args {
				if isStringType(a.Type()) && key == nil {
					key = a
				}
				if types.IsInterface(a.Type()) {
					val = a
				}
			}
			if key == nil || val == nil || !backwardSlice(fn, key)[tags] {
				continue
			}
			n++
			// closure through conversions and phis only
			seen := map[ssa.Value]bool{}
			work := []ssa.Value{val}
			hasRecv := false
			for len(work) > 0 {
				v := work[len(work)-1]
				work = work[:len(work)-1]
				if seen[v] {
					continue
				}
				seen[v] = true
				switch x := v.(type) {
				case *ssa.Parameter:
					if x == recv {
						hasRecv = true
					}
				case *ssa.ChangeType:
					work = append(work, x.X)
				case *ssa.MakeInterface:
					work = append(work, x.X)
				case *ssa.Convert:
					work = append(work, x.X)
				case *ssa.Phi:
					work = append(work, x.Edges...)
				}
			}
			if !hasRecv {
				bad = p.Pos(c.Pos())
			}
		}
		cn := "the element written under the explicit root tag holds the whole Map"
		switch {
		case n == 0:
			r.Anchor(rule, "element-encoder call of "+name+" under the optional root tag")
		case bad != "":
			r.Bad(rule, name, cn, bad, "the value encoded under the caller's root tag at "+bad+" is not the receiver itself (through conversions only): a member, or what a helper selects from the Map, loses the Map's own key as a nesting level")
		default:
			r.OK(rule, name, cn, p.Pos(fn.Pos()), fmt.Sprintf("%d element-encoder calls keyed by the optional tag; the value is the receiver", n))
		}
	}
}

// ruleFwdPathSelf (FWD.identity clause, C07/C09): ValuesForPath answers for the path it is given. Every string argument of a
// module function or of a strings predicate that depends on the path parameter is the parameter itself: no rewritten path is
// parsed or walked in its place.
func ruleFwdPathSelf(p *Prog, r *Report) {
	const rule = "FWD.identity"
	fn := p.Fn("mxj.Map.ValuesForPath")
	if fn == nil || len(fn.Params) < 2 {
		r.Anchor(rule, "mxj.Map.ValuesForPath")
		return
	}
	var path *ssa.Parameter
	for _, prm := range fn.Params[1:] {
		if isStringType(prm.Type()) {
			path = prm
			break
		}
	}
	if path == nil {
		r.Anchor(rule, "path parameter of mxj.Map.ValuesForPath")
		return
	}
	n, bad := 0, ""
	for _, in := range instrsByPos(fn) {
		c, ok := in.(ssa.CallInstruction)
		if !ok {
			continue
		}
		h := staticCallee(c.Common())
		if h == nil || !p.InModule(h) {
			continue
		}
		for _, a := range c.Common().Args {
			if !isStringType(a.Type()) || !backwardSlice(fn, a)[path] {
				continue
			}
			n++
			if a != ssa.Value(path) {
				bad = p.Pos(c.Pos()) + " (" + p.Name(h) + ")"
			}
		}
	}
	cn := "the path handed on is the path given"
	switch {
	case n == 0:
		r.Anchor(rule, "call of mxj.Map.ValuesForPath that takes the path")
	case bad != "":
		r.Bad(rule, p.Name(fn), cn, bad, "a module function is handed a string computed from the path instead of the path itself at "+bad+": the query answers for a rewritten path")
	default:
		r.OK(rule, p.Name(fn), cn, p.Pos(fn.Pos()), fmt.Sprintf("%d module calls take the path; each takes the parameter itself", n))
	}
}

// ruleLeafOptPass (LEAF.attrfilter clause, C09): the no-attributes option governs the whole walk. Every recursive call of the leaf
// walker hands on its boolean parameters themselves, not a constant and not a value computed per member.
func ruleLeafOptPass(p *Prog, r *Report) {
	const rule = "LEAF.attrfilter"
	fn := p.Fn("mxj.getLeafNodes")
	if fn == nil {
		r.Assume(rule, "mxj.getLeafNodes", "recursion hands the option on", "", "the leaf walker is not found under its name; the clause is not decided on this tree")
		return
	}
	n, bad := 0, ""
	for _, in := range instrsByPos(fn) {
		c, ok := in.(*ssa.Call)
		if !ok || staticCallee(&c.Call) != fn {
			continue
		}
		for i, a := range c.Call.Args {
			if i >= len(fn.Params) || !isBoolType(fn.Params[i].Type()) {
				continue
			}
			n++
			if a != ssa.Value(fn.Params[i]) {
				bad = p.Pos(c.Pos())
			}
		}
	}
	cn := "recursion hands the option on"
	switch {
	case n == 0:
		r.Assume(rule, p.Name(fn), cn, p.Pos(fn.Pos()), "no recursive call with a boolean parameter; the clause is not decided on this tree")
	case bad != "":
		r.Bad(rule, p.Name(fn), cn, bad, "the recursive call at "+bad+" does not pass the walker's own option parameter: below that member the no-attributes option is switched, so its path keeps (or loses) the text-key segment and attribute entries")
	default:
		r.OK(rule, p.Name(fn), cn, p.Pos(fn.Pos()), fmt.Sprintf("%d boolean arguments of recursive calls are the parameters themselves", n))
	}
}

// ruleWalkDescend (WALK.arms clause, C20/C07): a path walker continues below a value only if that value can be a map or a list. A
// recursive call at a point where the type-set dataflow knows the walker's node to be neither (the default arm of its type switch)
// makes a step — a wildcard in particular — match scalars, which the core walker never does.
func ruleWalkDescend(p *Prog, r *Report, names []string) {
	const rule = "WALK.arms"
	for _, name := range names {
		fn := p.Fn(name)
		if fn == nil {
			r.Assume(rule, name, "recursion only below containers", "", "the walker is not found under its name; the clause is not decided on this tree")
			continue
		}
		var node *ssa.Parameter
		for _, prm := range fn.Params {
			if types.IsInterface(prm.Type()) {
				node = prm
				break
			}
		}
		if node == nil {
			r.Assume(rule, name, "recursion only below containers", p.Pos(fn.Pos()), "the walker has no interface-typed node parameter; the clause is not decided on this tree")
			continue
		}
		tf := p.typeFlowOf(fn)
		n, bad := 0, ""
		for _, in := range instrsByPos(fn) {
			c, ok := in.(*ssa.Call)
			if !ok || staticCallee(&c.Call) != fn {
				continue
			}
			n++
			ts := tf.setAtEntry(node, c.Block())
			isMap, isList := ts.ts["map[string]interface{}"], ts.ts["[]interface{}"]
			if (ts.neg && isMap && isList) || (!ts.neg && len(ts.ts) > 0 && !isMap && !isList) {
				bad = p.Pos(c.Pos()) + " (node: " + ts.String() + ")"
			}
		}
		cn := "recursion only below containers"
		if bad != "" {
			r.Bad(rule, name, cn, bad, "the walker calls itself at "+bad+" where its node is known to be neither a map nor a list: a path step matches a scalar there")
			continue
		}
		r.OK(rule, name, cn, p.Pos(fn.Pos()), fmt.Sprintf("%d recursive calls; at none is the node known to be a scalar", n))
	}
}
