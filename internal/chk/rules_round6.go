package chk

import (
	"fmt"
	"go/token"
	"go/types"
	"sort"
	"strings"

	"golang.org/x/tools/go/ssa"
)

// Rules added after round 13 of seeded changes.

// ---- TEXT.trimset (C01, C04) ---------------------------------------------------------------------------------------------------------------

// ruleTextTrimSet: the decoders trim character data with the cut set the option DisableTrimWhiteSpace maintains (trimRunes) and
// with nothing else. A standard-library trimming function applied to character data with another notion of white space
// (strings.TrimSpace and strings.Fields use Unicode's, a constant cut set ignores the option) removes characters the document's
// text consists of — a no-break space is text, not padding.
func ruleTextTrimSet(p *Prog, r *Report, decoders []string) {
	const rule = "TEXT.trimset"
	tr := p.Globals["mxj.trimRunes"]
	if tr == nil {
		r.Anchor(rule, "mxj.trimRunes")
		return
	}
	for _, n := range decoders {
		fn := p.Fn(n)
		if fn == nil {
			r.Anchor(rule, n)
			continue
		}
		scope := []*ssa.Function{fn}
		seen := map[*ssa.Function]bool{fn: true}
		for i := 0; i < len(scope) && i < 12; i++ {
			eachInstr(scope[i], func(b *ssa.BasicBlock, in ssa.Instruction) {
				if c, ok := in.(ssa.CallInstruction); ok {
					if h := staticCallee(c.Common()); h != nil && p.InModule(h) && !p.Exported(h) && len(h.Blocks) > 0 && !seen[h] && h.Parent() == nil {
						seen[h] = true
						scope = append(scope, h)
					}
				}
			})
		}
		nTrim, bad := 0, ""
		var assumed []string
		for _, f := range scope {
			eachInstr(f, func(b *ssa.BasicBlock, in ssa.Instruction) {
				c, ok := in.(*ssa.Call)
				if !ok || bad != "" {
					return
				}
				if !isCallTo(&c.Call, "strings.TrimSpace", "strings.Trim", "strings.TrimLeft", "strings.TrimRight", "strings.Fields", "strings.TrimFunc",
					"strings.TrimLeftFunc", "strings.TrimRightFunc", "bytes.TrimSpace", "bytes.Trim", "bytes.TrimLeft", "bytes.TrimRight", "bytes.Fields") {
					return
				}
				if !p.fromCharData(f, c.Call.Args[0], 0) {
					return
				}
				nm := p.calleeName(&c.Call)
				switch {
				case strings.HasSuffix(nm, "Func"):
					assumed = append(assumed, p.Pos(c.Pos()))
				case strings.HasSuffix(nm, "TrimSpace") || strings.HasSuffix(nm, "Fields"):
					bad = "character data goes through " + nm + " at " + p.Pos(c.Pos()) + ": Unicode white space (no-break space, …) that is part of the text is removed, and DisableTrimWhiteSpace is not honoured"
				default:
					nTrim++
					cut := c.Call.Args[1]
					if cv, isConv := cut.(*ssa.Convert); isConv {
						cut = cv.X
					}
					if globalOf(cut) != tr && !p.influence(f, false, cut).globals[tr] {
						bad = "character data is trimmed at " + p.Pos(c.Pos()) + " with a cut set that is not the one DisableTrimWhiteSpace maintains (trimRunes)"
					}
				}
			})
		}
		cons := "character data trimmed with the option's cut set only"
		switch {
		case bad != "":
			r.Bad(rule, n, cons, p.Pos(fn.Pos()), bad)
		case len(assumed) > 0:
			r.Assume(rule, n, cons, assumed[0], "character data is trimmed with a predicate function; which characters it removes is not decided")
		case nTrim == 0:
			r.Assume(rule, n, cons, p.Pos(fn.Pos()), "no standard-library trimming call on character data found: how the text is trimmed is not decided here")
		default:
			r.OK(rule, n, cons, p.Pos(fn.Pos()), fmt.Sprintf("%d trimming call(s) on character data in the decoder and its helpers, each with the cut set trimRunes", nTrim))
		}
	}
}

// ---- ESC.verbatim (C04) --------------------------------------------------------------------------------------------------------------------

// ruleEscVerbatim: comments, directives and processing instructions are markup the decoder hands over verbatim; the sequence
// encoder writes them back without escaping. Inside the arms of the encoder that are entered under `key == commentK`,
// `key == directiveK` or `key == procinstK` nothing calls escapeChars, directly or through a helper.
func ruleEscVerbatim(p *Prog, r *Report) {
	const rule = "ESC.verbatim"
	fn := p.Fn("mxj.mapToXmlSeqIndent")
	esc := p.Fn("mxj.escapeChars")
	if fn == nil || esc == nil {
		r.Anchor(rule, "mxj.mapToXmlSeqIndent")
		return
	}
	keys := map[*ssa.Global]string{}
	for _, gn := range []string{"mxj.commentK", "mxj.directiveK", "mxj.procinstK"} {
		if g := p.Globals[gn]; g != nil {
			keys[g] = gn
		} else {
			r.Anchor(rule, gn)
		}
	}
	reachesEsc := func(h *ssa.Function) bool {
		if h == esc {
			return true
		}
		if !p.InModule(h) {
			return false
		}
		return p.Reach(h)[esc]
	}
	nArms, bad := 0, ""
	arms := map[string]bool{}
	for _, b := range fn.Blocks {
		arm := ""
		for _, g := range dominatingGuards(b) {
			ng := normGuard(g)
			bo, ok := ng.Cond.(*ssa.BinOp)
			if !ok || !((bo.Op == token.EQL && ng.Pol) || (bo.Op == token.NEQ && !ng.Pol)) {
				continue
			}
			for _, side := range []ssa.Value{bo.X, bo.Y} {
				if gl := globalOf(side); gl != nil && keys[gl] != "" {
					arm = keys[gl]
				}
			}
		}
		if arm == "" {
			continue
		}
		arms[arm] = true
		for _, in := range b.Instrs {
			c, ok := in.(ssa.CallInstruction)
			if !ok {
				continue
			}
			if h := staticCallee(c.Common()); h != nil && h != fn && reachesEsc(h) && bad == "" {
				bad = "in the arm entered under key == " + strings.TrimPrefix(arm, "mxj.") + " the call of " + p.Name(h) + " at " + p.Pos(c.Pos()) + " can escape the text: comments, directives and processing instructions are written back changed when XMLEscapeChars is on"
			}
		}
	}
	nArms = len(arms)
	cons := "markup items are written verbatim"
	switch {
	case bad != "":
		r.Bad(rule, p.Name(fn), cons, p.Pos(fn.Pos()), bad)
	case nArms == 0:
		r.Assume(rule, p.Name(fn), cons, p.Pos(fn.Pos()), "no arm guarded by a comparison of the key with the comment / directive / instruction keys found in the encoder: not decided here")
	default:
		var an []string
		for a := range arms {
			an = append(an, strings.TrimPrefix(a, "mxj."))
		}
		sort.Strings(an)
		r.OK(rule, p.Name(fn), cons, p.Pos(fn.Pos()), "no call that reaches escapeChars inside the arms for "+strings.Join(an, ", "))
	}
}

// ---- JSON.emptyonly, JSON.once (C06) -------------------------------------------------------------------------------------------------------

// ruleJsonFirstValue: NewMapJson accepts exactly what encoding/json accepts and returns its first value. (a) The only input for
// which it answers without consulting the decoder is the empty one: every return of a nil error that no decoding call precedes is
// dominated by len(input) == 0. (b) The decoder is asked for one value: no Decode / Unmarshal call lies in a loop or after another.
func ruleJsonFirstValue(p *Prog, r *Report) {
	const rule = "JSON.firstvalue"
	fn := p.Fn("mxj.NewMapJson")
	if fn == nil || len(fn.Params) == 0 {
		r.Anchor(rule, "mxj.NewMapJson")
		return
	}
	isDecode := func(c *ssa.CallCommon) bool {
		return isCallTo(c, "(*encoding/json.Decoder).Decode", "encoding/json.Unmarshal")
	}
	var reachDecode func(h *ssa.Function, d int) bool
	reachDecode = func(h *ssa.Function, d int) bool {
		found := false
		eachInstr(h, func(b *ssa.BasicBlock, in ssa.Instruction) {
			c, ok := in.(ssa.CallInstruction)
			if !ok || found {
				return
			}
			if isDecode(c.Common()) {
				found = true
				return
			}
			if g := staticCallee(c.Common()); g != nil && g != h && p.InModule(g) && !p.Exported(g) && len(g.Blocks) > 0 && d < 3 && reachDecode(g, d+1) {
				found = true
			}
		})
		return found
	}
	decBlk := map[*ssa.BasicBlock]bool{}
	eachInstr(fn, func(b *ssa.BasicBlock, in ssa.Instruction) {
		c, ok := in.(ssa.CallInstruction)
		if !ok {
			return
		}
		if isDecode(c.Common()) {
			decBlk[b] = true
		} else if g := staticCallee(c.Common()); g != nil && p.InModule(g) && !p.Exported(g) && len(g.Blocks) > 0 && reachDecode(g, 0) {
			decBlk[b] = true
		}
	})
	if len(decBlk) == 0 {
		r.Unknown(rule, p.Name(fn), "decoding call", p.Pos(fn.Pos()), "no call of the JSON decoder found in or below NewMapJson")
		return
	}
	// (a)
	cz := p.canonFor(fn)
	want := "len(" + cz.of(fn.Params[0]) + ")"
	nShort, bad := 0, ""
	seen := map[*ssa.BasicBlock]bool{fn.Blocks[0]: true}
	work := []*ssa.BasicBlock{fn.Blocks[0]}
	for len(work) > 0 {
		b := work[len(work)-1]
		work = work[:len(work)-1]
		if decBlk[b] {
			continue
		}
		if ret, ok := b.Instrs[len(b.Instrs)-1].(*ssa.Return); ok {
			if len(ret.Results) == 2 && isNilConst(ret.Results[1]) {
				nShort++
				okEmpty := false
				for _, g := range expandAndGuards(dominatingGuards(b)) {
					ng := normGuard(g)
					bo, isB := ng.Cond.(*ssa.BinOp)
					if !isB || cz.of(bo.X) != want {
						continue
					}
					k, isK := constInt(bo.Y)
					if !isK {
						continue
					}
					switch {
					case bo.Op == token.EQL && k == 0 && ng.Pol, bo.Op == token.NEQ && k == 0 && !ng.Pol,
						bo.Op == token.GTR && k == 0 && !ng.Pol, bo.Op == token.LSS && k == 1 && ng.Pol,
						bo.Op == token.GEQ && k == 1 && !ng.Pol, bo.Op == token.LEQ && k == 0 && ng.Pol:
						okEmpty = true
					}
				}
				if !okEmpty && bad == "" {
					bad = p.Pos(ret.Pos())
				}
			}
			continue
		}
		for _, sc := range b.Succs {
			if !seen[sc] {
				seen[sc] = true
				work = append(work, sc)
			}
		}
	}
	if bad == "" {
		r.OK(rule, p.Name(fn), "only the empty input is answered without the decoder", p.Pos(fn.Pos()), fmt.Sprintf("%d return(s) of a nil error that no decoding call precedes, each dominated by len(input) == 0", nShort))
	} else {
		r.Bad(rule, p.Name(fn), "only the empty input is answered without the decoder", bad, "the return at "+bad+" reports success without the decoder having seen the input, on a path that is not restricted to the empty input: inputs encoding/json rejects are accepted")
	}
	// (b) in NewMapJson and the unexported helpers it reaches the decoder through
	scope := []*ssa.Function{fn}
	sseen := map[*ssa.Function]bool{fn: true}
	for i := 0; i < len(scope) && i < 8; i++ {
		eachInstr(scope[i], func(b *ssa.BasicBlock, in ssa.Instruction) {
			if c, ok := in.(ssa.CallInstruction); ok {
				if g := staticCallee(c.Common()); g != nil && p.InModule(g) && !p.Exported(g) && len(g.Blocks) > 0 && !sseen[g] && reachDecode(g, 0) {
					sseen[g] = true
					scope = append(scope, g)
				}
			}
		})
	}
	nDec, again := 0, ""
	for _, f := range scope {
		dblk := map[*ssa.BasicBlock]int{}
		eachInstr(f, func(b *ssa.BasicBlock, in ssa.Instruction) {
			if c, ok := in.(ssa.CallInstruction); ok && isDecode(c.Common()) {
				dblk[b]++
				nDec++
				if dblk[b] > 1 && again == "" {
					again = p.Pos(in.Pos())
				}
			}
		})
		for b := range dblk {
			for sc := range reachableFromSuccs(b) {
				if dblk[sc] > 0 && again == "" {
					again = p.Pos(firstPos(sc))
				}
			}
		}
	}
	if again == "" {
		r.OK(rule, p.Name(fn), "the decoder is asked for one value", p.Pos(fn.Pos()), fmt.Sprintf("%d Decode / Unmarshal call(s), none in a loop, none after another", nDec))
	} else {
		r.Bad(rule, p.Name(fn), "the decoder is asked for one value", again, "a Decode call at "+again+" can run after another one on the same input: values after the first are merged into the Map (or make a valid first value fail)")
	}
}

// ---- LEAF.attrfilter (C09) -----------------------------------------------------------------------------------------------------------------

// ruleLeafAttrFilter: the no-attributes option removes attribute entries wherever they sit. Every loop over the members of a map
// in LeafNodes and the functions below it that hands a member's key on to the leaf walker does so under a test that depends on
// that key and on the attribute prefix (the skip of attribute keys); a loop that walks members without it lets the attributes of
// that level through.
func ruleLeafAttrFilter(p *Prog, r *Report) {
	const rule = "LEAF.attrfilter"
	api, walker := p.Fn("mxj.Map.LeafNodes"), p.Fn("mxj.getLeafNodes")
	if api == nil || walker == nil {
		r.Anchor(rule, "mxj.Map.LeafNodes/mxj.getLeafNodes")
		return
	}
	ap, lap := p.Globals["mxj.attrPrefix"], p.Globals["mxj.lenAttrPrefix"]
	scope := []*ssa.Function{api}
	seen := map[*ssa.Function]bool{api: true}
	for i := 0; i < len(scope) && i < 12; i++ {
		eachInstr(scope[i], func(b *ssa.BasicBlock, in ssa.Instruction) {
			if c, ok := in.(ssa.CallInstruction); ok {
				if h := staticCallee(c.Common()); h != nil && p.InModule(h) && !p.Exported(h) && len(h.Blocks) > 0 && !seen[h] {
					seen[h] = true
					scope = append(scope, h)
				}
			}
		})
	}
	inScope := func(h *ssa.Function) bool { return h != nil && seen[h] && h != api }
	nLoops, bad := 0, ""
	for _, f := range scope {
		for _, l := range findMapLoops(f) {
			if l.next == nil {
				continue
			}
			var key ssa.Value
			for _, ref := range *l.next.Referrers() {
				if ex, ok := ref.(*ssa.Extract); ok && ex.Index == 1 {
					key = ex
				}
			}
			if key == nil || !isStringType(key.Type()) {
				continue
			}
			for b := range l.body {
				for _, in := range b.Instrs {
					c, ok := in.(ssa.CallInstruction)
					if !ok || !inScope(staticCallee(c.Common())) {
						continue
					}
					usesKey := false
					for _, a := range c.Common().Args {
						if isStringType(a.Type()) && backwardSlice(f, a)[key] {
							usesKey = true
						}
					}
					if !usesKey {
						continue
					}
					nLoops++
					// a test inside the body that depends on the key and on the attribute prefix, one outcome of which leads back to the
					// loop header without passing this call
					filtered := false
					for x := range l.body {
						ifi, isIf := x.Instrs[len(x.Instrs)-1].(*ssa.If)
						if !isIf || x == l.header {
							continue
						}
						infl := p.influence(f, false, ifi.Cond)
						if !infl.values[key] || !(infl.globals[ap] || (lap != nil && infl.globals[lap])) {
							continue
						}
						for _, sc := range x.Succs {
							// reach the header from sc inside the body without entering b
							seenB := map[*ssa.BasicBlock]bool{}
							stack := []*ssa.BasicBlock{sc}
							for len(stack) > 0 && !filtered {
								y := stack[len(stack)-1]
								stack = stack[:len(stack)-1]
								if y == l.header {
									filtered = true
									break
								}
								if seenB[y] || y == b || !l.body[y] {
									continue
								}
								seenB[y] = true
								stack = append(stack, y.Succs...)
							}
						}
					}
					if !filtered && bad == "" {
						bad = "the member loop at " + p.Pos(l.pos) + " in " + p.Name(f) + " hands every key on to " + p.Name(staticCallee(c.Common())) + " (" + p.Pos(in.Pos()) + ") without a test of the key against the attribute prefix: with the no-attributes option the attribute entries of that level are still listed"
					}
				}
			}
		}
	}
	cons := "member loops that walk on test the key against the attribute prefix"
	switch {
	case bad != "":
		r.Bad(rule, p.Name(api), cons, p.Pos(api.Pos()), bad)
	case nLoops == 0:
		r.Assume(rule, p.Name(api), cons, p.Pos(api.Pos()), "no loop over map members that passes the key to the walker found below LeafNodes: not decided here")
	default:
		r.OK(rule, p.Name(api), cons, p.Pos(api.Pos()), fmt.Sprintf("%d walker call(s) inside member loops, each under a test that depends on the key and on the attribute prefix", nLoops))
	}
}

var _ = types.Typ
