package chk

import (
	"fmt"
	"go/constant"
	"go/token"
	"go/types"
	"os"
	"regexp"
	"sort"
	"strconv"
	"strings"

	"golang.org/x/tools/go/ssa"
)

// TAGS.protocol — typestate of the output buffer in the recursive Map encoder (C02, C03, C05 well-formedness clause).
//
// Per call of the encoder the element being written is in one of four states:
//   none     nothing of this element written yet
//   open     "<key" (and attributes) written, start tag not closed
//   content  start tag closed with ">", content may follow
//   done     "</key>" or "/>" written
// Writes to the buffer are classified by the constant prefix of their operand and must respect the protocol
//   start: none→open · attribute: open→open · ">…": open→content · text / recursive call: content (recursion also in none:
//   a list is a sequence of complete elements) · "</…": content→done · "/>": open→done · whitespace: any
// and every return of a nil error must leave the element in state done or none. The analysis is path-sensitive over a
// small product domain: the tag state plus abstract values {true,false} / {0,+} of the boolean and integer variables the
// encoder steers by (endTag, isSimple, elen, …), refined on branch edges. Paths on which the encoded value cannot be a
// JSON/XML-shaped value (by the dynamic type sets of F3) are pruned: the properties quantify over such Maps only.

const (
	tsNone = iota
	tsOpen
	tsContent
	tsDone
)

var tsNames = []string{"none", "open", "content", "done"}

type tagTuple struct {
	t     int
	vals  map[string]string // SSA value name -> "T","F","0","+"
	types map[string]tset   // interface value name -> dynamic type set on this path
	trace string            // first path that produced the tuple (diagnostics only, not part of the key)
}

func (t tagTuple) key() string {
	var ks []string
	for k, v := range t.vals {
		ks = append(ks, k+"="+v)
	}
	for k, v := range t.types {
		ks = append(ks, k+":"+v.String())
	}
	sort.Strings(ks)
	return fmt.Sprintf("%d|%s", t.t, strings.Join(ks, ";"))
}

func (t tagTuple) clone() tagTuple {
	c := tagTuple{t: t.t, vals: map[string]string{}, types: map[string]tset{}, trace: t.trace}
	for k, v := range t.vals {
		c.vals[k] = v
	}
	for k, v := range t.types {
		c.types[k] = v
	}
	return c
}

// inDomain: the type set admits at least one JSON/XML-shaped type.
func inDomainOf(dom map[string]bool, s tset) bool {
	if s.neg {
		for t := range dom {
			if !s.ts[t] {
				return true
			}
		}
		return false
	}
	for t := range s.ts {
		if dom[t] {
			return true
		}
	}
	return false
}

var jsonDomain = map[string]bool{"map[string]interface{}": true, "[]interface{}": true, "string": true, "float64": true, "bool": true,
	"encoding/json.Number": true, "nil": true, "int": true, "int32": true, "int64": true, "uint64": true, "float32": true, "[]byte": true}

type tagAnalysis struct {
	refineDepth int
	p           *Prog
	fn          *ssa.Function
	buf         *ssa.Parameter
	tf          *typeFlow
	cz          *canonizer
	viol        map[string]string // description -> position
	nEv         int
	tuple       int
	// typeOf: dynamic type set of an interface operand under a tuple (set by the rule)
	typeOf        func(t tagTuple, v ssa.Value) tset
	assumedNumber bool
	unmodelled    map[string]string // position -> callee that receives the buffer
	key           *ssa.Parameter    // the element name parameter
	shapeSites    map[token.Pos]bool
	valueP        *ssa.Parameter
	domain        map[string]bool
	stateNames    []string
	onWrite       func(t *tagTuple, parts []ssa.Value, whole ssa.Value, raw bool, pos token.Pos)
	onRecurse     func(t *tagTuple, pos token.Pos)
	finalOK       func(state int) bool
	feasible      func(t tagTuple) bool // optional: relational domain constraint on a path state
	// optional content-source tracking (TAGS.content): src is a scalar content value (the text-key lookup result or the value parameter);
	// the element must not be completed on a path where src holds a scalar of the domain without a write derived from src.
	src        ssa.Value
	srcInstr   ssa.Instruction // executing it makes the source current (nil: a parameter, always current)
	srcOK      ssa.Value       // comma-ok flag of the lookup (nil: presence is "not nil")
	srcDomain  map[string]bool // scalar kinds that must be written
	isDone     func(state int) bool
	srcViol    map[string]string
	srcCanon   string
	nSrcDone   int
	total      int
	opaqueAttr bool
	// interprocedural exploration
	cur    *frame // the function being explored
	info   map[*ssa.Function]*fnInfo
	steps  int
	rootFn *ssa.Function
	memo   map[string][]exitT
	stack  map[*ssa.Function]bool
}

// frame: one function on the exploration stack. The root frame is the element encoder; a callee frame is a local closure or a
// module helper that receives the output buffer or the value being encoded. Values of a callee that are merely names for values
// of its caller (parameters, promoted read-only captured variables) are "bound": questions about them are answered in the caller's
// frame with the caller's path state at the call.
type frame struct {
	fn      *ssa.Function
	parent  *frame
	callerT tagTuple
	bind    map[ssa.Value]ssa.Value // Parameter -> argument (a value of the parent frame's function)
	depth   int
}

type fnInfo struct {
	relevant map[ssa.Value]bool
	defBlock map[string]*ssa.BasicBlock
	opPhis   map[*ssa.Phi]bool
	storesFV bool // the function assigns a captured variable
}

// exitT: the path state at a return of a callee and the returned values.
type exitT struct {
	t       tagTuple
	results []ssa.Value
}

// bound: v is, in the current frame, only a name for another value — an argument of the call that created the frame, a promoted
// captured variable, or a field of a local struct that is assigned once (an encoder state struct built with a composite literal and
// handed to methods). Returns that value and the frame it belongs to (the caller's, or the current one for a local struct).
func (a *tagAnalysis) bound(v ssa.Value) (ssa.Value, *frame, bool) {
	fc := a.cur
	if fc == nil {
		return nil, nil, false
	}
	// field of a struct: resolve the struct first
	if u, ok := v.(*ssa.UnOp); ok && u.Op == token.MUL {
		if fa, ok := u.X.(*ssa.FieldAddr); ok {
			base, bfr := fa.X, fc
			for i := 0; i < 4; i++ {
				if al, isAlloc := base.(*ssa.Alloc); isAlloc {
					if sv := stableField(a.p, al, fa.Field); sv != nil {
						return sv, bfr, true
					}
					return nil, nil, false
				}
				saved := a.cur
				a.cur = bfr
				nb, nfr, ok := a.boundSimple(base)
				a.cur = saved
				if !ok {
					break
				}
				base, bfr = nb, nfr
			}
			return nil, nil, false
		}
	}
	return a.boundSimple(v)
}

func (a *tagAnalysis) boundSimple(v ssa.Value) (ssa.Value, *frame, bool) {
	fc := a.cur
	if fc == nil || fc.parent == nil {
		return nil, nil, false
	}
	if bv, ok := fc.bind[v]; ok {
		return bv, fc.parent, true
	}
	if cv := a.p.CellValue(v); cv != nil {
		if vf := cv.Parent(); vf == nil || vf == fc.parent.fn {
			return cv, fc.parent, true
		}
	}
	return nil, nil, false
}

// stableField: the struct allocated at al has its field assigned exactly once in the allocating function, its address is used only
// to reach fields or as an argument of module functions, and none of those functions (to depth 2) assigns the field: every load of
// the field yields the assigned value.
func stableField(p *Prog, al *ssa.Alloc, field int) ssa.Value {
	var val ssa.Value
	n := 0
	okUse := true
	var checkCallee func(h *ssa.Function, idx int, depth int)
	checkCallee = func(h *ssa.Function, idx int, depth int) {
		if h == nil || !p.InModule(h) || len(h.Blocks) == 0 || idx >= len(h.Params) || depth > 2 {
			okUse = false
			return
		}
		for _, ref := range *h.Params[idx].Referrers() {
			switch y := ref.(type) {
			case *ssa.FieldAddr:
				if y.Field != field {
					continue
				}
				for _, r2 := range *y.Referrers() {
					if st, isSt := r2.(*ssa.Store); isSt && st.Addr == ssa.Value(y) {
						okUse = false
					}
				}
			case ssa.CallInstruction:
				for i, arg := range y.Common().Args {
					if arg == ssa.Value(h.Params[idx]) {
						checkCallee(staticCallee(y.Common()), i, depth+1)
					}
				}
			case *ssa.DebugRef:
			default:
				okUse = false
			}
		}
	}
	for _, ref := range *al.Referrers() {
		switch y := ref.(type) {
		case *ssa.FieldAddr:
			if y.Field != field {
				continue
			}
			for _, r2 := range *y.Referrers() {
				switch z := r2.(type) {
				case *ssa.Store:
					if z.Addr == ssa.Value(y) {
						val = z.Val
						n++
					} else {
						okUse = false
					}
				case *ssa.UnOp:
				default:
					okUse = false
				}
			}
		case ssa.CallInstruction:
			for i, arg := range y.Common().Args {
				if arg == ssa.Value(al) {
					checkCallee(staticCallee(y.Common()), i, 1)
				}
			}
		case *ssa.DebugRef:
		default:
			okUse = false
		}
	}
	if n != 1 || !okUse {
		return nil
	}
	return val
}

// inFrame evaluates f in frame fr; tupleFor gives the path state that belongs to fr: the current one for the current frame, the
// state at the call for the caller's frame.
func (a *tagAnalysis) inFrame(fr *frame, f func()) {
	saved := a.cur
	a.cur = fr
	a.swapFn()
	f()
	a.cur = saved
	a.swapFn()
}

func (a *tagAnalysis) tupleFor(fr *frame, t tagTuple) tagTuple {
	if fr == a.cur {
		return t
	}
	// walk up: the state at the call that created the child of fr on the current stack
	for c := a.cur; c != nil && c.parent != nil; c = c.parent {
		if c.parent == fr {
			return c.callerT
		}
	}
	return t
}

// inParent evaluates f in the caller's frame.
func (a *tagAnalysis) inParent(f func()) {
	fc := a.cur
	a.cur = fc.parent
	a.swapFn()
	f()
	a.cur = fc
	a.swapFn()
}

// swapFn keeps the per-function helpers (canonizer, type flow) in step with the current frame.
func (a *tagAnalysis) swapFn() {
	if a.cur == nil {
		return
	}
	a.fn = a.cur.fn
	a.cz = a.p.canonFor(a.fn)
}

// isBufVal / isKeyVal: v denotes the output buffer / the element name of the root encoder.
func (a *tagAnalysis) isBufVal(v ssa.Value) bool {
	if v == ssa.Value(a.buf) {
		return true
	}
	if bv, bfr, ok := a.bound(v); ok {
		r := false
		callerT := a.cur.callerT
		_ = callerT
		a.inFrame(bfr, func() { r = a.isBufVal(bv) })
		return r
	}
	return false
}

func (a *tagAnalysis) rootOf(t tagTuple, v ssa.Value) ssa.Value {
	if bv, bfr, ok := a.bound(v); ok {
		var r ssa.Value
		ct := a.tupleFor(bfr, t)
		a.inFrame(bfr, func() { r = a.rootOf(ct, bv) })
		return r
	}
	return v
}

// normT: byte is an alias of uint8 — one name for the one type.
func normT(n string) string {
	if n == "[]uint8" {
		return "[]byte"
	}
	return n
}

func bufArgIndex(cm *ssa.CallCommon, buf ssa.Value) int {
	for i, a := range cm.Args {
		if a == buf {
			return i
		}
	}
	return -1
}

// writeWrapperArg: fn(…, b, …, s, …) whose only use of b is one WriteString(b, s) with s a string parameter; returns the index of s, or -1.
func writeWrapperArg(fn *ssa.Function, bi int, writeMethod string) int {
	if fn == nil || len(fn.Blocks) == 0 || bi >= len(fn.Params) {
		return -1
	}
	bp := fn.Params[bi]
	arg := -1
	for _, ref := range *bp.Referrers() {
		c, ok := ref.(*ssa.Call)
		if !ok || !isCallTo(c.Common(), writeMethod) || c.Call.Args[0] != ssa.Value(bp) || arg >= 0 {
			return -1
		}
		sp, ok := c.Call.Args[1].(*ssa.Parameter)
		if !ok {
			return -1
		}
		for i, q := range fn.Params {
			if q == sp {
				arg = i
			}
		}
		// the write must happen on every path: it is in the entry block
		if c.Block() != fn.Blocks[0] {
			return -1
		}
	}
	return arg
}

// knownNonNil: the returned error is non-nil on this path (a taken `err != nil` branch or a freshly made error).
func (a *tagAnalysis) knownNonNil(t tagTuple, v ssa.Value) bool {
	if isNilConst(v) {
		return false
	}
	switch x := v.(type) {
	case *ssa.MakeInterface:
		return true
	case *ssa.Call:
		if isCallTo(x.Common(), "fmt.Errorf", "errors.New") {
			return true
		}
	}
	if v.Referrers() == nil {
		return false
	}
	for _, ref := range *v.Referrers() {
		bo, ok := ref.(*ssa.BinOp)
		if !ok || !isNilConst(bo.Y) || bo.X != v {
			continue
		}
		switch a.getVal(t, bo) {
		case "T":
			if bo.Op == token.NEQ {
				return true
			}
		case "F":
			if bo.Op == token.EQL {
				return true
			}
		}
	}
	return false
}

// isDer: on this path v is computed from the content source (phis are looked up in the path state).
func (a *tagAnalysis) isDer(t tagTuple, v ssa.Value, depth int) bool {
	if v == nil || a.src == nil {
		return false
	}
	if bv, bfr, ok := a.bound(v); ok {
		r := false
		ct := a.tupleFor(bfr, t)
		a.inFrame(bfr, func() { r = a.isDer(ct, bv, depth+1) })
		return r
	}
	if a.sameAsSrc(v) {
		return true
	}
	if depth > 14 {
		return false
	}
	switch x := v.(type) {
	case *ssa.Phi:
		return t.vals["$d:"+x.Name()] == "T"
	case *ssa.Const, *ssa.Parameter, *ssa.Global, *ssa.Function, *ssa.Builtin, *ssa.FreeVar:
		return false
	case *ssa.Alloc:
		for _, ref := range *x.Referrers() {
			switch y := ref.(type) {
			case *ssa.IndexAddr:
				for _, r2 := range *y.Referrers() {
					if st, ok := r2.(*ssa.Store); ok && st.Addr == ssa.Value(y) && a.isDer(t, st.Val, depth+1) {
						return true
					}
				}
			case *ssa.Store:
				if y.Addr == ssa.Value(x) && a.isDer(t, y.Val, depth+1) {
					return true
				}
			}
		}
		return false
	case *ssa.Call:
		for _, arg := range x.Call.Args {
			if a.isDer(t, arg, depth+1) {
				return true
			}
		}
		return false
	case ssa.Instruction:
		for _, op := range x.Operands(nil) {
			if *op != nil && a.isDer(t, *op, depth+1) {
				return true
			}
		}
	}
	return false
}

// sameAsSrc: v is the content source or another evaluation of the same lookup (go/ssa has no CSE).
func (a *tagAnalysis) sameAsSrc(v ssa.Value) bool {
	if a.src == nil || v == nil {
		return false
	}
	if v == a.src {
		return true
	}
	if a.cur != nil && a.cur.parent != nil {
		return false
	}
	if a.srcCanon == "" {
		a.srcCanon = a.cz.of(a.src)
	}
	if !strings.HasPrefix(a.srcCanon, "lookup(") {
		return false
	}
	switch v.(type) {
	case *ssa.Lookup, *ssa.Extract:
		return a.cz.of(v) == a.srcCanon
	}
	return false
}

// isSrcNow: on this path v holds the content source itself (the source, a re-evaluation of it, or a phi whose incoming value was it).
func (a *tagAnalysis) isSrcNow(t tagTuple, v ssa.Value) bool {
	if bv, bfr, ok := a.bound(v); ok {
		r := false
		ct := a.tupleFor(bfr, t)
		a.inFrame(bfr, func() { r = a.isSrcNow(ct, bv) })
		return r
	}
	if a.sameAsSrc(v) {
		return true
	}
	if ph, ok := v.(*ssa.Phi); ok {
		return t.vals["$a:"+ph.Name()] == "T"
	}
	return false
}

// srcTypes: the dynamic types the content source can have on this path.
func (a *tagAnalysis) srcTypes(t tagTuple) tset {
	// kept under a key of its own: facts named after SSA values are dropped where the value's definition no longer dominates
	if ts, ok := t.types["$src"]; ok {
		return ts
	}
	return topT()
}

// checkContentWritten is called when the element is completed.
func (a *tagAnalysis) checkContentWritten(t tagTuple, pos token.Pos) {
	if a.src != nil && os.Getenv("MXJ_TAGTRACE") == "2" {
		fmt.Fprintf(os.Stderr, "CCW src=%s @%s [%s]\n", a.src.Name(), a.p.Pos(pos), t.key())
	}
	if a.src == nil || t.vals["$src"] != "T" || t.vals["$wrote"] == "T" || t.vals["$empty"] == "T" {
		return
	}
	ts := a.srcTypes(t)
	present := t.vals["$present"] == "T"
	if ts.neg && ts.ts["nil"] || !ts.neg && !ts.ts["nil"] && len(ts.ts) > 0 {
		present = true
	}
	if !present {
		return
	}
	var kinds []string
	for k := range a.srcDomain {
		if ts.neg && !ts.ts[k] || !ts.neg && ts.ts[k] {
			kinds = append(kinds, k)
		}
	}
	if len(kinds) == 0 {
		return
	}
	sort.Strings(kinds)
	a.nSrcDone++
	k := fmt.Sprintf("the element is completed without writing its content when that is a %s", strings.Join(kinds, " / "))
	if _, dup := a.srcViol[k]; !dup {
		a.srcViol[k] = a.p.Pos(pos)
		if os.Getenv("MXJ_TAGTRACE") != "" {
			fmt.Fprintf(os.Stderr, "TAGTRACE %s @%s: %s [%s]\n", k, a.p.Pos(pos), t.trace, t.key())
		}
	}
}

// opParts: the parts of a written operand on this path — concatenations flattened, string phis replaced by the value that came in
// over the edge this path took (recorded in the path state for the phis that feed write operands).
func (a *tagAnalysis) opParts(t tagTuple, v ssa.Value) []ssa.Value {
	var out []ssa.Value
	var rec func(v ssa.Value, depth int)
	rec = func(v ssa.Value, depth int) {
		if depth > 12 {
			out = append(out, v)
			return
		}
		switch x := v.(type) {
		case *ssa.BinOp:
			if x.Op == token.ADD {
				rec(x.X, depth+1)
				rec(x.Y, depth+1)
				return
			}
		case *ssa.Phi:
			if s, ok := t.vals["$p:"+x.Name()]; ok {
				if i, err := strconv.Atoi(s); err == nil && i >= 0 && i < len(x.Edges) {
					rec(x.Edges[i], depth+1)
					return
				}
			}
		}
		if bv, bfr, ok := a.bound(v); ok {
			ct := a.tupleFor(bfr, t)
			a.inFrame(bfr, func() { out = append(out, a.opParts(ct, bv)...) })
			return
		}
		out = append(out, v)
	}
	rec(v, 0)
	return out
}

// concatParts flattens a left-nested string concatenation.
func concatParts(v ssa.Value) []ssa.Value {
	if bo, ok := v.(*ssa.BinOp); ok && bo.Op == token.ADD {
		return append(concatParts(bo.X), concatParts(bo.Y)...)
	}
	return []ssa.Value{v}
}

// sliceSources: the values a string slice can hold — every value appended to it or stored through an element address, following phis,
// re-slicing and append; ok=false when the slice comes from somewhere this function does not show (a call, a parameter, a field).
func sliceSources(v ssa.Value, seen map[ssa.Value]bool, out *[]ssa.Value) bool {
	if seen[v] {
		return true
	}
	seen[v] = true
	switch x := v.(type) {
	case *ssa.Phi:
		for _, e := range x.Edges {
			if !sliceSources(e, seen, out) {
				return false
			}
		}
		return true
	case *ssa.Slice:
		if al, ok := x.X.(*ssa.Alloc); ok {
			// array literal / varargs array: its element stores
			for _, ref := range *al.Referrers() {
				if ia, ok := ref.(*ssa.IndexAddr); ok {
					for _, r2 := range *ia.Referrers() {
						if st, ok := r2.(*ssa.Store); ok && st.Addr == ssa.Value(ia) {
							*out = append(*out, st.Val)
						}
					}
				}
			}
			return true
		}
		return sliceSources(x.X, seen, out)
	case *ssa.MakeSlice:
		// element stores through &s[i] on any alias are collected by the caller from the referrers of each visited value
		return true
	case *ssa.Const:
		return true // nil slice
	case *ssa.Call:
		if bi, ok := x.Call.Value.(*ssa.Builtin); ok && bi.Name() == "append" && len(x.Call.Args) == 2 {
			return sliceSources(x.Call.Args[0], seen, out) && sliceSources(x.Call.Args[1], seen, out)
		}
	}
	return false
}

// stringForms: the ways a string value is put together in this function: each form is a list of constant and opaque parts.
// An element read from a local string slice stands for every value stored in that slice.
func stringForms(v ssa.Value, depth int) [][]ssa.Value {
	if depth <= 0 {
		return [][]ssa.Value{{v}}
	}
	switch x := v.(type) {
	case *ssa.BinOp:
		if x.Op == token.ADD {
			var out [][]ssa.Value
			for _, l := range stringForms(x.X, depth-1) {
				for _, r := range stringForms(x.Y, depth-1) {
					f := append(append([]ssa.Value{}, l...), r...)
					out = append(out, f)
					if len(out) > 32 {
						return [][]ssa.Value{{v}}
					}
				}
			}
			return out
		}
	case *ssa.Phi:
		var out [][]ssa.Value
		for _, e := range x.Edges {
			if e == ssa.Value(x) {
				continue
			}
			out = append(out, stringForms(e, depth-1)...)
		}
		if len(out) > 0 && len(out) <= 32 {
			return out
		}
	case *ssa.UnOp:
		if x.Op == token.MUL {
			if ia, ok := x.X.(*ssa.IndexAddr); ok {
				if _, isSlice := ia.X.Type().Underlying().(*types.Slice); isSlice && typeStr(x.Type()) == "string" {
					var srcs []ssa.Value
					seen := map[ssa.Value]bool{}
					if sliceSources(ia.X, seen, &srcs) {
						// stores through element addresses of any visited alias
						for al := range seen {
							if al.Referrers() == nil {
								continue
							}
							for _, ref := range *al.Referrers() {
								if ia2, ok := ref.(*ssa.IndexAddr); ok && ia2.X == al {
									for _, r2 := range *ia2.Referrers() {
										if st, ok := r2.(*ssa.Store); ok && st.Addr == ssa.Value(ia2) {
											srcs = append(srcs, st.Val)
										}
									}
								}
							}
						}
						var out [][]ssa.Value
						for _, sv := range srcs {
							out = append(out, stringForms(sv, depth-1)...)
						}
						if len(out) > 0 && len(out) <= 32 {
							return out
						}
					}
				}
			}
		}
	}
	return [][]ssa.Value{{v}}
}

// skeleton of a form: constants merged, opaque parts shown as \x00.
func formSkeleton(form []ssa.Value) []string {
	var out []string
	for _, p := range form {
		if s, ok := constString(p); ok {
			if s == "" {
				continue
			}
			if n := len(out); n > 0 && out[n-1] != "\x00" {
				out[n-1] += s
			} else {
				out = append(out, s)
			}
		} else {
			out = append(out, "\x00")
		}
	}
	return out
}

// shape: lexical form of the markup writes — a start tag is "<"+key, an end tag "</"+key+">" (or "></"+key+">") with the same key value, an attribute ` name="value"`.
func (a *tagAnalysis) shape(ev string, parts []ssa.Value, v ssa.Value, pos token.Pos) {
	cs := func(i int) string {
		if i < len(parts) {
			if s, ok := constString(parts[i]); ok {
				return s
			}
		}
		return "\x00"
	}
	bad := func(msg string) { a.viol[msg] = a.p.Pos(pos) }
	switch ev {
	case "start":
		a.shapeSites[pos] = true
		if !(len(parts) == 2 && cs(0) == "<" && parts[1] == ssa.Value(a.key)) {
			bad("a start tag is not '<' followed by the element name parameter")
		}
	case "end":
		a.shapeSites[pos] = true
		if !(len(parts) == 3 && cs(0) == "</" && parts[1] == ssa.Value(a.key) && cs(2) == ">") {
			bad("an end tag is not '</' + the element name parameter + '>'")
		}
	case "closeend":
		a.shapeSites[pos] = true
		// ">" + "</" + key + ">" assembled from two pieces is the same text
		if len(parts) == 4 && cs(0) == ">" && cs(1) == "</" && parts[2] == ssa.Value(a.key) && cs(3) == ">" {
			return
		}
		if !(len(parts) == 3 && cs(0) == "></" && parts[1] == ssa.Value(a.key) && cs(2) == ">") {
			bad("an end tag is not '></' + the element name parameter + '>'")
		}
	case "attr":
		a.shapeSites[pos] = true
		forms := [][]ssa.Value{parts}
		if v != nil {
			forms = stringForms(v, 6)
		}
		for _, form := range forms {
			sk := formSkeleton(form)
			if len(sk) == 2 && sk[0] == " " && sk[1] == "\x00" {
				// the whole attribute text is produced elsewhere (a call result, a parameter): its form is not visible here
				a.opaqueAttr = true
				continue
			}
			if !(len(sk) == 5 && sk[0] == " " && sk[1] == "\x00" && sk[2] == "=\"" && sk[3] == "\x00" && sk[4] == "\"") {
				bad("an attribute is not written as ' name=\"value\"'")
			}
		}
	case "close":
		a.shapeSites[pos] = true
		if cs(0) != ">" {
			bad("the start tag is closed by something other than '>'")
		}
	}
}

// vk: the key under which a fact about a boolean/integer value is kept. Comparisons and loads of set-once package variables are keyed
// by their canonical form (go/ssa has no CSE: `key == commentK` evaluated twice is two values); flip is true when the value is the
// negation of the keyed one (`!=` is keyed as `==`).
func (a *tagAnalysis) vk(v ssa.Value) (string, bool) {
	switch x := v.(type) {
	case *ssa.BinOp:
		if (x.Op == token.EQL || x.Op == token.NEQ) && !isIntType(x.X.Type()) {
			return "c:(" + a.cz.of(x.X) + " == " + a.cz.of(x.Y) + ")", x.Op == token.NEQ
		}
	case *ssa.UnOp:
		if g := globalOf(v); g != nil && a.p.stableGlobal(g) {
			return "c:" + a.cz.of(v), false
		}
	}
	return v.Name(), false
}

var pctName = regexp.MustCompile(`%([A-Za-z_][A-Za-z0-9_]*)`)

// factDeps: the SSA value names a fact key speaks about.
func factDeps(k string) []string {
	if strings.HasPrefix(k, "b:") {
		return []string{k[2:]}
	}
	if strings.HasPrefix(k, "$d:") || strings.HasPrefix(k, "$a:") || strings.HasPrefix(k, "$p:") {
		return []string{k[3:]}
	}
	if strings.HasPrefix(k, "$") {
		return nil
	}
	if !strings.HasPrefix(k, "c:") {
		return []string{k}
	}
	var out []string
	for _, m := range pctName.FindAllStringSubmatch(k, -1) {
		out = append(out, m[1])
	}
	return out
}

func flipTF(s string) string {
	switch s {
	case "T":
		return "F"
	case "F":
		return "T"
	}
	return s
}

func (a *tagAnalysis) getVal(t tagTuple, v ssa.Value) string {
	if bv, bfr, ok := a.bound(v); ok {
		if r, have := t.vals["b:"+v.Name()]; have {
			return r
		}
		r := ""
		ct := a.tupleFor(bfr, t)
		a.inFrame(bfr, func() { r = a.absOf(ct, bv) })
		return r
	}
	k, flip := a.vk(v)
	r := t.vals[k]
	if flip {
		r = flipTF(r)
	}
	return r
}

func (a *tagAnalysis) setVal(t tagTuple, v ssa.Value, val string) {
	if _, _, ok := a.bound(v); ok {
		t.vals["b:"+v.Name()] = val
		return
	}
	k, flip := a.vk(v)
	if flip {
		val = flipTF(val)
	}
	t.vals[k] = val
}

func (a *tagAnalysis) absOf(t tagTuple, v ssa.Value) string {
	if b, ok := constBool(v); ok {
		if b {
			return "T"
		}
		return "F"
	}
	if k, ok := constInt(v); ok {
		if k == 0 {
			return "0"
		}
		if k > 0 {
			return "+"
		}
		return ""
	}
	if r := a.lenOfRendered(t, v); r != "" {
		return r
	}
	if r := a.getVal(t, v); r != "" {
		return r
	}
	// a comparison or negation that no branch has tested yet: evaluate it from what is known about its operands
	switch x := v.(type) {
	case *ssa.BinOp:
		if isBoolType(x.Type()) {
			return a.evalCond(t, v)
		}
	case *ssa.UnOp:
		if x.Op == token.NOT {
			return a.evalCond(t, v)
		}
	}
	return ""
}

// numeric kinds whose %v rendering is never empty; a json.Number is a non-empty literal by the domain assumption recorded on the obligation.
var nonEmptyRender = map[string]bool{"float64": true, "float32": true, "bool": true, "int": true, "int8": true, "int16": true, "int32": true, "int64": true,
	"uint": true, "uint8": true, "uint16": true, "uint32": true, "uint64": true, "encoding/json.Number": true}

// lenOfRendered: len(x) is positive when x is certainly a non-empty string.
func (a *tagAnalysis) lenOfRendered(t tagTuple, v ssa.Value) string {
	c, ok := v.(*ssa.Call)
	if !ok {
		return ""
	}
	bi, ok := c.Call.Value.(*ssa.Builtin)
	if !ok || bi.Name() != "len" || len(c.Call.Args) != 1 {
		return ""
	}
	if a.nonEmptyStr(t, c.Call.Args[0], nil, 0) {
		return "+"
	}
	return ""
}

// sprintfOperand: the single operand of fmt.Sprintf("%v", x), or nil.
func sprintfOperand(sp *ssa.Call) ssa.Value {
	if !isCallTo(sp.Common(), "fmt.Sprintf") || len(sp.Call.Args) != 2 {
		return nil
	}
	if f, ok := sp.Call.Args[0].(*ssa.Const); !ok || f.Value == nil || constant.StringVal(f.Value) != "%v" {
		return nil
	}
	sl, ok := sp.Call.Args[1].(*ssa.Slice)
	if !ok {
		return nil
	}
	al, ok := sl.X.(*ssa.Alloc)
	if !ok {
		return nil
	}
	var operand ssa.Value
	n := 0
	for _, ref := range *al.Referrers() {
		ia, ok := ref.(*ssa.IndexAddr)
		if !ok {
			continue
		}
		for _, r2 := range *ia.Referrers() {
			if st, ok := r2.(*ssa.Store); ok && st.Addr == ssa.Value(ia) {
				operand = st.Val
				n++
			}
		}
	}
	if n != 1 {
		return nil
	}
	return operand
}

// nonEmptyStr: v is a string that cannot be empty: a non-empty constant, the %v rendering of a value all of whose possible dynamic
// types render to something, a strconv formatting result, a concatenation with such a part, a phi of such values, or the result of a
// module function all of whose returns are such values (env gives the type sets of that function's interface parameters).
func (a *tagAnalysis) nonEmptyStr(t tagTuple, v ssa.Value, env map[*ssa.Parameter]tset, depth int) bool {
	if depth > 6 {
		return false
	}
	switch x := v.(type) {
	case *ssa.Const:
		s, ok := constString(x)
		return ok && s != ""
	case *ssa.BinOp:
		if x.Op == token.ADD {
			return a.nonEmptyStr(t, x.X, env, depth+1) || a.nonEmptyStr(t, x.Y, env, depth+1)
		}
	case *ssa.Phi:
		for _, e := range x.Edges {
			if e == ssa.Value(x) {
				continue
			}
			if !a.nonEmptyStr(t, e, env, depth+1) {
				return false
			}
		}
		return len(x.Edges) > 0
	case *ssa.Call:
		if isCallTo(x.Common(), "strconv.FormatInt", "strconv.FormatUint", "strconv.FormatFloat", "strconv.Itoa", "strconv.FormatBool", "strconv.Quote") {
			return true
		}
		if op := sprintfOperand(x); op != nil {
			var ts tset
			switch o := op.(type) {
			case *ssa.MakeInterface:
				ts = posT(normT(tname(o.X.Type())))
			case *ssa.Parameter:
				if e, ok := env[o]; ok {
					ts = e
				} else if env == nil && a.typeOf != nil {
					ts = a.typeOf(t, op)
				} else {
					return false
				}
			default:
				if env != nil || a.typeOf == nil {
					return false
				}
				ts = a.typeOf(t, op)
			}
			if ts.neg || len(ts.ts) == 0 {
				return false
			}
			for k := range ts.ts {
				if !nonEmptyRender[k] {
					return false
				}
				if k == "encoding/json.Number" {
					a.assumedNumber = true
				}
			}
			return true
		}
		if g := staticCallee(x.Common()); g != nil && a.p.InModule(g) && len(g.Blocks) > 0 && g != a.fn {
			// type sets of the callee's interface parameters, from the arguments at this call (caller context only)
			cenv := map[*ssa.Parameter]tset{}
			for i, prm := range g.Params {
				if i >= len(x.Call.Args) || !isIfaceType(prm.Type()) {
					continue
				}
				arg := x.Call.Args[i]
				switch o := arg.(type) {
				case *ssa.MakeInterface:
					cenv[prm] = posT(normT(tname(o.X.Type())))
				case *ssa.Parameter:
					if e, ok := env[o]; ok {
						cenv[prm] = e
					} else if env == nil && a.typeOf != nil {
						cenv[prm] = a.typeOf(t, arg)
					}
				default:
					if env == nil && a.typeOf != nil {
						cenv[prm] = a.typeOf(t, arg)
					}
				}
			}
			nret := 0
			for _, b := range g.Blocks {
				ret, ok := b.Instrs[len(b.Instrs)-1].(*ssa.Return)
				if !ok {
					continue
				}
				nret++
				if len(ret.Results) != 1 || !a.nonEmptyStr(t, ret.Results[0], cenv, depth+1) {
					return false
				}
			}
			return nret > 0
		}
	}
	return false
}

// evalCond: "T", "F" or "" (unknown) for a branch condition under the tuple; also returns a refinement function for each edge.
func (a *tagAnalysis) evalCond(t tagTuple, cond ssa.Value) string {
	g := normGuard(guard{cond, true})
	r := ""
	switch c := g.Cond.(type) {
	case *ssa.BinOp:
		if isIntType(c.X.Type()) {
			x, y := a.absOf(t, c.X), a.absOf(t, c.Y)
			if ky, ok := constInt(c.Y); ok && x != "" {
				switch c.Op {
				case token.GTR:
					if ky == 0 {
						r = map[string]string{"0": "F", "+": "T"}[x]
					}
				case token.EQL:
					if ky == 0 {
						r = map[string]string{"0": "T", "+": "F"}[x]
					}
				case token.NEQ:
					if ky == 0 {
						r = map[string]string{"0": "F", "+": "T"}[x]
					}
				}
			}
			_ = y
		}
		if r == "" {
			r = a.getVal(t, c)
		}
	default:
		r = a.absOf(t, g.Cond)
	}
	if r == "" {
		return ""
	}
	if !g.Pol {
		if r == "T" {
			return "F"
		}
		return "T"
	}
	return r
}

// refine the tuple for having taken the edge (taken = true edge?) of cond.
func (a *tagAnalysis) refine(t tagTuple, cond ssa.Value, taken bool) tagTuple {
	g := normGuard(guard{cond, taken})
	n := t.clone()
	switch c := g.Cond.(type) {
	case *ssa.BinOp:
		if g.Pol {
			a.setVal(n, c, "T")
		} else {
			a.setVal(n, c, "F")
		}
		if isIntType(c.X.Type()) {
			if ky, ok := constInt(c.Y); ok && ky == 0 {
				if _, isC := c.X.(*ssa.Const); !isC {
					switch c.Op {
					case token.GTR, token.NEQ:
						if g.Pol {
							n.vals[c.X.Name()] = "+"
						} else {
							n.vals[c.X.Name()] = "0"
						}
					case token.EQL:
						if g.Pol {
							n.vals[c.X.Name()] = "0"
						} else {
							n.vals[c.X.Name()] = "+"
						}
					}
				}
			}
		}
	default:
		if isBoolType(g.Cond.Type()) {
			if _, isC := g.Cond.(*ssa.Const); !isC {
				if g.Pol {
					a.setVal(n, g.Cond, "T")
				} else {
					a.setVal(n, g.Cond, "F")
				}
			}
			// a phi is, on this path, the value that came in over the recorded edge: what is learnt about the phi holds for that value
			if ph, isPhi := g.Cond.(*ssa.Phi); isPhi {
				if sl, ok := t.vals["$p:"+ph.Name()]; ok {
					if i, err := strconv.Atoi(sl); err == nil && i >= 0 && i < len(ph.Edges) {
						if _, isC := ph.Edges[i].(*ssa.Const); !isC && ph.Edges[i] != ssa.Value(ph) {
							// phis of a loop can point at each other: bound the chain
							a.refineDepth++
							defer func() { a.refineDepth-- }()
							if a.refineDepth > 8 {
								return n
							}
							return a.refine(n, ph.Edges[i], g.Pol)
						}
					}
				}
			}
		}
	}
	return n
}

// classify a buffer write operand by its leftmost constant prefix.
func (a *tagAnalysis) classify(parts []ssa.Value) string {
	// skip empty constants at the front
	for len(parts) > 1 {
		if s, ok := constString(parts[0]); ok && s == "" {
			parts = parts[1:]
			continue
		}
		break
	}
	v := parts[0]
	if s, ok := constString(v); ok {
		switch {
		case strings.HasPrefix(s, "></"):
			return "closeend"
		case s == ">" && len(parts) > 1 && func() bool { n, ok := constString(parts[1]); return ok && strings.HasPrefix(n, "</") }():
			// ">" + "</" + key + ">" assembled from two pieces
			return "closeend"
		case strings.HasPrefix(s, "</"):
			return "end"
		case s == "/>":
			return "selfclose"
		case strings.HasPrefix(s, "<"):
			return "start"
		case strings.HasPrefix(s, ">"):
			return "close"
		case strings.Trim(s, " \t\r\n") == "":
			if s == " " {
				return "attr"
			}
			return "ws"
		case strings.HasPrefix(s, " "):
			return "attr"
		default:
			return "text"
		}
	}
	if a.p.isWhitespaceState(a.fn, v) {
		return "ws"
	}
	return "text"
}

func (a *tagAnalysis) apply(t *tagTuple, ev string, pos token.Pos) {
	a.nEv++
	bad := func(msg string) {
		k := fmt.Sprintf("%s while the element is in state %q", msg, tsNames[t.t])
		if _, dup := a.viol[k]; !dup {
			a.viol[k] = a.p.Pos(pos)
			if os.Getenv("MXJ_TAGTRACE") != "" {
				fmt.Fprintf(os.Stderr, "TAGTRACE %s @%s: %s [%s]\n", k, a.p.Pos(pos), t.trace, t.key())
			}
		}
	}
	switch ev {
	case "start":
		if t.t != tsNone {
			bad("a start tag is written")
		}
		t.t = tsOpen
	case "attr":
		if t.t != tsOpen {
			bad("an attribute is written")
		}
	case "close":
		if t.t != tsOpen {
			bad("'>' is written")
		}
		t.t = tsContent
	case "text":
		if t.t != tsContent {
			bad("element content is written")
		}
	case "recurse":
		if t.t != tsContent && t.t != tsNone {
			bad("a child element is encoded")
		}
	case "end":
		if t.t != tsContent {
			bad("an end tag is written")
		}
		t.t = tsDone
	case "closeend":
		if t.t != tsOpen {
			bad("'></' is written")
		}
		t.t = tsDone
	case "selfclose":
		if t.t != tsOpen {
			bad("'/>' is written")
		}
		t.t = tsDone
	}
}

func ruleTagProtocol(p *Prog, r *Report) {
	const rule = "TAGS.protocol"
	a := mapEncoderAnalysis(p, r, rule)
	if a == nil {
		return
	}
	if !a.run(r, rule) {
		return
	}
	a.report(r, rule, 8)
}

func mapEncoderAnalysis(p *Prog, r *Report, rule string) *tagAnalysis {
	fn := p.Fn("mxj.marshalMapToXmlIndent")
	if fn == nil {
		r.Anchor(rule, "mxj.marshalMapToXmlIndent")
		return nil
	}
	a := newTagAnalysis(p, fn, "*bytes.Buffer")
	if a == nil {
		r.Unknown(rule, p.Name(fn), "encoder parameters", p.Pos(fn.Pos()), "buffer / value parameters not recognised")
		return nil
	}
	a.domain = jsonDomain
	a.stateNames = tsNames
	a.onWrite = func(t *tagTuple, parts []ssa.Value, whole ssa.Value, raw bool, pos token.Pos) {
		ev := a.classify(parts)
		if raw {
			ev = "text"
		}
		a.shape(ev, parts, whole, pos)
		// indentation must not follow the element's own text: between text and the end tag it would become character data
		// (the indented encoder may differ from the compact one in inter-element white space only)
		hasNL := false
		for _, prt := range parts {
			if sc, ok := constString(prt); ok && strings.Contains(sc, "\n") {
				hasNL = true
			}
		}
		if ev == "ws" && !hasNL && t.t == tsContent && t.vals["$txt"] == "T" {
			k := "indentation is written after the element's text: it becomes part of the character data"
			if _, dup := a.viol[k]; !dup {
				a.viol[k] = a.p.Pos(pos)
				if os.Getenv("MXJ_TAGTRACE") != "" {
					fmt.Fprintf(os.Stderr, "TAGTRACE %s @%s: %s [%s]\n", k, a.p.Pos(pos), t.trace, t.key())
				}
			}
		}
		a.apply(t, ev, pos)
		switch ev {
		case "text":
			t.vals["$txt"] = "T"
		case "close":
			sc, isC := constString(parts[0])
			if len(parts) > 1 || (isC && sc != ">") {
				t.vals["$txt"] = "T"
			} else {
				delete(t.vals, "$txt")
			}
		case "ws":
			if hasNL {
				delete(t.vals, "$txt")
			}
		case "start", "end", "closeend", "selfclose":
			delete(t.vals, "$txt")
		}
	}
	a.onRecurse = func(t *tagTuple, pos token.Pos) {
		a.apply(t, "recurse", pos)
		delete(t.vals, "$txt")
	}
	a.finalOK = func(st int) bool { return st == tsDone || st == tsNone }
	a.isDone = func(st int) bool { return st == tsDone }
	return a
}

func newTagAnalysis(p *Prog, fn *ssa.Function, bufType string) *tagAnalysis {
	a := &tagAnalysis{p: p, fn: fn, tf: p.typeFlowOf(fn), cz: p.canonFor(fn), viol: map[string]string{}, srcViol: map[string]string{}, unmodelled: map[string]string{}, shapeSites: map[token.Pos]bool{}}
	for _, prm := range fn.Params {
		if typeStr(prm.Type()) == "string" && a.key == nil {
			a.key = prm
		}
		if typeStr(prm.Type()) == bufType {
			a.buf = prm
		}
		if isEmptyIface(prm.Type()) {
			a.valueP = prm
		}
	}
	if a.buf == nil || a.valueP == nil || a.key == nil {
		return nil
	}
	return a
}

// emptyOnEdge: the branch establishes that a string computed from the content source is empty (x == "", len(x) == 0, !(len(x) > 0)).
func (a *tagAnalysis) emptyOnEdge(t tagTuple, cond ssa.Value, taken bool) bool {
	g := normGuard(guard{cond, taken})
	bo, ok := g.Cond.(*ssa.BinOp)
	if !ok {
		return false
	}
	if s, isC := constString(bo.Y); isC && s == "" && a.isDer(t, bo.X, 0) {
		return bo.Op == token.EQL && g.Pol || bo.Op == token.NEQ && !g.Pol
	}
	if k, isC := constInt(bo.Y); isC && k == 0 {
		if c, ok := bo.X.(*ssa.Call); ok {
			if bi, ok := c.Call.Value.(*ssa.Builtin); ok && bi.Name() == "len" && a.isDer(t, c.Call.Args[0], 0) {
				switch bo.Op {
				case token.EQL:
					return g.Pol
				case token.NEQ, token.GTR:
					return !g.Pol
				}
			}
		}
	}
	return false
}

// write: one buffer write on a path.
func (a *tagAnalysis) write(t *tagTuple, ops []ssa.Value, raw bool, pos token.Pos) {
	var parts []ssa.Value
	for _, op := range ops {
		if a.src != nil && a.isDer(*t, op, 0) {
			t.vals["$wrote"] = "T"
		}
		parts = append(parts, a.opParts(*t, op)...)
	}
	if len(parts) == 0 {
		return
	}
	var whole ssa.Value
	if len(ops) == 1 {
		whole = ops[0]
	}
	was := a.isDone != nil && a.isDone(t.t)
	a.onWrite(t, parts, whole, raw, pos)
	if a.isDone != nil && !was && a.isDone(t.t) {
		a.checkContentWritten(*t, pos)
	}
}

// writeOperands recognises the ways of putting text into the output buffer / builder: WriteString, Write, WriteByte, WriteRune on
// it, io.WriteString and fmt.Fprint / Fprintf / Fprintln with it as the writer. It returns the operands whose concatenation is
// written (constants of a format string become constant operands); raw means the bytes are not markup the protocol knows.
func (a *tagAnalysis) writeOperands(cm *ssa.CallCommon) ([]ssa.Value, bool, bool) {
	if cm.IsInvoke() || len(cm.Args) == 0 {
		return nil, false, false
	}
	asBuf := func(v ssa.Value) bool {
		for {
			switch x := v.(type) {
			case *ssa.MakeInterface:
				v = x.X
				continue
			case *ssa.ChangeInterface:
				v = x.X
				continue
			}
			break
		}
		return a.isBufVal(v)
	}
	strConst := func(s string) ssa.Value { return ssa.NewConst(constant.MakeString(s), types.Typ[types.String]) }
	switch {
	case isCallTo(cm, "(*bytes.Buffer).WriteString", "(*strings.Builder).WriteString"):
		if a.isBufVal(cm.Args[0]) {
			return []ssa.Value{cm.Args[1]}, false, true
		}
	case isCallTo(cm, "(*bytes.Buffer).Write", "(*strings.Builder).Write"):
		if a.isBufVal(cm.Args[0]) {
			return []ssa.Value{cm.Args[1]}, true, true
		}
	case isCallTo(cm, "(*bytes.Buffer).WriteByte", "(*strings.Builder).WriteByte", "(*bytes.Buffer).WriteRune", "(*strings.Builder).WriteRune"):
		if a.isBufVal(cm.Args[0]) {
			if k, ok := constInt(cm.Args[1]); ok {
				return []ssa.Value{strConst(string(rune(k)))}, false, true
			}
			return []ssa.Value{cm.Args[1]}, true, true
		}
	case isCallTo(cm, "io.WriteString"):
		if asBuf(cm.Args[0]) {
			return []ssa.Value{cm.Args[1]}, false, true
		}
	case isCallTo(cm, "fmt.Fprint", "fmt.Fprintln", "fmt.Fprintf"):
		if !asBuf(cm.Args[0]) {
			return nil, false, false
		}
		var args []ssa.Value
		if sl, ok := cm.Args[len(cm.Args)-1].(*ssa.Slice); ok {
			if al, ok := sl.X.(*ssa.Alloc); ok {
				byIdx := map[int64]ssa.Value{}
				for _, ref := range *al.Referrers() {
					if ia, ok := ref.(*ssa.IndexAddr); ok {
						if k, isK := constInt(ia.Index); isK {
							for _, r2 := range *ia.Referrers() {
								if st, ok := r2.(*ssa.Store); ok && st.Addr == ssa.Value(ia) {
									v := st.Val
									if mi, ok := v.(*ssa.MakeInterface); ok && isStringType(mi.X.Type()) {
										v = mi.X
									}
									byIdx[k] = v
								}
							}
						}
					}
				}
				for i := int64(0); i < int64(len(byIdx)); i++ {
					args = append(args, byIdx[i])
				}
			}
		}
		if isCallTo(cm, "fmt.Fprintf") {
			format, ok := constString(cm.Args[1])
			if !ok {
				return nil, true, true
			}
			var out []ssa.Value
			ai := 0
			lit := ""
			for i := 0; i < len(format); i++ {
				if format[i] != '%' || i+1 >= len(format) {
					lit += string(format[i])
					continue
				}
				i++
				if format[i] == '%' {
					lit += "%"
					continue
				}
				if lit != "" {
					out = append(out, strConst(lit))
					lit = ""
				}
				if ai < len(args) && args[ai] != nil {
					out = append(out, args[ai])
				}
				ai++
			}
			if lit != "" {
				out = append(out, strConst(lit))
			}
			return out, false, true
		}
		var out []ssa.Value
		for _, v := range args {
			if v != nil {
				out = append(out, v)
			}
		}
		if isCallTo(cm, "fmt.Fprintln") {
			out = append(out, strConst("\n"))
		}
		return out, false, true
	}
	return nil, false, false
}

// infoOf: per-function facts that do not depend on the path.
func (a *tagAnalysis) infoOf(fn *ssa.Function) *fnInfo {
	if fi, ok := a.info[fn]; ok {
		return fi
	}
	fi := &fnInfo{relevant: map[ssa.Value]bool{}, defBlock: map[string]*ssa.BasicBlock{}, opPhis: map[*ssa.Phi]bool{}}
	relevant := fi.relevant
	var mark func(v ssa.Value)
	mark = func(v ssa.Value) {
		if v == nil || relevant[v] {
			return
		}
		switch x := v.(type) {
		case *ssa.Const:
			return
		case *ssa.Phi:
			relevant[v] = true
			for _, e := range x.Edges {
				mark(e)
			}
		case *ssa.UnOp:
			if x.Op == token.NOT {
				relevant[v] = true
				mark(x.X)
			} else {
				relevant[v] = true
			}
		case *ssa.BinOp:
			relevant[v] = true
			if isIntType(x.X.Type()) {
				mark(x.X)
				mark(x.Y)
			}
		default:
			if isBoolType(v.Type()) || isIntType(v.Type()) {
				relevant[v] = true
			}
		}
	}
	for _, b := range fn.Blocks {
		if ifi, ok := b.Instrs[len(b.Instrs)-1].(*ssa.If); ok {
			mark(ifi.Cond)
		}
	}
	// what is handed to a module function as a boolean or integer steers that function
	eachInstr(fn, func(b *ssa.BasicBlock, in ssa.Instruction) {
		if ci, ok := in.(ssa.CallInstruction); ok {
			if g := staticCallee(ci.Common()); g != nil && a.p.InModule(g) {
				for _, arg := range ci.Common().Args {
					if isBoolType(arg.Type()) || isIntType(arg.Type()) {
						mark(arg)
					}
				}
			}
		}
	})
	eachInstr(fn, func(b *ssa.BasicBlock, in ssa.Instruction) {
		if v, ok := in.(ssa.Value); ok {
			fi.defBlock[v.Name()] = b
		}
		if st, ok := in.(*ssa.Store); ok {
			if _, isFV := st.Addr.(*ssa.FreeVar); isFV {
				fi.storesFV = true
			}
		}
	})
	// string phis that (through concatenation and other phis) feed an operand of a write to a buffer / builder
	var rec func(v ssa.Value)
	rec = func(v ssa.Value) {
		switch x := v.(type) {
		case *ssa.BinOp:
			if x.Op == token.ADD {
				rec(x.X)
				rec(x.Y)
			}
		case *ssa.Phi:
			if fi.opPhis[x] || !isStringType(x.Type()) {
				return
			}
			fi.opPhis[x] = true
			for _, e := range x.Edges {
				rec(e)
			}
		}
	}
	eachInstr(fn, func(b *ssa.BasicBlock, in ssa.Instruction) {
		if ci, ok := in.(ssa.CallInstruction); ok {
			cm := ci.Common()
			if isCallTo(cm, "(*bytes.Buffer).WriteString", "(*strings.Builder).WriteString", "io.WriteString") && len(cm.Args) == 2 {
				rec(cm.Args[1])
			} else if g := staticCallee(cm); g != nil && a.p.InModule(g) {
				for _, arg := range cm.Args {
					if isStringType(arg.Type()) {
						rec(arg)
					}
				}
			}
		}
	})
	a.info[fn] = fi
	return fi
}

// isValueLike: an interface value whose dynamic type is tracked — the value parameter of the root encoder, the phis that re-assign
// it, the content source and its phis, and callee values bound to one of these.
func (a *tagAnalysis) isValueLike(v ssa.Value) bool {
	if !isIfaceType(v.Type()) {
		return false
	}
	if bv, bfr, ok := a.bound(v); ok {
		r := false
		a.inFrame(bfr, func() { r = a.isValueLike(bv) })
		return r
	}
	if a.cur.parent == nil {
		if v == ssa.Value(a.valueP) || phiChainReachesValue(v, a.valueP) {
			return true
		}
		return a.src != nil && (a.sameAsSrc(v) || phiChainReachesValue(v, a.src))
	}
	// in a callee: phis over bound value-like values
	if ph, ok := v.(*ssa.Phi); ok {
		for _, e := range ph.Edges {
			if e != v && a.isValueLike(e) {
				return true
			}
		}
	}
	return false
}

// domainOf: the set of dynamic types a subject ranges over (nil: no domain restriction).
func (a *tagAnalysis) domainOf(v ssa.Value) map[string]bool {
	if bv, bfr, ok := a.bound(v); ok {
		var r map[string]bool
		a.inFrame(bfr, func() { r = a.domainOf(bv) })
		return r
	}
	if a.cur.parent == nil && (v == ssa.Value(a.valueP) || phiChainReachesValue(v, a.valueP)) {
		return a.domain
	}
	return nil
}

func (a *tagAnalysis) typeOfVal(t tagTuple, v ssa.Value) tset {
	if mi, ok := v.(*ssa.MakeInterface); ok {
		return posT(normT(tname(mi.X.Type())))
	}
	if isNilConst(v) {
		return posT("nil")
	}
	if ts, ok := t.types[v.Name()]; ok {
		return ts
	}
	if bv, bfr, ok := a.bound(v); ok {
		r := topT()
		ct := a.tupleFor(bfr, t)
		a.inFrame(bfr, func() { r = a.typeOfVal(ct, bv) })
		return r
	}
	return topT()
}

// refineType: apply a branch on the dynamic type of a value-like subject; ok=false when the edge is infeasible or outside the domain
func (a *tagAnalysis) refineType(t tagTuple, cond ssa.Value, taken bool) (tagTuple, bool) {
	g := normGuard(guard{cond, taken})
	var subj ssa.Value
	var only string
	var without string
	switch c := g.Cond.(type) {
	case *ssa.Extract:
		ta, ok := c.Tuple.(*ssa.TypeAssert)
		if !ok || c.Index != 1 || !ta.CommaOk {
			return t, true
		}
		subj = ta.X
		if isIfaceType(ta.AssertedType) {
			if g.Pol {
				without = "nil"
			} else {
				only = "nil"
			}
		} else if g.Pol {
			only = normT(tname(ta.AssertedType))
		} else {
			without = normT(tname(ta.AssertedType))
		}
	case *ssa.BinOp:
		if (c.Op == token.EQL || c.Op == token.NEQ) && isNilConst(c.Y) && isIfaceType(c.X.Type()) {
			subj = c.X
			if (c.Op == token.EQL) == g.Pol {
				only = "nil"
			} else {
				without = "nil"
			}
		} else {
			return t, true
		}
	default:
		return t, true
	}
	if !a.isValueLike(subj) {
		return t, true
	}
	cur := a.typeOfVal(t, subj)
	var nt tset
	if only != "" {
		nt = cur.only(only)
	} else {
		nt = cur.without(without)
	}
	if !nt.neg && len(nt.ts) == 0 {
		return t, false
	}
	if d := a.domainOf(subj); d != nil && !inDomainOf(d, nt) {
		return t, false
	}
	n := t.clone()
	n.types[subj.Name()] = nt
	if a.src != nil && a.isSrcNow(t, subj) {
		n.types["$src"] = nt
	}
	return n, true
}

// run explores the encoder path-sensitively; false when the analysis could not be completed (an undecided obligation has been recorded).
func (a *tagAnalysis) run(r *Report, rule string) bool {
	a.rootFn = a.fn
	a.info = map[*ssa.Function]*fnInfo{}
	a.memo = map[string][]exitT{}
	a.stack = map[*ssa.Function]bool{}
	a.typeOf = a.typeOfVal
	root := &frame{fn: a.fn}
	a.cur = root
	start := tagTuple{t: tsNone, vals: map[string]string{}, types: map[string]tset{}}
	if a.src != nil && a.srcInstr == nil {
		start.vals["$src"] = "T"
	}
	_, ok := a.explore(root, start)
	a.cur = root
	a.swapFn()
	if !ok {
		r.Unknown(rule, a.p.Name(a.rootFn), "tag protocol", a.p.Pos(a.rootFn.Pos()), "state space exceeded the budget")
		return false
	}
	return true
}

// explore runs the path-sensitive exploration of one function from one entry state and returns the states at its returns.
func (a *tagAnalysis) explore(fc *frame, start tagTuple) ([]exitT, bool) {
	p, fn := a.p, fc.fn
	saved := a.cur
	a.cur = fc
	a.swapFn()
	defer func() {
		a.cur = saved
		a.swapFn()
	}()
	fi := a.infoOf(fn)
	relevant, defBlock, opPhis := fi.relevant, fi.defBlock, fi.opPhis
	isRoot := fc.parent == nil
	var exits []exitT
	exitSeen := map[string]bool{}
	in := map[*ssa.BasicBlock]map[string]tagTuple{}
	in[fn.Blocks[0]] = map[string]tagTuple{start.key(): start}
	work := []*ssa.BasicBlock{fn.Blocks[0]}
	queued := map[*ssa.BasicBlock]bool{fn.Blocks[0]: true}
	processed := map[*ssa.BasicBlock]map[string]bool{}
	okAll := true
	for len(work) > 0 {
		b := work[0]
		work = work[1:]
		queued[b] = false
		a.steps++
		if a.steps > 400000 {
			return nil, false
		}
		if processed[b] == nil {
			processed[b] = map[string]bool{}
		}
		outs := map[string]tagTuple{}
		// walk executes the instructions of b from index idx on for one path state; a call into a modelled callee forks the walk
		var walk func(t tagTuple, idx int)
		walk = func(t tagTuple, idx int) {
			for ; idx < len(b.Instrs); idx++ {
				ins := b.Instrs[idx]
				if isRoot && a.src != nil && a.srcInstr != nil && ins == a.srcInstr {
					t.vals["$src"] = "T"
					delete(t.vals, "$wrote")
					delete(t.vals, "$empty")
					delete(t.vals, "$present")
					delete(t.types, "$src")
				}
				if ta, ok := ins.(*ssa.TypeAssert); ok && !ta.CommaOk && !isIfaceType(ta.AssertedType) && a.isValueLike(ta.X) {
					// execution continues only if the assertion holds
					nt := a.typeOfVal(t, ta.X).only(normT(tname(ta.AssertedType)))
					if !nt.neg && len(nt.ts) == 0 {
						return
					}
					t.types[ta.X.Name()] = nt
					if a.src != nil && a.isSrcNow(t, ta.X) {
						t.types["$src"] = nt
					}
				}
				switch x := ins.(type) {
				case ssa.CallInstruction:
					if _, isDefer := ins.(*ssa.Defer); isDefer {
						continue
					}
					cm := x.Common()
					if ops, raw, ok := a.writeOperands(cm); ok {
						a.write(&t, ops, raw, ins.Pos())
					} else if g := staticCallee(cm); g == a.rootFn {
						a.onRecurse(&t, ins.Pos())
					} else if a.involved(t, cm) {
						cv, isVal := ins.(ssa.Value)
						exs, modelled := a.callInto(fc, t, cm, g)
						if !modelled {
							if !isCallTo(cm, "(*bytes.Buffer).Len", "(*bytes.Buffer).String", "(*bytes.Buffer).Bytes", "(*strings.Builder).Len", "(*strings.Builder).String") && a.touchesBuf(cm) {
								a.unmodelled[p.Pos(ins.Pos())] = p.calleeName(cm)
							}
							break
						}
						for _, e := range exs {
							nt := t.clone()
							a.killRedefined(nt, ins)
							a.afterCall(&nt, e, cm, g)
							if isVal {
								a.resultFacts(nt, cv, e)
							}
							walk(nt, idx+1)
						}
						return
					}
				case *ssa.Return:
					if isRoot {
						if len(x.Results) == 1 && !a.knownNonNil(t, x.Results[0]) {
							if !a.finalOK(t.t) {
								a.viol[fmt.Sprintf("the encoder returns success while the element is in state %q", a.stateNames[t.t])] = p.Pos(x.Pos())
							}
						}
					} else {
						e := exitT{t: t.clone(), results: x.Results}
						k := e.t.key() + fmt.Sprintf("|%p", x)
						if !exitSeen[k] {
							exitSeen[k] = true
							exits = append(exits, e)
						}
					}
				}
				a.killRedefined(t, ins)
			}
			outs[t.key()] = t
		}
		for k, t0 := range in[b] {
			if processed[b][k] {
				continue
			}
			processed[b][k] = true
			t := t0.clone()
			t.trace += fmt.Sprintf(" %d", b.Index)
			walk(t, 0)
			if a.steps > 400000 {
				return nil, false
			}
		}
		for si, s := range b.Succs {
			slot := -1
			cnt := 0
			for k, pr := range s.Preds {
				if pr == b {
					if cnt == predOrdinal(b, si) {
						slot = k
					}
					cnt++
				}
			}
			var ifi *ssa.If
			if x, ok := b.Instrs[len(b.Instrs)-1].(*ssa.If); ok {
				ifi = x
			}
			changed := false
			for _, t := range outs {
				nt := t.clone()
				if ifi != nil {
					if v := a.evalCond(t, ifi.Cond); v != "" {
						if (v == "T") != (si == 0) {
							continue
						}
					}
					nt = a.refine(t, ifi.Cond, si == 0)
					var ok bool
					nt, ok = a.refineType(nt, ifi.Cond, si == 0)
					if !ok {
						continue
					}
					if isRoot && a.feasible != nil && !a.feasible(nt) {
						continue
					}
					if a.src != nil && a.emptyOnEdge(nt, ifi.Cond, si == 0) {
						nt.vals["$empty"] = "T"
					}
					if isRoot && a.srcOK != nil {
						if g := normGuard(guard{ifi.Cond, si == 0}); g.Cond == a.srcOK {
							if g.Pol {
								nt.vals["$present"] = "T"
							} else {
								nt.vals["$present"] = "F"
							}
						}
					}
				}
				// phis of the successor (parallel assignment: read from the refined tuple before any phi is updated)
				pre := nt.clone()
				for _, ins := range s.Instrs {
					ph, ok := ins.(*ssa.Phi)
					if !ok {
						break
					}
					if (opPhis[ph] || relevant[ph] && isBoolType(ph.Type())) && slot >= 0 {
						nt.vals["$p:"+ph.Name()] = strconv.Itoa(slot)
					}
					if a.src != nil && slot >= 0 {
						if a.isSrcNow(pre, ph.Edges[slot]) {
							nt.vals["$a:"+ph.Name()] = "T"
						} else {
							delete(nt.vals, "$a:"+ph.Name())
						}
						if a.isDer(pre, ph.Edges[slot], 0) {
							nt.vals["$d:"+ph.Name()] = "T"
						} else {
							delete(nt.vals, "$d:"+ph.Name())
						}
					}
					if isIfaceType(ph.Type()) && a.isValueLike(ph) && slot >= 0 {
						ts := a.typeOfVal(pre, ph.Edges[slot])
						if ts.isTop() {
							delete(nt.types, ph.Name())
						} else {
							nt.types[ph.Name()] = ts
						}
						continue
					}
					if !relevant[ph] {
						continue
					}
					if slot < 0 {
						delete(nt.vals, ph.Name())
						continue
					}
					if v := a.absOf(pre, ph.Edges[slot]); v != "" {
						nt.vals[ph.Name()] = v
					} else {
						delete(nt.vals, ph.Name())
					}
				}
				// drop facts about values whose definition does not dominate the successor (dead there)
				for k := range nt.vals {
					for _, name := range factDeps(k) {
						if d := defBlock[name]; d != nil && !d.Dominates(s) {
							delete(nt.vals, k)
						}
					}
				}
				for name := range nt.types {
					if d := defBlock[name]; d != nil && !d.Dominates(s) {
						delete(nt.types, name)
					}
				}
				if in[s] == nil {
					in[s] = map[string]tagTuple{}
				}
				if _, seen := in[s][nt.key()]; !seen {
					in[s][nt.key()] = nt
					changed = true
				}
			}
			if changed && !queued[s] {
				queued[s] = true
				work = append(work, s)
			}
		}
	}
	for _, m := range in {
		a.total += len(m)
	}
	return exits, okAll
}

// killRedefined: a value computed again (loop iteration) is a new value: facts about the previous one do not carry over.
func (a *tagAnalysis) killRedefined(t tagTuple, ins ssa.Instruction) {
	v, ok := ins.(ssa.Value)
	if !ok {
		return
	}
	if _, isPhi := ins.(*ssa.Phi); isPhi {
		return
	}
	if _, isEx := ins.(*ssa.Extract); isEx {
		return // a projection of a tuple: new only when the tuple is
	}
	names := map[string]bool{v.Name(): true}
	if refs := v.Referrers(); refs != nil {
		for _, ref := range *refs {
			if ex, ok := ref.(*ssa.Extract); ok {
				names[ex.Name()] = true
			}
		}
	}
	for k := range t.vals {
		for _, d := range factDeps(k) {
			if names[d] {
				delete(t.vals, k)
			}
		}
	}
	for n := range names {
		delete(t.types, n)
	}
}

// touchesBuf: the call receives the output buffer (as an argument or as a captured variable of the closure called).
func (a *tagAnalysis) touchesBuf(cm *ssa.CallCommon) bool {
	for _, arg := range cm.Args {
		if a.isBufVal(arg) {
			return true
		}
		// a state struct that carries the buffer in one of its fields
		root := arg
		fr := a.cur
		for i := 0; i < 4 && fr != nil; i++ {
			saved := a.cur
			a.cur = fr
			nb, nfr, ok := a.boundSimple(root)
			a.cur = saved
			if !ok {
				break
			}
			root, fr = nb, nfr
		}
		if al, ok := root.(*ssa.Alloc); ok {
			if st, isStruct := derefType(al.Type()).Underlying().(*types.Struct); isStruct {
				for f := 0; f < st.NumFields(); f++ {
					if sv := stableField(a.p, al, f); sv != nil {
						hit := false
						a.inFrame(fr, func() { hit = a.isBufVal(sv) })
						if hit {
							return true
						}
					}
				}
			}
		}
	}
	if mc, ok := cm.Value.(*ssa.MakeClosure); ok {
		for _, bnd := range mc.Bindings {
			if a.isBufVal(bnd) {
				return true
			}
			// a captured variable: the cell holds the buffer
			if al, ok := bnd.(*ssa.Alloc); ok {
				for _, ref := range *al.Referrers() {
					if st, ok := ref.(*ssa.Store); ok && st.Addr == ssa.Value(al) && a.isBufVal(st.Val) {
						return true
					}
				}
			}
		}
	}
	return false
}

// involved: the call concerns the exploration — it receives the buffer, or a tracked interface value.
func (a *tagAnalysis) involved(t tagTuple, cm *ssa.CallCommon) bool {
	if a.touchesBuf(cm) {
		return true
	}
	g := staticCallee(cm)
	if g == nil || !a.p.InModule(g) || len(g.Blocks) == 0 {
		return false
	}
	for _, arg := range cm.Args {
		if isIfaceType(arg.Type()) && a.isValueLike(arg) {
			return true
		}
	}
	return false
}

// callInto explores a module callee (a local closure or a helper) from the current path state. modelled=false when the callee
// cannot be followed (no body, recursion among helpers, too deep, assigns captured variables).
func (a *tagAnalysis) callInto(fc *frame, t tagTuple, cm *ssa.CallCommon, g *ssa.Function) ([]exitT, bool) {
	if g == nil || !a.p.InModule(g) || len(g.Blocks) == 0 || fc.depth >= 3 || a.stack[g] || g == a.rootFn {
		return nil, false
	}
	if a.infoOf(g).storesFV {
		return nil, false
	}
	if mc, ok := cm.Value.(*ssa.MakeClosure); ok {
		// every captured variable must be a promoted read-only one, otherwise its value inside the closure is unknown;
		// that is harmless unless it is the buffer
		cf, _ := mc.Fn.(*ssa.Function)
		if cf != nil {
			for i, bnd := range mc.Bindings {
				if i < len(cf.FreeVars) {
					if _, promoted := a.p.cellVal[cf.FreeVars[i]]; !promoted {
						if al, ok := bnd.(*ssa.Alloc); ok {
							for _, ref := range *al.Referrers() {
								if st, ok := ref.(*ssa.Store); ok && st.Addr == ssa.Value(al) && a.isBufVal(st.Val) {
									return nil, false
								}
							}
						}
					}
				}
			}
		}
	}
	callee := &frame{fn: g, parent: fc, callerT: t, bind: map[ssa.Value]ssa.Value{}, depth: fc.depth + 1}
	for i, prm := range g.Params {
		if i < len(cm.Args) {
			callee.bind[prm] = cm.Args[i]
		}
	}
	start := tagTuple{t: t.t, vals: map[string]string{}, types: map[string]tset{}, trace: t.trace + " >" + g.Name()}
	for _, k := range []string{"$src", "$wrote", "$empty", "$present", "$txt"} {
		if v, ok := t.vals[k]; ok {
			start.vals[k] = v
		}
	}
	if ts, ok := t.types["$src"]; ok {
		start.types["$src"] = ts
	}
	mk := fmt.Sprintf("%p|%s|%s", g, start.key(), t.key())
	if ex, ok := a.memo[mk]; ok {
		return ex, true
	}
	a.stack[g] = true
	exits, ok := a.explore(callee, start)
	delete(a.stack, g)
	if !ok {
		return nil, false
	}
	a.memo[mk] = exits
	return exits, true
}

// afterCall: the caller's path state after the callee returned through exit e.
func (a *tagAnalysis) afterCall(nt *tagTuple, e exitT, cm *ssa.CallCommon, g *ssa.Function) {
	nt.t = e.t.t
	for _, k := range []string{"$src", "$wrote", "$empty", "$present", "$txt"} {
		if v, ok := e.t.vals[k]; ok {
			nt.vals[k] = v
		} else {
			delete(nt.vals, k)
		}
	}
	if ts, ok := e.t.types["$src"]; ok {
		nt.types["$src"] = ts
	}
	// what the callee learnt about the dynamic type of an interface argument holds for the argument
	for i, prm := range g.Params {
		if i >= len(cm.Args) || !isIfaceType(prm.Type()) {
			continue
		}
		if ts, ok := e.t.types[prm.Name()]; ok && a.isValueLike(cm.Args[i]) {
			nt.types[cm.Args[i].Name()] = ts
		}
	}
	nt.trace = e.t.trace + " <"
}

// resultFacts: what is known about the values a callee returned on this exit — boolean constants, nil / non-nil errors.
func (a *tagAnalysis) resultFacts(t tagTuple, call ssa.Value, e exitT) {
	var targets []ssa.Value
	if len(e.results) == 1 {
		targets = []ssa.Value{call}
	} else {
		targets = make([]ssa.Value, len(e.results))
		if call.Referrers() != nil {
			for _, ref := range *call.Referrers() {
				if ex, ok := ref.(*ssa.Extract); ok && ex.Index < len(targets) {
					targets[ex.Index] = ex
				}
			}
		}
	}
	for i, rv := range e.results {
		tv := targets[i]
		if tv == nil {
			continue
		}
		if b, ok := constBool(rv); ok {
			if b {
				a.setVal(t, tv, "T")
			} else {
				a.setVal(t, tv, "F")
			}
			continue
		}
		if isBoolType(rv.Type()) {
			continue
		}
		if isErrorType(rv.Type()) && tv.Referrers() != nil {
			known := ""
			if isNilConst(rv) {
				known = "nil"
			} else {
				if a.exitNonNil(e, rv) {
					known = "nonnil"
				}
			}
			if known == "" {
				continue
			}
			for _, ref := range *tv.Referrers() {
				bo, ok := ref.(*ssa.BinOp)
				if !ok || !(isNilConst(bo.Y) && bo.X == tv) {
					continue
				}
				isNil := known == "nil"
				if bo.Op == token.EQL {
					a.setVal(t, bo, map[bool]string{true: "T", false: "F"}[isNil])
				} else if bo.Op == token.NEQ {
					a.setVal(t, bo, map[bool]string{true: "F", false: "T"}[isNil])
				}
			}
		}
	}
}

// exitNonNil: the error returned on exit e is known non-nil (a made error, or returned under a taken `err != nil` test in the callee).
func (a *tagAnalysis) exitNonNil(e exitT, rv ssa.Value) bool {
	if os.Getenv("MXJ_TAGTRACE") == "3" {
		fmt.Fprintf(os.Stderr, "EXITNN rv=%s [%s]\n", rv.Name(), e.t.key())
	}
	switch x := rv.(type) {
	case *ssa.MakeInterface:
		return true
	case *ssa.Call:
		if isCallTo(x.Common(), "fmt.Errorf", "errors.New") {
			return true
		}
	}
	if rv.Referrers() == nil {
		return false
	}
	for _, ref := range *rv.Referrers() {
		bo, ok := ref.(*ssa.BinOp)
		if !ok || !isNilConst(bo.Y) || bo.X != rv {
			continue
		}
		// the fact is keyed canonically in the callee's function
		cz := a.p.canonFor(bo.Parent())
		k := "c:(" + cz.of(bo.X) + " == " + cz.of(bo.Y) + ")"
		switch e.t.vals[k] {
		case "F":
			return true
		}
	}
	return false
}

func (a *tagAnalysis) report(r *Report, rule string, minSites int) {
	p, fn, total := a.p, a.fn, a.total
	if len(a.unmodelled) > 0 {
		var ks []string
		for k, c := range a.unmodelled {
			ks = append(ks, k+" "+c)
		}
		sort.Strings(ks)
		r.Unknown(rule, p.Name(fn), "buffer handed to another function", p.Pos(fn.Pos()), "the output buffer is passed to a function that is not a plain write wrapper; its writes are not modelled: "+strings.Join(ks, "; "))
		return
	}
	if len(a.viol) == 0 {
		why := fmt.Sprintf("%d buffer-write and recursion events over %d abstract path states, %d markup write sites of the required lexical form: every write respects start/attributes/close/content/end, the end tag names the same parameter as the start tag, and every return that may report success leaves a complete element (or nothing)", a.nEv, total, len(a.shapeSites))
		if a.opaqueAttr {
			why += "; the text of an attribute is produced outside the encoder and its ' name=\"value\"' form is assumed"
		}
		if a.assumedNumber {
			why += "; assuming a json.Number is a non-empty literal (its %v rendering is not empty)"
		}
		if a.assumedNumber || a.opaqueAttr {
			r.Assume(rule, p.Name(fn), "start tag / content / end tag protocol on every path", p.Pos(fn.Pos()), why)
		} else {
			r.OK(rule, p.Name(fn), "start tag / content / end tag protocol on every path", p.Pos(fn.Pos()), why)
		}
		if len(a.shapeSites) < minSites {
			r.Bad(rule, p.Name(fn), "markup writes recognised", p.Pos(fn.Pos()), fmt.Sprintf("only %d markup write sites were recognised in the element encoder (at least %d confirmed by reading: start, attribute, close, end, self-close forms)", len(a.shapeSites), minSites))
		}
		return
	}
	var ds []string
	for d := range a.viol {
		ds = append(ds, d)
	}
	sort.Strings(ds)
	for _, d := range ds {
		r.Bad(rule, p.Name(fn), d, a.viol[d], "on some path of the encoder (for a JSON/XML-shaped value) the output is not a well-formed element: "+d)
	}
}

var _ = types.Typ

// ---------------------------------------------------------------------------------------------------------------------
// TAGS.seqprotocol — the same typestate for the sequence encoder (C04, C05). mapToXmlSeqIndent writes one lexical token per
// WriteString, so the automaton works on tokens: "<" name (" " name `="` value `"`)* (">" content* "</" name ">" | "/>"), plus the
// comment / directive / processing-instruction forms. Constants are split into markup tokens by longest match.

const (
	sqNone = iota
	sqLt
	sqOpen
	sqAttrName
	sqAttrEq
	sqAttrVal
	sqAttrQuote
	sqContent
	sqEndLt
	sqEndName
	sqDone
	sqCmt
	sqCmtEnd
	sqDir
	sqDirEnd
	sqPi
	sqPiSp
	sqPiInst
	sqPiEnd
)

var sqNames = []string{"none", "after '<'", "open", "after attribute blank", "after attribute name", "after '=\"'", "after attribute value", "content",
	"after '</'", "after end tag name", "done", "after '<!--'", "after comment text", "after '<!'", "after directive text", "after '<?'", "after target", "after target blank", "after instruction"}

// markup tokens, longest first
var sqTokens = []string{"<!--", "-->", "</", "/>", "<!", "<?", "?>", "=\"", "<", ">", "\"", " ", "\n"}

// lexConst splits a constant into markup tokens and text runs ("TEXT").
func lexConst(s string) []string {
	var out []string
	for len(s) > 0 {
		matched := false
		for _, tk := range sqTokens {
			if strings.HasPrefix(s, tk) {
				out = append(out, tk)
				s = s[len(tk):]
				matched = true
				break
			}
		}
		if matched {
			continue
		}
		if n := len(out); n == 0 || out[n-1] != "TEXT" {
			out = append(out, "TEXT")
		}
		s = s[1:]
	}
	return out
}

// seqEvents: the token events of one written operand.
func (a *tagAnalysis) seqEvents(parts []ssa.Value) []string {
	var out []string
	for _, part := range parts {
		if s, ok := constString(part); ok {
			out = append(out, lexConst(s)...)
			continue
		}
		switch {
		case part == ssa.Value(a.key):
			out = append(out, "KEY")
		case a.p.isWhitespaceState(a.fn, part):
			out = append(out, "WS")
		default:
			out = append(out, "TEXT")
		}
	}
	return out
}

// seqStep: one token in one state; ok=false when the token is not allowed there.
func seqStep(st int, ev string) (int, bool) {
	switch st {
	case sqNone:
		switch ev {
		case "<":
			return sqLt, true
		case "<!--":
			return sqCmt, true
		case "<!":
			return sqDir, true
		case "<?":
			return sqPi, true
		case "WS", "\n", "RECURSE":
			return sqNone, true
		}
	case sqLt:
		if ev == "KEY" {
			return sqOpen, true
		}
	case sqOpen:
		switch ev {
		case " ":
			return sqAttrName, true
		case ">":
			return sqContent, true
		case "/>":
			return sqDone, true
		case "WS":
			return sqOpen, true
		}
	case sqAttrName:
		if ev == "TEXT" {
			return sqAttrEq, true
		}
	case sqAttrEq:
		if ev == "=\"" {
			return sqAttrVal, true
		}
	case sqAttrVal:
		if ev == "TEXT" {
			return sqAttrQuote, true
		}
	case sqAttrQuote:
		if ev == "\"" {
			return sqOpen, true
		}
	case sqContent:
		switch ev {
		case "TEXT", "WS", "\n", "RECURSE":
			return sqContent, true
		case "</":
			return sqEndLt, true
		}
	case sqEndLt:
		if ev == "KEY" {
			return sqEndName, true
		}
	case sqEndName:
		if ev == ">" {
			return sqDone, true
		}
	case sqDone:
		if ev == "WS" || ev == "\n" {
			return sqDone, true
		}
	case sqCmt:
		if ev == "TEXT" {
			return sqCmtEnd, true
		}
	case sqCmtEnd:
		if ev == "-->" {
			return sqDone, true
		}
	case sqDir:
		if ev == "TEXT" {
			return sqDirEnd, true
		}
	case sqDirEnd:
		if ev == ">" {
			return sqDone, true
		}
	case sqPi:
		if ev == "TEXT" {
			return sqPiSp, true
		}
	case sqPiSp:
		if ev == " " {
			return sqPiInst, true
		}
	case sqPiInst:
		if ev == "TEXT" {
			return sqPiEnd, true
		}
	case sqPiEnd:
		if ev == "?>" {
			return sqDone, true
		}
	}
	return st, false
}

// values a decoded (and possibly cast) MapSeq holds; a hand-built MapSeq may also carry the other scalar kinds the encoder lists
var seqDomain = map[string]bool{"map[string]interface{}": true, "[]interface{}": true, "string": true, "float64": true, "bool": true,
	"int": true, "int32": true, "int64": true, "float32": true, "[]byte": true}

func ruleTagProtocolSeq(p *Prog, r *Report) {
	const rule = "TAGS.seqprotocol"
	a := seqEncoderAnalysis(p, r, rule)
	if a == nil {
		return
	}
	if !a.run(r, rule) {
		return
	}
	a.report(r, rule, 20)
}

func seqEncoderAnalysis(p *Prog, r *Report, rule string) *tagAnalysis {
	fn := p.Fn("mxj.mapToXmlSeqIndent")
	if fn == nil {
		r.Anchor(rule, "mxj.mapToXmlSeqIndent")
		return nil
	}
	a := newTagAnalysis(p, fn, "*strings.Builder")
	if a == nil {
		r.Unknown(rule, p.Name(fn), "encoder parameters", p.Pos(fn.Pos()), "builder / value parameters not recognised")
		return nil
	}
	a.domain = seqDomain
	a.stateNames = sqNames
	// decoder convention (the domain of C04): a comment, directive or processing-instruction key carries a map (or a list of maps), never a scalar
	special := []string{}
	for _, g := range []string{"commentK", "directiveK", "procinstK"} {
		special = append(special, "c:(param:"+a.key.Name()+" == load(mxj."+g+"))")
	}
	a.feasible = func(t tagTuple) bool {
		isSpecial := false
		for _, k := range special {
			if t.vals[k] == "T" {
				isSpecial = true
			}
		}
		if !isSpecial {
			return true
		}
		ts, ok := t.types[a.valueP.Name()]
		if !ok {
			return true
		}
		if ts.neg {
			return !(ts.ts["map[string]interface{}"] && ts.ts["[]interface{}"])
		}
		return ts.ts["map[string]interface{}"] || ts.ts["[]interface{}"]
	}
	step := func(t *tagTuple, ev string, pos token.Pos) {
		a.nEv++
		n, ok := seqStep(t.t, ev)
		if !ok {
			k := fmt.Sprintf("token %q is written in state %q", ev, sqNames[t.t])
			if ev == "RECURSE" {
				k = fmt.Sprintf("a child element is encoded in state %q", sqNames[t.t])
			}
			if _, dup := a.viol[k]; !dup {
				a.viol[k] = p.Pos(pos)
				if os.Getenv("MXJ_TAGTRACE") != "" {
					fmt.Fprintf(os.Stderr, "TAGTRACE %s @%s: %s [%s]\n", k, p.Pos(pos), t.trace, t.key())
				}
			}
			return
		}
		t.t = n
	}
	a.onWrite = func(t *tagTuple, parts []ssa.Value, whole ssa.Value, raw bool, pos token.Pos) {
		evs := a.seqEvents(parts)
		if raw {
			evs = []string{"TEXT"}
		}
		for _, ev := range evs {
			if ev != "TEXT" && ev != "WS" {
				a.shapeSites[pos] = true
			}
			if ev == "WS" && t.t == sqContent && t.vals["$txt"] == "T" {
				k := "indentation is written after the element's text: it becomes part of the character data"
				if _, dup := a.viol[k]; !dup {
					a.viol[k] = p.Pos(pos)
				}
			}
			step(t, ev, pos)
			switch {
			case ev == "TEXT" && t.t == sqContent:
				t.vals["$txt"] = "T"
			case ev == "WS":
			default:
				delete(t.vals, "$txt")
			}
		}
	}
	a.onRecurse = func(t *tagTuple, pos token.Pos) {
		step(t, "RECURSE", pos)
		delete(t.vals, "$txt")
	}
	a.finalOK = func(st int) bool { return st == sqDone || st == sqNone }
	a.isDone = func(st int) bool { return st == sqDone }
	return a
}

// ---------------------------------------------------------------------------------------------------------------------
// TAGS.content — no scalar content is dropped. For each content source of an element encoder (the value parameter, and every lookup
// of the text key in the map being encoded) the path-sensitive exploration is repeated with that source tracked: when the element
// is completed on a path where the source is present and can hold a scalar of the domain, a buffer write computed from the source
// must have happened on that path, unless a branch established that the rendered text is empty.

var scalarKinds = map[string]bool{"string": true, "float64": true, "bool": true}

func ruleTagContent(p *Prog, r *Report, which string) {
	const rule = "TAGS.content"
	mk := mapEncoderAnalysis
	if which == "seq" {
		mk = seqEncoderAnalysis
	}
	probe := mk(p, r, rule)
	if probe == nil {
		return
	}
	fn := probe.fn
	type source struct {
		v    ssa.Value
		in   ssa.Instruction
		ok   ssa.Value
		name string
		pos  token.Pos
	}
	srcs := []source{{v: probe.valueP, name: "the value parameter", pos: fn.Pos()}}
	eachInstr(fn, func(b *ssa.BasicBlock, in ssa.Instruction) {
		lk, isLk := in.(*ssa.Lookup)
		if !isLk || typeStr(lk.X.Type()) != "map[string]interface{}" {
			return
		}
		if g := globalOf(lk.Index); g == nil || g.Name() != "textK" {
			return
		}
		// the map must be the value being encoded (not an attribute entry)
		if !derivesFrom(lk.X, probe.valueP) && !phiChainReachesValue(lk.X, probe.valueP) {
			if ta, ok := lk.X.(*ssa.TypeAssert); !ok || !(ta.X == ssa.Value(probe.valueP) || phiChainReachesValue(ta.X, probe.valueP)) {
				return
			}
		}
		sc := source{in: lk, name: "the text entry read", pos: lk.Pos()}
		if lk.CommaOk {
			for _, ref := range *lk.Referrers() {
				if ex, ok := ref.(*ssa.Extract); ok {
					if ex.Index == 0 {
						sc.v = ex
					} else {
						sc.ok = ex
					}
				}
			}
		} else {
			sc.v = lk
		}
		if sc.v != nil {
			srcs = append(srcs, sc)
		}
	})
	minSrc := map[string]int{"map": 2, "seq": 4}[which]
	if len(srcs) < minSrc {
		r.Unknown(rule, p.Name(fn), "content sources", p.Pos(fn.Pos()), fmt.Sprintf("only %d content sources recognised (the value parameter and the text-key lookups; %d confirmed by reading)", len(srcs), minSrc))
	}
	for _, sc := range srcs {
		a := mk(p, r, rule)
		a.src, a.srcInstr, a.srcOK, a.srcDomain = sc.v, sc.in, sc.ok, scalarKinds
		if !a.run(r, rule) {
			continue
		}
		construct := sc.name + " at " + p.Pos(sc.pos)
		if sc.in == nil {
			construct = sc.name
		}
		if len(a.unmodelled) > 0 {
			r.Unknown(rule, p.Name(fn), construct, p.Pos(sc.pos), "the output buffer is passed to a function that is not a plain write wrapper; its writes are not modelled")
			continue
		}
		if len(a.srcViol) == 0 {
			r.OK(rule, p.Name(fn), construct, p.Pos(sc.pos), fmt.Sprintf("on every one of %d abstract path states that completes the element while this source holds a string, number or boolean, a write computed from it precedes the end of the element (or a branch shows its text is empty)", a.total))
			continue
		}
		var ds []string
		for d := range a.srcViol {
			ds = append(ds, d)
		}
		sort.Strings(ds)
		for _, d := range ds {
			r.Bad(rule, p.Name(fn), construct+": "+d, a.srcViol[d], "the value is lost in the XML: "+d)
		}
	}
}
