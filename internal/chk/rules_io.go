package chk

import (
	"fmt"
	"go/token"
	"go/types"
	"sort"
	"strings"

	"golang.org/x/tools/go/ssa"
)

// ===== family G: IO — reader contract and stream structure (C13) =======================================

type readSite struct {
	fn   *ssa.Function
	call ssa.CallInstruction
	n    ssa.Value // count result (nil if discarded)
	err  ssa.Value
	buf  ssa.Value
}

func isReadCall(c *ssa.CallCommon) bool {
	// io.Reader.Read on a caller-supplied reader. (*os.File).Read of a regular file whose size was just obtained
	// (x2j-wrapper bulk file functions) is not covered: whether a single read of a regular file can be short is an
	// operating-system fact, not a property of the reader schedules C13 quantifies over.
	return c.IsInvoke() && c.Method.Name() == "Read" && len(c.Args) == 1
}

func (p *Prog) readSites(fns []*ssa.Function) []readSite {
	var out []readSite
	for _, fn := range fns {
		for _, in := range instrsByPos(fn) {
			ci, ok := in.(ssa.CallInstruction)
			if !ok || !isReadCall(ci.Common()) {
				continue
			}
			res := resultsOf(ci)
			rs := readSite{fn: fn, call: ci}
			if len(res) == 2 {
				rs.n, rs.err = res[0], res[1]
			}
			args := ci.Common().Args
			rs.buf = args[len(args)-1]
			out = append(out, rs)
		}
	}
	return out
}

// nPositiveEdge: blk is dominated by an edge on which the count n is known > 0.
func nPositiveGuard(n ssa.Value, blk *ssa.BasicBlock) bool {
	if n == nil {
		return false
	}
	for _, g := range dominatingGuards(blk) {
		ng := normGuard(g)
		bo, ok := ng.Cond.(*ssa.BinOp)
		if !ok {
			continue
		}
		var k int64
		var isK bool
		op := bo.Op
		if bo.X == n {
			k, isK = constInt(bo.Y)
		} else if bo.Y == n {
			k, isK = constInt(bo.X)
			switch op {
			case token.LSS:
				op = token.GTR
			case token.GTR:
				op = token.LSS
			case token.LEQ:
				op = token.GEQ
			case token.GEQ:
				op = token.LEQ
			}
		} else {
			// n == len(buf) with a buffer of positive constant length
			continue
		}
		if !isK {
			continue
		}
		pos := false
		switch op {
		case token.GTR:
			pos = ng.Pol && k >= 0
		case token.GEQ:
			pos = ng.Pol && k >= 1
		case token.EQL:
			pos = ng.Pol && k >= 1 || !ng.Pol && k == 0 // n != 0 (n is never negative by the io.Reader contract)
		case token.NEQ:
			pos = ng.Pol && k == 0 || !ng.Pol && k >= 1
		case token.LEQ:
			pos = !ng.Pol && k >= 0
		case token.LSS:
			pos = !ng.Pol && k >= 1
		}
		if pos {
			return true
		}
	}
	return false
}

// errNonNilGuard: blk is dominated by an edge on which errv is known non-nil (or equal to io.EOF).
func errNonNilGuard(errv ssa.Value, blk *ssa.BasicBlock) bool {
	if errv == nil {
		return false
	}
	for _, g := range dominatingGuards(blk) {
		ng := normGuard(g)
		bo, ok := ng.Cond.(*ssa.BinOp)
		if !ok || (bo.Op != token.EQL && bo.Op != token.NEQ) {
			continue
		}
		var other ssa.Value
		if sameThroughPhi(bo.X, errv) {
			other = bo.Y
		} else if sameThroughPhi(bo.Y, errv) {
			other = bo.X
		} else {
			continue
		}
		equal := (bo.Op == token.EQL) == ng.Pol
		if isNilConst(other) && !equal {
			return true
		}
		if isEOFLoad(other) && equal {
			return true
		}
	}
	return false
}

func ruleIORead(p *Prog, r *Report, fns []*ssa.Function) {
	const rule = "IO.read"
	for _, rs := range p.readSites(fns) {
		fn := rs.fn
		name := p.Name(fn)
		pos := p.Pos(rs.call.Pos())
		site := p.ExprAt(rs.call.Pos())
		if site == "" {
			site = "Read into " + derefName(rs.buf)
		}
		// pure delegation: both results returned unchanged
		if p.isDelegation(rs) {
			r.OK(rule, name, site+": delegation", pos, "both results are returned unchanged to the caller, which is then bound by the contract itself")
			continue
		}
		in := rs.call.(ssa.Instruction)
		after := reachableAfter(in)
		// (a) count consumed
		if rs.n == nil || !hasComparison(rs.n) {
			r.Bad(rule, name, site+": count tested", pos, "the number of bytes returned by Read is ignored: a reader delivering 0 bytes, or data together with an error, is mishandled")
		} else {
			r.OK(rule, name, site+": count tested", pos, "n is compared before the buffer is used")
		}
		// (b) buffer uses dominated by n > 0
		cz := p.canonFor(fn)
		bufC := cz.of(rs.buf)
		badUse := ""
		nUses := 0
		eachInstr(fn, func(b *ssa.BasicBlock, i2 ssa.Instruction) {
			if !after[i2] {
				return
			}
			var base ssa.Value
			switch x := i2.(type) {
			case *ssa.IndexAddr:
				// only loads count as uses of the content
				isLoad := false
				for _, ref := range *x.Referrers() {
					if u, ok := ref.(*ssa.UnOp); ok && u.Op == token.MUL {
						isLoad = true
					}
				}
				if isLoad {
					base = x.X
				}
			case *ssa.Slice:
				base = x.X
			}
			if base == nil || cz.of(base) != bufC && !sameBufferField(base, rs.buf) {
				return
			}
			nUses++
			if !nPositiveGuard(rs.n, b) {
				badUse = p.Pos(i2.Pos())
			}
		})
		if badUse == "" {
			r.OK(rule, name, site+": data used only when n > 0", pos, fmt.Sprintf("%d uses of the buffer content, all dominated by n > 0", nUses))
		} else {
			r.Bad(rule, name, site+": data used only when n > 0", badUse, "the buffer content is used on a path where Read may have delivered no byte (stale or zero data is processed)")
		}
		// (c) with data in hand the Read error is not acted upon; (d) no return when n == 0 and err == nil
		badC, badD := "", ""
		eachInstr(fn, func(b *ssa.BasicBlock, i2 ssa.Instruction) {
			ret, ok := i2.(*ssa.Return)
			if !ok || !after[i2] {
				return
			}
			dataPath := nPositiveGuard(rs.n, b)
			errPath := errNonNilGuard(rs.err, b)
			returnsReadErr := false
			for _, op := range ret.Results {
				if rs.err != nil && isErrorType(op.Type()) && sameThroughPhi(op, rs.err) {
					returnsReadErr = true
				}
			}
			if dataPath && returnsReadErr {
				badC = p.Pos(ret.Pos())
			}
			certainErr := false
			for _, op := range ret.Results {
				if isErrorType(op.Type()) && !isNilConst(op) && certainlyNonNilError(op) {
					certainErr = true
				}
			}
			if !dataPath && !errPath && !certainErr {
				// reachable with n == 0: is it reachable with err == nil too? only if not every path to it has the error excluded
				if returnsReadErr && rs.err != nil && !dataPath {
					// `return x, err` with err possibly nil and no data
					badD = p.Pos(ret.Pos())
				} else if !returnsReadErr {
					badD = p.Pos(ret.Pos())
				}
			}
		})
		if badC == "" {
			r.OK(rule, name, site+": data before error", pos, "no return hands the Read error to the caller on a path where bytes were delivered")
		} else {
			r.Bad(rule, name, site+": data before error", badC, "on a path with n > 0 the Read error is returned together with/instead of the data: bytes delivered with io.EOF are lost")
		}
		if badD == "" {
			r.OK(rule, name, site+": (0, nil) retried", pos, "every return is on a path with n > 0 or with a non-nil error")
		} else {
			r.Bad(rule, name, site+": (0, nil) retried", badD, "a return is reachable when Read delivered (0, nil): the caller gets a byte that was never read")
		}
	}
}

func hasComparison(n ssa.Value) bool {
	refs := n.Referrers()
	if refs == nil {
		return false
	}
	for _, ref := range *refs {
		if bo, ok := ref.(*ssa.BinOp); ok {
			switch bo.Op {
			case token.EQL, token.NEQ, token.LSS, token.LEQ, token.GTR, token.GEQ:
				return true
			}
		}
	}
	return false
}

// sameBufferField: both values are loads of the same field of the same receiver.
func sameBufferField(a, b ssa.Value) bool {
	ua, ok1 := a.(*ssa.UnOp)
	ub, ok2 := b.(*ssa.UnOp)
	if !ok1 || !ok2 {
		return false
	}
	fa, ok1 := ua.X.(*ssa.FieldAddr)
	fb, ok2 := ub.X.(*ssa.FieldAddr)
	return ok1 && ok2 && fa.X == fb.X && fa.Field == fb.Field
}

func (p *Prog) isDelegation(rs readSite) bool {
	c, ok := rs.call.(*ssa.Call)
	if !ok {
		return false
	}
	// the buffer is the function's own parameter and every use of the call is a Return of both results
	if _, isParam := rs.buf.(*ssa.Parameter); !isParam {
		return false
	}
	okAll := false
	eachInstr(rs.fn, func(b *ssa.BasicBlock, in ssa.Instruction) {
		if ret, isRet := in.(*ssa.Return); isRet && len(ret.Results) == 2 {
			e0, ok0 := ret.Results[0].(*ssa.Extract)
			e1, ok1 := ret.Results[1].(*ssa.Extract)
			if ok0 && ok1 && e0.Tuple == ssa.Value(c) && e1.Tuple == ssa.Value(c) && e0.Index == 0 && e1.Index == 1 {
				okAll = true
			}
		}
	})
	return okAll
}

// reachableAfter: instructions that can execute after `in` (same block later, or any reachable block).
func reachableAfter(in ssa.Instruction) map[ssa.Instruction]bool {
	out := map[ssa.Instruction]bool{}
	b := in.Block()
	idx := indexIn(in)
	for _, i2 := range b.Instrs[idx+1:] {
		out[i2] = true
	}
	for s := range reachableFromSuccs(b) {
		for _, i2 := range s.Instrs {
			out[i2] = true
		}
	}
	return out
}

// ---- IO.bytereader ---------------------------------------------------------------------------------------------

func hasMethod(t types.Type, name string) bool {
	ms := types.NewMethodSet(t)
	for i := 0; i < ms.Len(); i++ {
		if ms.At(i).Obj().Name() == name {
			return true
		}
	}
	return false
}

// isByteReaderValue: v certainly has a dynamic type implementing io.ByteReader at instruction `at`.
func (p *Prog) isByteReaderValue(fn *ssa.Function, v ssa.Value, at ssa.Instruction, depth int) (bool, string) {
	if depth > 6 {
		return false, "too deep"
	}
	switch x := v.(type) {
	case *ssa.MakeInterface:
		if hasMethod(x.X.Type(), "ReadByte") {
			return true, "value of type " + typeStr(x.X.Type()) + ", which has ReadByte"
		}
		return false, "value of type " + typeStr(x.X.Type()) + " has no ReadByte method"
	case *ssa.ChangeInterface:
		return p.isByteReaderValue(fn, x.X, at, depth+1)
	case *ssa.Call:
		if isCallTo(&x.Call, "bytes.NewReader", "bytes.NewBuffer", "bytes.NewBufferString", "strings.NewReader", "bufio.NewReader") {
			return true, "standard-library reader with ReadByte"
		}
		if g := staticCallee(&x.Call); g != nil && p.InModule(g) {
			// every return of g is a byte reader
			okAll := true
			n := 0
			eachInstr(g, func(b *ssa.BasicBlock, in ssa.Instruction) {
				if ret, ok := in.(*ssa.Return); ok && len(ret.Results) > 0 {
					n++
					if ok2, _ := p.isByteReaderValue(g, ret.Results[0], ret, depth+1); !ok2 {
						okAll = false
					}
				}
			})
			if okAll && n > 0 {
				return true, "result of " + p.Name(g) + ", which always returns an adaptor with ReadByte"
			}
		}
		return false, "result of a call not known to return a ByteReader"
	case *ssa.Phi:
		for i, e := range x.Edges {
			pred := x.Block().Preds[i]
			// edge under ok of `e.(io.ByteReader)`?
			if p.assertedByteReader(e, pred, x.Block(), i) {
				continue
			}
			last := pred.Instrs[len(pred.Instrs)-1]
			if ok, _ := p.isByteReaderValue(fn, e, last, depth+1); !ok {
				return false, "one incoming value is not known to implement io.ByteReader"
			}
		}
		return true, "every incoming value implements io.ByteReader (asserted or wrapped)"
	case *ssa.Parameter:
		if p.Exported(fn) {
			if p.guardedByteReader(x, at.Block()) {
				return true, "parameter under a successful io.ByteReader assertion"
			}
			return false, "caller-supplied reader passed on without an io.ByteReader adaptor: xml.NewDecoder would wrap it in a read-ahead bufio.Reader and consume bytes of the next document"
		}
		idx := -1
		for i, q := range fn.Params {
			if q == x {
				idx = i
			}
		}
		sites := p.CG().sites[fn]
		if len(sites) == 0 {
			return false, "no call sites"
		}
		for _, s := range sites {
			if ok, why := p.isByteReaderValue(s.Parent(), s.Common().Args[idx], s.(ssa.Instruction), depth+1); !ok {
				return false, "call site in " + p.Name(s.Parent()) + ": " + why
			}
		}
		return true, "every call site passes a ByteReader"
	}
	return false, "value of unknown origin"
}

func (p *Prog) guardedByteReader(v ssa.Value, blk *ssa.BasicBlock) bool {
	for _, g := range dominatingGuards(blk) {
		ng := normGuard(g)
		if ex, ok := ng.Cond.(*ssa.Extract); ok && ex.Index == 1 && ng.Pol {
			if ta, ok := ex.Tuple.(*ssa.TypeAssert); ok && ta.X == v && hasIfaceMethod(ta.AssertedType, "ReadByte") {
				return true
			}
		}
	}
	return false
}

func hasIfaceMethod(t types.Type, name string) bool {
	it, ok := t.Underlying().(*types.Interface)
	if !ok {
		return false
	}
	for i := 0; i < it.NumMethods(); i++ {
		if it.Method(i).Name() == name {
			return true
		}
	}
	return false
}

// assertedByteReader: the edge pred->blk (slot i) is taken only when `e.(io.ByteReader)` succeeded.
func (p *Prog) assertedByteReader(e ssa.Value, pred, blk *ssa.BasicBlock, slot int) bool {
	gs := dominatingGuards(pred)
	if ifi, ok := pred.Instrs[len(pred.Instrs)-1].(*ssa.If); ok {
		gs = append(gs, guard{ifi.Cond, succIndex(pred, blk, slot) == 0})
	}
	for _, g := range gs {
		ng := normGuard(g)
		if ex, ok := ng.Cond.(*ssa.Extract); ok && ex.Index == 1 && ng.Pol {
			if ta, ok := ex.Tuple.(*ssa.TypeAssert); ok && ta.X == e && hasIfaceMethod(ta.AssertedType, "ReadByte") {
				return true
			}
		}
	}
	return false
}

func ruleIOByteReader(p *Prog, r *Report, fns []*ssa.Function) {
	const rule = "IO.bytereader"
	for _, fn := range fns {
		name := p.Name(fn)
		ord := newOrdinals()
		for _, in := range instrsByPos(fn) {
			ci, ok := in.(ssa.CallInstruction)
			if !ok || !isCallTo(ci.Common(), "encoding/xml.NewDecoder") {
				continue
			}
			construct := ord.key(name, "xml.NewDecoder argument is an io.ByteReader")
			okv, why := p.isByteReaderValue(fn, ci.Common().Args[0], in, 0)
			if okv {
				r.OK(rule, name, construct, p.Pos(in.Pos()), why)
			} else {
				r.Bad(rule, name, construct, p.Pos(in.Pos()), why)
			}
		}
	}
	// one-byte buffers: every non-delegating Read on a caller-supplied reader uses a buffer of constant length 1
	for _, rs := range p.readSites(fns) {
		if p.isDelegation(rs) || isCallTo(rs.call.Common(), "(*os.File).Read") {
			continue
		}
		name := p.Name(rs.fn)
		construct := "Read buffer has constant length 1: " + p.ExprAt(rs.call.Pos())
		k, ok := p.constBufLen(rs.fn, rs.buf)
		if ok && k == 1 {
			r.OK(rule, name, construct, p.Pos(rs.call.Pos()), "no byte beyond the one being decoded is taken from the stream")
		} else {
			r.Bad(rule, name, construct, p.Pos(rs.call.Pos()), "the adaptor may read more than one byte ahead: bytes of the next document are consumed and lost")
		}
	}
}

// constBufLen: the buffer is a fresh make([]byte, k), or a struct field whose every store is such a make.
func (p *Prog) constBufLen(fn *ssa.Function, buf ssa.Value) (int64, bool) {
	if k, ok := constLenOf(buf); ok {
		return k, true
	}
	// a slice parameter of an unexported function: the same constant length at every call site
	if prm, isP := buf.(*ssa.Parameter); isP && !p.Exported(fn) && fn.Parent() == nil {
		idx := -1
		for i, q := range fn.Params {
			if q == prm {
				idx = i
			}
		}
		sites := p.CG().sites[fn]
		if idx < 0 || len(sites) == 0 {
			return 0, false
		}
		var val int64 = -1
		for _, site := range sites {
			if site.Common().IsInvoke() || idx >= len(site.Common().Args) || site.Parent() == fn {
				return 0, false
			}
			k, ok := p.constBufLen(site.Parent(), site.Common().Args[idx])
			if !ok || (val >= 0 && k != val) {
				return 0, false
			}
			val = k
		}
		return val, val >= 0
	}
	u, ok := buf.(*ssa.UnOp)
	if !ok {
		return 0, false
	}
	fa, ok := u.X.(*ssa.FieldAddr)
	if !ok {
		return 0, false
	}
	owner := derefType(fa.X.Type())
	var val int64 = -1
	good := true
	n := 0
	for _, f := range p.allFuncsWithInit() {
		eachInstr(f, func(b *ssa.BasicBlock, in ssa.Instruction) {
			st, ok := in.(*ssa.Store)
			if !ok {
				return
			}
			fa2, ok := st.Addr.(*ssa.FieldAddr)
			if !ok {
				if types.Identical(derefType(st.Addr.Type()), owner) {
					good = false
				}
				return
			}
			if fa2.Field != fa.Field || !types.Identical(derefType(fa2.X.Type()), owner) {
				return
			}
			n++
			k, ok := constLenOf(st.Val)
			if !ok || (val >= 0 && k != val) {
				good = false
				return
			}
			val = k
		})
	}
	if !good || n == 0 {
		return 0, false
	}
	return val, true
}

// ---- IO.tee ------------------------------------------------------------------------------------------------------

func ruleIOTee(p *Prog, r *Report) {
	const rule = "IO.tee"
	fn := p.Fn("mxj.teeReader.ReadByte")
	if fn == nil {
		r.Anchor(rule, "mxj.teeReader.ReadByte")
		return
	}
	name := p.Name(fn)
	sites := p.readSites([]*ssa.Function{fn})
	// dataGuard: blk is reached only when a byte was read
	var dataGuard func(blk *ssa.BasicBlock) bool
	var rs readSite
	switch {
	case len(sites) == 1:
		rs = sites[0]
		dataGuard = func(blk *ssa.BasicBlock) bool { return nPositiveGuard(rs.n, blk) }
	case len(sites) == 0:
		// the Read may live in a helper shared with the plain byte reader: a module function that reads once into the buffer it is
		// given and returns a nil error only under n > 0
		var hc *ssa.Call
		var hsite readSite
		eachInstr(fn, func(b *ssa.BasicBlock, in ssa.Instruction) {
			c, ok := in.(*ssa.Call)
			if !ok {
				return
			}
			h := staticCallee(&c.Call)
			if h == nil || !p.InModule(h) || len(h.Blocks) == 0 {
				return
			}
			hs := p.readSites([]*ssa.Function{h})
			if len(hs) != 1 {
				return
			}
			bp, isP := hs[0].buf.(*ssa.Parameter)
			if !isP {
				return
			}
			okRet := true
			eachInstr(h, func(b2 *ssa.BasicBlock, i2 ssa.Instruction) {
				if ret, ok := i2.(*ssa.Return); ok && len(ret.Results) == 2 && isNilConst(ret.Results[1]) && !nPositiveGuard(hs[0].n, b2) {
					okRet = false
				}
			})
			if !okRet {
				return
			}
			for i, q := range h.Params {
				if q == bp && i < len(c.Call.Args) {
					hc = c
					hsite = readSite{fn: fn, call: c, buf: c.Call.Args[i]}
				}
			}
		})
		if hc == nil {
			r.Unknown(rule, name, "single Read", p.Pos(fn.Pos()), "expected one Read call (in the adaptor or in a helper it calls), found none")
			return
		}
		rs = hsite
		herr := errResult(hc)
		dataGuard = func(blk *ssa.BasicBlock) bool { return herr != nil && errCheckedBefore(herr, blk) }
	default:
		r.Unknown(rule, name, "single Read", p.Pos(fn.Pos()), fmt.Sprintf("expected one Read call, found %d", len(sites)))
		return
	}
	// the Write of the byte
	var writes []ssa.CallInstruction
	eachInstr(fn, func(b *ssa.BasicBlock, in ssa.Instruction) {
		if ci, ok := in.(ssa.CallInstruction); ok && ci.Common().IsInvoke() && ci.Common().Method.Name() == "Write" {
			writes = append(writes, ci)
		}
	})
	if len(writes) != 1 {
		r.Bad(rule, name, "single Write to the sink", p.Pos(fn.Pos()), fmt.Sprintf("expected exactly one Write, found %d", len(writes)))
		return
	}
	w := writes[0]
	arg := w.Common().Args[0]
	okArg := false
	if sl, ok := arg.(*ssa.Slice); ok && sameBufferField(sl.X, rs.buf) && sl.Low == nil {
		if k, isK := constInt(sl.High); isK && k == 1 {
			okArg = true
		}
		if rs.n != nil && sl.High == rs.n {
			okArg = true
		}
	}
	if okArg {
		r.OK(rule, name, "Write operand is the byte just read", p.Pos(w.Pos()), "b[:1] of the buffer Read filled")
	} else {
		r.Bad(rule, name, "Write operand is the byte just read", p.Pos(w.Pos()), "the sink does not receive exactly the byte that is returned")
	}
	if dataGuard(w.Block()) {
		r.OK(rule, name, "Write only when a byte was read", p.Pos(w.Pos()), "dominated by n > 0 (or by the nil error of the helper that returns data only under n > 0)")
	} else {
		r.Bad(rule, name, "Write only when a byte was read", p.Pos(w.Pos()), "a stale byte may be copied to the raw capture")
	}
	// every return on the data path passes through the Write
	bad := ""
	eachInstr(fn, func(b *ssa.BasicBlock, in ssa.Instruction) {
		if ret, ok := in.(*ssa.Return); ok && dataGuard(b) {
			wi := w.(ssa.Instruction)
			if !(wi.Block() == b && indexIn(wi) < indexIn(ret)) && !(wi.Block() != b && wi.Block().Dominates(b)) {
				bad = p.Pos(ret.Pos())
			}
		}
	})
	if bad == "" {
		r.OK(rule, name, "byte returned only after it was written", p.Pos(fn.Pos()), "the Write dominates every return on the n > 0 path")
	} else {
		r.Bad(rule, name, "byte returned only after it was written", bad, "a byte can be handed to the decoder without being captured: Raw output would not contain its document")
	}
	// Raw functions return the sink's bytes
	for _, rn := range []string{"mxj.NewMapXmlReaderRaw", "mxj.NewMapXmlSeqReaderRaw"} {
		f := p.Fn(rn)
		if f == nil {
			r.Anchor(rule, rn)
			continue
		}
		var tee ssa.CallInstruction
		var bytesCalls []*ssa.Call
		eachInstr(f, func(b *ssa.BasicBlock, in ssa.Instruction) {
			if ci, ok := in.(ssa.CallInstruction); ok {
				if g := staticCallee(ci.Common()); g != nil && p.Name(g) == "mxj.myTeeReader" {
					tee = ci
				}
				if c, ok := in.(*ssa.Call); ok && isCallTo(&c.Call, "(*bytes.Buffer).Bytes") {
					bytesCalls = append(bytesCalls, c)
				}
			}
		})
		if tee == nil || len(bytesCalls) != 1 {
			r.Bad(rule, rn, "raw bytes come from the tee sink", p.Pos(f.Pos()), "tee adaptor or Bytes() call not found")
			continue
		}
		bc := bytesCalls[0]
		sink := tee.Common().Args[1]
		sameSink := false
		if mi, ok := sink.(*ssa.MakeInterface); ok && mi.X == bc.Call.Args[0] {
			sameSink = true
		}
		okRet := true
		eachInstr(f, func(b *ssa.BasicBlock, in ssa.Instruction) {
			if ret, ok := in.(*ssa.Return); ok {
				if ret.Results[1] != ssa.Value(bc) {
					okRet = false
				}
			}
		})
		// Bytes() after the decode (the parser call uses the tee reader)
		var dec ssa.Instruction
		teeV := tee.Value()
		eachInstr(f, func(b *ssa.BasicBlock, in ssa.Instruction) {
			if ci, ok := in.(ssa.CallInstruction); ok && ci != tee {
				for _, a := range ci.Common().Args {
					if teeV != nil && a == ssa.Value(teeV) {
						dec = in
					}
				}
			}
		})
		after := dec != nil && (dec.Block() == bc.Block() && indexIn(dec) < indexIn(bc) || dec.Block() != bc.Block() && dec.Block().Dominates(bc.Block()))
		if sameSink && okRet && after {
			r.OK(rule, rn, "raw bytes come from the tee sink", p.Pos(bc.Pos()), "every return hands back Bytes() of the buffer the tee writes to, taken after decoding")
		} else {
			r.Bad(rule, rn, "raw bytes come from the tee sink", p.Pos(bc.Pos()), fmt.Sprintf("sameSink=%v everyReturn=%v afterDecode=%v", sameSink, okRet, after))
		}
	}
}

// ---- LOOP.handler ------------------------------------------------------------------------------------------------

func ruleLoopHandler(p *Prog, r *Report, names []string) {
	const rule = "LOOP.handler"
	for _, n := range names {
		fn := p.Fn(n)
		if fn == nil {
			r.Anchor(rule, n)
			continue
		}
		// function-typed parameters
		var handlers []*ssa.Parameter
		for _, prm := range fn.Params {
			if _, ok := prm.Type().Underlying().(*types.Signature); ok {
				handlers = append(handlers, prm)
			}
		}
		if len(handlers) != 2 {
			r.Unknown(rule, n, "two handlers", p.Pos(fn.Pos()), fmt.Sprintf("expected a map handler and an error handler, found %d function parameters", len(handlers)))
			continue
		}
		// the reader call: a module call in a loop that takes the reader parameter
		var rdCalls []ssa.CallInstruction
		eachInstr(fn, func(b *ssa.BasicBlock, in ssa.Instruction) {
			ci, ok := in.(ssa.CallInstruction)
			if !ok {
				return
			}
			g := staticCallee(ci.Common())
			if g == nil || !p.InModule(g) {
				return
			}
			if reachableFromSuccs(b)[b] {
				rdCalls = append(rdCalls, ci)
			}
		})
		if len(rdCalls) != 1 {
			r.Unknown(rule, n, "reader call in loop", p.Pos(fn.Pos()), fmt.Sprintf("expected one module call inside the loop, found %d", len(rdCalls)))
			continue
		}
		rd := rdCalls[0]
		res := resultsOf(rd)
		for hi, h := range handlers {
			isErrH := false
			sig := h.Type().Underlying().(*types.Signature)
			if sig.Params().Len() > 0 && isErrorType(sig.Params().At(0).Type()) {
				isErrH = true
			}
			var calls []*ssa.Call
			for _, ref := range *h.Referrers() {
				if c, ok := ref.(*ssa.Call); ok && c.Call.Value == ssa.Value(h) {
					calls = append(calls, c)
				}
			}
			kind := "map handler"
			if isErrH {
				kind = "error handler"
			}
			if len(calls) != 1 {
				r.Bad(rule, n, kind+" called once per iteration", p.Pos(fn.Pos()), fmt.Sprintf("%d call sites of the %s", len(calls), kind))
				continue
			}
			c := calls[0]
			_ = hi
			// argument derives from the reader call's result
			okArg := false
			for _, a := range c.Call.Args {
				for _, rv := range res {
					if rv != nil && (derivesFrom(a, rv) || backwardSlice(fn, a)[rv]) {
						okArg = true
					}
				}
			}
			if okArg {
				r.OK(rule, n, kind+" receives the decoded value", p.Pos(c.Pos()), "argument derives from the result of "+p.calleeName(rd.Common()))
			} else {
				r.Bad(rule, n, kind+" receives the decoded value", p.Pos(c.Pos()), "the handler is not given what the reader returned")
			}
			// the stop edge: If on the handler's result
			var stopBlocks []*ssa.BasicBlock
			for _, ref := range *c.Referrers() {
				var cond ssa.Value
				switch x := ref.(type) {
				case *ssa.If:
					cond = x.Cond
				case *ssa.UnOp:
					if x.Op == token.NOT {
						for _, r2 := range *x.Referrers() {
							if ifi, ok := r2.(*ssa.If); ok {
								cond = ifi.Cond
							}
						}
					}
				}
				if cond == nil {
					continue
				}
				// find the If instruction using cond
				eachInstr(fn, func(b *ssa.BasicBlock, in ssa.Instruction) {
					if ifi, ok := in.(*ssa.If); ok && ifi.Cond == cond {
						g := normGuard(guard{cond, true})
						// g.Cond is the call; true edge means handler returned g.Pol
						if g.Cond == ssa.Value(c) {
							if g.Pol {
								stopBlocks = append(stopBlocks, b.Succs[1])
							} else {
								stopBlocks = append(stopBlocks, b.Succs[0])
							}
						}
					}
				})
			}
			if len(stopBlocks) == 0 {
				r.Bad(rule, n, kind+" result tested", p.Pos(c.Pos()), "the handler's return value does not control the loop")
				continue
			}
			okStop := true
			why := ""
			for _, sb := range stopBlocks {
				reach := reachableFrom(sb)
				if reach[rd.Block()] && !feasiblyReaches(sb, rd.Block()) {
					reach = map[*ssa.BasicBlock]bool{} // only over edges a loop flag cleared on the stop edge rules out
				}
				if reach[rd.Block()] {
					okStop, why = false, "after the "+kind+" returned false the reader is called again"
				}
				if isErrH {
					// must return the error handed to the handler
					ret := firstReturn(sb)
					if ret == nil || isNilConst(ret.Results[len(ret.Results)-1]) {
						okStop, why = false, "after the error handler returned false the function does not return that error"
					} else if ret.Results[len(ret.Results)-1] != c.Call.Args[0] && !backwardSlice(fn, ret.Results[len(ret.Results)-1])[c.Call.Args[0]] {
						okStop, why = false, "the returned error is not the one given to the error handler"
					}
				}
			}
			if okStop {
				r.OK(rule, n, "stops when the "+kind+" returns false", p.Pos(c.Pos()), "no reader call is reachable from the stop edge")
			} else {
				r.Bad(rule, n, "stops when the "+kind+" returns false", p.Pos(c.Pos()), why)
			}
		}
	}
}

var _ = strings.Join

// ruleJsonEscape: the hand-written JSON object scanner decides whether a quote ends a string. A backslash escapes the next
// character only if it is not escaped itself, so the decision needs the parity of a run of backslashes: state whose next
// value depends on its current value. A fixed-width look-behind (the previous byte, the previous two bytes) cannot decide it.
// Decided structurally: among the loop-carried variables that feed the quote decision and are related to the backslash
// constant, at least one is updated from its own current value (by computation or by a condition on it) within one iteration.
func ruleJsonEscape(p *Prog, r *Report) {
	const rule = "JSON.escape"
	fn := p.Fn("mxj.getJson")
	if fn == nil {
		r.Anchor(rule, "mxj.getJson")
		return
	}
	n := p.Name(fn)
	sites := p.readSites([]*ssa.Function{fn})
	var anchor ssa.Instruction
	switch len(sites) {
	case 1:
		anchor = sites[0].call.(ssa.Instruction)
	case 0:
		// the Read may live in an unexported helper ("read the next byte"): the call of that helper marks the scanner loop
		var cands []ssa.Instruction
		eachInstr(fn, func(b *ssa.BasicBlock, in ssa.Instruction) {
			if c, ok := in.(*ssa.Call); ok {
				if h := staticCallee(&c.Call); h != nil && p.InModule(h) && !p.Exported(h) && len(h.Blocks) > 0 && len(p.readSites([]*ssa.Function{h})) == 1 {
					cands = append(cands, c)
				}
			}
		})
		if len(cands) == 1 {
			anchor = cands[0]
		}
	}
	if anchor == nil {
		r.Unknown(rule, n, "scanner loop", p.Pos(fn.Pos()), "expected one Read call (in the function or in one helper it calls)")
		return
	}
	hdr := innermostLoopHeader(anchor.Block())
	if hdr == nil {
		r.Unknown(rule, n, "scanner loop", p.Pos(fn.Pos()), "the Read call is not in a loop")
		return
	}
	isHeaderPhi := func(v ssa.Value) bool {
		ph, ok := v.(*ssa.Phi)
		return ok && ph.Block() == hdr
	}
	// one-iteration dependence: backward closure over operands and phi-selecting conditions, header phis are leaves
	deps := func(seed ssa.Value) (map[ssa.Value]bool, map[ssa.Value]bool) {
		seen := map[ssa.Value]bool{}
		viaComputation := map[ssa.Value]bool{} // header phis reached through at least one non-phi instruction or a selecting condition
		type item struct {
			v        ssa.Value
			computed bool
		}
		work := []item{{seed, false}}
		for len(work) > 0 {
			it := work[len(work)-1]
			work = work[:len(work)-1]
			key := it.v
			if isHeaderPhi(key) {
				if it.computed {
					viaComputation[key] = true
				}
				seen[key] = true
				continue
			}
			if seen[key] && !it.computed {
				continue
			}
			seen[key] = true
			in, ok := it.v.(ssa.Instruction)
			if !ok {
				continue
			}
			if ph, isPhi := it.v.(*ssa.Phi); isPhi {
				for _, e := range ph.Edges {
					work = append(work, item{e, it.computed})
				}
				// selecting conditions
				j := ph.Block()
				if d := j.Idom(); d != nil {
					for _, b := range fn.Blocks {
						if b == j || !(b == d || d.Dominates(b)) || !reachableFromSuccs(b)[j] || (b != d && j.Dominates(b)) {
							continue
						}
						if ifi, ok := b.Instrs[len(b.Instrs)-1].(*ssa.If); ok {
							work = append(work, item{ifi.Cond, true})
						}
					}
				}
				continue
			}
			for _, op := range in.Operands(nil) {
				if op != nil && *op != nil {
					work = append(work, item{*op, true})
				}
			}
		}
		return seen, viaComputation
	}
	isBackslash := func(v ssa.Value) bool {
		k, ok := constInt(v)
		return ok && k == 92
	}
	// (A) byte look-behind variables compared with the backslash must carry state of their own
	var look []*ssa.Phi
	for _, in := range hdr.Instrs {
		ph, ok := in.(*ssa.Phi)
		if !ok {
			break
		}
		if refs := ph.Referrers(); refs != nil {
			for _, ref := range *refs {
				if bo, ok := ref.(*ssa.BinOp); ok && (isBackslash(bo.X) && bo.Y == ssa.Value(ph) || isBackslash(bo.Y) && bo.X == ssa.Value(ph)) {
					look = append(look, ph)
				}
			}
		}
	}
	selfDependent := func(ph *ssa.Phi) bool {
		for i, e := range ph.Edges {
			if !hdr.Dominates(hdr.Preds[i]) {
				continue
			}
			if _, via := deps(e); via[ph] {
				return true
			}
		}
		return false
	}
	if len(look) > 0 {
		var names []string
		ok := true
		for _, ph := range look {
			names = append(names, ph.Comment)
			if !selfDependent(ph) {
				ok = false
			}
		}
		if ok {
			r.OK(rule, n, "escape state of the string scanner", p.Pos(fn.Pos()), "the variables compared with the backslash ("+strings.Join(uniq(names), ",")+") are updated from their own current value")
		} else {
			r.Bad(rule, n, "escape state of the string scanner", p.Pos(fn.Pos()), "the scanner decides escaping by comparing a copy of an earlier input byte ("+strings.Join(uniq(names), ",")+") with the backslash; such a fixed-width look-behind is refilled from the input alone, never from its own value, so it cannot tell an escaping backslash from an escaped one (\"c:\\\\\" or \\\\\\\" are misread)")
		}
		return
	}
	// (B) otherwise some loop-carried variable must be updated from its own value and from a comparison of the current byte with the backslash
	found := ""
	for _, in := range hdr.Instrs {
		ph, ok := in.(*ssa.Phi)
		if !ok {
			break
		}
		usesBackslash := false
		for i, e := range ph.Edges {
			if !hdr.Dominates(hdr.Preds[i]) {
				continue
			}
			s, _ := deps(e)
			for v := range s {
				if bo, ok := v.(*ssa.BinOp); ok && (isBackslash(bo.X) || isBackslash(bo.Y)) {
					other := bo.X
					if isBackslash(bo.X) {
						other = bo.Y
					}
					if !isHeaderPhi(other) {
						usesBackslash = true
					}
				}
			}
		}
		if usesBackslash && selfDependent(ph) {
			found = ph.Comment
		}
	}
	if found == "" {
		// the scanner's state may live in a struct that a step method updates: a field plays the part of the loop-carried variable
		loop := naturalLoop(hdr)
		eachInstr(fn, func(b *ssa.BasicBlock, in ssa.Instruction) {
			c, ok := in.(*ssa.Call)
			if !ok || !loop[b] || found != "" {
				return
			}
			h := staticCallee(&c.Call)
			if h == nil || !p.InModule(h) || len(h.Blocks) == 0 || len(h.Params) == 0 || len(c.Call.Args) == 0 {
				return
			}
			if _, isAlloc := c.Call.Args[0].(*ssa.Alloc); !isAlloc {
				return
			}
			recv := h.Params[0]
			if _, isPtr := recv.Type().Underlying().(*types.Pointer); !isPtr {
				return
			}
			isFieldLoad := func(v ssa.Value, field int) bool {
				u, ok := v.(*ssa.UnOp)
				if !ok || u.Op != token.MUL {
					return false
				}
				fa, ok := u.X.(*ssa.FieldAddr)
				return ok && fa.X == ssa.Value(recv) && (field < 0 || fa.Field == field)
			}
			eachInstr(h, func(b2 *ssa.BasicBlock, i2 ssa.Instruction) {
				st, ok := i2.(*ssa.Store)
				if !ok {
					return
				}
				fa, ok := st.Addr.(*ssa.FieldAddr)
				if !ok || fa.X != ssa.Value(recv) {
					return
				}
				infl := p.influence(h, true, st.Val)
				self, bs := false, false
				for v := range infl.values {
					if isFieldLoad(v, fa.Field) {
						self = true
					}
					if bo, ok := v.(*ssa.BinOp); ok && (isBackslash(bo.X) || isBackslash(bo.Y)) {
						other := bo.X
						if isBackslash(bo.X) {
							other = bo.Y
						}
						if !isFieldLoad(other, -1) {
							bs = true
						}
					}
				}
				if self && bs {
					found = fieldName(fa.X.Type(), fa.Field) + " (field of the scanner state updated by " + p.Name(h) + ")"
				}
			})
		})
	}
	if found != "" {
		r.OK(rule, n, "escape state of the string scanner", p.Pos(fn.Pos()), "variable "+found+" is updated from its own current value and from a test of the current byte against the backslash: the parity of a run of backslashes is tracked")
	} else {
		r.Bad(rule, n, "escape state of the string scanner", p.Pos(fn.Pos()), "no loop-carried variable tracks whether the current character is escaped")
	}
}

// feasiblyReaches: target is reachable from start when boolean phis are followed with the value that flows in along the path
// (a loop flag set to false on the stop edge makes the loop condition fail): branches on such a phi whose value on the path is a
// constant are taken only in the feasible direction.
func feasiblyReaches(start, target *ssa.BasicBlock) bool {
	type st struct {
		b    *ssa.BasicBlock
		bphi map[*ssa.Phi]ssa.Value
	}
	keyOf := func(s st) string {
		var ks []string
		for ph, v := range s.bphi {
			ks = append(ks, ph.Name()+"="+v.Name())
		}
		sort.Strings(ks)
		return fmt.Sprintf("%d:%s", s.b.Index, strings.Join(ks, ","))
	}
	seen := map[string]bool{}
	stack := []st{{start, map[*ssa.Phi]ssa.Value{}}}
	steps := 0
	for len(stack) > 0 {
		cur := stack[len(stack)-1]
		stack = stack[:len(stack)-1]
		k := keyOf(cur)
		if seen[k] {
			continue
		}
		seen[k] = true
		steps++
		if steps > 20000 {
			return true
		}
		if cur.b == target && cur.b != start {
			return true
		}
		for si, sc := range cur.b.Succs {
			if ifi, ok := cur.b.Instrs[len(cur.b.Instrs)-1].(*ssa.If); ok {
				cond, taken := ifi.Cond, si == 0
				for d := 0; d < 6; d++ {
					ng := normGuard(guard{cond, taken})
					ph, isPhi := ng.Cond.(*ssa.Phi)
					if !isPhi || cur.bphi[ph] == nil {
						cond, taken = ng.Cond, ng.Pol
						break
					}
					cond, taken = cur.bphi[ph], ng.Pol
				}
				if bv, isC := constBool(cond); isC && bv != taken {
					continue
				}
			}
			if sc == target {
				return true
			}
			nb := map[*ssa.Phi]ssa.Value{}
			for ph, v := range cur.bphi {
				nb[ph] = v
			}
			pi := -1
			for kx, pr := range sc.Preds {
				if pr == cur.b {
					pi = kx
				}
			}
			for _, in := range sc.Instrs {
				ph, ok := in.(*ssa.Phi)
				if !ok {
					break
				}
				if pi >= 0 && isBoolType(ph.Type()) {
					v := ph.Edges[pi]
					for d := 0; d < 6; d++ {
						q, isPhi := v.(*ssa.Phi)
						if !isPhi || cur.bphi[q] == nil {
							break
						}
						v = cur.bphi[q]
					}
					nb[ph] = v
				}
			}
			stack = append(stack, st{sc, nb})
		}
	}
	return false
}
