package chk

import (
	"fmt"
	"go/ast"
	"go/constant"
	"go/token"
	"go/types"
	"sort"
	"strings"

	"golang.org/x/tools/go/ssa"
)

// ---- AST index: source text of the expression an SSA instruction was built from ----------

type astIndex struct {
	byPos map[token.Pos]ast.Node
}

func (p *Prog) astIdx() *astIndex {
	if v, ok := p.facts["astidx"]; ok {
		return v.(*astIndex)
	}
	ix := &astIndex{byPos: map[token.Pos]ast.Node{}}
	for _, pk := range p.Pkgs {
		for _, f := range pk.Syntax {
			ast.Inspect(f, func(n ast.Node) bool {
				switch e := n.(type) {
				case *ast.IndexExpr:
					ix.byPos[e.Lbrack] = e
				case *ast.SliceExpr:
					ix.byPos[e.Lbrack] = e
				case *ast.TypeAssertExpr:
					ix.byPos[e.Lparen] = e
				case *ast.CallExpr:
					if _, ok := ix.byPos[e.Lparen]; !ok {
						ix.byPos[e.Lparen] = e
					}
				case *ast.RangeStmt:
					ix.byPos[e.For] = e
				}
				return true
			})
		}
	}
	p.facts["astidx"] = ix
	return ix
}

// ExprAt returns the source text of the index/slice/assert/call expression whose bracket is at pos.
func (p *Prog) ExprAt(pos token.Pos) string {
	if n, ok := p.astIdx().byPos[pos]; ok {
		if e, ok := n.(ast.Expr); ok {
			return types.ExprString(e)
		}
		if r, ok := n.(*ast.RangeStmt); ok {
			return "range " + types.ExprString(r.X)
		}
	}
	return ""
}

// NodeAt returns the AST node indexed at pos (see astIdx).
func (p *Prog) NodeAt(pos token.Pos) ast.Node { return p.astIdx().byPos[pos] }

// ---- SSA helpers ---------------------------------------------------------------------------

// eachInstr visits every instruction of fn.
func eachInstr(fn *ssa.Function, f func(b *ssa.BasicBlock, i ssa.Instruction)) {
	for _, b := range fn.Blocks {
		for _, in := range b.Instrs {
			f(b, in)
		}
	}
}

// staticCallee resolves the callee of a call (function, method or closure literal); nil if dynamic.
func staticCallee(c *ssa.CallCommon) *ssa.Function {
	if f := c.StaticCallee(); f != nil {
		return f
	}
	return nil
}

// calleeName renders the callee of a call for reports: qualified module name or package.Func of the stdlib.
func (p *Prog) calleeName(c *ssa.CallCommon) string {
	if f := staticCallee(c); f != nil {
		if p.InModule(f) {
			return p.Name(f)
		}
		return extName(f)
	}
	if c.IsInvoke() {
		return "(" + types.TypeString(c.Value.Type(), shortQual) + ")." + c.Method.Name()
	}
	if b, ok := c.Value.(*ssa.Builtin); ok {
		return "builtin." + b.Name()
	}
	return "<dynamic>"
}

func shortQual(pk *types.Package) string { return pk.Name() }

// extName gives "strings.Split" or "(*bytes.Buffer).WriteString" for an external function.
func extName(f *ssa.Function) string {
	if f == nil {
		return ""
	}
	if recv := f.Signature.Recv(); recv != nil {
		return "(" + types.TypeString(recv.Type(), func(pk *types.Package) string { return pk.Path() }) + ")." + f.Name()
	}
	if f.Pkg != nil {
		return f.Pkg.Pkg.Path() + "." + f.Name()
	}
	if f.Object() != nil && f.Object().Pkg() != nil {
		return f.Object().Pkg().Path() + "." + f.Name()
	}
	return f.String()
}

// isCallTo reports whether the call's static callee is the external function named (extName form).
func isCallTo(c *ssa.CallCommon, names ...string) bool {
	f := staticCallee(c)
	if f == nil {
		return false
	}
	n := extName(f)
	for _, want := range names {
		if n == want {
			return true
		}
	}
	return false
}

func constInt(v ssa.Value) (int64, bool) {
	c, ok := v.(*ssa.Const)
	if !ok || c.Value == nil || c.Value.Kind() != constant.Int {
		return 0, false
	}
	return c.Int64(), true
}

func constString(v ssa.Value) (string, bool) {
	c, ok := v.(*ssa.Const)
	if !ok || c.Value == nil || c.Value.Kind() != constant.String {
		return "", false
	}
	return constant.StringVal(c.Value), true
}

func constBool(v ssa.Value) (bool, bool) {
	c, ok := v.(*ssa.Const)
	if !ok || c.Value == nil || c.Value.Kind() != constant.Bool {
		return false, false
	}
	return constant.BoolVal(c.Value), true
}

func isNilConst(v ssa.Value) bool {
	c, ok := v.(*ssa.Const)
	return ok && c.Value == nil
}

// globalOf returns the package variable a load `*g` reads, if v is such a load.
func globalOf(v ssa.Value) *ssa.Global {
	if u, ok := v.(*ssa.UnOp); ok && u.Op == token.MUL {
		if g, ok := u.X.(*ssa.Global); ok {
			return g
		}
	}
	return nil
}

// ---- call graph --------------------------------------------------------------------------------

type callGraph struct {
	out     map[*ssa.Function][]*ssa.Function
	sites   map[*ssa.Function][]ssa.CallInstruction // callers' call sites per callee
	dynamic map[*ssa.Function][]ssa.CallInstruction // calls of function values that could not be resolved
}

// CG builds the module call graph: static callees, closures created in a function (MakeClosure /
// function values referenced), and for interface invokes the module methods of matching name and
// signature (CHA restricted to the module; stdlib implementations are modelled by the rules).
func (p *Prog) CG() *callGraph {
	if v, ok := p.facts["cg"]; ok {
		return v.(*callGraph)
	}
	cg := &callGraph{out: map[*ssa.Function][]*ssa.Function{}, sites: map[*ssa.Function][]ssa.CallInstruction{}, dynamic: map[*ssa.Function][]ssa.CallInstruction{}}
	// method index for CHA
	byMethod := map[string][]*ssa.Function{}
	for _, f := range p.FuncList {
		if f.Signature.Recv() != nil {
			byMethod[f.Name()] = append(byMethod[f.Name()], f)
		}
	}
	for _, f := range p.FuncList {
		seen := map[*ssa.Function]bool{}
		add := func(g *ssa.Function) {
			if g != nil && !seen[g] {
				seen[g] = true
				cg.out[f] = append(cg.out[f], g)
			}
		}
		eachInstr(f, func(b *ssa.BasicBlock, in ssa.Instruction) {
			// function values referenced (closures, method values, funcs passed as handlers)
			for _, op := range in.Operands(nil) {
				if op == nil || *op == nil {
					continue
				}
				switch v := (*op).(type) {
				case *ssa.Function:
					add(v)
				case *ssa.MakeClosure:
					add(v.Fn.(*ssa.Function))
				}
			}
			ci, ok := in.(ssa.CallInstruction)
			if !ok {
				return
			}
			c := ci.Common()
			if g := staticCallee(c); g != nil {
				add(g)
				cg.sites[g] = append(cg.sites[g], ci)
				return
			}
			if c.IsInvoke() {
				for _, m := range byMethod[c.Method.Name()] {
					recvT := m.Signature.Recv().Type()
					if types.Implements(recvT, c.Value.Type().Underlying().(*types.Interface)) ||
						types.Implements(types.NewPointer(recvT), c.Value.Type().Underlying().(*types.Interface)) {
						add(m)
						cg.sites[m] = append(cg.sites[m], ci)
					}
				}
				return
			}
			if _, ok := c.Value.(*ssa.Builtin); ok {
				return
			}
			cg.dynamic[f] = append(cg.dynamic[f], ci)
		})
	}
	p.facts["cg"] = cg
	return cg
}

// Reach returns the set of functions (module and external) reachable from the roots through the call graph.
func (p *Prog) Reach(roots ...*ssa.Function) map[*ssa.Function]bool {
	cg := p.CG()
	seen := map[*ssa.Function]bool{}
	var work []*ssa.Function
	for _, r := range roots {
		if r != nil && !seen[r] {
			seen[r] = true
			work = append(work, r)
		}
	}
	for len(work) > 0 {
		f := work[len(work)-1]
		work = work[:len(work)-1]
		for _, g := range cg.out[f] {
			if !seen[g] {
				seen[g] = true
				work = append(work, g)
			}
		}
	}
	return seen
}

// ReachPath returns a call path root -> ... -> target (function names), or nil.
func (p *Prog) ReachPath(root, target *ssa.Function) []string {
	cg := p.CG()
	prev := map[*ssa.Function]*ssa.Function{root: nil}
	q := []*ssa.Function{root}
	for len(q) > 0 {
		f := q[0]
		q = q[1:]
		if f == target {
			var path []string
			for g := f; g != nil; g = prev[g] {
				path = append([]string{p.Name(g)}, path...)
			}
			return path
		}
		for _, g := range cg.out[f] {
			if _, ok := prev[g]; !ok {
				prev[g] = f
				q = append(q, g)
			}
		}
	}
	return nil
}

func sortedFuncNames(p *Prog, m map[*ssa.Function]bool) []string {
	var out []string
	for f := range m {
		if p.InModule(f) {
			out = append(out, p.Name(f))
		}
	}
	sort.Strings(out)
	return out
}

// ordinalKeys disambiguates repeated construct strings within one function by source order: "x[i]", "x[i]#2", ...
type ordinalKeys struct{ seen map[string]int }

func newOrdinals() *ordinalKeys { return &ordinalKeys{seen: map[string]int{}} }
func (o *ordinalKeys) key(fn, construct string) string {
	k := fn + "|" + construct
	o.seen[k]++
	if n := o.seen[k]; n > 1 {
		return fmt.Sprintf("%s#%d", construct, n)
	}
	return construct
}

// instrsByPos returns the instructions of fn sorted by source position (stable for unpositioned ones).
func instrsByPos(fn *ssa.Function) []ssa.Instruction {
	var ins []ssa.Instruction
	eachInstr(fn, func(b *ssa.BasicBlock, i ssa.Instruction) { ins = append(ins, i) })
	sort.SliceStable(ins, func(i, j int) bool { return ins[i].Pos() < ins[j].Pos() })
	return ins
}

func derefType(t types.Type) types.Type {
	if pt, ok := t.Underlying().(*types.Pointer); ok {
		return pt.Elem()
	}
	return t
}

func typeStr(t types.Type) string { return types.TypeString(t, shortQual) }

func hasPrefixAny(s string, pre ...string) bool {
	for _, p := range pre {
		if strings.HasPrefix(s, p) {
			return true
		}
	}
	return false
}

// isBuiltin: the call is of the named builtin.
func isBuiltin(c *ssa.Call, name string) bool {
	b, ok := c.Call.Value.(*ssa.Builtin)
	return ok && b.Name() == name && len(c.Call.Args) >= 1
}
