package chk

import (
	"fmt"
	"go/token"
	"go/types"
	"sort"
	"strings"

	"golang.org/x/tools/go/ssa"
)

// F6 — whole-program inclusion-based points-to analysis over the four packages (context-insensitive,
// field-insensitive contents, one external object per exported entry point and reference-typed
// parameter, closed under contents). x/tools v0.29.0 ships no go/pointer, so this is a purpose-built
// Andersen-style solver: nodes are SSA values and abstract objects; every write instruction is
// recorded with the node whose points-to set is the set of objects it may modify.

type objID int

type ptObject struct {
	id    objID
	kind  string // alloc, make, append, global, ext, fresh, func, closure
	site  ssa.Value
	typ   types.Type
	label string
	fn    *ssa.Function // for func objects
	ext   *extKey
}

type extKey struct {
	fn    *ssa.Function
	param int
}

type ptWrite struct {
	Instr  ssa.Instruction
	Fn     *ssa.Function
	Target int // node id whose pts are the written objects
	What   string
}

// bitset of object ids
type bset []uint64

func (b bset) has(o objID) bool {
	w := int(o) >> 6
	return w < len(b) && b[w]&(1<<(uint(o)&63)) != 0
}

func (b *bset) add(o objID) bool {
	w := int(o) >> 6
	for len(*b) <= w {
		*b = append(*b, 0)
	}
	if (*b)[w]&(1<<(uint(o)&63)) != 0 {
		return false
	}
	(*b)[w] |= 1 << (uint(o) & 63)
	return true
}

func (b *bset) union(src bset) bool {
	changed := false
	for len(*b) < len(src) {
		*b = append(*b, 0)
	}
	for i, w := range src {
		if w&^(*b)[i] != 0 {
			(*b)[i] |= w
			changed = true
		}
	}
	return changed
}

func (b bset) each(f func(o objID)) {
	for i, w := range b {
		for w != 0 {
			t := w & -w
			bit := 0
			for t>>uint(bit) != 1 {
				bit++
			}
			f(objID(i*64 + bit))
			w &^= t
		}
	}
}

func (b bset) toMap() map[objID]bool {
	m := map[objID]bool{}
	b.each(func(o objID) { m[o] = true })
	return m
}

type ptsTo struct {
	p       *Prog
	nodeOf  map[ssa.Value]int
	nnodes  int
	pts     []bset
	objs    []*ptObject
	content []int    // object -> contents node
	copyE   [][2]int // dst ⊇ src
	fcopyE  [][2]int // dst ⊇ non-container objects of src (value known to be neither map[string]interface{} nor []interface{})
	loadE   [][2]int // dst ⊇ C(pts(src))
	storeE  [][2]int // C(pts(dst)) ⊇ src
	writes  []ptWrite
	globObj map[*ssa.Global]objID
	extObj  map[extKey]objID
	fnObj   map[*ssa.Function]objID
	results map[*ssa.Function][]int
	// dynamic call sites to resolve during solving
	dyn       []dynCall
	callbacks []cbSite
	edges     map[*ssa.Function]map[*ssa.Function]bool // call edges discovered (static + dynamic + callbacks)
	bound     map[string]bool
	unmodeled map[string]ssa.Instruction
	siteObj   map[ssa.Instruction]objID
}

type dynCall struct {
	fn   *ssa.Function
	site ssa.CallInstruction
	fv   int // node of the function value / interface receiver
}

type cbSite struct {
	fn   *ssa.Function
	site ssa.CallInstruction
	args []int
}

func hasPtr(t types.Type) bool {
	return hasPtrRec(t, 0)
}

func hasPtrRec(t types.Type, depth int) bool {
	if depth > 6 {
		return true
	}
	switch u := t.Underlying().(type) {
	case *types.Basic:
		return u.Kind() == types.UnsafePointer
	case *types.Pointer, *types.Map, *types.Slice, *types.Chan, *types.Signature, *types.Interface:
		return true
	case *types.Struct:
		for i := 0; i < u.NumFields(); i++ {
			if hasPtrRec(u.Field(i).Type(), depth+1) {
				return true
			}
		}
		return false
	case *types.Array:
		return hasPtrRec(u.Elem(), depth+1)
	case *types.Tuple:
		for i := 0; i < u.Len(); i++ {
			if hasPtrRec(u.At(i).Type(), depth+1) {
				return true
			}
		}
		return false
	}
	return false
}

func (a *ptsTo) newNode() int {
	a.pts = append(a.pts, nil)
	a.nnodes++
	return a.nnodes - 1
}

func (a *ptsTo) node(v ssa.Value) int {
	if n, ok := a.nodeOf[v]; ok {
		return n
	}
	n := a.newNode()
	a.nodeOf[v] = n
	switch x := v.(type) {
	case *ssa.Global:
		a.addObj(n, a.globalObject(x))
	case *ssa.Function:
		a.addObj(n, a.funcObject(x))
	}
	return n
}

func (a *ptsTo) newObj(kind string, site ssa.Value, typ types.Type, label string) objID {
	o := &ptObject{id: objID(len(a.objs)), kind: kind, site: site, typ: typ, label: label}
	a.objs = append(a.objs, o)
	a.content = append(a.content, a.newNode())
	return o.id
}

func (a *ptsTo) globalObject(g *ssa.Global) objID {
	if o, ok := a.globObj[g]; ok {
		return o
	}
	o := a.newObj("global", g, derefType(g.Type()), "global "+g.Pkg.Pkg.Name()+"."+g.Name())
	a.globObj[g] = o
	// variables of packages outside the module (io.EOF, os.Stdin...) hold external state
	if !a.p.moduleGlobal(g) {
		a.addObj(a.content[o], o) // closed: whatever hangs off it is summarised by itself
	}
	return o
}

func (p *Prog) moduleGlobal(g *ssa.Global) bool {
	for _, sp := range p.SPkgs {
		if g.Pkg == sp {
			return true
		}
	}
	return false
}

func (a *ptsTo) funcObject(f *ssa.Function) objID {
	if o, ok := a.fnObj[f]; ok {
		return o
	}
	o := a.newObj("func", f, f.Type(), "func "+f.String())
	a.objs[o].fn = f
	a.fnObj[f] = o
	return o
}

func (a *ptsTo) extObject(f *ssa.Function, i int) objID {
	k := extKey{f, i}
	if o, ok := a.extObj[k]; ok {
		return o
	}
	prm := f.Params[i]
	o := a.newObj("ext", prm, prm.Type(), fmt.Sprintf("argument %s of %s", prm.Name(), a.p.Name(f)))
	a.objs[o].ext = &k
	a.extObj[k] = o
	a.addObj(a.content[o], o) // closed under contents
	return o
}

func (a *ptsTo) addObj(n int, o objID) bool {
	return a.pts[n].add(o)
}

func (a *ptsTo) copy(dst, src int)  { a.copyE = append(a.copyE, [2]int{dst, src}) }
func (a *ptsTo) fcopy(dst, src int) { a.fcopyE = append(a.fcopyE, [2]int{dst, src}) }

// isContainerObj: the object is (or summarises) a map or a slice. Under the shape assumption A-shape (Maps are
// JSON/XML-shaped: the only containers are map[string]interface{} and []interface{}), a value that failed the
// assertions to both container types holds no reference into a Map.
func (a *ptsTo) isContainerObj(o objID) bool {
	t := a.objs[o].typ
	if t == nil {
		return a.objs[o].kind != "func"
	}
	switch t.Underlying().(type) {
	case *types.Map, *types.Slice, *types.Array:
		return true
	case *types.Interface:
		return a.objs[o].kind == "ext" || a.objs[o].kind == "fresh"
	}
	return false
}

// notContainerAt: v is used in a block dominated by the false edges of comma-ok assertions of v to map[string]interface{} and []interface{}.
func notContainerAt(v ssa.Value, blk *ssa.BasicBlock) bool {
	if !isIfaceType(v.Type()) {
		return false
	}
	notMap, notList := false, false
	for _, g := range dominatingGuards(blk) {
		ng := normGuard(g)
		ex, ok := ng.Cond.(*ssa.Extract)
		if !ok || ex.Index != 1 || ng.Pol {
			continue
		}
		ta, ok := ex.Tuple.(*ssa.TypeAssert)
		if !ok || ta.X != v {
			continue
		}
		if isMapShaped(ta.AssertedType) {
			notMap = true
		}
		if sl, ok := ta.AssertedType.Underlying().(*types.Slice); ok && isIfaceType(sl.Elem()) {
			notList = true
		}
	}
	return notMap && notList
}
func (a *ptsTo) load(dst, src int)  { a.loadE = append(a.loadE, [2]int{dst, src}) }
func (a *ptsTo) store(dst, src int) { a.storeE = append(a.storeE, [2]int{dst, src}) }

func (a *ptsTo) write(in ssa.Instruction, fn *ssa.Function, target int, what string) {
	a.writes = append(a.writes, ptWrite{in, fn, target, what})
}

func (a *ptsTo) fresh(in ssa.Instruction, v ssa.Value, label string) objID {
	if o, ok := a.siteObj[in]; ok {
		return o
	}
	var t types.Type
	if v != nil {
		t = v.Type()
	}
	o := a.newObj("fresh", v, t, label+" at "+a.p.Pos(in.Pos()))
	a.siteObj[in] = o
	return o
}

func (a *ptsTo) edge(from, to *ssa.Function) {
	if a.edges[from] == nil {
		a.edges[from] = map[*ssa.Function]bool{}
	}
	a.edges[from][to] = true
}

// PointsTo runs (once) the whole-program analysis.
func (p *Prog) PointsTo() *ptsTo {
	if v, ok := p.facts["pts"]; ok {
		return v.(*ptsTo)
	}
	a := &ptsTo{p: p, nodeOf: map[ssa.Value]int{}, globObj: map[*ssa.Global]objID{}, extObj: map[extKey]objID{},
		fnObj: map[*ssa.Function]objID{}, results: map[*ssa.Function][]int{}, edges: map[*ssa.Function]map[*ssa.Function]bool{},
		bound: map[string]bool{}, unmodeled: map[string]ssa.Instruction{}, siteObj: map[ssa.Instruction]objID{}}
	fns := p.allFuncsWithInit()
	for _, f := range fns {
		a.results[f] = make([]int, f.Signature.Results().Len())
		for i := range a.results[f] {
			a.results[f][i] = a.newNode()
		}
	}
	// external objects for exported entry points
	for _, f := range p.FuncList {
		if !p.Exported(f) {
			continue
		}
		for i, prm := range f.Params {
			if hasPtr(prm.Type()) {
				a.addObj(a.node(prm), a.extObject(f, i))
			}
		}
	}
	for _, f := range fns {
		a.genFunc(f)
	}
	a.solve()
	p.facts["pts"] = a
	return a
}

func (a *ptsTo) genFunc(f *ssa.Function) {
	for _, b := range f.Blocks {
		for _, in := range b.Instrs {
			a.genInstr(f, in)
		}
	}
}

func (a *ptsTo) genInstr(f *ssa.Function, in ssa.Instruction) {
	switch x := in.(type) {
	case *ssa.Alloc:
		o := a.newObj("alloc", x, derefType(x.Type()), "local "+x.Comment+" at "+a.p.Pos(x.Pos()))
		a.addObj(a.node(x), o)
	case *ssa.MakeMap:
		a.addObj(a.node(x), a.newObj("make", x, x.Type(), "make(map) at "+a.p.Pos(x.Pos())))
	case *ssa.MakeSlice:
		a.addObj(a.node(x), a.newObj("make", x, x.Type(), "make(slice) at "+a.p.Pos(x.Pos())))
	case *ssa.MakeChan:
		a.addObj(a.node(x), a.newObj("make", x, x.Type(), "make(chan) at "+a.p.Pos(x.Pos())))
	case *ssa.MakeClosure:
		fn := x.Fn.(*ssa.Function)
		a.addObj(a.node(x), a.funcObject(fn))
		for i, bnd := range x.Bindings {
			if hasPtr(bnd.Type()) {
				a.copy(a.node(fn.FreeVars[i]), a.node(bnd))
			}
		}
		a.edge(f, fn)
	case *ssa.Store:
		if hasPtr(x.Val.Type()) {
			a.store(a.node(x.Addr), a.node(x.Val))
		}
		a.write(in, f, a.node(x.Addr), "store")
	case *ssa.UnOp:
		switch x.Op {
		case token.MUL:
			if hasPtr(x.Type()) {
				a.load(a.node(x), a.node(x.X))
			}
		case token.ARROW:
			if hasPtr(x.Type()) {
				a.load(a.node(x), a.node(x.X))
			}
		}
	case *ssa.FieldAddr:
		a.copy(a.node(x), a.node(x.X))
	case *ssa.IndexAddr:
		a.copy(a.node(x), a.node(x.X))
	case *ssa.Field:
		if hasPtr(x.Type()) {
			a.copy(a.node(x), a.node(x.X))
		}
	case *ssa.Index:
		if hasPtr(x.Type()) {
			a.copy(a.node(x), a.node(x.X))
		}
	case *ssa.Lookup:
		if _, isMap := x.X.Type().Underlying().(*types.Map); isMap && hasPtr(x.Type()) {
			a.load(a.node(x), a.node(x.X))
		}
	case *ssa.MapUpdate:
		if hasPtr(x.Value.Type()) {
			a.store(a.node(x.Map), a.node(x.Value))
		}
		if hasPtr(x.Key.Type()) {
			a.store(a.node(x.Map), a.node(x.Key))
		}
		a.write(in, f, a.node(x.Map), "map update")
	case *ssa.Range:
		a.copy(a.node(x), a.node(x.X))
	case *ssa.Next:
		if !x.IsString {
			a.load(a.node(x), a.node(x.Iter))
		}
	case *ssa.Extract:
		if hasPtr(x.Type()) {
			if c, ok := x.Tuple.(*ssa.Call); ok {
				// per-index results
				a.copy(a.node(x), a.tupleIdx(c, x.Index))
			} else {
				a.copy(a.node(x), a.node(x.Tuple))
			}
		}
	case *ssa.Phi:
		if hasPtr(x.Type()) {
			for _, e := range x.Edges {
				if !isNilConst(e) {
					a.copy(a.node(x), a.node(e))
				}
			}
		}
	case *ssa.ChangeType:
		a.copy(a.node(x), a.node(x.X))
	case *ssa.ChangeInterface:
		a.copy(a.node(x), a.node(x.X))
	case *ssa.MakeInterface:
		if hasPtr(x.X.Type()) {
			a.copy(a.node(x), a.node(x.X))
		}
	case *ssa.TypeAssert:
		if hasPtr(x.Type()) {
			a.copy(a.node(x), a.node(x.X))
		}
	case *ssa.Slice:
		if hasPtr(x.Type()) && hasPtr(x.X.Type()) {
			a.copy(a.node(x), a.node(x.X))
		}
	case *ssa.Convert:
		if hasPtr(x.Type()) {
			if hasPtr(x.X.Type()) {
				a.copy(a.node(x), a.node(x.X))
			} else {
				a.addObj(a.node(x), a.fresh(in, x, "conversion"))
			}
		}
	case *ssa.SliceToArrayPointer:
		a.copy(a.node(x), a.node(x.X))
	case *ssa.Return:
		res := a.results[f]
		for i, rv := range x.Results {
			if i < len(res) && hasPtr(rv.Type()) && !isNilConst(rv) {
				if notContainerAt(rv, x.Block()) {
					a.fcopy(res[i], a.node(rv)) // scalar arm of a type switch: no container can be returned here
				} else {
					a.copy(res[i], a.node(rv))
				}
			}
		}
	case *ssa.Send:
		if hasPtr(x.X.Type()) {
			a.store(a.node(x.Chan), a.node(x.X))
		}
		a.write(in, f, a.node(x.Chan), "channel send")
	case *ssa.Select:
		a.unmodeled["select in "+a.p.Name(f)] = in
	case ssa.CallInstruction:
		a.genCall(f, x)
	}
}

// tupleIdx: node for result #i of a call.
func (a *ptsTo) tupleIdx(c *ssa.Call, i int) int {
	key := fmt.Sprintf("%p#%d", c, i)
	if n, ok := a.nodeOf[tupleKey{c, i}]; ok {
		return n
	}
	_ = key
	n := a.newNode()
	a.nodeOf[tupleKey{c, i}] = n
	return n
}

// tupleKey is used as a pseudo ssa.Value key for per-index call results.
type tupleKey struct {
	c *ssa.Call
	i int
}

func (tupleKey) Name() string                  { return "" }
func (tupleKey) String() string                { return "" }
func (tupleKey) Type() types.Type              { return nil }
func (tupleKey) Parent() *ssa.Function         { return nil }
func (tupleKey) Referrers() *[]ssa.Instruction { return nil }
func (tupleKey) Pos() token.Pos                { return token.NoPos }

// resultNode: node of result #i of the call instruction (the call value itself when there is a single result).
func (a *ptsTo) resultNode(ci ssa.CallInstruction, i int) int {
	c, ok := ci.(*ssa.Call)
	if !ok {
		return a.newNode() // go/defer: results discarded
	}
	if ci.Common().Signature().Results().Len() == 1 {
		return a.node(c)
	}
	return a.tupleIdx(c, i)
}

func (a *ptsTo) bindCall(f *ssa.Function, ci ssa.CallInstruction, callee *ssa.Function, args []int) {
	key := fmt.Sprintf("%p>%p", ci, callee)
	if a.bound[key] {
		return
	}
	a.bound[key] = true
	a.edge(f, callee)
	if !a.p.InModule(callee) && !isPkgInit(callee) {
		return
	}
	for i, prm := range callee.Params {
		if i < len(args) && args[i] >= 0 && hasPtr(prm.Type()) {
			a.copy(a.node(prm), args[i])
		}
	}
	res := a.results[callee]
	for i := range res {
		if hasPtr(callee.Signature.Results().At(i).Type()) {
			a.copy(a.resultNode(ci, i), res[i])
		}
	}
}

func (a *ptsTo) argNodes(c *ssa.CallCommon) []int {
	var out []int
	for _, arg := range c.Args {
		if hasPtr(arg.Type()) && !isNilConst(arg) {
			out = append(out, a.node(arg))
		} else {
			out = append(out, -1)
		}
	}
	return out
}

func (a *ptsTo) genCall(f *ssa.Function, ci ssa.CallInstruction) {
	c := ci.Common()
	in := ci.(ssa.Instruction)
	if bi, ok := c.Value.(*ssa.Builtin); ok {
		a.genBuiltin(f, ci, bi)
		return
	}
	if callee := staticCallee(c); callee != nil {
		if a.p.InModule(callee) {
			a.bindCall(f, ci, callee, a.argNodes(c))
			return
		}
		a.edge(f, callee)
		if isPkgInit(callee) {
			return // initialisation of an imported package
		}
		a.genExternal(f, ci, extName(callee))
		return
	}
	if c.IsInvoke() {
		recv := a.node(c.Value)
		// module implementations by CHA
		iface, _ := c.Value.Type().Underlying().(*types.Interface)
		for _, m := range a.p.FuncList {
			if m.Signature.Recv() == nil || m.Name() != c.Method.Name() || iface == nil {
				continue
			}
			rt := m.Signature.Recv().Type()
			if types.Implements(rt, iface) || types.Implements(types.NewPointer(rt), iface) {
				args := append([]int{recv}, a.argNodes(c)...)
				a.bindCall(f, ci, m, args)
			}
		}
		// external implementations by method contract
		switch c.Method.Name() {
		case "Read":
			if len(c.Args) == 1 {
				a.write(in, f, a.node(c.Args[0]), "Read fills its buffer argument")
			}
		case "Write", "WriteString", "ReadByte", "Error", "String", "Len", "Less", "Close",
			"Kind", "Mode", "Size", "Name", "IsDir", "ModTime", "IsRegular", "Elem", "NumField":
		case "Swap":
			a.write(in, f, recv, "Swap")
		default:
			a.unmodeled["interface method "+c.Method.Name()+" in "+a.p.Name(f)] = in
		}
		return
	}
	// call of a function value
	a.dyn = append(a.dyn, dynCall{f, ci, a.node(c.Value)})
}

func (a *ptsTo) genBuiltin(f *ssa.Function, ci ssa.CallInstruction, bi *ssa.Builtin) {
	c := ci.Common()
	in := ci.(ssa.Instruction)
	switch bi.Name() {
	case "append":
		v := ci.Value()
		if v == nil {
			return
		}
		dst := a.node(v)
		if !isNilConst(c.Args[0]) {
			a.copy(dst, a.node(c.Args[0]))
			a.write(in, f, a.node(c.Args[0]), "append may write into the spare capacity of its first argument")
		}
		o := a.newObj("append", v, v.Type(), "append result at "+a.p.Pos(in.Pos()))
		a.addObj(dst, o)
		if len(c.Args) > 1 && hasPtr(c.Args[1].Type()) && !isNilConst(c.Args[1]) {
			// elements are passed as a slice: contents(dst objs) ⊇ contents(arg objs)
			tmp := a.newNode()
			a.load(tmp, a.node(c.Args[1]))
			a.store(dst, tmp)
		}
	case "copy":
		if hasPtr(c.Args[0].Type()) {
			tmp := a.newNode()
			if hasPtr(c.Args[1].Type()) {
				a.load(tmp, a.node(c.Args[1]))
				a.store(a.node(c.Args[0]), tmp)
			}
			a.write(in, f, a.node(c.Args[0]), "copy")
		}
	case "delete":
		a.write(in, f, a.node(c.Args[0]), "delete")
	case "len", "cap", "print", "println", "min", "max", "real", "imag", "complex", "recover", "panic", "close", "clear":
		if bi.Name() == "clear" {
			a.write(in, f, a.node(c.Args[0]), "clear")
		}
	default:
		a.unmodeled["builtin "+bi.Name()] = in
	}
}

// genExternal applies the model of a standard-library callee.
func (a *ptsTo) genExternal(f *ssa.Function, ci ssa.CallInstruction, name string) {
	c := ci.Common()
	in := ci.(ssa.Instruction)
	nres := c.Signature().Results().Len()
	freshResults := func() {
		for i := 0; i < nres; i++ {
			t := c.Signature().Results().At(i).Type()
			if hasPtr(t) && !isErrorType(t) {
				o := a.newObj("fresh", nil, t, "result of "+name+" at "+a.p.Pos(in.Pos()))
				a.addObj(a.resultNode(ci, i), o)
			}
		}
	}
	resultsAliasArgs := func(deep bool) {
		for i := 0; i < nres; i++ {
			t := c.Signature().Results().At(i).Type()
			if !hasPtr(t) || isErrorType(t) {
				continue
			}
			rn := a.resultNode(ci, i)
			for _, an := range a.argNodes(c) {
				if an >= 0 {
					a.copy(rn, an)
					if deep {
						a.load(rn, an)
					}
				}
			}
		}
	}
	a.callbacks = append(a.callbacks, cbSite{f, ci, a.argNodes(c)})
	// an argument converted to an interface from a named module type (sort.Sort(byKey(s))): the library calls the methods of that
	// static type on the value — the object behind it may have been allocated under its unnamed underlying type
	for _, arg := range c.Args {
		mi, ok := arg.(*ssa.MakeInterface)
		if !ok {
			continue
		}
		nt, ok := derefType(mi.X.Type()).(*types.Named)
		if !ok || nt.Obj().Pkg() == nil {
			continue
		}
		if _, isMod := pkgAlias[nt.Obj().Pkg().Path()]; !isMod {
			continue
		}
		for _, T := range []types.Type{nt, types.NewPointer(nt)} {
			ms := a.p.SSA.MethodSets.MethodSet(T)
			for i := 0; i < ms.Len(); i++ {
				if !callbackMethods[ms.At(i).Obj().Name()] {
					continue
				}
				m := a.p.SSA.MethodValue(ms.At(i))
				if m == nil || !a.p.InModule(m) || len(m.Params) == 0 {
					continue
				}
				key := fmt.Sprintf("cbs%p>%p", in, m)
				if a.bound[key] {
					continue
				}
				a.bound[key] = true
				a.edge(f, m)
				a.copy(a.node(m.Params[0]), a.node(mi.X))
				for pi, prm := range m.Params[1:] {
					if hasPtr(prm.Type()) {
						ob := a.newObj("fresh", prm, prm.Type(), fmt.Sprintf("library-owned argument %d of %s", pi+1, a.p.Name(m)))
						a.addObj(a.node(prm), ob)
					}
				}
			}
		}
	}
	switch {
	case pureExtPkg(name):
		freshResults()
	case hasPrefixAny(name, "sort."):
		for _, an := range a.argNodes(c) {
			if an >= 0 {
				a.write(in, f, an, name+" reorders its argument")
			}
		}
	case hasPrefixAny(name, "(*bytes.Buffer).Write", "(*strings.Builder).Write", "(*bytes.Buffer).Reset", "(*bytes.Buffer).Truncate", "(*strings.Builder).Reset", "(*strings.Builder).Grow", "(*bytes.Buffer).Grow"):
		a.write(in, f, a.node(c.Args[0]), name+" mutates its receiver")
	case name == "(*bytes.Buffer).Bytes":
		// the result aliases the buffer's storage
		a.copy(a.resultNode(ci, 0), a.node(c.Args[0]))
	case hasPrefixAny(name, "(*bytes.Buffer).String", "(*bytes.Buffer).Len", "(*strings.Builder).String", "(*strings.Builder).Len"):
	case name == "bytes.NewBuffer", name == "bytes.NewReader", name == "bytes.NewBufferString", name == "strings.NewReader":
		freshResults()
		if an := a.argNodes(c); len(an) > 0 && an[0] >= 0 {
			a.store(a.resultNode(ci, 0), an[0])
			a.copy(a.resultNode(ci, 0), an[0]) // NewBuffer takes ownership of buf: writes to the buffer may write buf
		}
	case hasPrefixAny(name, "bytes.Trim", "bytes.Split", "bytes.Fields", "bytes.Cut", "bytes.SplitN", "bytes.SplitAfter"):
		// these return sub-slices of their first argument
		freshResults()
		resultsAliasArgs(false)
	case hasPrefixAny(name, "bytes."):
		freshResults()
	case name == "encoding/xml.NewDecoder", name == "encoding/json.NewDecoder", name == "encoding/gob.NewDecoder",
		name == "encoding/json.NewEncoder", name == "encoding/gob.NewEncoder", name == "encoding/xml.NewEncoder", name == "bufio.NewReader", name == "bufio.NewWriter":
		freshResults()
		if an := a.argNodes(c); len(an) > 0 && an[0] >= 0 {
			a.store(a.resultNode(ci, 0), an[0])
		}
	case hasPrefixAny(name, "(*encoding/xml.Decoder).Token", "(*encoding/xml.Decoder).RawToken", "(*encoding/xml.Decoder).InputOffset", "(*encoding/xml.Decoder).Skip"):
		freshResults()
	case hasPrefixAny(name, "(*encoding/json.Decoder).UseNumber", "(*encoding/json.Decoder).DisallowUnknownFields", "(*encoding/json.Encoder).SetEscapeHTML", "(*encoding/json.Encoder).SetIndent",
		"(*encoding/json.Decoder).More", "(*encoding/json.Decoder).InputOffset", "(reflect.Value).Pointer", "(reflect.Value).UnsafePointer", "(reflect.Value).UnsafeAddr"):
	case hasPrefixAny(name, "(*encoding/json.Decoder).Buffered", "(*encoding/json.Decoder).Token"):
		freshResults()
	case hasPrefixAny(name, "(*encoding/json.Decoder).Decode", "(*encoding/gob.Decoder).Decode", "(*encoding/xml.Decoder).Decode"):
		an := a.argNodes(c)
		if len(an) > 1 && an[1] >= 0 {
			o := a.fresh(in, nil, "decoded value of "+name)
			tmp := a.newNode()
			a.addObj(tmp, o)
			a.addObj(a.content[o], o)
			a.store(an[1], tmp)
			// the decoder fills what the pointer designates, and may fill maps/slices found there
			deep := a.newNode()
			a.load(deep, an[1])
			a.store(deep, tmp)
			a.write(in, f, an[1], name+" writes through its pointer argument")
			a.write(in, f, deep, name+" fills the value its argument points to")
		}
	case name == "encoding/json.Unmarshal", name == "encoding/xml.Unmarshal":
		an := a.argNodes(c)
		if len(an) > 1 && an[1] >= 0 {
			o := a.fresh(in, nil, "decoded value of "+name)
			tmp := a.newNode()
			a.addObj(tmp, o)
			a.addObj(a.content[o], o)
			a.store(an[1], tmp)
			deep := a.newNode()
			a.load(deep, an[1])
			a.store(deep, tmp)
			a.write(in, f, an[1], name+" writes through its pointer argument")
			a.write(in, f, deep, name+" fills the value its argument points to")
		}
	case hasPrefixAny(name, "encoding/json.Marshal", "encoding/xml.Marshal", "(*encoding/json.Encoder).Encode", "(*encoding/gob.Encoder).Encode", "(*encoding/xml.Encoder).Encode"):
		freshResults()
	case name == "encoding/json.HTMLEscape", name == "encoding/json.Indent", name == "encoding/json.Compact":
		// append to the destination buffer (first argument), read the source
		a.write(in, f, a.node(c.Args[0]), name+" appends to its destination buffer")
	case name == "encoding/json.Valid":
	case name == "encoding/gob.Register":
	case hasPrefixAny(name, "fmt.Sprint", "fmt.Errorf", "fmt.Sprintf", "fmt.Sprintln"):
		freshResults()
	case hasPrefixAny(name, "fmt.Fprint"):
	case hasPrefixAny(name, "reflect.ValueOf", "reflect.TypeOf", "(reflect.Value).MapKeys", "(reflect.Value).MapIndex", "(reflect.Value).Interface", "(reflect.Value).Elem", "(reflect.Value).Field", "(reflect.Value).Index"):
		resultsAliasArgs(true)
	case hasPrefixAny(name, "(reflect.Value).Kind", "(*reflect.rtype).Kind", "(reflect.Value).Len", "(reflect.Value).IsNil", "(reflect.Value).IsValid", "(reflect.Value).String", "(reflect.Value).Type", "(reflect.Value).NumField"):
	case hasPrefixAny(name, "os.Open", "os.Create", "os.Stat", "os.OpenFile", "os.Lstat"):
		freshResults()
	case hasPrefixAny(name, "(*os.File).Read"):
		if an := a.argNodes(c); len(an) > 1 && an[1] >= 0 {
			a.write(in, f, an[1], name+" fills its buffer argument")
		}
	case hasPrefixAny(name, "(*os.File).Write", "(*os.File).Close", "(*os.File).Sync", "(*os.File).Seek", "(*os.File).Name", "(*os.File).Stat"):
		freshResults()
	case hasPrefixAny(name, "(os.FileMode).", "(io/fs.FileMode).", "(*os.fileStat).", "(io/fs.FileInfo)."):
		freshResults()
	case hasPrefixAny(name, "time.Sleep", "time.After", "time.Duration", "(time.Duration)."):
		freshResults()
	case hasPrefixAny(name, "regexp.", "(*regexp.Regexp)."):
		freshResults()
	case hasPrefixAny(name, "io.ReadAll", "io.ReadFull", "io.WriteString", "io.Copy"):
		freshResults()
	case name == "(*sync.Pool).Get":
		// what Get hands out is what some Put stored, or what New made: in both cases an object the pool may hold again
		a.load(a.resultNode(ci, 0), a.node(c.Args[0]))
		o := a.fresh(in, nil, "object taken from a sync.Pool at "+a.p.Pos(in.Pos()))
		tmp := a.newNode()
		a.addObj(tmp, o)
		a.copy(a.resultNode(ci, 0), tmp)
		a.store(a.node(c.Args[0]), tmp)
	case name == "(*sync.Pool).Put":
		an := a.argNodes(c)
		if len(an) > 1 && an[1] >= 0 {
			a.store(an[0], an[1])
		}
		a.write(in, f, a.node(c.Args[0]), "sync.Pool.Put stores into the pool")
	case hasPrefixAny(name, "(*sync.Mutex).", "(*sync.RWMutex).", "(*sync.Once).", "(*sync.WaitGroup).", "sync/atomic."):
		a.write(in, f, a.node(c.Args[0]), name+" mutates synchronisation state")
	default:
		a.unmodeled["external "+name] = in
		freshResults()
	}
}

// pureExtPkg: whole packages whose functions have no effects on memory visible to the module and return fresh values.
func pureExtPkg(name string) bool {
	return hasPrefixAny(name, "strings.", "strconv.", "errors.", "unicode.", "unicode/utf8.", "math.", "(*strings.Replacer).", "path.", "path/filepath.") &&
		!hasPrefixAny(name, "strings.NewReader")
}

var callbackMethods = map[string]bool{"Read": true, "ReadByte": true, "Write": true, "WriteByte": true, "WriteString": true, "Close": true,
	"Len": true, "Less": true, "Swap": true, "Error": true, "String": true, "GoString": true, "Format": true, "MarshalJSON": true,
	"UnmarshalJSON": true, "MarshalText": true, "UnmarshalText": true, "MarshalXML": true, "UnmarshalXML": true, "MarshalXMLAttr": true,
	"UnmarshalXMLAttr": true, "GobEncode": true, "GobDecode": true, "MarshalBinary": true, "UnmarshalBinary": true, "Seek": true,
	"ReadAt": true, "ReadFrom": true, "WriteTo": true, "ReadRune": true, "UnreadByte": true, "UnreadRune": true, "Unwrap": true, "Is": true, "As": true,
	"Push": true, "Pop": true}

// cbMethodsOf: the methods of a module-typed object that the standard library could call through one of its interfaces.
func (a *ptsTo) cbMethodsOf(o objID) []*ssa.Function {
	t := a.objs[o].typ
	if t == nil {
		return nil
	}
	nt, ok := derefType(t).(*types.Named)
	if !ok || nt.Obj().Pkg() == nil {
		return nil
	}
	if _, isMod := pkgAlias[nt.Obj().Pkg().Path()]; !isMod {
		return nil
	}
	var out []*ssa.Function
	seen := map[*ssa.Function]bool{}
	for _, T := range []types.Type{nt, types.NewPointer(nt)} {
		ms := a.p.SSA.MethodSets.MethodSet(T)
		for i := 0; i < ms.Len(); i++ {
			if !callbackMethods[ms.At(i).Obj().Name()] {
				continue
			}
			m := a.p.SSA.MethodValue(ms.At(i))
			if m == nil || !a.p.InModule(m) || seen[m] {
				continue
			}
			seen[m] = true
			out = append(out, m)
		}
	}
	return out
}

func (a *ptsTo) solve() {
	cbCache := map[objID][]*ssa.Function{}
	cbDone := map[objID]bool{}
	for round := 0; round < 500; round++ {
		changed := false
		for _, e := range a.copyE {
			if a.pts[e[0]].union(a.pts[e[1]]) {
				changed = true
			}
		}
		for _, e := range a.fcopyE {
			a.pts[e[1]].each(func(o objID) {
				if !a.isContainerObj(o) && a.addObj(e[0], o) {
					changed = true
				}
			})
		}
		for _, e := range a.loadE {
			a.pts[e[1]].each(func(o objID) {
				if a.pts[e[0]].union(a.pts[a.content[o]]) {
					changed = true
				}
			})
		}
		for _, e := range a.storeE {
			a.pts[e[0]].each(func(o objID) {
				if a.pts[a.content[o]].union(a.pts[e[1]]) {
					changed = true
				}
			})
		}
		nCopy := len(a.copyE)
		for _, d := range a.dyn {
			a.pts[d.fv].each(func(o objID) {
				ob := a.objs[o]
				if ob.kind == "func" && ob.fn != nil {
					a.bindCall(d.fn, d.site, ob.fn, a.argNodes(d.site.Common()))
				}
			})
		}
		for _, cb := range a.callbacks {
			for _, an := range cb.args {
				if an < 0 {
					continue
				}
				var cands bset
				cands.union(a.pts[an])
				a.pts[an].each(func(o objID) { cands.union(a.pts[a.content[o]]) })
				cands.each(func(o objID) {
					if !cbDone[o] {
						cbDone[o] = true
						cbCache[o] = a.cbMethodsOf(o)
					}
					for _, m := range cbCache[o] {
						key := fmt.Sprintf("cb%p>%p>%d", cb.site, m, o)
						if a.bound[key] {
							continue
						}
						a.bound[key] = true
						a.edge(cb.fn, m)
						tmp := a.newNode()
						a.addObj(tmp, o)
						a.copy(a.node(m.Params[0]), tmp)
						for pi, prm := range m.Params[1:] {
							if hasPtr(prm.Type()) {
								ob := a.newObj("fresh", prm, prm.Type(), fmt.Sprintf("library-owned argument %d of %s", pi+1, a.p.Name(m)))
								a.addObj(a.node(prm), ob)
							}
						}
						changed = true
					}
				})
			}
		}
		if len(a.copyE) != nCopy {
			changed = true
		}
		if !changed {
			return
		}
	}
}

// reachObjs: closure of a set of objects under contents.
func (a *ptsTo) reachObjs(start map[objID]bool) map[objID]bool {
	seen := map[objID]bool{}
	var work []objID
	for o := range start {
		seen[o] = true
		work = append(work, o)
	}
	for len(work) > 0 {
		o := work[len(work)-1]
		work = work[:len(work)-1]
		a.pts[a.content[o]].each(func(o2 objID) {
			if !seen[o2] {
				seen[o2] = true
				work = append(work, o2)
			}
		})
	}
	return seen
}

// reachFuncs: functions reachable from root along the edges discovered by the analysis.
func (a *ptsTo) reachFuncs(root *ssa.Function) (map[*ssa.Function]bool, map[*ssa.Function]*ssa.Function) {
	seen := map[*ssa.Function]bool{root: true}
	prev := map[*ssa.Function]*ssa.Function{}
	work := []*ssa.Function{root}
	for len(work) > 0 {
		f := work[0]
		work = work[1:]
		var next []*ssa.Function
		for g := range a.edges[f] {
			next = append(next, g)
		}
		sort.Slice(next, func(i, j int) bool { return a.p.Name(next[i]) < a.p.Name(next[j]) })
		for _, g := range next {
			if !seen[g] {
				seen[g] = true
				prev[g] = f
				work = append(work, g)
			}
		}
	}
	return seen, prev
}

func (a *ptsTo) pathTo(prev map[*ssa.Function]*ssa.Function, root, f *ssa.Function) string {
	var names []string
	for g := f; g != nil; g = prev[g] {
		names = append([]string{a.p.Name(g)}, names...)
		if g == root {
			break
		}
	}
	return strings.Join(names, " -> ")
}

func (a *ptsTo) describe(objs map[objID]bool) string {
	var ls []string
	for o := range objs {
		ls = append(ls, a.objs[o].label)
	}
	sort.Strings(ls)
	if len(ls) > 4 {
		ls = append(ls[:4], "...")
	}
	return strings.Join(ls, "; ")
}
