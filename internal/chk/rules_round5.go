package chk

import (
	"fmt"
	"go/token"
	"go/types"
	"strings"

	"golang.org/x/tools/go/ssa"
)

// Rules added after the eighth round of seeded changes.

// WALK.lastindex (C07, C09) — in the indexed-path walker (the functions below ValuesForPath that take the parsed segment
// list), the type of a selected value is tested (`v.(map[string]interface{})`, comma-ok) only where path segments remain: the
// test exists to keep walking, and a value addressed by the final segment is returned whatever its type. Testing it where
// the current segment may be the last one makes `list[1]` on a list of strings resolve to nothing, which contradicts both
// "k[i] selects the i-th of the values k yields" and "every LeafNodes path resolves to its value".
// Decided with the zone domain: at the test some index j into the segment list satisfies j+1 < len(segments).
func ruleWalkLastIndex(p *Prog, r *Report, fns []*ssa.Function) {
	const rule = "WALK.lastindex"
	n := 0
	for _, fn := range fns {
		if len(fn.Blocks) == 0 {
			continue
		}
		var keys *ssa.Parameter
		for _, prm := range fn.Params {
			if isSegListType(prm.Type()) {
				keys = prm
			}
		}
		if keys == nil {
			continue
		}
		name := p.Name(fn)
		z := p.zoneFlowOf(fn, nil)
		ln := z.lenTerm(keys)
		// index terms into the segment list
		var idx []zterm
		idx = append(idx, zterm{0, 0, true})
		eachInstr(fn, func(b *ssa.BasicBlock, in ssa.Instruction) {
			if ia, ok := in.(*ssa.IndexAddr); ok && ia.X == ssa.Value(keys) {
				if t := z.term(ia.Index); t.ok {
					idx = append(idx, t)
				}
			}
		})
		ord := newOrdinals()
		eachInstr(fn, func(b *ssa.BasicBlock, in ssa.Instruction) {
			ta, ok := in.(*ssa.TypeAssert)
			if !ok || !ta.CommaOk || !isMapShaped(ta.AssertedType) {
				return
			}
			n++
			c := ord.key(name, "member type test")
			if !ln.ok {
				r.Unknown(rule, name, c, p.Pos(ta.Pos()), "length of the segment list has no term in the zone domain")
				return
			}
			proved := false
			for _, t := range idx {
				// t + 2 <= len(keys)
				if z.leq(ta, zterm{t.n, t.off + 2, true}, ln) {
					proved = true
				}
			}
			// a helper that is handed "the rest of the path" and never indexes it: a further segment remains iff that rest is
			// non-empty, which its call sites establish
			if !proved && len(idx) == 1 && !p.Exported(fn) {
				sites := p.staticSites(fn)
				all := len(sites) > 0
				for _, site := range sites {
					pi := -1
					for i, prm := range fn.Params {
						if prm == keys {
							pi = i
						}
					}
					if pi < 0 || pi >= len(site.Call.Args) || site.Parent() == fn {
						all = false
						continue
					}
					zc := p.zoneFlowOf(site.Parent(), nil)
					arg := site.Call.Args[pi]
					okSite := false
					if la := zc.lenTerm(arg); la.ok && zc.leq(site, zterm{0, 1, true}, la) {
						okSite = true
					}
					// x[low:] is non-empty where low + 1 <= len(x)
					if sl, isSl := arg.(*ssa.Slice); isSl && sl.High == nil && sl.Low != nil {
						lo, lx := zc.term(sl.Low), zc.lenTerm(sl.X)
						if lo.ok && lx.ok && zc.leq(site, zterm{lo.n, lo.off + 1, true}, lx) {
							okSite = true
						}
					}
					if !okSite {
						all = false
					}
				}
				if all {
					proved = true
				}
			}
			if proved {
				r.OK(rule, name, c, p.Pos(ta.Pos()), "the selected value's type is tested only where a further path segment remains (index+1 < len(segments) by the zone analysis)")
			} else {
				r.Bad(rule, name, c, p.Pos(ta.Pos()), "the type of the selected value is tested where the current segment may be the last one: a scalar addressed by a final indexed step is dropped instead of returned")
			}
		})
	}
	_ = n
	r.Floor(rule, 2)
}

// ---- TEXT.nonempty (C01, C04) and CAST.input (C14) ------------------------------------------------------------------------

// staticSites: the static call sites of f in the module.
func (p *Prog) staticSites(f *ssa.Function) []*ssa.Call {
	key := "sites"
	if _, ok := p.facts[key]; !ok {
		m := map[*ssa.Function][]*ssa.Call{}
		for _, g := range p.FuncList {
			var all []*ssa.Function
			var add func(h *ssa.Function)
			add = func(h *ssa.Function) {
				all = append(all, h)
				for _, an := range h.AnonFuncs {
					add(an)
				}
			}
			add(g)
			for _, h := range all {
				eachInstr(h, func(b *ssa.BasicBlock, in ssa.Instruction) {
					if c, ok := in.(*ssa.Call); ok {
						if callee := staticCallee(&c.Call); callee != nil {
							m[callee] = append(m[callee], c)
						}
					}
				})
			}
		}
		p.facts[key] = m
	}
	return p.facts[key].(map[*ssa.Function][]*ssa.Call)[f]
}

// decoderCastSites: the calls of cast() made by the decoder and by the unexported helpers it reaches.
func (p *Prog) decoderCastSites(dec *ssa.Function, castFn *ssa.Function) []*ssa.Call {
	var out []*ssa.Call
	for f := range p.Reach(dec) {
		if !p.InModule(f) || f == castFn || len(f.Blocks) == 0 || (f != dec && p.Exported(f)) {
			continue
		}
		for _, c := range p.staticSites(castFn) {
			if c.Parent() == f {
				out = append(out, c)
			}
		}
	}
	sortCalls(out)
	return out
}

func sortCalls(cs []*ssa.Call) {
	for i := 1; i < len(cs); i++ {
		for j := i; j > 0 && cs[j].Pos() < cs[j-1].Pos(); j-- {
			cs[j], cs[j-1] = cs[j-1], cs[j]
		}
	}
}

func isXMLCharData(t types.Type) bool {
	nt, ok := t.(*types.Named)
	return ok && nt.Obj().Name() == "CharData" && nt.Obj().Pkg() != nil && nt.Obj().Pkg().Path() == "encoding/xml"
}

// fromCharData: the value is computed from the character data of a token (through the parameters of unexported helpers too).
func (p *Prog) fromCharData(fn *ssa.Function, v ssa.Value, depth int) bool {
	for x := range backwardSlice(fn, v) {
		switch y := x.(type) {
		case *ssa.TypeAssert:
			if isXMLCharData(y.AssertedType) {
				return true
			}
		case *ssa.Parameter:
			if depth < 2 && y.Parent() == fn && !p.Exported(fn) {
				for i, prm := range fn.Params {
					if prm != y {
						continue
					}
					for _, c := range p.staticSites(fn) {
						if i < len(c.Call.Args) && p.fromCharData(c.Parent(), c.Call.Args[i], depth+1) {
							return true
						}
					}
				}
			}
		}
		if isXMLCharData(x.Type()) {
			return true
		}
	}
	return false
}

// keepsNonEmpty: v is x itself, the escaped form of such a value, or a phi of such values: v is non-empty whenever x is.
func (p *Prog) keepsNonEmpty(v, x ssa.Value, seen map[ssa.Value]bool) bool {
	if v == x {
		return true
	}
	if seen[v] {
		return true // a cycle adds nothing
	}
	seen[v] = true
	switch y := v.(type) {
	case *ssa.Phi:
		for _, e := range y.Edges {
			if !p.keepsNonEmpty(e, x, seen) {
				return false
			}
		}
		return len(y.Edges) > 0
	case *ssa.Call:
		if f := staticCallee(&y.Call); f != nil && p.Name(f) == "mxj.escapeChars" && len(y.Call.Args) == 1 {
			return p.keepsNonEmpty(y.Call.Args[0], x, seen)
		}
	}
	return false
}

// nonEmptyGuard: the value the guard establishes to be a non-empty string, if it is of that form.
func nonEmptyGuard(g guard) ssa.Value {
	g = normGuard(g)
	bo, ok := g.Cond.(*ssa.BinOp)
	if !ok {
		return nil
	}
	x, y, op := bo.X, bo.Y, bo.Op
	flip := func(o token.Token) token.Token {
		switch o {
		case token.LSS:
			return token.GTR
		case token.GTR:
			return token.LSS
		case token.LEQ:
			return token.GEQ
		case token.GEQ:
			return token.LEQ
		}
		return o
	}
	lenArg := func(v ssa.Value) ssa.Value {
		if c, ok := v.(*ssa.Call); ok && isBuiltin(c, "len") && isStringType(c.Call.Args[0].Type()) {
			return c.Call.Args[0]
		}
		return nil
	}
	if lenArg(x) == nil && lenArg(y) != nil {
		x, y, op = y, x, flip(op)
	}
	if s := lenArg(x); s != nil {
		k, isK := constInt(y)
		if !isK {
			return nil
		}
		var ne, em bool // what the true edge establishes
		switch {
		case op == token.GTR && k == 0, op == token.NEQ && k == 0, op == token.GEQ && k == 1:
			ne = true
		case op == token.EQL && k == 0, op == token.LSS && k == 1, op == token.LEQ && k == 0:
			em = true
		}
		if (ne && g.Pol) || (em && !g.Pol) {
			return s
		}
		return nil
	}
	if isStringType(x.Type()) && (op == token.EQL || op == token.NEQ) {
		if cs, ok := constString(y); ok && cs == "" {
			if (op == token.NEQ) == g.Pol {
				return x
			}
		}
		if cs, ok := constString(x); ok && cs == "" {
			if (op == token.NEQ) == g.Pol {
				return y
			}
		}
	}
	return nil
}

// nonEmptyAt: before instruction `at`, v is a non-empty string on every path.
func (p *Prog) nonEmptyAt(fn *ssa.Function, v ssa.Value, at *ssa.BasicBlock, depth int) bool {
	for _, g := range dominatingGuards(at) {
		if x := nonEmptyGuard(g); x != nil && p.keepsNonEmpty(v, x, map[ssa.Value]bool{}) {
			return true
		}
	}
	if depth < 2 && !p.Exported(fn) {
		for i, prm := range fn.Params {
			if !p.keepsNonEmpty(v, prm, map[ssa.Value]bool{}) {
				continue
			}
			sites := p.staticSites(fn)
			if len(sites) == 0 {
				return false
			}
			for _, c := range sites {
				if i >= len(c.Call.Args) || !p.nonEmptyAt(c.Parent(), c.Call.Args[i], c.Block(), depth+1) {
					return false
				}
			}
			return true
		}
	}
	return false
}

// ruleTextNonEmpty: the decoders hand character data to cast() — and store the result — only where the trimmed (and possibly
// escaped) text that is stored has been tested non-empty. A test on the raw token, or no test, lets the white space between the
// children of an indented document become a text value ("" after trimming) that overwrites the element's real text.
func ruleTextNonEmpty(p *Prog, r *Report, decoders []string) {
	const rule = "TEXT.nonempty"
	castFn := p.Fn("mxj.cast")
	if castFn == nil {
		r.Anchor(rule, "mxj.cast")
		return
	}
	for _, dn := range decoders {
		dec := p.Fn(dn)
		if dec == nil {
			r.Anchor(rule, dn)
			continue
		}
		ord := newOrdinals()
		n := 0
		for _, c := range p.decoderCastSites(dec, castFn) {
			f := c.Parent()
			arg := c.Call.Args[0]
			if !p.fromCharData(f, arg, 0) {
				continue
			}
			n++
			cons := ord.key(p.Name(f), "character data handed to cast")
			if p.nonEmptyAt(f, arg, c.Block(), 0) {
				r.OK(rule, p.Name(f), cons, p.Pos(c.Pos()), "dominated by a non-emptiness test of the trimmed text that is cast and stored")
			} else {
				r.Bad(rule, p.Name(f), cons, p.Pos(c.Pos()), "the text is cast and stored without a dominating test that the trimmed text is non-empty: white space between child elements is recorded as an empty text value and replaces the element's text")
			}
		}
		if n == 0 {
			r.Unknown(rule, dn, "character data handed to cast", p.Pos(dec.Pos()), "no cast() call on character data found in the decoder: the text arm is no longer recognised")
		}
	}
}

// ruleCastInput: what the decoders hand to cast() is computed from the current token only — never from a value read back from
// the node under construction. Such a value has already been through cast(): with the cast flag it is a float64 or bool, so a
// decoder that combines it with new text behaves differently with and without the flag (the cast result is then not the cast of
// the plain result).
func ruleCastInput(p *Prog, r *Report, decoders []string) {
	const rule = "CAST.input"
	castFn := p.Fn("mxj.cast")
	if castFn == nil {
		r.Anchor(rule, "mxj.cast")
		return
	}
	for _, dn := range decoders {
		dec := p.Fn(dn)
		if dec == nil {
			r.Anchor(rule, dn)
			continue
		}
		ord := newOrdinals()
		sites := p.decoderCastSites(dec, castFn)
		for _, c := range sites {
			f := c.Parent()
			cons := ord.key(p.Name(f), "cast input")
			if why := p.readsBackNode(f, c.Call.Args[0], 0); why != "" {
				r.Bad(rule, p.Name(f), cons, p.Pos(c.Pos()), "the string handed to cast() depends on "+why+": a value already cast is combined with new text, so decoding with and without the cast flag disagree on more than leaf types")
			} else {
				r.OK(rule, p.Name(f), cons, p.Pos(c.Pos()), "computed from the current token only (no map lookup in its backward slice)")
			}
		}
		if len(sites) == 0 {
			r.Unknown(rule, dn, "cast input", p.Pos(dec.Pos()), "no cast() call found in the decoder")
		}
	}
}

func (p *Prog) readsBackNode(fn *ssa.Function, v ssa.Value, depth int) string {
	for x := range backwardSlice(fn, v) {
		switch y := x.(type) {
		case *ssa.Lookup:
			if _, isMap := y.X.Type().Underlying().(*types.Map); isMap {
				return "a map lookup at " + p.Pos(y.Pos())
			}
		case *ssa.Parameter:
			if depth < 2 && y.Parent() == fn && !p.Exported(fn) && fn.Parent() == nil {
				for i, prm := range fn.Params {
					if prm != y {
						continue
					}
					for _, c := range p.staticSites(fn) {
						if c.Parent() == fn {
							continue
						}
						if i < len(c.Call.Args) {
							if why := p.readsBackNode(c.Parent(), c.Call.Args[i], depth+1); why != "" {
								return why
							}
						}
					}
				}
			}
		}
	}
	return ""
}

// ---- PATH.segments (C11) ---------------------------------------------------------------------------------------------------

// segClass classifies a string value relative to a dotted path value P: "path" (P itself), "parent" (P without its last
// segment), "last" (the last segment), "first" / "rest" (cut at the first separator), "" (not recognised). Unexported helpers
// are evaluated through their return values with the parameter bound to the argument's class.
func (p *Prog) segClass(v ssa.Value, isPath func(ssa.Value) bool, depth int) string {
	if isPath(v) {
		return "path"
	}
	splitOf := func(k ssa.Value) bool {
		c, ok := k.(*ssa.Call)
		return ok && isCallTo(&c.Call, "strings.Split") && isPath(c.Call.Args[0])
	}
	lenMinus1 := func(h, k ssa.Value) bool {
		bo, ok := h.(*ssa.BinOp)
		if !ok || bo.Op != token.SUB {
			return false
		}
		if c, isK := constInt(bo.Y); !isK || c != 1 {
			return false
		}
		lc, ok := bo.X.(*ssa.Call)
		return ok && isBuiltin(lc, "len") && lc.Call.Args[0] == k
	}
	idxCall := func(i ssa.Value, names ...string) bool {
		c, ok := i.(*ssa.Call)
		return ok && isCallTo(&c.Call, names...) && isPath(c.Call.Args[0])
	}
	plus1 := func(i ssa.Value) ssa.Value {
		bo, ok := i.(*ssa.BinOp)
		if !ok || bo.Op != token.ADD {
			return nil
		}
		if c, isK := constInt(bo.Y); isK && c == 1 {
			return bo.X
		}
		return nil
	}
	zeroOrNil := func(x ssa.Value) bool {
		if x == nil {
			return true
		}
		c, ok := constInt(x)
		return ok && c == 0
	}
	switch x := v.(type) {
	case *ssa.Call:
		// what is left of the path after "<parent>." is the last segment; the Trim family with a cutset is something else
		if isCallTo(&x.Call, "strings.TrimPrefix", "strings.TrimLeft", "strings.Trim") && isPath(x.Call.Args[0]) {
			if bo, ok := x.Call.Args[1].(*ssa.BinOp); ok && bo.Op == token.ADD {
				if sv, isS := constString(bo.Y); isS && sv == "." && p.segClass(bo.X, isPath, depth+1) == "parent" {
					if isCallTo(&x.Call, "strings.TrimPrefix") {
						return "last"
					}
					return "cutset-trimmed"
				}
			}
			return ""
		}
		if isCallTo(&x.Call, "strings.Join") {
			if sl, ok := x.Call.Args[0].(*ssa.Slice); ok && splitOf(sl.X) {
				switch {
				case zeroOrNil(sl.Low) && sl.High != nil && lenMinus1(sl.High, sl.X):
					return "parent"
				case sl.High == nil && sl.Low != nil:
					if c, ok := constInt(sl.Low); ok && c == 1 {
						return "rest"
					}
				}
			}
			return ""
		}
		if g := staticCallee(&x.Call); g != nil && p.InModule(g) && !p.Exported(g) && len(g.Blocks) > 0 && depth < 3 {
			return p.segClassOfResult(x, 0, isPath, depth)
		}
	case *ssa.Extract:
		if c, ok := x.Tuple.(*ssa.Call); ok {
			if g := staticCallee(&c.Call); g != nil && p.InModule(g) && !p.Exported(g) && len(g.Blocks) > 0 && depth < 3 {
				return p.segClassOfResult(c, x.Index, isPath, depth)
			}
		}
	case *ssa.Const:
		if s, ok := constString(x); ok && s == "" {
			return "empty"
		}
	case *ssa.Phi:
		cls := ""
		whole := false
		for i, e := range x.Edges {
			c := p.segClass(e, isPath, depth)
			if c == "empty" {
				continue
			}
			if c == "path" {
				// a path without a separator is its own last segment: the edge must be taken only where the search for the last
				// separator failed
				pred := x.Block().Preds[i]
				gs := dominatingGuards(pred)
				if ifi, ok := pred.Instrs[len(pred.Instrs)-1].(*ssa.If); ok {
					for si, sc := range pred.Succs {
						if sc == x.Block() && pred.Succs[1-si] != x.Block() {
							gs = append(gs, guard{ifi.Cond, si == 0})
						}
					}
				}
				noSep := false
				for _, g := range gs {
					ng := normGuard(g)
					bo, ok := ng.Cond.(*ssa.BinOp)
					if !ok || !idxCall(bo.X, "strings.LastIndex", "strings.LastIndexByte", "strings.Index", "strings.IndexByte") {
						continue
					}
					k, isK := constInt(bo.Y)
					if !isK {
						continue
					}
					switch {
					case bo.Op == token.LSS && k == 0 && ng.Pol, bo.Op == token.GEQ && k == 0 && !ng.Pol,
						bo.Op == token.EQL && k == -1 && ng.Pol, bo.Op == token.NEQ && k == -1 && !ng.Pol,
						bo.Op == token.GTR && k == -1 && !ng.Pol, bo.Op == token.LEQ && k == -1 && ng.Pol:
						noSep = true
					}
				}
				if noSep {
					whole = true
					continue
				}
			}
			if c == "" || (cls != "" && cls != c) {
				return ""
			}
			cls = c
		}
		if whole {
			switch cls {
			case "last", "first":
				return cls // no separator: the whole path is its first and its last segment
			case "":
				return "path"
			default:
				return ""
			}
		}
		return cls
	case *ssa.Slice:
		if !isPath(x.X) {
			return ""
		}
		if zeroOrNil(x.Low) && x.High != nil {
			if idxCall(x.High, "strings.LastIndex", "strings.LastIndexByte") {
				return "parent"
			}
			if idxCall(x.High, "strings.Index", "strings.IndexByte") {
				return "first"
			}
		}
		if x.High == nil && x.Low != nil {
			if i := plus1(x.Low); i != nil {
				if idxCall(i, "strings.LastIndex", "strings.LastIndexByte") {
					return "last"
				}
				if idxCall(i, "strings.Index", "strings.IndexByte") {
					return "rest"
				}
			}
		}
	case *ssa.UnOp:
		if x.Op == token.MUL {
			if ia, ok := x.X.(*ssa.IndexAddr); ok && splitOf(ia.X) {
				if lenMinus1(ia.Index, ia.X) {
					return "last"
				}
				if c, ok := constInt(ia.Index); ok && c == 0 {
					return "first"
				}
			}
		}
	}
	return ""
}

// rulePathSegments: Remove and RenameKey take the path apart at its last separator. The key deleted (and the key whose value
// is moved) in the parent map is the last segment of the path; the sibling whose existence forbids a rename is looked up under
// the path without its last segment. A cut at the first separator agrees with that only for two-segment paths.
func rulePathSegments(p *Prog, r *Report) {
	const rule = "PATH.segments"
	api := p.Fn("mxj.Map.RenameKey")
	if api == nil {
		r.Anchor(rule, "mxj.Map.RenameKey")
		return
	}
	// (1) sibling path of the collision test
	if len(api.Params) >= 3 {
		path, newName := api.Params[1], api.Params[2]
		isPath := func(v ssa.Value) bool { return v == ssa.Value(path) }
		n := 0
		eachInstr(api, func(b *ssa.BasicBlock, in ssa.Instruction) {
			c, ok := in.(*ssa.Call)
			if !ok {
				return
			}
			g := staticCallee(&c.Call)
			if g == nil || (p.Name(g) != "mxj.Map.Exists" && p.Name(g) != "mxj.Map.ValuesForPath") {
				return
			}
			for _, a := range c.Call.Args {
				if !isStringType(a.Type()) || !backwardSlice(api, a)[newName] {
					continue
				}
				type cat struct {
					bo     *ssa.BinOp
					isPath func(ssa.Value) bool
				}
				var cats []cat
				for v := range backwardSlice(api, a) {
					if bo, ok := v.(*ssa.BinOp); ok && bo.Op == token.ADD {
						if s, isS := constString(bo.Y); isS && s == "." {
							cats = append(cats, cat{bo, isPath})
						}
					}
					// the sibling path may be assembled by an unexported helper that receives the path
					if hc, ok := v.(*ssa.Call); ok {
						h := staticCallee(&hc.Call)
						if h == nil || !p.InModule(h) || p.Exported(h) || len(h.Blocks) == 0 {
							continue
						}
						var bound []*ssa.Parameter
						for i, ha := range hc.Call.Args {
							if ha == ssa.Value(path) && i < len(h.Params) {
								bound = append(bound, h.Params[i])
							}
						}
						if len(bound) == 0 {
							continue
						}
						inner := func(w ssa.Value) bool {
							for _, bp := range bound {
								if w == ssa.Value(bp) {
									return true
								}
							}
							return false
						}
						eachInstr(h, func(b2 *ssa.BasicBlock, i2 ssa.Instruction) {
							if bo, ok := i2.(*ssa.BinOp); ok && bo.Op == token.ADD {
								if s, isS := constString(bo.Y); isS && s == "." {
									cats = append(cats, cat{bo, inner})
								}
							}
						})
					}
				}
				for _, ct := range cats {
					bo := ct.bo
					n++
					switch cls := p.segClass(bo.X, ct.isPath, 0); cls {
					case "parent":
						r.OK(rule, p.Name(api), "sibling looked up beside the renamed key", p.Pos(bo.Pos()), "the sibling path is (path without its last segment) + '.' + new name")
					case "":
						r.Unknown(rule, p.Name(api), "sibling looked up beside the renamed key", p.Pos(bo.Pos()), "the prefix of the sibling path is not recognised as a part of the path")
					default:
						r.Bad(rule, p.Name(api), "sibling looked up beside the renamed key", p.Pos(bo.Pos()), "the sibling is looked up under the '"+cls+"' part of the path, not under the path without its last segment: for keys three or more levels deep an existing sibling is not seen and gets overwritten")
					}
				}
			}
		})
		if n == 0 {
			r.Unknown(rule, p.Name(api), "sibling looked up beside the renamed key", p.Pos(api.Pos()), "no sibling path assembled from a prefix, '.' and the new name was found")
		}
	}
	// (2) the key deleted in the parent map is the last segment
	nd := 0
	// SetValueForPath writes under the last segment of its path
	if sf := p.Fn("mxj.Map.SetValueForPath"); sf != nil && len(sf.Blocks) > 0 {
		ns := 0
		eachInstr(sf, func(b *ssa.BasicBlock, in ssa.Instruction) {
			mu, ok := in.(*ssa.MapUpdate)
			if !ok || !isMapShaped(mu.Map.Type()) {
				return
			}
			ns++
			cls := ""
			for _, prm := range sf.Params {
				if !isStringType(prm.Type()) {
					continue
				}
				pv := prm
				if k := p.segClass(mu.Key, func(v ssa.Value) bool { return v == ssa.Value(pv) }, 0); k != "" {
					cls = k
				}
			}
			switch cls {
			case "last":
				r.OK(rule, p.Name(sf), "the value is set under the last segment", p.Pos(mu.Pos()), "parent[last segment of the path] = value")
			case "":
				r.Unknown(rule, p.Name(sf), "the value is set under the last segment", p.Pos(mu.Pos()), "the key written is not recognised as a part of the path")
			default:
				r.Bad(rule, p.Name(sf), "the value is set under the last segment", p.Pos(mu.Pos()), "the key written is the '"+cls+"' part of the path, not its last segment")
			}
		})
		if ns == 0 {
			r.Unknown(rule, p.Name(sf), "the value is set under the last segment", p.Pos(sf.Pos()), "no map write found")
		}
	}
	for _, f := range p.scopeFuncs(r, rule, []string{"mxj.Map.RenameKey", "mxj.Map.Remove"}) {
		if len(f.Blocks) == 0 {
			continue
		}
		ord := newOrdinals()
		eachInstr(f, func(b *ssa.BasicBlock, in ssa.Instruction) {
			c, ok := in.(*ssa.Call)
			if !ok || !isBuiltin(c, "delete") {
				return
			}
			// only deletions in a map obtained from a parent walker (a call result), not in local bookkeeping maps
			if !fromCallResult(c.Call.Args[0]) {
				return
			}
			nd++
			cons := ord.key(p.Name(f), "deleted key is the last segment")
			cls := ""
			for _, prm := range f.Params {
				if !isStringType(prm.Type()) {
					continue
				}
				pv := prm
				if k := p.segClass(c.Call.Args[1], func(v ssa.Value) bool { return v == ssa.Value(pv) }, 0); k != "" && k != "path" {
					cls = k
				} else if k == "path" && cls == "" {
					cls = "path"
				}
			}
			switch cls {
			case "last":
				r.OK(rule, p.Name(f), cons, p.Pos(c.Pos()), "delete(parent, last segment of the path)")
			case "":
				r.Unknown(rule, p.Name(f), cons, p.Pos(c.Pos()), "the deleted key is not recognised as a part of a path parameter")
			default:
				r.Bad(rule, p.Name(f), cons, p.Pos(c.Pos()), "the key deleted in the parent map is the '"+cls+"' part of the path, not its last segment")
			}
		})
	}
	if nd == 0 {
		r.Unknown(rule, "mxj.Map.Remove", "deleted key is the last segment", "-", "no delete on a parent map found below Remove / RenameKey")
	}
}

func fromCallResult(v ssa.Value) bool {
	switch x := v.(type) {
	case *ssa.Extract:
		_, ok := x.Tuple.(*ssa.Call)
		return ok
	case *ssa.Call:
		return true
	case *ssa.Phi:
		for _, e := range x.Edges {
			if fromCallResult(e) {
				return true
			}
		}
	case *ssa.ChangeType:
		return fromCallResult(x.X)
	}
	return false
}

// ---- FOLD.total (C01, C02, C18) -----------------------------------------------------------------------------------------------

// ruleFoldTotal: where the decoders fold a name to snake case (under snakeCaseKeys) every hyphen is replaced — strings.Replace
// with a negative count, strings.ReplaceAll, or an unexported helper all of whose results are such a replacement of its
// parameter (or the parameter itself where it is known to contain no hyphen). A partial fold is not idempotent: the name
// written by the encoder folds further on the second decode, so decode-encode-decode is not a fixed point.
func ruleFoldTotal(p *Prog, r *Report, decoders []string) {
	const rule = "FOLD.total"
	g := p.Globals["mxj.snakeCaseKeys"]
	if g == nil {
		r.Anchor(rule, "mxj.snakeCaseKeys")
		return
	}
	var roots []*ssa.Function
	for _, dn := range decoders {
		if f := p.Fn(dn); f != nil {
			roots = append(roots, f)
		} else {
			r.Anchor(rule, dn)
		}
	}
	isDash := func(v ssa.Value) bool { s, ok := constString(v); return ok && s == "-" }
	isUnder := func(v ssa.Value) bool { s, ok := constString(v); return ok && s == "_" }
	// classify one string-producing call: "", "total", or a reason it is partial
	var classify func(c *ssa.Call, depth int) (string, bool)
	noHyphen := func(f *ssa.Function, blk *ssa.BasicBlock, prm ssa.Value) bool {
		for _, gd := range dominatingGuards(blk) {
			ng := normGuard(gd)
			switch x := ng.Cond.(type) {
			case *ssa.BinOp:
				c, ok := x.X.(*ssa.Call)
				if !ok || !isCallTo(&c.Call, "strings.Index", "strings.IndexByte", "strings.IndexRune", "strings.IndexAny") || c.Call.Args[0] != prm {
					continue
				}
				k, isK := constInt(x.Y)
				if !isK {
					continue
				}
				// idx < 0, idx == -1 on the edge taken
				if (x.Op == token.LSS && k == 0 && ng.Pol) || (x.Op == token.EQL && k == -1 && ng.Pol) || (x.Op == token.GEQ && k == 0 && !ng.Pol) || (x.Op == token.NEQ && k == -1 && !ng.Pol) || (x.Op == token.GTR && k == -1 && !ng.Pol) {
					return true
				}
			case *ssa.Call:
				if isCallTo(&x.Call, "strings.Contains", "strings.ContainsRune", "strings.ContainsAny") && x.Call.Args[0] == prm && !ng.Pol {
					return true
				}
			}
		}
		return false
	}
	classify = func(c *ssa.Call, depth int) (string, bool) {
		if isCallTo(&c.Call, "strings.ReplaceAll") && isDash(c.Call.Args[1]) && isUnder(c.Call.Args[2]) {
			return "", true
		}
		if isCallTo(&c.Call, "strings.Replace") && isDash(c.Call.Args[1]) && isUnder(c.Call.Args[2]) {
			if k, ok := constInt(c.Call.Args[3]); ok && k < 0 {
				return "", true
			}
			return "strings.Replace with a non-negative count replaces only the first hyphens", true
		}
		h := staticCallee(&c.Call)
		if h == nil || !p.InModule(h) || p.Exported(h) || len(h.Blocks) == 0 || depth > 1 || !isStringType(c.Type()) {
			return "", false
		}
		// a helper from string to string
		var prm *ssa.Parameter
		for i, a := range c.Call.Args {
			if isStringType(a.Type()) && i < len(h.Params) {
				prm = h.Params[i]
			}
		}
		if prm == nil {
			return "", false
		}
		why, relevant := "", false
		eachInstr(h, func(b *ssa.BasicBlock, in ssa.Instruction) {
			ret, ok := in.(*ssa.Return)
			if !ok || len(ret.Results) != 1 {
				return
			}
			var check func(v ssa.Value, blk *ssa.BasicBlock)
			check = func(v ssa.Value, blk *ssa.BasicBlock) {
				switch x := v.(type) {
				case *ssa.Phi:
					for i, e := range x.Edges {
						check(e, x.Block().Preds[i])
					}
				case *ssa.Call:
					w, rel := classify(x, depth+1)
					if rel {
						relevant = true
						if w != "" {
							why = w
						}
					} else {
						why = "result of " + p.calleeName(&x.Call) + " at " + p.Pos(x.Pos()) + " is not a replacement of every hyphen"
					}
				case *ssa.Parameter:
					if x == prm && !noHyphen(h, blk, prm) {
						why = "the name is returned unchanged at " + p.Pos(ret.Pos()) + " without a test that it has no hyphen"
					}
				default:
					if bo, ok := v.(*ssa.BinOp); ok && bo.Op == token.ADD {
						relevant = true
						why = "the result assembled at " + p.Pos(bo.Pos()) + " replaces one hyphen only"
					} else {
						why = "result at " + p.Pos(ret.Pos()) + " not recognised as a replacement of every hyphen"
					}
				}
			}
			check(ret.Results[0], b)
		})
		// is the helper about hyphens at all?
		eachInstr(h, func(b *ssa.BasicBlock, in ssa.Instruction) {
			if cc, ok := in.(*ssa.Call); ok {
				for _, a := range cc.Call.Args {
					if isDash(a) {
						relevant = true
					}
					if k, ok := constInt(a); ok && k == '-' {
						relevant = true
					}
				}
			}
		})
		if !relevant {
			return "", false
		}
		return why, true
	}
	n := 0
	for f := range p.Reach(roots...) {
		if !p.InModule(f) || len(f.Blocks) == 0 {
			continue
		}
		ord := newOrdinals()
		for _, in := range instrsByPos(f) {
			c, ok := in.(*ssa.Call)
			if !ok || !isStringType(c.Type()) {
				continue
			}
			under := false
			for _, gd := range dominatingGuards(c.Block()) {
				ng := normGuard(gd)
				if globalOf(ng.Cond) == g && ng.Pol {
					under = true
				}
			}
			if !under {
				continue
			}
			why, rel := classify(c, 0)
			if !rel {
				continue
			}
			n++
			cons := ord.key(p.Name(f), "snake-case fold")
			if why == "" {
				r.OK(rule, p.Name(f), cons, p.Pos(c.Pos()), "every hyphen of the name is replaced")
			} else {
				r.Bad(rule, p.Name(f), cons, p.Pos(c.Pos()), why+": a name with several hyphens is folded partially, and folds further when the encoded document is decoded again")
			}
		}
	}
	if n == 0 {
		r.Unknown(rule, "mxj.xmlToMapParser", "snake-case fold", "-", "no name transformation under snakeCaseKeys found in the decoders")
	}
}

// ---- SEQ.types (C04, C16) -----------------------------------------------------------------------------------------------------

// ruleSeqTypes: every place of the sequence encoder that reads a '#seq' entry and looks at its dynamic type accepts the same
// types, and these include int (what the decoder stores) and float64 (what a MapSeq that went through JSON holds). A reader
// that accepts int only gives all members of such a MapSeq the same number: their order becomes the map iteration order.
func ruleSeqTypes(p *Prog, r *Report) {
	const rule = "SEQ.types"
	g := p.Globals["mxj.seqK"]
	if g == nil {
		r.Anchor(rule, "mxj.seqK")
		return
	}
	type site struct {
		fn    *ssa.Function
		lk    *ssa.Lookup
		types map[string]bool
	}
	var sites []site
	for _, f := range p.scopeFuncs(r, rule, []string{"mxj.MapSeq.Xml", "mxj.MapSeq.XmlIndent"}) {
		if len(f.Blocks) == 0 {
			continue
		}
		eachInstr(f, func(b *ssa.BasicBlock, in ssa.Instruction) {
			lk, ok := in.(*ssa.Lookup)
			if !ok || globalOf(lk.Index) != g {
				return
			}
			ts := map[string]bool{}
			var vals []ssa.Value
			if lk.CommaOk {
				for _, ref := range *lk.Referrers() {
					if ex, ok := ref.(*ssa.Extract); ok && ex.Index == 0 {
						vals = append(vals, ex)
					}
				}
			} else {
				vals = append(vals, lk)
			}
			for len(vals) > 0 {
				v := vals[0]
				vals = vals[1:]
				if v.Referrers() == nil {
					continue
				}
				for _, ref := range *v.Referrers() {
					switch x := ref.(type) {
					case *ssa.TypeAssert:
						ts[typeStr(x.AssertedType)] = true
					case *ssa.Phi:
						// not followed: a merged value is judged where it is asserted
					}
				}
			}
			if len(ts) > 0 {
				// repeated lookups of the same node's entry (go/ssa does no CSE) form one read
				key := p.canonFor(f).of(lk.X)
				for i := range sites {
					if sites[i].fn == f && p.canonFor(f).of(sites[i].lk.X) == key {
						for t := range ts {
							sites[i].types[t] = true
						}
						return
					}
				}
				sites = append(sites, site{f, lk, ts})
			}
		})
	}
	if len(sites) == 0 {
		r.Unknown(rule, "mxj.elemListSeq.Less", "sequence number types", "-", "no typed read of a '#seq' entry found in the sequence encoder")
		return
	}
	ord := newOrdinals()
	for _, s := range sites {
		cons := ord.key(p.Name(s.fn), "sequence number types")
		var have []string
		for t := range s.types {
			have = append(have, t)
		}
		sortStrings(have)
		if s.types["int"] && s.types["float64"] {
			r.OK(rule, p.Name(s.fn), cons, p.Pos(s.lk.Pos()), "accepts "+joinStrings(have, ", "))
		} else {
			r.Bad(rule, p.Name(s.fn), cons, p.Pos(s.lk.Pos()), "this read of the '#seq' entry accepts only "+joinStrings(have, ", ")+": sequence numbers held as float64 (a MapSeq that was stored as JSON) or as int (fresh from the decoder) are not both recognised, so such members compare equal and are written in map iteration order")
		}
	}
}

func sortStrings(s []string) {
	for i := 1; i < len(s); i++ {
		for j := i; j > 0 && s[j] < s[j-1]; j-- {
			s[j], s[j-1] = s[j-1], s[j]
		}
	}
}

func joinStrings(s []string, sep string) string {
	out := ""
	for i, x := range s {
		if i > 0 {
			out += sep
		}
		out += x
	}
	return out
}

// ---- FILTER.afterindex (C07, C08) --------------------------------------------------------------------------------------------

// ruleFilterAfterIndex: in the indexed form of ValuesForPath the sub-key conditions are applied to what the index selected, never
// before it: the indexed walker resolves its segments without sub-keys (every call it makes of a function that takes sub-key
// specifications passes none). Filtering first makes `book[1]` the second of the *matching* books.
func ruleFilterAfterIndex(p *Prog, r *Report, fns []*ssa.Function) {
	const rule = "FILTER.afterindex"
	n := 0
	for _, fn := range fns {
		if len(fn.Blocks) == 0 {
			continue
		}
		hasKeys := false
		for _, prm := range fn.Params {
			if isSegListType(prm.Type()) {
				hasKeys = true
			}
		}
		if !hasKeys {
			continue
		}
		ord := newOrdinals()
		eachInstr(fn, func(b *ssa.BasicBlock, in ssa.Instruction) {
			c, ok := in.(*ssa.Call)
			if !ok {
				return
			}
			g := staticCallee(&c.Call)
			if g == nil || !p.InModule(g) || g == fn || !g.Signature.Variadic() {
				return
			}
			vt := g.Signature.Params().At(g.Signature.Params().Len() - 1).Type()
			if !isStringSlice(vt) {
				return
			}
			n++
			cons := ord.key(p.Name(fn), "segments resolved without sub-keys")
			last := c.Call.Args[len(c.Call.Args)-1]
			if isNilConst(last) {
				r.OK(rule, p.Name(fn), cons, p.Pos(c.Pos()), p.Name(g)+" is called without sub-key specifications: the filter is applied by the caller to what the index selected")
			} else {
				r.Bad(rule, p.Name(fn), cons, p.Pos(c.Pos()), "the indexed walker hands sub-key specifications to "+p.Name(g)+": the list is filtered before the index is applied, so the index counts matching members only and the result is not a subset of the unfiltered result")
			}
		})
	}
	_ = n
	r.Floor(rule, 1)
}

// ---- JSON.listwrap (C06) -------------------------------------------------------------------------------------------------------

// ruleJsonListWrap: NewMapJson puts the `{"object": … }` wrapper around its input only where the input's first byte is '['
// (the documented special case for a top-level list); every other input is handed to encoding/json as it is, so NewMapJson
// accepts exactly what encoding/json decodes as an object.
func ruleJsonListWrap(p *Prog, r *Report) {
	const rule = "JSON.listwrap"
	fn := p.Fn("mxj.NewMapJson")
	if fn == nil {
		r.Anchor(rule, "mxj.NewMapJson")
		return
	}
	isWrapConst := func(v ssa.Value) bool {
		if cv, ok := v.(*ssa.Convert); ok {
			v = cv.X
		}
		s, ok := constString(v)
		return ok && len(s) > 2 && s[0] == '{' && s[len(s)-1] == ':'
	}
	listGuard := func(blk *ssa.BasicBlock) (bool, string) {
		for _, gd := range dominatingGuards(blk) {
			ng := normGuard(gd)
			bo, ok := ng.Cond.(*ssa.BinOp)
			if !ok {
				continue
			}
			k, isK := constInt(bo.Y)
			u, isU := bo.X.(*ssa.UnOp)
			if !isK || !isU {
				continue
			}
			ia, ok := u.X.(*ssa.IndexAddr)
			if !ok || ia.X != ssa.Value(fn.Params[0]) {
				continue
			}
			if i0, ok := constInt(ia.Index); !ok || i0 != 0 {
				continue
			}
			if k == '[' && ((bo.Op == token.EQL && ng.Pol) || (bo.Op == token.NEQ && !ng.Pol)) {
				return true, ""
			}
			return false, "the wrapper is applied under a different test of the first byte (" + p.canonFor(fn).of(bo) + ")"
		}
		return false, "the wrapper is not guarded by a test that the first byte is '['"
	}
	n := 0
	check := func(at ssa.Instruction, blk *ssa.BasicBlock) {
		n++
		if ok, why := listGuard(blk); ok {
			r.OK(rule, p.Name(fn), "object wrapper only for a top-level list", p.Pos(at.Pos()), "dominated by jsonVal[0] == '['")
		} else {
			r.Bad(rule, p.Name(fn), "object wrapper only for a top-level list", p.Pos(at.Pos()), why+": documents that encoding/json would reject as an object (scalars) or decode as they are (an object after white space) are wrapped and accepted")
		}
	}
	eachInstr(fn, func(b *ssa.BasicBlock, in ssa.Instruction) {
		for _, op := range in.Operands(nil) {
			if op != nil && *op != nil && isWrapConst(*op) {
				check(in, b)
				return
			}
		}
		// the wrapper assembled by an unexported helper
		if c, ok := in.(*ssa.Call); ok {
			if h := staticCallee(&c.Call); h != nil && p.InModule(h) && !p.Exported(h) && len(h.Blocks) > 0 {
				found := false
				eachInstr(h, func(b2 *ssa.BasicBlock, i2 ssa.Instruction) {
					for _, op := range i2.Operands(nil) {
						if op != nil && *op != nil && isWrapConst(*op) {
							found = true
						}
					}
				})
				if found {
					check(c, b)
				}
			}
		}
	})
	if n == 0 {
		r.Unknown(rule, p.Name(fn), "object wrapper only for a top-level list", p.Pos(fn.Pos()), "the `{\"object\":` wrapper was not found")
	}
}

// ---- JSON.identity (C06) -------------------------------------------------------------------------------------------------------

// ruleJsonIdentity: what Json / JsonIndent hand to encoding/json is the receiver itself (through conversions and parameters only),
// not a value rebuilt from it: a rebuilt copy is where an empty list turns into null or a number changes its type.
func ruleJsonIdentity(p *Prog, r *Report) {
	const rule = "JSON.identity"
	for _, n := range []string{"mxj.Map.Json", "mxj.Map.JsonIndent"} {
		fn := p.Fn(n)
		if fn == nil {
			r.Anchor(rule, n)
			continue
		}
		found, bad := 0, ""
		var scan func(f *ssa.Function, recv ssa.Value, depth int)
		scan = func(f *ssa.Function, recv ssa.Value, depth int) {
			eachInstr(f, func(b *ssa.BasicBlock, in ssa.Instruction) {
				c, ok := in.(ssa.CallInstruction)
				if !ok {
					return
				}
				cm := c.Common()
				if isCallTo(cm, "(*encoding/json.Encoder).Encode", "encoding/json.Marshal", "encoding/json.MarshalIndent") {
					arg := cm.Args[0]
					if isCallTo(cm, "(*encoding/json.Encoder).Encode") {
						arg = cm.Args[1]
					}
					found++
					if !derivesFrom(arg, recv) {
						bad = p.Pos(in.Pos())
					}
					return
				}
				if g := staticCallee(cm); g != nil && p.InModule(g) && !p.Exported(g) && len(g.Blocks) > 0 && depth < 3 {
					for i, a := range cm.Args {
						if i < len(g.Params) && derivesFrom(a, recv) {
							scan(g, g.Params[i], depth+1)
						}
					}
				}
			})
		}
		scan(fn, fn.Params[0], 0)
		switch {
		case found == 0:
			r.Unknown(rule, n, "the Map itself is encoded", p.Pos(fn.Pos()), "no encoding/json encoding call on the receiver found")
		case bad != "":
			r.Bad(rule, n, "the Map itself is encoded", bad, "the value handed to encoding/json is computed from the Map instead of being the Map: what the rebuilt copy changes (an empty list becoming nil, a key or number converted) changes the document")
		default:
			r.OK(rule, n, "the Map itself is encoded", p.Pos(fn.Pos()), "the encoder's argument is the receiver through conversions and parameters only")
		}
	}
}

// ---- WALK.noearlyexit (C07, C08, C09, C10, C20) -------------------------------------------------------------------------------

// ruleWalkNoEarlyExit: a walker that collects into a result it was handed (no result values of its own) never returns from inside
// a loop over the members of a list or the entries of a map: a member that does not qualify is skipped, it does not end the scan.
// `if !ok { return }` in the place of `continue` drops every later member.
func ruleWalkNoEarlyExit(p *Prog, r *Report, names []string) {
	const rule = "WALK.noearlyexit"
	for _, n := range names {
		fn := p.Fn(n)
		if fn == nil {
			r.Anchor(rule, n)
			continue
		}
		// a walker that hands the accumulated result back (l = walk(…, l)) is judged the same way; a walker with an error result
		// may leave a loop to report an error
		hasErr := false
		for i := 0; i < fn.Signature.Results().Len(); i++ {
			if isErrorType(fn.Signature.Results().At(i).Type()) {
				hasErr = true
			}
		}
		if hasErr {
			r.Unknown(rule, n, "walker shape", p.Pos(fn.Pos()), "the walker now returns an error: an early return may be an error exit")
			continue
		}
		// loop headers of range loops over slices and maps
		hdrs := map[*ssa.BasicBlock]bool{}
		eachInstr(fn, func(b *ssa.BasicBlock, in ssa.Instruction) {
			switch x := in.(type) {
			case *ssa.Next:
				hdrs[b] = true
			case *ssa.IndexAddr:
				if isRangeIndex(x.Index) {
					hdrs[x.Index.(*ssa.BinOp).X.(*ssa.Phi).Block()] = true
				}
			}
		})
		bad := ""
		nLoops := 0
		for h := range hdrs {
			nLoops++
			body := naturalLoop(h)
			for b := range body {
				if b == h {
					continue
				}
				for _, sc := range b.Succs {
					if body[sc] {
						continue
					}
					// leaving the loop from inside its body: allowed only if the loop's normal exit is where it goes (break) and
					// … there is no such idiom in a collecting walker: any exit that reaches a return without passing the header is early
					if reachesReturnOnly(sc) {
						bad = p.Pos(firstPos(b))
					}
				}
			}
		}
		if nLoops == 0 {
			r.Unknown(rule, n, "member loops", p.Pos(fn.Pos()), "no loop over list members or map entries found")
			continue
		}
		if bad == "" {
			r.OK(rule, n, "no return from inside a member loop", p.Pos(fn.Pos()), fmt.Sprintf("%d member loops are left only through their header", nLoops))
		} else {
			r.Bad(rule, n, "no return from inside a member loop", bad, "the walker returns from inside a loop over members (from the block at "+bad+"): the members after the one that triggered the return are never visited")
		}
	}
}

// reachesReturnOnly: every path from b ends in a return without entering a loop header again (b is outside the loop it left).
func reachesReturnOnly(b *ssa.BasicBlock) bool {
	seen := map[*ssa.BasicBlock]bool{}
	var rec func(x *ssa.BasicBlock) bool
	rec = func(x *ssa.BasicBlock) bool {
		if seen[x] {
			return true
		}
		seen[x] = true
		if len(x.Succs) == 0 {
			_, isRet := x.Instrs[len(x.Instrs)-1].(*ssa.Return)
			return isRet
		}
		// a call of the walker itself, a loop, or an append after the exit means work goes on: not an early return
		for _, in := range x.Instrs {
			switch in.(type) {
			case *ssa.Call, *ssa.Store, *ssa.MapUpdate:
				return false
			}
		}
		for _, sc := range x.Succs {
			if !rec(sc) {
				return false
			}
		}
		return true
	}
	return rec(b)
}

// ---- WALK.current (C07, C09) ---------------------------------------------------------------------------------------------------

// ruleWalkCurrent: the indexed walker keeps the node it has reached in a loop-carried variable and the plain segments it has not
// resolved yet in a loop-carried path string. (a) every query made inside the loop is made on the loop-carried node, never on the
// map the call started with; (b) every new value of the node comes out of a query on the pending path — stepping into a value
// looked up by the current segment alone ignores the segments that are still pending.
func ruleWalkCurrent(p *Prog, r *Report, fns []*ssa.Function) {
	const rule = "WALK.current"
	n := 0
	for _, fn := range fns {
		if len(fn.Blocks) == 0 {
			continue
		}
		hasKeys := false
		for _, prm := range fn.Params {
			if isSegListType(prm.Type()) {
				hasKeys = true
			}
		}
		if !hasKeys {
			continue
		}
		name := p.Name(fn)
		// loop-carried node(s) and pending path string(s)
		var nodePhis, pathPhis []*ssa.Phi
		eachInstr(fn, func(b *ssa.BasicBlock, in ssa.Instruction) {
			ph, ok := in.(*ssa.Phi)
			if !ok {
				return
			}
			isHeader := false
			for _, pr := range b.Preds {
				if b.Dominates(pr) {
					isHeader = true
				}
			}
			if !isHeader {
				return
			}
			if isMapShaped(ph.Type()) {
				nodePhis = append(nodePhis, ph)
			}
			if isStringType(ph.Type()) {
				pathPhis = append(pathPhis, ph)
			}
		})
		if len(nodePhis) == 0 {
			continue
		}
		n++
		// (c) segment names are interpreted by the path walker only ('*' is a wildcard there): the indexed walker never looks a
		// segment name up in a map itself
		direct := ""
		eachInstr(fn, func(b *ssa.BasicBlock, in ssa.Instruction) {
			lk, ok := in.(*ssa.Lookup)
			if !ok || !isMapShaped(lk.X.Type()) {
				return
			}
			for x := range backwardSlice(fn, lk.Index) {
				if fa, ok := x.(*ssa.FieldAddr); ok && isStringType(derefType(fa.Type())) {
					direct = p.Pos(lk.Pos())
				}
			}
		})
		if direct == "" {
			r.OK(rule, name, "segments are resolved by the path walker only", p.Pos(fn.Pos()), "no map lookup keyed by a segment name")
		} else {
			r.Bad(rule, name, "segments are resolved by the path walker only", direct, "a segment name is looked up in a map directly: a wildcard segment is taken for a missing key, and pending segments are ignored")
		}
		for _, ph := range nodePhis {
			body := naturalLoop(ph.Block())
			// blocks that leave the loop for good (break) belong to an iteration as well: everything behind the body-entry edge
			for si, sc := range ph.Block().Succs {
				if !body[sc] || sc == ph.Block() {
					continue
				}
				for _, b := range fn.Blocks {
					if edgeDominates(ph.Block(), si, b) {
						body[b] = true
					}
				}
			}
			// the value the node starts with
			var start ssa.Value
			for i, pr := range ph.Block().Preds {
				if !ph.Block().Dominates(pr) {
					start = ph.Edges[i]
				}
			}
			// (a)
			stale := ""
			eachInstr(fn, func(b *ssa.BasicBlock, in ssa.Instruction) {
				c, ok := in.(*ssa.Call)
				if !ok || !body[b] || len(c.Call.Args) == 0 {
					return
				}
				g := staticCallee(&c.Call)
				if g == nil || !p.InModule(g) {
					return
				}
				for _, a := range c.Call.Args {
					if isMapShaped(a.Type()) && start != nil && a == start {
						if _, isPrm := a.(*ssa.Parameter); isPrm {
							stale = p.Pos(c.Pos())
						}
					}
				}
			})
			if stale == "" {
				r.OK(rule, name, "queries are made on the node reached", p.Pos(ph.Pos()), "no call inside the loop is applied to the map the walk started with")
			} else {
				r.Bad(rule, name, "queries are made on the node reached", stale, "inside the loop a query is made on the map the call started with although the walk keeps the node it has reached in a variable of its own: after an indexed step the following segments are resolved in the wrong map")
			}
			// (b)
			if len(pathPhis) == 0 {
				continue
			}
			badStep := ""
			for i, pr := range ph.Block().Preds {
				if !ph.Block().Dominates(pr) {
					continue
				}
				var news []ssa.Value
				var collect func(v ssa.Value, seen map[ssa.Value]bool)
				collect = func(v ssa.Value, seen map[ssa.Value]bool) {
					if v == ssa.Value(ph) || seen[v] {
						return
					}
					seen[v] = true
					if q, ok := v.(*ssa.Phi); ok && body[q.Block()] {
						for _, e := range q.Edges {
							collect(e, seen)
						}
						return
					}
					news = append(news, v)
				}
				collect(ph.Edges[i], map[ssa.Value]bool{})
				for _, nv := range news {
					fromQuery := false
					for x := range backwardSliceStop(fn, nv, ph) {
						c, ok := x.(*ssa.Call)
						if !ok {
							continue
						}
						g := staticCallee(&c.Call)
						if g == nil || !p.InModule(g) {
							continue
						}
						for _, a := range c.Call.Args {
							if !isStringType(a.Type()) {
								continue
							}
							for y := range backwardSlice(fn, a) {
								for _, pp := range pathPhis {
									if y == ssa.Value(pp) {
										fromQuery = true
									}
								}
							}
						}
					}
					if !fromQuery {
						badStep = p.Pos(nv.Pos())
					}
				}
			}
			if badStep == "" {
				r.OK(rule, name, "the node advances through a query on the pending path", p.Pos(ph.Pos()), "every new value of the node derives from a module query that receives the accumulated path")
			} else {
				r.Bad(rule, name, "the node advances through a query on the pending path", badStep, "the walk steps into a value that was not obtained by resolving the pending path (plain segments accumulated since the last indexed step): with two or more plain segments before an index the walk continues in a sibling subtree")
			}
		}
	}
	// (d) a helper of the indexed walker that is handed a segment record never resolves that segment's name on its own: the path
	// walker is asked with a path the caller accumulated (a string parameter), not with the name field of one record
	for _, fn := range fns {
		if len(fn.Blocks) == 0 {
			continue
		}
		hasKeys := false
		for _, prm := range fn.Params {
			if isSegListType(prm.Type()) {
				hasKeys = true
			}
		}
		if !hasKeys {
			continue
		}
		eachInstr(fn, func(b *ssa.BasicBlock, in ssa.Instruction) {
			c, ok := in.(*ssa.Call)
			if !ok {
				return
			}
			h := staticCallee(&c.Call)
			if h == nil || h == fn || !p.InModule(h) || p.Exported(h) || len(h.Blocks) == 0 {
				return
			}
			takesRecord := false
			for _, a := range c.Call.Args {
				t := a.Type()
				if pt, isP := t.Underlying().(*types.Pointer); isP {
					t = pt.Elem()
				}
				if _, isSt := t.Underlying().(*types.Struct); isSt && !isSegListType(a.Type()) {
					takesRecord = true
				}
			}
			if !takesRecord {
				return
			}
			bad := ""
			eachInstr(h, func(b2 *ssa.BasicBlock, i2 ssa.Instruction) {
				c2, ok := i2.(*ssa.Call)
				if !ok {
					return
				}
				g := staticCallee(&c2.Call)
				if g == nil || !p.InModule(g) || g == h {
					return
				}
				for _, a := range c2.Call.Args {
					if !isStringType(a.Type()) {
						continue
					}
					sl := backwardSlice(h, a)
					name, viaParam := false, false
					for y := range sl {
						if fa, isFA := y.(*ssa.FieldAddr); isFA && isStringType(derefType(fa.Type())) {
							name = true
						}
						if fd, isF := y.(*ssa.Field); isF && isStringType(fd.Type()) {
							name = true
						}
						if prm, isP := y.(*ssa.Parameter); isP && isStringType(prm.Type()) {
							viaParam = true
						}
					}
					if name && !viaParam {
						bad = p.Pos(c2.Pos())
					}
				}
			})
			cons := "helper " + p.Name(h) + " resolves the accumulated path"
			if bad != "" {
				r.Bad(rule, p.Name(fn), cons, bad, "the helper asks the path walker for the name of the one segment it was handed ("+bad+") instead of the path accumulated since the last indexed step: a list reached through two or more plain segments resolves to nothing")
			} else {
				r.OK(rule, p.Name(fn), cons, p.Pos(c.Pos()), "no module query in the helper is made with a segment record's name alone")
			}
		})
	}
	if n == 0 {
		r.Unknown(rule, "mxj.valuesForArray", "loop-carried node", "-", "no indexed walker with a loop-carried node found")
	}
}

// backwardSliceStop: backward slice that does not look behind the given value (what the node was before this iteration).
func backwardSliceStop(fn *ssa.Function, seed ssa.Value, stop ssa.Value) map[ssa.Value]bool {
	seen := map[ssa.Value]bool{}
	work := []ssa.Value{seed}
	seen[seed] = true
	for len(work) > 0 {
		v := work[len(work)-1]
		work = work[:len(work)-1]
		if v == stop {
			continue
		}
		in, ok := v.(ssa.Instruction)
		if !ok {
			continue
		}
		for _, op := range in.Operands(nil) {
			if op != nil && *op != nil && !seen[*op] {
				seen[*op] = true
				work = append(work, *op)
			}
		}
	}
	return seen
}

// ---- PATH.whole (C10) ------------------------------------------------------------------------------------------------------------

// rulePathWhole: UpdateValuesForPath hands the walker the path exactly as split — every segment, in order. A path shortened or
// otherwise rewritten before the walk addresses other nodes than ValuesForPath does for the same string (the two addressing forms
// "a.b.key" and "a.b" are not interchangeable below a wildcard or a repeated key name).
func rulePathWhole(p *Prog, r *Report, api string) {
	const rule = "PATH.whole"
	fn := p.Fn(api)
	if fn == nil {
		r.Anchor(rule, api)
		return
	}
	var pathP *ssa.Parameter
	for _, prm := range fn.Params {
		if isStringType(prm.Type()) {
			pathP = prm
		}
	}
	n := 0
	eachInstr(fn, func(b *ssa.BasicBlock, in ssa.Instruction) {
		c, ok := in.(*ssa.Call)
		if !ok {
			return
		}
		g := staticCallee(&c.Call)
		if g == nil || !p.InModule(g) || p.Exported(g) {
			return
		}
		for _, a := range c.Call.Args {
			if !isStringSlice(a.Type()) {
				continue
			}
			// the sub-key list is a []string as well: only look at slices that come from splitting the path
			fromPath := false
			for x := range backwardSlice(fn, a) {
				if sc, ok := x.(*ssa.Call); ok && isCallTo(&sc.Call, "strings.Split", "strings.SplitN", "strings.Fields") && pathP != nil && derivesFrom(sc.Call.Args[0], pathP) {
					fromPath = true
				}
			}
			if !fromPath {
				continue
			}
			n++
			sp, isCall := a.(*ssa.Call)
			if isCall && isCallTo(&sp.Call, "strings.Split") && derivesFrom(sp.Call.Args[0], pathP) {
				r.OK(rule, api, "walker receives the whole split path", p.Pos(c.Pos()), "the segment list handed to "+p.Name(g)+" is strings.Split(path, …) itself")
			} else {
				r.Bad(rule, api, "walker receives the whole split path", p.Pos(c.Pos()), "the segment list handed to "+p.Name(g)+" is not the split path itself but something derived from it ("+p.canonFor(fn).of(a)+"): the nodes addressed are no longer the ones the path denotes")
			}
		}
	})
	if n == 0 {
		r.Unknown(rule, api, "walker receives the whole split path", p.Pos(fn.Pos()), "no call of a walker with the split path found")
	}
}

// ---- SEQ.leafkeys (C04) ---------------------------------------------------------------------------------------------------------

// ruleSeqLeafKeys: every scan of an element's keys in the sequence encoder (the child collection, and any helper that decides
// whether the element has content besides its text) sets the same reserved keys aside. A key the child collection writes
// (#comment, #directive, #procinst, a child element) but a "has it children?" scan ignores makes the element a leaf, and what is
// stored under that key is never written.
func ruleSeqLeafKeys(p *Prog, r *Report) {
	const rule = "SEQ.leafkeys"
	enc := p.Fn("mxj.mapToXmlSeqIndent")
	if enc == nil {
		r.Anchor(rule, "mxj.mapToXmlSeqIndent")
		return
	}
	type scan struct {
		fn      *ssa.Function
		hdr     *ssa.BasicBlock
		keys    map[string]bool
		collect bool
	}
	var scans []scan
	fns := []*ssa.Function{enc}
	eachInstr(enc, func(b *ssa.BasicBlock, in ssa.Instruction) {
		if c, ok := in.(*ssa.Call); ok {
			if h := staticCallee(&c.Call); h != nil && h != enc && p.InModule(h) && !p.Exported(h) && len(h.Blocks) > 0 {
				for _, a := range c.Call.Args {
					if isMapShaped(a.Type()) {
						fns = append(fns, h)
					}
				}
			}
		}
	})
	for _, f := range fns {
		for _, l := range findMapLoops(f) {
			if l.next == nil || !isMapShaped(l.src.Type()) {
				continue
			}
			var keyEx ssa.Value
			for _, ref := range *l.next.Referrers() {
				if ex, ok := ref.(*ssa.Extract); ok && ex.Index == 1 {
					keyEx = ex
				}
			}
			if keyEx == nil {
				continue
			}
			ks := map[string]bool{}
			for _, ref := range *keyEx.Referrers() {
				bo, ok := ref.(*ssa.BinOp)
				if !ok || (bo.Op != token.EQL && bo.Op != token.NEQ) {
					continue
				}
				other := bo.Y
				if other == keyEx {
					other = bo.X
				}
				if g := globalOf(other); g != nil {
					ks[g.Name()] = true
				}
			}
			if len(ks) == 0 {
				continue
			}
			coll := false
			for b := range l.body {
				for _, in := range b.Instrs {
					if c, ok := in.(*ssa.Call); ok && isBuiltin(c, "append") {
						coll = true
					}
				}
			}
			// only scans of an element value: they set the sequence key aside
			if !ks["seqK"] {
				continue
			}
			scans = append(scans, scan{f, l.header, ks, coll})
		}
	}
	var ref *scan
	for i := range scans {
		if scans[i].collect && scans[i].fn == enc {
			ref = &scans[i]
		}
	}
	if ref == nil {
		r.Unknown(rule, p.Name(enc), "child collection", p.Pos(enc.Pos()), "the loop that collects the children of an element was not found")
		return
	}
	names := func(m map[string]bool) string {
		var out []string
		for k := range m {
			out = append(out, k)
		}
		sortStrings(out)
		return joinStrings(out, ", ")
	}
	r.OK(rule, p.Name(enc), "child collection", p.Pos(firstPos(ref.hdr)), "sets aside "+names(ref.keys))
	for i := range scans {
		s := &scans[i]
		if s == ref {
			continue
		}
		same := len(s.keys) == len(ref.keys)
		for k := range s.keys {
			if !ref.keys[k] {
				same = false
			}
		}
		cons := "key scan agrees with the child collection"
		if same {
			r.OK(rule, p.Name(s.fn), cons, p.Pos(firstPos(s.hdr)), "sets aside "+names(s.keys))
		} else {
			r.Bad(rule, p.Name(s.fn), cons, p.Pos(firstPos(s.hdr)), "this scan of the element's keys sets aside {"+names(s.keys)+"} but the child collection sets aside {"+names(ref.keys)+"}: an entry the collection would write does not count as content here, so an element holding only such entries is written as a leaf and they are lost")
		}
	}
}

// ---- ROOT.single (C02, C03, C04, C05) --------------------------------------------------------------------------------------------

// ruleRootSingle: each of the four XML encoders writes exactly one top-level element on every path that returns a document:
// (1) no successful return is reachable from the entry without a call of the element encoder on the output accumulator;
// (2) after such a call no second one can follow — a call inside the range over the receiver is allowed only where the receiver
// is known to have exactly one entry (len(m) == 1), and that loop is then not re-entered.
func ruleRootSingle(p *Prog, r *Report) {
	const rule = "ROOT.single"
	for _, n := range []string{"mxj.Map.Xml", "mxj.Map.XmlIndent", "mxj.MapSeq.Xml", "mxj.MapSeq.XmlIndent"} {
		fn := p.Fn(n)
		if fn == nil {
			r.Anchor(rule, n)
			continue
		}
		// element encoder calls: unexported module callee that receives an output sink
		callBlk := map[*ssa.BasicBlock]bool{}
		var calls []*ssa.Call
		eachInstr(fn, func(b *ssa.BasicBlock, in ssa.Instruction) {
			c, ok := in.(*ssa.Call)
			if !ok {
				return
			}
			g := staticCallee(&c.Call)
			if g == nil || !p.InModule(g) || p.Exported(g) {
				return
			}
			for _, a := range c.Call.Args {
				if isOutputSinkType(a.Type()) {
					callBlk[b] = true
					calls = append(calls, c)
					return
				}
			}
		})
		if len(calls) == 0 {
			r.Unknown(rule, n, "element encoder calls", p.Pos(fn.Pos()), "no call of the element encoder on an output accumulator found")
			continue
		}
		// single-entry loops over the receiver
		oneIter := map[*ssa.BasicBlock]map[*ssa.BasicBlock]bool{}
		multi := ""
		for _, l := range findMapLoops(fn) {
			if l.next == nil {
				continue
			}
			hasCall := false
			for b := range l.body {
				if callBlk[b] {
					hasCall = true
				}
			}
			if !hasCall {
				continue
			}
			if p.lenIsOneGuard(l) {
				oneIter[l.header] = l.body
			} else {
				multi = p.Pos(firstPos(l.header))
			}
		}
		// (1)
		missing := ""
		{
			seen := map[*ssa.BasicBlock]bool{fn.Blocks[0]: true}
			work := []*ssa.BasicBlock{fn.Blocks[0]}
			for len(work) > 0 && missing == "" {
				b := work[len(work)-1]
				work = work[:len(work)-1]
				if callBlk[b] {
					continue
				}
				if ret, ok := b.Instrs[len(b.Instrs)-1].(*ssa.Return); ok {
					if len(ret.Results) > 0 && !isNilConst(ret.Results[0]) {
						missing = p.Pos(ret.Pos())
					}
					continue
				}
				body, single := oneIter[b]
				for _, sc := range b.Succs {
					if single && !body[sc] {
						continue // a map with one entry: the loop body runs
					}
					if !seen[sc] {
						seen[sc] = true
						work = append(work, sc)
					}
				}
			}
		}
		if missing == "" {
			r.OK(rule, n, "a root element is written on every successful path", p.Pos(fn.Pos()), fmt.Sprintf("%d element encoder call sites; no document is returned without passing one", len(calls)))
		} else {
			r.Bad(rule, n, "a root element is written on every successful path", missing, "the return at "+missing+" hands back a document although no call of the element encoder lies on the path to it")
		}
		// (2)
		second := ""
		if multi != "" {
			second = "the element encoder is called inside a loop over the receiver (" + multi + ") that is not restricted to a receiver with exactly one entry"
		}
		for _, c := range calls {
			seen := map[*ssa.BasicBlock]bool{}
			var work []*ssa.BasicBlock
			for _, sc := range c.Block().Succs {
				work = append(work, sc)
			}
			for len(work) > 0 && second == "" {
				b := work[len(work)-1]
				work = work[:len(work)-1]
				if seen[b] {
					continue
				}
				seen[b] = true
				if callBlk[b] {
					// re-entering the own single-iteration loop is not a second call
					reentry := false
					for h, body := range oneIter {
						if body[b] && body[c.Block()] && h != nil {
							reentry = true
						}
					}
					if !reentry || b != c.Block() {
						if !(reentry && b == c.Block()) {
							second = "after the element written at " + p.Pos(c.Pos()) + " the call at " + p.Pos(firstPos(b)) + " can write another top-level element"
						}
					}
					continue
				}
				body, single := oneIter[b]
				for _, sc := range b.Succs {
					if single && body[sc] && body[c.Block()] {
						continue // the one entry has been visited: the loop is left
					}
					work = append(work, sc)
				}
			}
		}
		if second == "" {
			r.OK(rule, n, "at most one top-level element", p.Pos(fn.Pos()), "no path passes two element encoder calls; a call inside the range over the receiver is guarded by len(receiver) == 1")
		} else {
			r.Bad(rule, n, "at most one top-level element", p.Pos(fn.Pos()), second+": the document has more than one root")
		}
	}
}

// ---- CAST.opaque (C14, C01) ---------------------------------------------------------------------------------------------------------

// ruleCastOpaque: what the decoders build does not depend on what cast() made of a value: a value taken back out of the node
// under construction (a map lookup, or the value of a range over it) is never tested for a scalar type (string, bool, a number).
// Such a test succeeds without the cast flag and fails with it for text that was cast, so keys appear or disappear with the flag.
// Tests for the container types (map, list) are structural and allowed.
func ruleCastOpaque(p *Prog, r *Report, decoders []string) {
	const rule = "CAST.opaque"
	castFn := p.Fn("mxj.cast")
	for _, dn := range decoders {
		dec := p.Fn(dn)
		if dec == nil {
			r.Anchor(rule, dn)
			continue
		}
		n, bad := 0, ""
		for f := range p.Reach(dec) {
			if !p.InModule(f) || len(f.Blocks) == 0 || f == castFn || (f != dec && p.Exported(f)) {
				continue
			}
			eachInstr(f, func(b *ssa.BasicBlock, in ssa.Instruction) {
				ta, ok := in.(*ssa.TypeAssert)
				if !ok {
					return
				}
				// operand: taken out of a map[string]interface{}
				fromNode := false
				switch x := ta.X.(type) {
				case *ssa.Lookup:
					fromNode = isMapShaped(x.X.Type())
				case *ssa.Extract:
					if lk, ok := x.Tuple.(*ssa.Lookup); ok && x.Index == 0 {
						fromNode = isMapShaped(lk.X.Type())
					}
					if nx, ok := x.Tuple.(*ssa.Next); ok && x.Index == 2 {
						if rg, ok := nx.Iter.(*ssa.Range); ok {
							fromNode = isMapShaped(rg.X.Type())
						}
					}
				}
				if !fromNode {
					return
				}
				n++
				if bt, ok := ta.AssertedType.Underlying().(*types.Basic); ok && bt.Kind() != types.UnsafePointer {
					bad = p.Pos(ta.Pos()) + " (" + typeStr(ta.AssertedType) + ")"
				}
			})
		}
		if bad != "" {
			r.Bad(rule, dn, "no scalar type test on stored values", bad, "a value taken back out of the node being built is tested for a scalar type at "+bad+": whether the test succeeds depends on whether cast() converted the text, so the decoded structure depends on the cast flag")
		} else {
			r.OK(rule, dn, "no scalar type test on stored values", p.Pos(dec.Pos()), fmt.Sprintf("%d type tests on values of the node under construction, all for container types", n))
		}
	}
}

// ---- FWD.names (C16, C19, C20) -----------------------------------------------------------------------------------------------------

// ruleFwdNames: a wrapper that hands its own parameters on to a module function passes each of them in the position of the
// callee's parameter of the same name. A parameter passed where the callee expects a differently named one, while the callee has
// a parameter of the caller's name and type elsewhere, is two arguments swapped (prefix / indent).
func ruleFwdNames(p *Prog, r *Report, filter func(name string) bool) {
	const rule = "FWD.names"
	n := 0
	for _, fn := range p.FuncList {
		if !filter(p.Name(fn)) || len(fn.Blocks) == 0 {
			continue
		}
		name := p.Name(fn)
		ord := newOrdinals()
		eachInstr(fn, func(b *ssa.BasicBlock, in ssa.Instruction) {
			c, ok := in.(ssa.CallInstruction)
			if !ok {
				return
			}
			g := staticCallee(c.Common())
			if g == nil || !p.InModule(g) || g == fn {
				return
			}
			args := c.Common().Args
			checked := false
			bad := ""
			for i, a := range args {
				prm, ok := a.(*ssa.Parameter)
				if !ok || i >= len(g.Params) || prm.Parent() != fn {
					continue
				}
				// same-named callee parameter of the same type at another position?
				for j, gp := range g.Params {
					if j == i || gp.Name() != prm.Name() || !types.Identical(gp.Type(), prm.Type()) {
						continue
					}
					checked = true
					if g.Params[i].Name() != prm.Name() {
						bad = fmt.Sprintf("parameter %s is passed as argument %d (%s) of %s, which has a parameter %s at position %d", prm.Name(), i, g.Params[i].Name(), p.Name(g), prm.Name(), j)
					}
				}
				if i < len(g.Params) && g.Params[i].Name() == prm.Name() {
					checked = true
				}
			}
			// an option list of the same name and type in caller and callee is handed on, not dropped
			if fn.Signature.Variadic() && g.Signature.Variadic() && len(fn.Params) > 0 && len(g.Params) > 0 && len(args) == len(g.Params) {
				cp, gp := fn.Params[len(fn.Params)-1], g.Params[len(g.Params)-1]
				if cp.Name() == gp.Name() && types.Identical(cp.Type(), gp.Type()) {
					checked = true
					if isNilConst(args[len(args)-1]) {
						bad = fmt.Sprintf("the optional argument %s is not handed on to %s, which takes an option of the same name", cp.Name(), p.Name(g))
					}
				}
			}
			if !checked {
				return
			}
			n++
			cons := ord.key(name, "parameters forwarded by name to "+p.Name(g))
			if bad == "" {
				r.OK(rule, name, cons, p.Pos(in.Pos()), "every forwarded parameter sits in the position of the callee's parameter of the same name")
			} else {
				if strings.Contains(bad, "not handed on") {
					r.Bad(rule, name, cons, p.Pos(in.Pos()), bad+": on this path the caller's option has no effect")
				} else {
					r.Bad(rule, name, cons, p.Pos(in.Pos()), bad+": two arguments of the same type are swapped")
				}
			}
		})
	}
	_ = n
	r.Floor(rule, 3)
}

// ---- SCAN.complete (C20, C07, C08) ---------------------------------------------------------------------------------------------------

// ruleScanComplete: a loop over the members of a list that looks for members of one type (a map) skips the others: a member of
// another type never ends the scan. `break` on a failed type test (in the place of `continue`) hides every later member.
func ruleScanComplete(p *Prog, r *Report, fns []*ssa.Function) {
	const rule = "SCAN.complete"
	n := 0
	for _, fn := range fns {
		if len(fn.Blocks) == 0 {
			continue
		}
		name := p.Name(fn)
		ord := newOrdinals()
		eachInstr(fn, func(b *ssa.BasicBlock, in ssa.Instruction) {
			ta, ok := in.(*ssa.TypeAssert)
			if !ok || !ta.CommaOk {
				return
			}
			// operand: the element of a range over a slice of interface{}
			u, ok := ta.X.(*ssa.UnOp)
			if !ok {
				return
			}
			ia, ok := u.X.(*ssa.IndexAddr)
			if !ok || !isRangeIndex(ia.Index) {
				return
			}
			hdr := ia.Index.(*ssa.BinOp).X.(*ssa.Phi).Block()
			body := naturalLoop(hdr)
			// loop exit target: the successor of the header outside the loop
			var exit *ssa.BasicBlock
			for _, sc := range hdr.Succs {
				if !body[sc] {
					exit = sc
				}
			}
			if exit == nil {
				return
			}
			for _, ref := range *ta.Referrers() {
				ex, ok := ref.(*ssa.Extract)
				if !ok || ex.Index != 1 || ex.Referrers() == nil {
					continue
				}
				for _, r2 := range *ex.Referrers() {
					ifi, ok := r2.(*ssa.If)
					if !ok {
						continue
					}
					n++
					cons := ord.key(name, "a member of another type is skipped")
					// the edge taken when the test fails
					failIdx := 1
					if ng := normGuard(guard{ifi.Cond, true}); !ng.Pol {
						failIdx = 0
					}
					tgt := ifi.Block().Succs[failIdx]
					// follow empty jump blocks
					for len(tgt.Instrs) == 1 && len(tgt.Succs) == 1 && tgt != hdr && tgt != exit {
						tgt = tgt.Succs[0]
					}
					if tgt == exit {
						r.Bad(rule, name, cons, p.Pos(ta.Pos()), "when the member is not of the type looked for the loop is left (break): the members after it are not examined")
					} else {
						r.OK(rule, name, cons, p.Pos(ta.Pos()), "a failed type test goes on with the next member (or handles the member otherwise)")
					}
				}
			}
		})
	}
	_ = n
}

// ---- FWD.identity (C20) ---------------------------------------------------------------------------------------------------------------

// ruleFwdIdentity: the thin conversion packages hand their arguments to the core functions as they received them. An argument
// of a core call that is computed from a parameter (rather than being the parameter, through conversions only) makes the wrapper
// answer a different question than decode-then-query with the same arguments.
func ruleFwdIdentity(p *Prog, r *Report, pkgs ...string) {
	const rule = "FWD.identity"
	n := 0
	for _, alias := range pkgs {
		for _, fn := range p.PkgFuncs(alias) {
			if !p.Exported(fn) || len(fn.Blocks) == 0 {
				continue
			}
			name := p.Name(fn)
			ord := newOrdinals()
			eachInstr(fn, func(b *ssa.BasicBlock, in ssa.Instruction) {
				c, ok := in.(ssa.CallInstruction)
				if !ok {
					return
				}
				g := staticCallee(c.Common())
				if g == nil || !p.InModule(g) || !strings.HasPrefix(p.Name(g), "mxj.") {
					return
				}
				for i, a := range c.Common().Args {
					if !isStringType(a.Type()) && !isStringSlice(a.Type()) && !isByteSlice(a.Type()) {
						continue
					}
					var src *ssa.Parameter
					for v := range backwardSlice(fn, a) {
						if prm, ok := v.(*ssa.Parameter); ok && prm.Parent() == fn && types.Identical(prm.Type(), a.Type()) {
							src = prm
						}
					}
					if src == nil {
						continue
					}
					n++
					cons := ord.key(name, fmt.Sprintf("argument %d of %s passed on unchanged", i, p.Name(g)))
					if derivesFrom(a, src) {
						r.OK(rule, name, cons, p.Pos(in.Pos()), "the argument is parameter "+src.Name()+" itself")
					} else {
						r.Bad(rule, name, cons, p.Pos(in.Pos()), "the argument handed to "+p.Name(g)+" is computed from parameter "+src.Name()+" instead of being that parameter: the wrapper no longer equals decoding followed by the core call with the same arguments")
					}
				}
			})
		}
	}
	_ = n
	r.Floor(rule, 10)
}

// ---- PANIC.overflow (C15 and the scoped panic rules) ---------------------------------------------------------------------------------

// rulePanicOverflow: the zone analysis reasons over mathematical integers. That is sound for an index or slice bound of the form
// x + c (c > 0) only if x + c cannot wrap around, i.e. if x is bounded above where the sum is computed — by a constant or by the
// length of some slice or string (lengths are at most MaxInt - 1 in practice and MaxInt in theory, and then x < len keeps x + 1 in
// range). A sum of an unbounded value (a number parsed from the input) that is compared with a length only afterwards passes every
// comparison after wrapping to a negative number: `end := pos + 1; if end > len(vals) …; vals[pos:end]` panics for pos == MaxInt.
func rulePanicOverflow(p *Prog, r *Report, fns []*ssa.Function) {
	const rule = "PANIC.overflow"
	for _, fn := range fns {
		if len(fn.Blocks) == 0 {
			continue
		}
		var z *zoneFlow
		name := p.Name(fn)
		ord := newOrdinals()
		for _, in := range instrsByPos(fn) {
			bo, ok := in.(*ssa.BinOp)
			if !ok || bo.Op != token.ADD || !isIntType(bo.Type()) {
				continue
			}
			k, isK := constInt(bo.Y)
			x := bo.X
			if !isK {
				k, isK = constInt(bo.X)
				x = bo.Y
			}
			if !isK || k <= 0 {
				continue
			}
			// used as an index or a slice bound?
			asBound := false
			if bo.Referrers() != nil {
				for _, ref := range *bo.Referrers() {
					switch u := ref.(type) {
					case *ssa.Slice:
						if u.Low == ssa.Value(bo) || u.High == ssa.Value(bo) || u.Max == ssa.Value(bo) {
							asBound = true
						}
					case *ssa.IndexAddr:
						asBound = asBound || u.Index == ssa.Value(bo)
					case *ssa.Index:
						asBound = asBound || u.Index == ssa.Value(bo)
					case *ssa.Lookup:
						asBound = asBound || (u.Index == ssa.Value(bo) && isStringType(u.X.Type()))
					}
				}
			}
			if !asBound {
				continue
			}
			if z == nil {
				z = p.zoneFlowOf(fn, nil)
			}
			construct := ord.key(name, "no wrap-around in "+p.ExprAt(bo.Pos()))
			if p.ExprAt(bo.Pos()) == "" {
				construct = ord.key(name, "no wrap-around in an index sum")
			}
			d, reach := z.stateAt(bo)
			if !reach {
				r.OK(rule, name, construct, p.Pos(bo.Pos()), "unreachable")
				continue
			}
			t := z.term(x)
			bounded := false
			if t.ok && t.n < d.n {
				if t.n == 0 {
					bounded = true
				}
				for j := 0; j < d.n; j++ {
					if j != 0 && !strings.HasPrefix(z.names[j], "len(") {
						continue
					}
					if j != t.n && d.get(t.n, j) < zinf/2 {
						bounded = true
					}
				}
			}
			if bounded {
				r.OK(rule, name, construct, p.Pos(bo.Pos()), "the summand is bounded above (by a constant or a length) where the sum is computed")
			} else {
				r.Bad(rule, name, construct, p.Pos(bo.Pos()), "the sum is used as an index or slice bound, but its summand has no upper bound where the sum is computed: for the largest int the sum wraps to a negative number, passes a later comparison with a length, and the access panics")
			}
		}
	}
}

// ---- LEAF.path (C09) ------------------------------------------------------------------------------------------------------------------

// ruleLeafPath: in the leaf walker a separator is added to the path only together with the node name that follows it. The path
// handed to the children and stored in a LeafNode is the incoming path, or incoming path (+ ".") + node — never a path that
// ends in the separator (which is what remains when the name is dropped but the separator is not).
func ruleLeafPath(p *Prog, r *Report, name string) {
	const rule = "LEAF.path"
	fn := p.Fn(name)
	if fn == nil {
		r.Anchor(rule, name)
		return
	}
	// sinks: the string argument of self calls in the position of the first string parameter, and strings stored into a struct
	pi := -1
	for i, prm := range fn.Params {
		if isStringType(prm.Type()) && pi < 0 {
			pi = i
		}
	}
	var sinks []ssa.Value
	for _, c := range selfCalls(fn) {
		if pi >= 0 && pi < len(c.Call.Args) {
			sinks = append(sinks, c.Call.Args[pi])
		}
	}
	eachInstr(fn, func(b *ssa.BasicBlock, in ssa.Instruction) {
		if st, ok := in.(*ssa.Store); ok && isStringType(st.Val.Type()) {
			if _, isField := st.Addr.(*ssa.FieldAddr); isField {
				sinks = append(sinks, st.Val)
			}
		}
	})
	if len(sinks) == 0 {
		r.Unknown(rule, name, "path never ends in a separator", p.Pos(fn.Pos()), "no use of the path (recursive call, leaf record) found")
		return
	}
	bad := ""
	seen := map[ssa.Value]bool{}
	var walk func(v ssa.Value)
	walk = func(v ssa.Value) {
		if seen[v] {
			return
		}
		seen[v] = true
		switch x := v.(type) {
		case *ssa.Phi:
			for _, e := range x.Edges {
				walk(e)
			}
		case *ssa.BinOp:
			if x.Op == token.ADD {
				if sv, ok := constString(x.Y); ok && (sv == "." || sv == "[") {
					bad = p.Pos(x.Pos())
				}
			}
		}
	}
	for _, sk := range sinks {
		walk(sk)
	}
	if bad == "" {
		r.OK(rule, name, "path never ends in a separator", p.Pos(fn.Pos()), fmt.Sprintf("%d uses of the path: the separator appended to it is always followed by a node name", len(sinks)))
	} else {
		r.Bad(rule, name, "path never ends in a separator", bad, "the path with the separator appended at "+bad+" can reach a child or a leaf record without a node name after it: with the no-attribute option the text key is dropped but its separator stays (\"doc.item.\")")
	}
}

// ---- PARSE.verbatim (C07, C09) ---------------------------------------------------------------------------------------------------------

// rulePathVerbatim: the key name of a parsed path segment is the text of the segment in front of the subscript, cut out by
// splitting and slicing only. Any other string function on the way (trimming, case folding, replacing) makes two different keys
// of a Map address the same entry, and a key with such characters unreachable.
func rulePathVerbatim(p *Prog, r *Report, name string) {
	const rule = "PARSE.verbatim"
	fn := p.Fn(name)
	if fn == nil {
		r.Anchor(rule, name)
		return
	}
	allowed := func(c *ssa.Call) bool {
		if _, isB := c.Call.Value.(*ssa.Builtin); isB {
			return true
		}
		return isCallTo(&c.Call, "strings.Split", "strings.SplitN", "strings.Index", "strings.IndexByte", "strings.LastIndex", "strings.LastIndexByte", "strings.Cut", "strings.IndexAny", "strings.Contains", "strings.HasSuffix", "strings.HasPrefix")
	}
	var check func(f *ssa.Function, v ssa.Value, depth int) string
	check = func(f *ssa.Function, v ssa.Value, depth int) string {
		for x := range backwardSlice(f, v) {
			switch y := x.(type) {
			case *ssa.Call:
				if !allowed(y) && isStringType(y.Type()) {
					return p.calleeName(&y.Call) + " at " + p.Pos(y.Pos())
				}
			case *ssa.Parameter:
				if f != fn && depth < 2 {
					for i, prm := range f.Params {
						if prm != y {
							continue
						}
						for _, site := range p.staticSites(f) {
							if i < len(site.Call.Args) {
								if why := check(site.Parent(), site.Call.Args[i], depth+1); why != "" {
									return why
								}
							}
						}
					}
				}
			}
		}
		return ""
	}
	n := 0
	for f := range p.Reach(fn) {
		if !p.InModule(f) || len(f.Blocks) == 0 || (f != fn && p.Exported(f)) {
			continue
		}
		ff := f
		eachInstr(ff, func(b *ssa.BasicBlock, in ssa.Instruction) {
			st, ok := in.(*ssa.Store)
			if !ok || !isStringType(st.Val.Type()) {
				return
			}
			fa, ok := st.Addr.(*ssa.FieldAddr)
			if !ok {
				return
			}
			n++
			cons := fmt.Sprintf("field %s is the segment text as written", fieldName(fa.X.Type(), fa.Field))
			if why := check(ff, st.Val, 0); why != "" {
				r.Bad(rule, p.Name(ff), cons, p.Pos(st.Pos()), "the key name passes through "+why+" before it is stored: the name looked up is no longer the name written in the path")
			} else {
				r.OK(rule, p.Name(ff), cons, p.Pos(st.Pos()), "obtained from the segment by splitting / slicing only")
			}
		})
	}
	// a record built as a composite literal stores through the fields as well; nothing found means the parser changed shape
	if n == 0 {
		r.Unknown(rule, name, "key name stored", p.Pos(fn.Pos()), "no store of a string field of the segment record found")
	}
}

// ---- ANYXML.nilonly (C03) ----------------------------------------------------------------------------------------------------------------

// ruleAnyXmlNilOnly: AnyXml / AnyXmlIndent return a document without handing the value to an encoder only for the untyped nil
// value (the empty root element). A wider test (zero values, typed nils decided by reflection) drops false, 0 and "" at the root.
func ruleAnyXmlNilOnly(p *Prog, r *Report) {
	const rule = "ANYXML.nilonly"
	enc := p.Fn("mxj.marshalMapToXmlIndent")
	for _, n := range []string{"mxj.AnyXml", "mxj.AnyXmlIndent"} {
		fn := p.Fn(n)
		if fn == nil || enc == nil {
			r.Anchor(rule, n)
			continue
		}
		encBlk := map[*ssa.BasicBlock]bool{}
		eachInstr(fn, func(b *ssa.BasicBlock, in ssa.Instruction) {
			c, ok := in.(*ssa.Call)
			if !ok {
				return
			}
			g := staticCallee(&c.Call)
			if g == nil {
				return
			}
			nm := p.Name(g)
			if g == enc || nm == "mxj.Map.Xml" || nm == "mxj.Map.XmlIndent" || strings.HasPrefix(extName(g), "encoding/xml.Marshal") || strings.HasPrefix(extName(g), "encoding/json.") ||
				(p.InModule(g) && !p.Exported(g) && p.alwaysCalls(g, enc, 0)) {
				encBlk[b] = true
			}
		})
		// the dispatch on the value's type is not a shortcut: paths that pass a type test of v handle v in their own way (an empty
		// list becomes an empty root by writing the two tags)
		eachInstr(fn, func(b *ssa.BasicBlock, in ssa.Instruction) {
			if ta, ok := in.(*ssa.TypeAssert); ok && ta.X == ssa.Value(fn.Params[0]) {
				encBlk[b] = true
			}
		})
		bad := ""
		nShort := 0
		seen := map[*ssa.BasicBlock]bool{fn.Blocks[0]: true}
		work := []*ssa.BasicBlock{fn.Blocks[0]}
		for len(work) > 0 {
			b := work[len(work)-1]
			work = work[:len(work)-1]
			if encBlk[b] {
				continue
			}
			if ret, ok := b.Instrs[len(b.Instrs)-1].(*ssa.Return); ok {
				if len(ret.Results) > 0 && !isNilConst(ret.Results[0]) {
					nShort++
					okNil := false
					for _, g := range dominatingGuards(b) {
						ng := normGuard(g)
						if bo, ok := ng.Cond.(*ssa.BinOp); ok && bo.Op == token.EQL && ng.Pol {
							if (bo.X == ssa.Value(fn.Params[0]) && isNilConst(bo.Y)) || (bo.Y == ssa.Value(fn.Params[0]) && isNilConst(bo.X)) {
								okNil = true
							}
						}
					}
					if !okNil {
						bad = p.Pos(ret.Pos())
					}
				}
				continue
			}
			for _, sc := range b.Succs {
				if !seen[sc] {
					seen[sc] = true
					work = append(work, sc)
				}
			}
		}
		if bad == "" {
			r.OK(rule, n, "only nil takes the empty-root shortcut", p.Pos(fn.Pos()), fmt.Sprintf("%d return(s) of a document without an encoder call, each dominated by v == nil", nShort))
		} else {
			r.Bad(rule, n, "only nil takes the empty-root shortcut", bad, "a document is returned at "+bad+" without the value having been handed to an encoder, and not under the test v == nil: values other than nil (false, 0, \"\") are written as an empty root")
		}
	}
}

// ---- ELEM.always (C02, C03) ----------------------------------------------------------------------------------------------------------------

// ruleElemAlways: the element encoder never returns success without having written something for the value it was given: every
// path from its entry to `return nil` passes a write to the buffer, a recursive call, or a call of a function that writes. A loop
// over the members of a list counts as writing only where the list is known to be non-empty; the zero-iteration path of such a
// loop is how an empty list disappears from the output instead of becoming an empty element.
func ruleElemAlways(p *Prog, r *Report, names []string) {
	const rule = "ELEM.always"
	for _, n := range names {
		fn := p.Fn(n)
		if fn == nil {
			r.Anchor(rule, n)
			continue
		}
		var sink *ssa.Parameter
		for _, prm := range fn.Params {
			if isOutputSinkType(prm.Type()) {
				sink = prm
			}
		}
		if sink == nil {
			r.Unknown(rule, n, "output parameter", p.Pos(fn.Pos()), "no buffer / builder parameter found")
			continue
		}
		wBlk := map[*ssa.BasicBlock]bool{}
		eachInstr(fn, func(b *ssa.BasicBlock, in ssa.Instruction) {
			c, ok := in.(ssa.CallInstruction)
			if !ok {
				return
			}
			for _, a := range c.Common().Args {
				if a == ssa.Value(sink) {
					wBlk[b] = true
				}
				if mi, ok := a.(*ssa.MakeInterface); ok && mi.X == ssa.Value(sink) {
					wBlk[b] = true
				}
			}
			// a local closure or an unexported helper that writes on every one of its paths
			if g := staticCallee(c.Common()); g != nil && g != fn && p.InModule(g) && !p.Exported(g) && p.alwaysWrites(g, fn, 0) {
				wBlk[b] = true
			}
		})
		cz := p.canonFor(fn)
		// loops over a slice known to be non-empty run their body
		nonEmptyLoop := func(h *ssa.BasicBlock) map[*ssa.BasicBlock]bool {
			var rangeX ssa.Value
			for _, in := range h.Instrs {
				if bo, ok := in.(*ssa.BinOp); ok && bo.Op == token.LSS {
					if c, ok := bo.Y.(*ssa.Call); ok && isBuiltin(c, "len") {
						rangeX = c.Call.Args[0]
					}
				}
			}
			if rangeX == nil {
				return nil
			}
			want := "len(" + cz.of(rangeX) + ")"
			for _, g := range expandAndGuards(dominatingGuards(h)) {
				ng := normGuard(g)
				bo, ok := ng.Cond.(*ssa.BinOp)
				if !ok || cz.of(bo.X) != want {
					continue
				}
				k, isK := constInt(bo.Y)
				if !isK {
					continue
				}
				if (bo.Op == token.EQL && k == 0 && !ng.Pol) || (bo.Op == token.NEQ && k == 0 && ng.Pol) || (bo.Op == token.GTR && k == 0 && ng.Pol) || (bo.Op == token.GEQ && k == 1 && ng.Pol) {
					return naturalLoop(h)
				}
			}
			return nil
		}
		bad := ""
		// path-sensitive in one respect: the outcome of the type tests of the encoded value (a path that took the list arm of one
		// type switch cannot take the default arm of the next)
		type pstate struct {
			blk   *ssa.BasicBlock
			known string // asserted type known to hold ("" = none)
			excl  string // sorted list of excluded types
		}
		var valueP *ssa.Parameter
		for _, prm := range fn.Params {
			if isEmptyIface(prm.Type()) {
				valueP = prm
			}
		}
		isValue := func(v ssa.Value) bool {
			for {
				if v == ssa.Value(valueP) {
					return true
				}
				ph, ok := v.(*ssa.Phi)
				if !ok {
					return false
				}
				// value = "" for nil etc.: a re-assigned value is a different value
				_ = ph
				return false
			}
		}
		_ = isValue
		seenS := map[pstate]bool{}
		start := pstate{blk: fn.Blocks[0]}
		seenS[start] = true
		workS := []pstate{start}
		for len(workS) > 0 && bad == "" {
			st := workS[len(workS)-1]
			workS = workS[:len(workS)-1]
			b := st.blk
			if wBlk[b] {
				continue
			}
			if ret, ok := b.Instrs[len(b.Instrs)-1].(*ssa.Return); ok {
				if len(ret.Results) == 1 && isNilConst(ret.Results[0]) {
					bad = p.Pos(ret.Pos())
				} else if len(ret.Results) == 1 {
					if _, isC := ret.Results[0].(*ssa.Const); !isC {
						nonNil := false
						for _, g := range dominatingGuards(b) {
							ng := normGuard(g)
							if bo, ok := ng.Cond.(*ssa.BinOp); ok && (bo.Op == token.NEQ) == ng.Pol && (bo.Op == token.NEQ || bo.Op == token.EQL) {
								if (bo.X == ret.Results[0] && isNilConst(bo.Y)) || (bo.Y == ret.Results[0] && isNilConst(bo.X)) {
									nonNil = true
								}
							}
						}
						if !nonNil {
							bad = p.Pos(ret.Pos())
						}
					}
				}
				continue
			}
			var body map[*ssa.BasicBlock]bool
			isHeader := false
			for _, pr := range b.Preds {
				if b.Dominates(pr) {
					isHeader = true
				}
			}
			if isHeader {
				body = nonEmptyLoop(b)
			}
			// a type test of the value at the end of this block?
			var tt *ssa.TypeAssert
			if ifi, ok := b.Instrs[len(b.Instrs)-1].(*ssa.If); ok {
				if ex, ok := ifi.Cond.(*ssa.Extract); ok && ex.Index == 1 {
					if ta, ok := ex.Tuple.(*ssa.TypeAssert); ok && isEmptyIface(ta.X.Type()) {
						tt = ta
					}
				}
			}
			for si, sc := range b.Succs {
				if body != nil && !body[sc] {
					continue
				}
				nx := pstate{blk: sc, known: st.known, excl: st.excl}
				if tt != nil {
					// facts are kept per tested SSA value: "name=T;" (known type) and "name!T;" (excluded type)
					X := tt.X.Name()
					T := typeStr(tt.AssertedType)
					knownT := ""
					if i := strings.Index(st.known, ";"+X+"="); i >= 0 {
						rest := st.known[i+len(X)+2:]
						knownT = rest[:strings.Index(rest, ";")]
					}
					if si == 0 {
						// only values of JSON shape are in the property's domain
						if sl, isSl := tt.AssertedType.Underlying().(*types.Slice); isSl && !isEmptyIface(sl.Elem()) {
							continue
						}
						if knownT != "" && knownT != T {
							continue
						}
						if strings.Contains(st.excl, ";"+X+"!"+T+";") {
							continue
						}
						if knownT == "" {
							nx.known = st.known + ";" + X + "=" + T + ";"
						}
					} else {
						if knownT == T {
							continue
						}
						if !strings.Contains(st.excl, ";"+X+"!"+T+";") {
							nx.excl = st.excl + ";" + X + "!" + T + ";"
						}
					}
				}
				if !seenS[nx] {
					seenS[nx] = true
					workS = append(workS, nx)
				}
			}
		}
		if bad == "" {
			r.OK(rule, n, "something is written for every value", p.Pos(fn.Pos()), "no path returns success without a write to the output or a call that writes")
		} else {
			r.Bad(rule, n, "something is written for every value", bad, "the return at "+bad+" can be reached without anything having been written for the value (the zero-iteration path of a loop over a possibly empty list, or an arm that writes nothing): the value leaves no element in the document")
		}
	}
}

// ---- round 11b --------------------------------------------------------------------------------------------------------------------------

// ruleParentNotQueried (PAIR.atomic clause, C11): the map in which Remove / RenameKey delete or move an entry is obtained from the
// map-only parent walker, never from the general path queries (ValueForPath / ValuesForPath look through lists: with a list on the
// way the "parent" is the first list member that has the key, and the operation succeeds where it must fail).
func ruleParentNotQueried(p *Prog, r *Report) {
	const rule = "PAIR.atomic"
	n := 0
	for _, f := range p.scopeFuncs(r, rule, []string{"mxj.Map.RenameKey", "mxj.Map.Remove"}) {
		if len(f.Blocks) == 0 {
			continue
		}
		name := p.Name(f)
		ord := newOrdinals()
		check := func(at ssa.Instruction, m ssa.Value, what string) {
			n++
			cons := ord.key(name, what+" in a parent found by the map-only walker")
			bad := ""
			for x := range backwardSlice(f, m) {
				if c, ok := x.(*ssa.Call); ok {
					if g := staticCallee(&c.Call); g != nil {
						switch p.Name(g) {
						case "mxj.Map.ValueForPath", "mxj.Map.ValuesForPath", "mxj.Map.ValuesForKey", "mxj.Map.ValueForKey":
							bad = p.Name(g) + " at " + p.Pos(c.Pos())
						}
					}
				}
			}
			if bad == "" {
				r.OK(rule, name, cons, p.Pos(at.Pos()), "the map written is not the result of a path query")
			} else {
				r.Bad(rule, name, cons, p.Pos(at.Pos()), "the map in which the entry is "+what+" comes from "+bad+": path queries descend into lists, so a path whose parent is a list member is applied to the first member instead of being refused")
			}
		}
		eachInstr(f, func(b *ssa.BasicBlock, in ssa.Instruction) {
			switch x := in.(type) {
			case *ssa.Call:
				if isBuiltin(x, "delete") {
					check(x, x.Call.Args[0], "deleted")
				}
			case *ssa.MapUpdate:
				if isMapShaped(x.Map.Type()) {
					check(x, x.Map, "written")
				}
			}
		})
	}
	if n == 0 {
		r.Unknown(rule, "mxj.Map.Remove", "parent found by the map-only walker", "-", "no delete / map write found below Remove and RenameKey")
	}
}

// ruleDecoderConfig (DECODER.config, C13): every function that creates an xml.Decoder for the element parsers configures it the same
// way: the same fields are assigned, under the same conditions, and the same configuration helper is called under the same conditions.
// The stream readers and the direct decoders then treat a document alike whatever CustomDecoder / XmlCharsetReader are set to.
func ruleDecoderConfig(p *Prog, r *Report) {
	const rule = "DECODER.config"
	type site struct {
		fn  *ssa.Function
		sig string
		pos string
	}
	var sites []site
	for _, f := range p.PkgFuncs("mxj") {
		if len(f.Blocks) == 0 {
			continue
		}
		cz := p.canonFor(f)
		eachInstr(f, func(b *ssa.BasicBlock, in ssa.Instruction) {
			c, ok := in.(*ssa.Call)
			if !ok || !isCallTo(&c.Call, "encoding/xml.NewDecoder") || c.Referrers() == nil {
				return
			}
			// only decoders handed to the element parsers
			toParser := false
			var items []string
			guardsOf := func(blk *ssa.BasicBlock) string {
				var gs []string
				for _, g := range dominatingGuards(blk) {
					ng := normGuard(g)
					if gl := globalOf(ng.Cond); gl != nil {
						gs = append(gs, fmt.Sprintf("%s=%v", gl.Name(), ng.Pol))
					} else if bo, ok := ng.Cond.(*ssa.BinOp); ok {
						if gl := globalOf(bo.X); gl != nil {
							// x != y under pol  ==  x == y under !pol
							op, pol := bo.Op, ng.Pol
							if op == token.NEQ {
								op, pol = token.EQL, !pol
							}
							gs = append(gs, fmt.Sprintf("%s%s%s=%v", gl.Name(), op, cz.of(bo.Y), pol))
						}
					}
				}
				sortStrings(gs)
				return "[" + joinStrings(gs, ",") + "]"
			}
			for _, ref := range *c.Referrers() {
				switch x := ref.(type) {
				case *ssa.Call:
					g := staticCallee(&x.Call)
					if g == nil || !p.InModule(g) {
						continue
					}
					if nm := p.Name(g); nm == "mxj.xmlToMapParser" || nm == "mxj.xmlSeqToMapParser" {
						toParser = true
						continue
					}
					items = append(items, "call "+p.Name(g)+" under "+guardsOf(x.Block()))
				case *ssa.FieldAddr:
					for _, r2 := range *x.Referrers() {
						if st, ok := r2.(*ssa.Store); ok {
							items = append(items, fieldName(x.X.Type(), x.Field)+" := "+cz.of(st.Val)+" under "+guardsOf(st.Block()))
						}
					}
				}
			}
			if !toParser {
				return
			}
			sortStrings(items)
			sites = append(sites, site{f, joinStrings(items, "; "), p.Pos(c.Pos())})
		})
	}
	if len(sites) < 2 {
		// one shared set-up function: every decoder the element parsers get comes out of an unexported function that creates and
		// configures it, so all callers agree by construction
		var makers []*ssa.Function
		for _, f := range p.PkgFuncs("mxj") {
			if len(f.Blocks) == 0 || p.Exported(f) || f.Signature.Results().Len() == 0 || !strings.HasSuffix(typeStr(f.Signature.Results().At(0).Type()), "xml.Decoder") {
				continue
			}
			creates := false
			eachInstr(f, func(b *ssa.BasicBlock, in ssa.Instruction) {
				if c, ok := in.(*ssa.Call); ok && isCallTo(&c.Call, "encoding/xml.NewDecoder") {
					creates = true
				}
			})
			if creates {
				makers = append(makers, f)
			}
		}
		if len(sites) == 0 && len(makers) == 1 {
			users := 0
			for _, f := range p.PkgFuncs("mxj") {
				if len(f.Blocks) == 0 {
					continue
				}
				eachInstr(f, func(b *ssa.BasicBlock, in ssa.Instruction) {
					c, ok := in.(*ssa.Call)
					if !ok || staticCallee(&c.Call) != makers[0] || c.Referrers() == nil {
						return
					}
					for _, ref := range *c.Referrers() {
						if x, ok := ref.(*ssa.Call); ok {
							if nm := p.calleeName(&x.Call); nm == "mxj.xmlToMapParser" || nm == "mxj.xmlSeqToMapParser" {
								users++
							}
						}
					}
				})
			}
			if users >= 2 {
				r.OK(rule, "mxj", "decoder set-up sites", p.Pos(makers[0].Pos()), fmt.Sprintf("one shared set-up function (%s) creates and configures the decoder for all %d parser entry points", p.Name(makers[0]), users))
				return
			}
		}
		r.Unknown(rule, "mxj", "decoder set-up sites", "-", fmt.Sprintf("only %d function(s) that create a decoder for the element parsers found", len(sites)))
		return
	}
	// the reference is the majority signature
	count := map[string]int{}
	for _, s := range sites {
		count[s.sig]++
	}
	ref, best := "", 0
	for sg, k := range count {
		if k > best || (k == best && sg < ref) {
			ref, best = sg, k
		}
	}
	for _, s := range sites {
		if s.sig == ref {
			r.OK(rule, p.Name(s.fn), "decoder configured like its siblings", s.pos, "{"+s.sig+"}")
		} else {
			r.Bad(rule, p.Name(s.fn), "decoder configured like its siblings", s.pos, "this function sets its decoder up as {"+s.sig+"}, the other "+fmt.Sprint(best)+" as {"+ref+"}: the same document is decoded differently by the stream readers and by the direct decoders when CustomDecoder / XmlCharsetReader are set")
		}
	}
}

// ruleJsonNoMarshal (TABLE.norewrite clause, C06, C16): below Json / JsonIndent nothing is encoded with json.Marshal / json.MarshalIndent,
// which always escape <, > and &: the safe-encoding option would have no effect on that path.
func ruleJsonNoMarshal(p *Prog, r *Report) {
	const rule = "TABLE.norewrite"
	for _, n := range []string{"mxj.Map.Json", "mxj.Map.JsonIndent"} {
		fn := p.Fn(n)
		if fn == nil {
			r.Anchor(rule, n)
			continue
		}
		bad := ""
		for f := range p.Reach(fn) {
			if !p.InModule(f) || len(f.Blocks) == 0 || (f != fn && p.Exported(f)) {
				continue
			}
			eachInstr(f, func(b *ssa.BasicBlock, in ssa.Instruction) {
				if c, ok := in.(*ssa.Call); ok && isCallTo(&c.Call, "encoding/json.Marshal", "encoding/json.MarshalIndent") {
					bad = p.calleeName(&c.Call) + " at " + p.Pos(c.Pos())
				}
			})
		}
		if bad == "" {
			r.OK(rule, n, "every encoding path honours the escaping option", p.Pos(fn.Pos()), "no json.Marshal / json.MarshalIndent (which always escape) below this method")
		} else {
			r.Bad(rule, n, "every encoding path honours the escaping option", p.Pos(fn.Pos()), "the document can be produced by "+bad+", which escapes <, > and & whatever the safe-encoding option says: that path and the encoder path differ in more than white space")
		}
	}
}

// ruleJsonScanClosing (JSON.escape clause, C13, C19): every '}' the stream scanner receives reaches the place where the brace count is
// decremented and tested: no branch on the byte sends a closing brace back to the read loop unseen (which is what makes a document
// that lost its opening brace an error instead of silently skipped text).
func ruleJsonScanClosing(p *Prog, r *Report, name string) {
	const rule = "JSON.escape"
	fn := p.Fn(name)
	if fn == nil {
		r.Anchor(rule, name)
		return
	}
	isByte := func(v ssa.Value) bool {
		u, ok := v.(*ssa.UnOp)
		if !ok {
			return false
		}
		ia, ok := u.X.(*ssa.IndexAddr)
		if !ok {
			return false
		}
		k, isK := constInt(ia.Index)
		return isK && k == 0 && isByteSlice(ia.X.Type())
	}
	// the dispatch block: if byte == '}'
	var disp *ssa.BasicBlock
	var first *ssa.BasicBlock
	for _, b := range fn.Blocks {
		for _, in := range b.Instrs {
			if u, ok := in.(*ssa.UnOp); ok && isByte(u) && first == nil && innermostLoopHeader(b) != nil {
				first = b
			}
		}
		if len(b.Instrs) == 0 {
			continue
		}
		if ifi, ok := b.Instrs[len(b.Instrs)-1].(*ssa.If); ok {
			if bo, ok := ifi.Cond.(*ssa.BinOp); ok && bo.Op == token.EQL && isByte(bo.X) {
				if k, isK := constInt(bo.Y); isK && k == '}' {
					disp = b
				}
			}
		}
	}
	if disp == nil || first == nil {
		if m := p.scannerStepMethod(fn); m != nil {
			r.Assume(rule, name, "a closing brace reaches the brace count", p.Pos(fn.Pos()), "the scanner's state is kept in a struct updated by "+p.Name(m)+": this clause is decided for a scanner written inline in the read loop only")
			return
		}
		r.Unknown(rule, name, "a closing brace reaches the brace count", p.Pos(fn.Pos()), "the scanner's test for '}' was not found")
		return
	}
	hdr := innermostLoopHeader(disp)
	if hdr == nil {
		r.Unknown(rule, name, "a closing brace reaches the brace count", p.Pos(fn.Pos()), "the scanner's test for '}' is not inside the read loop")
		return
	}
	// start at the loop header and follow the paths on which a byte was received (n != 0)
	isCount := func(v ssa.Value) bool {
		ex, ok := v.(*ssa.Extract)
		if !ok || ex.Index != 0 {
			return false
		}
		c, ok := ex.Tuple.(ssa.CallInstruction)
		return ok && c.Common().IsInvoke() && c.Common().Method.Name() == "Read"
	}
	// inside a string a brace is text: the flag that is switched both on and off by the scanner (in-quote) is followed on its false side only
	quote := map[ssa.Value]bool{}
	for _, in := range hdr.Instrs {
		ph, ok := in.(*ssa.Phi)
		if !ok {
			break
		}
		if !isBoolType(ph.Type()) {
			continue
		}
		hasT, hasF := false, false
		seenV := map[ssa.Value]bool{}
		var walk func(v ssa.Value)
		walk = func(v ssa.Value) {
			if seenV[v] {
				return
			}
			seenV[v] = true
			if b, isC := constBool(v); isC {
				if b {
					hasT = true
				} else {
					hasF = true
				}
				return
			}
			if q, ok := v.(*ssa.Phi); ok && q != ph {
				for _, e := range q.Edges {
					walk(e)
				}
			}
			// inQuote = !inQuote
			if u, ok := v.(*ssa.UnOp); ok && u.Op == token.NOT && u.X == ssa.Value(ph) {
				hasT, hasF = true, true
			}
		}
		for i, pr := range hdr.Preds {
			if hdr.Dominates(pr) {
				walk(ph.Edges[i])
			}
		}
		if hasT && hasF {
			quote[ph] = true
		}
	}
	bad := ""
	seen := map[*ssa.BasicBlock]bool{hdr: true}
	work := []*ssa.BasicBlock{hdr}
	started := false
	for len(work) > 0 && bad == "" {
		b := work[len(work)-1]
		work = work[:len(work)-1]
		if b == disp {
			continue
		}
		skip := -1
		if ifi, ok := b.Instrs[len(b.Instrs)-1].(*ssa.If); ok {
			if bo, ok := ifi.Cond.(*ssa.BinOp); ok && isCount(bo.X) {
				if k, isK := constInt(bo.Y); isK && k == 0 {
					switch bo.Op {
					case token.EQL:
						skip = 0
					case token.NEQ, token.GTR:
						skip = 1
					}
				}
			}
		}
		if ifi, ok := b.Instrs[len(b.Instrs)-1].(*ssa.If); ok && skip < 0 {
			if v, val := boolTest(guard{ifi.Cond, true}); quote[v] {
				// the true edge establishes quote == val: follow only the side on which the scanner is outside a string
				if val {
					skip = 0
				} else {
					skip = 1
				}
			}
		}
		if ifi, ok := b.Instrs[len(b.Instrs)-1].(*ssa.If); ok && skip < 0 {
			if bo, ok := ifi.Cond.(*ssa.BinOp); ok && isByte(bo.X) {
				if k, isK := constInt(bo.Y); isK && k != '}' {
					switch bo.Op {
					case token.EQL:
						skip = 0 // the byte is '}': not equal to another constant
					case token.NEQ:
						skip = 1
					}
				}
			}
		}
		for si, sc := range b.Succs {
			if si == skip {
				continue
			}
			if sc == hdr && started {
				bad = p.Pos(firstPos(b))
				break
			}
			if !seen[sc] {
				seen[sc] = true
				work = append(work, sc)
			}
		}
		started = true
	}
	if bad == "" {
		r.OK(rule, name, "a closing brace reaches the brace count", p.Pos(firstPos(disp)), "no path feasible for the byte '}' returns to the read without passing the test that counts it")
	} else {
		r.Bad(rule, name, "a closing brace reaches the brace count", bad, "a '}' can be sent back to the read loop (from "+bad+") before the scanner has counted it: a closing brace outside a document is skipped instead of reported")
	}
}

// alwaysWrites: every path from the entry of h to a return passes a call that has an output sink (buffer / builder — a
// parameter, a captured variable or anything of that type) among its arguments, a call of enc, or a call of a function for which
// the same holds.
func (p *Prog) alwaysWrites(h *ssa.Function, enc *ssa.Function, depth int) bool {
	if len(h.Blocks) == 0 || depth > 2 {
		return false
	}
	wBlk := map[*ssa.BasicBlock]bool{}
	eachInstr(h, func(b *ssa.BasicBlock, in ssa.Instruction) {
		c, ok := in.(ssa.CallInstruction)
		if !ok {
			return
		}
		if g := staticCallee(c.Common()); g != nil {
			if g == enc || (g != h && p.InModule(g) && !p.Exported(g) && p.alwaysWrites(g, enc, depth+1)) {
				wBlk[b] = true
			}
		}
		for _, a := range c.Common().Args {
			v := a
			if mi, ok := a.(*ssa.MakeInterface); ok {
				v = mi.X
			}
			if isOutputSinkType(v.Type()) {
				if g := staticCallee(c.Common()); g == nil || !p.InModule(g) {
					wBlk[b] = true // a library call on the sink: a write
				}
			}
		}
	})
	if len(wBlk) == 0 {
		return false
	}
	seen := map[*ssa.BasicBlock]bool{h.Blocks[0]: true}
	work := []*ssa.BasicBlock{h.Blocks[0]}
	for len(work) > 0 {
		b := work[len(work)-1]
		work = work[:len(work)-1]
		if wBlk[b] {
			continue
		}
		if _, ok := b.Instrs[len(b.Instrs)-1].(*ssa.Return); ok {
			return false
		}
		for _, sc := range b.Succs {
			if !seen[sc] {
				seen[sc] = true
				work = append(work, sc)
			}
		}
	}
	return true
}

// ---- round 12 ---------------------------------------------------------------------------------------------------------------------------

// ruleSeqCastTag (CAST.seqtag, C18, C14): the sequence decoder hands cast() the empty tag: the function registered with
// SetCheckTagToSkipFunc is documented not to apply to the NewMapXmlSeq family, and cast() consults it for a non-empty tag only.
func ruleSeqCastTag(p *Prog, r *Report) {
	const rule = "CAST.seqtag"
	dec, castFn := p.Fn("mxj.xmlSeqToMapParser"), p.Fn("mxj.cast")
	if dec == nil || castFn == nil {
		r.Anchor(rule, "mxj.xmlSeqToMapParser")
		return
	}
	ord := newOrdinals()
	sites := p.decoderCastSites(dec, castFn)
	for _, c := range sites {
		cons := ord.key(p.Name(c.Parent()), "cast tag of the sequence decoder is empty")
		if s, ok := constString(c.Call.Args[2]); ok && s == "" {
			r.OK(rule, p.Name(c.Parent()), cons, p.Pos(c.Pos()), "cast(text, flag, \"\")")
		} else {
			r.Bad(rule, p.Name(c.Parent()), cons, p.Pos(c.Pos()), "the sequence decoder hands cast() a tag: the skip-tag function, documented not to apply to the sequence decoder, now decides whether these values are cast")
		}
	}
	if len(sites) == 0 {
		r.Unknown(rule, "mxj.xmlSeqToMapParser", "cast tag of the sequence decoder is empty", p.Pos(dec.Pos()), "no cast() call found")
	}
}

// ruleCopyNonNil (COPY.nonnil, C12): the helpers that copy a list for NewMap return a list of the same length, also when it is
// empty: the slice they return is allocated (make / a literal), never the zero slice grown by append, which stays nil for an empty list
// and turns `[]` into null.
func ruleCopyNonNil(p *Prog, r *Report) {
	const rule = "COPY.nonnil"
	root := p.Fn("mxj.Map.NewMap")
	if root == nil {
		r.Anchor(rule, "mxj.Map.NewMap")
		return
	}
	n := 0
	for f := range p.Reach(root) {
		if !p.InModule(f) || p.Exported(f) || len(f.Blocks) == 0 {
			continue
		}
		res := f.Signature.Results()
		if res.Len() != 1 {
			continue
		}
		sl, ok := res.At(0).Type().Underlying().(*types.Slice)
		if !ok || !isEmptyIface(sl.Elem()) || len(f.Params) != 1 || !types.Identical(f.Params[0].Type(), res.At(0).Type()) {
			continue
		}
		n++
		bad := ""
		eachInstr(f, func(b *ssa.BasicBlock, in ssa.Instruction) {
			ret, ok := in.(*ssa.Return)
			if !ok {
				return
			}
			seen := map[ssa.Value]bool{}
			var mayNil func(v ssa.Value) bool
			mayNil = func(v ssa.Value) bool {
				if seen[v] {
					return false
				}
				seen[v] = true
				switch x := v.(type) {
				case *ssa.Const:
					return x.IsNil()
				case *ssa.Phi:
					for _, e := range x.Edges {
						if mayNil(e) {
							return true
						}
					}
					return false
				case *ssa.Call:
					if isBuiltin(x, "append") {
						return mayNil(x.Call.Args[0])
					}
				case *ssa.Slice:
					return mayNil(x.X)
				}
				return false
			}
			if mayNil(ret.Results[0]) {
				bad = p.Pos(ret.Pos())
			}
		})
		if bad == "" {
			r.OK(rule, p.Name(f), "the copy of an empty list is an empty list", p.Pos(f.Pos()), "the returned slice is allocated on every path")
		} else {
			r.Bad(rule, p.Name(f), "the copy of an empty list is an empty list", bad, "the slice returned at "+bad+" can be the zero slice (declared without make and only grown by append): the copy of an empty list is nil, which encodes as null instead of []")
		}
	}
	if n == 0 {
		r.Unknown(rule, "mxj.Map.NewMap", "list copy helper", "-", "no list-copying helper found below NewMap")
	}
}

// ruleTypedValueUsed (PAIR.update clause, C10): the number or boolean parsed from a "key:value:type" new value is the value the
// walker is given: every successful strconv.Parse* result computed while the new value is taken apart flows into the value argument
// of the walker call. A result assigned to a variable that shadows the one handed on leaves the uncast string in place.
func ruleTypedValueUsed(p *Prog, r *Report, api string) {
	const rule = "PAIR.update"
	fn := p.Fn(api)
	if fn == nil {
		r.Anchor(rule, api)
		return
	}
	// the walker call: unexported module callee that receives a counter pointer
	var walk *ssa.Call
	eachInstr(fn, func(b *ssa.BasicBlock, in ssa.Instruction) {
		c, ok := in.(*ssa.Call)
		if !ok {
			return
		}
		g := staticCallee(&c.Call)
		if g == nil || !p.InModule(g) || p.Exported(g) {
			return
		}
		for _, a := range c.Call.Args {
			if pt, ok := a.Type().Underlying().(*types.Pointer); ok && isIntType(pt.Elem()) {
				walk = c
			}
		}
	})
	if walk == nil {
		r.Unknown(rule, api, "typed new value reaches the walker", p.Pos(fn.Pos()), "the walker call was not found")
		return
	}
	var valArg ssa.Value
	for _, a := range walk.Call.Args {
		if isEmptyIface(a.Type()) {
			valArg = a
			break
		}
	}
	if valArg == nil {
		r.Unknown(rule, api, "typed new value reaches the walker", p.Pos(walk.Pos()), "the walker's value argument was not found")
		return
	}
	slice := backwardSlice(fn, valArg)
	n, bad := 0, ""
	// Parse* calls in the function itself, or in an unexported helper whose result must then flow on
	eachInstr(fn, func(b *ssa.BasicBlock, in ssa.Instruction) {
		c, ok := in.(*ssa.Call)
		if !ok {
			return
		}
		isParse := hasPrefixAny(p.calleeName(&c.Call), "strconv.Parse")
		if !isParse {
			var parses func(g *ssa.Function, d int) bool
			parses = func(g *ssa.Function, d int) bool {
				found := false
				eachInstr(g, func(b2 *ssa.BasicBlock, i2 ssa.Instruction) {
					c2, ok := i2.(*ssa.Call)
					if !ok || found {
						return
					}
					if hasPrefixAny(p.calleeName(&c2.Call), "strconv.Parse") {
						found = true
					} else if h := staticCallee(&c2.Call); h != nil && h != g && p.InModule(h) && !p.Exported(h) && len(h.Blocks) > 0 && d < 3 && parses(h, d+1) {
						found = true
					}
				})
				return found
			}
			if g := staticCallee(&c.Call); g != nil && p.InModule(g) && !p.Exported(g) && len(g.Blocks) > 0 {
				isParse = parses(g, 0)
			}
		}
		if !isParse {
			return
		}
		// only conversions of (parts of) the new value
		fromNew := false
		for _, a := range c.Call.Args {
			for x := range backwardSlice(fn, a) {
				if prm, ok := x.(*ssa.Parameter); ok && isEmptyIface(prm.Type()) {
					fromNew = true
				}
			}
		}
		if !fromNew {
			return
		}
		n++
		if !slice[c] {
			bad = p.Pos(c.Pos())
		}
	})
	switch {
	case n == 0:
		r.Unknown(rule, api, "typed new value reaches the walker", p.Pos(fn.Pos()), "no conversion of the typed new value found")
	case bad != "":
		r.Bad(rule, api, "typed new value reaches the walker", bad, "the value converted at "+bad+" never reaches the value argument of the walker: the entries are set to the uncast string instead of the number or boolean asked for")
	default:
		r.OK(rule, api, "typed new value reaches the walker", p.Pos(walk.Pos()), fmt.Sprintf("%d conversion(s), each in the backward slice of the walker's value argument", n))
	}
}

// ruleResultOwnArray (ALIAS.result, C20, C07): a walker that collects into a result slice handed to it through a pointer never makes the
// document's own list the result (`*ret = node.([]interface{})`): the result would share the list's array, later appends write into
// the document's spare capacity and the caller can change the document through the result.
func ruleResultOwnArray(p *Prog, r *Report, names []string) {
	const rule = "ALIAS.result"
	for _, n := range names {
		fn := p.Fn(n)
		if fn == nil {
			r.Anchor(rule, n)
			continue
		}
		var ret *ssa.Parameter
		for _, prm := range fn.Params {
			if pt, ok := prm.Type().Underlying().(*types.Pointer); ok {
				if _, isSl := pt.Elem().Underlying().(*types.Slice); isSl {
					ret = prm
				}
			}
		}
		if ret == nil {
			r.Unknown(rule, n, "result pointer", p.Pos(fn.Pos()), "no result pointer parameter")
			continue
		}
		bad, ns := "", 0
		// the function itself and the unexported helpers it hands the result pointer to
		type retIn struct {
			f   *ssa.Function
			ptr ssa.Value
		}
		scope := []retIn{{fn, ret}}
		seenF := map[*ssa.Function]bool{fn: true}
		for i := 0; i < len(scope) && i < 6; i++ {
			cur := scope[i]
			eachInstr(cur.f, func(b *ssa.BasicBlock, in ssa.Instruction) {
				c, ok := in.(ssa.CallInstruction)
				if !ok {
					return
				}
				h := staticCallee(c.Common())
				if h == nil || seenF[h] || !p.InModule(h) || p.Exported(h) || len(h.Blocks) == 0 {
					return
				}
				for ai, a := range c.Common().Args {
					if a == cur.ptr && ai < len(h.Params) {
						seenF[h] = true
						scope = append(scope, retIn{h, h.Params[ai]})
					}
				}
			})
		}
		for _, sc := range scope {
			ret := sc.ptr
			eachInstr(sc.f, func(b *ssa.BasicBlock, in ssa.Instruction) {
				st, ok := in.(*ssa.Store)
				if !ok || st.Addr != ret {
					return
				}
				ns++
				// allowed: append(<load of *ret> …, …), a re-slice of *ret, a make
				seen := map[ssa.Value]bool{}
				var fromNode func(v ssa.Value) bool
				fromNode = func(v ssa.Value) bool {
					if seen[v] {
						return false
					}
					seen[v] = true
					switch x := v.(type) {
					case *ssa.TypeAssert:
						return true
					case *ssa.Extract:
						_, isTA := x.Tuple.(*ssa.TypeAssert)
						return isTA
					case *ssa.Phi:
						for _, e := range x.Edges {
							if fromNode(e) {
								return true
							}
						}
					case *ssa.Slice:
						return fromNode(x.X)
					case *ssa.Call:
						if isBuiltin(x, "append") {
							return fromNode(x.Call.Args[0])
						}
					}
					return false
				}
				if fromNode(st.Val) {
					bad = p.Pos(st.Pos())
				}
			})
		}
		if bad != "" {
			r.Bad(rule, n, "the result has an array of its own", bad, "the result slice is set to (or grown from) a list of the document itself at "+bad+": the result and the document share one array")
		} else if ns > 0 {
			r.OK(rule, n, "the result has an array of its own", p.Pos(fn.Pos()), fmt.Sprintf("%d stores to the result, none of them a list taken from the node", ns))
		} else {
			r.Unknown(rule, n, "the result has an array of its own", p.Pos(fn.Pos()), "no store to the result found")
		}
	}
}

// ruleJsonListWrapAlways (JSON.listwrap clause, C06): every input whose first byte is '[' is wrapped: from the true edge of the
// test jsonVal[0] == '[' no path reaches the decoder without passing the wrapper (a second condition on the test narrows the
// special case and lets some lists through to a decoder that rejects them).
func ruleJsonListWrapAlways(p *Prog, r *Report) {
	const rule = "JSON.listwrap"
	fn := p.Fn("mxj.NewMapJson")
	if fn == nil {
		r.Anchor(rule, "mxj.NewMapJson")
		return
	}
	isWrapConst := func(v ssa.Value) bool {
		if cv, ok := v.(*ssa.Convert); ok {
			v = cv.X
		}
		s, ok := constString(v)
		return ok && len(s) > 2 && s[0] == '{' && s[len(s)-1] == ':'
	}
	wrapBlk := map[*ssa.BasicBlock]bool{}
	decBlk := map[*ssa.BasicBlock]bool{}
	var test *ssa.If
	testIdx := 0
	eachInstr(fn, func(b *ssa.BasicBlock, in ssa.Instruction) {
		for _, op := range in.Operands(nil) {
			if op != nil && *op != nil && isWrapConst(*op) {
				wrapBlk[b] = true
			}
		}
		if c, ok := in.(*ssa.Call); ok {
			if h := staticCallee(&c.Call); h != nil && p.InModule(h) && !p.Exported(h) && len(h.Blocks) > 0 {
				eachInstr(h, func(b2 *ssa.BasicBlock, i2 ssa.Instruction) {
					for _, op := range i2.Operands(nil) {
						if op != nil && *op != nil && isWrapConst(*op) {
							wrapBlk[b] = true
						}
					}
					if c2, ok := i2.(ssa.CallInstruction); ok && isCallTo(c2.Common(), "(*encoding/json.Decoder).Decode", "encoding/json.Unmarshal") && !wrapBlk[b] {
						decBlk[b] = true
					}
				})
			}
		}
		if c, ok := in.(ssa.CallInstruction); ok && isCallTo(c.Common(), "(*encoding/json.Decoder).Decode", "encoding/json.Unmarshal") {
			decBlk[b] = true
		}
		if ifi, ok := in.(*ssa.If); ok {
			if bo, ok := ifi.Cond.(*ssa.BinOp); ok && (bo.Op == token.EQL || bo.Op == token.NEQ) {
				if k, isK := constInt(bo.Y); isK && k == '[' {
					if u, ok := bo.X.(*ssa.UnOp); ok {
						if ia, ok := u.X.(*ssa.IndexAddr); ok && ia.X == ssa.Value(fn.Params[0]) {
							test = ifi
							if bo.Op == token.NEQ {
								testIdx = 1
							}
						}
					}
				}
			}
		}
	})
	if test == nil || len(wrapBlk) == 0 || len(decBlk) == 0 {
		r.Unknown(rule, p.Name(fn), "every top-level list is wrapped", p.Pos(fn.Pos()), "the test for '[', the wrapper or the decoding call was not found")
		return
	}
	bad := false
	seen := map[*ssa.BasicBlock]bool{}
	work := []*ssa.BasicBlock{test.Block().Succs[testIdx]}
	for len(work) > 0 {
		b := work[len(work)-1]
		work = work[:len(work)-1]
		if seen[b] || wrapBlk[b] {
			continue
		}
		seen[b] = true
		if decBlk[b] {
			bad = true
			break
		}
		work = append(work, b.Succs...)
	}
	if bad {
		r.Bad(rule, p.Name(fn), "every top-level list is wrapped", p.Pos(test.Pos()), "an input that starts with '[' can reach the decoder without the object wrapper (a further condition narrows the special case): such lists are rejected instead of being decoded under the object key")
	} else {
		r.OK(rule, p.Name(fn), "every top-level list is wrapped", p.Pos(test.Pos()), "from the true edge of jsonVal[0] == '[' every path to the decoder passes the wrapper")
	}
}

// ruleJsonScanEscape (JSON.escape clause, C13, C19): inside a string every byte updates the "previous byte was an unescaped backslash"
// flag: no path on which the scanner is inside a string returns to the read without passing the block that computes the flag's
// new value (a fast path for ordinary string bytes that skips the update leaves the flag set after `\\n`).
func ruleJsonScanEscape(p *Prog, r *Report, name string) {
	const rule = "JSON.escape"
	fn := p.Fn(name)
	if fn == nil {
		r.Anchor(rule, name)
		return
	}
	isByte := func(v ssa.Value) bool {
		u, ok := v.(*ssa.UnOp)
		if !ok {
			return false
		}
		ia, ok := u.X.(*ssa.IndexAddr)
		if !ok {
			return false
		}
		k, isK := constInt(ia.Index)
		return isK && k == 0 && isByteSlice(ia.X.Type())
	}
	// the block that compares the byte with a backslash: where the flag's new value is computed
	var upd *ssa.BasicBlock
	eachInstr(fn, func(b *ssa.BasicBlock, in ssa.Instruction) {
		if bo, ok := in.(*ssa.BinOp); ok && bo.Op == token.EQL && isByte(bo.X) {
			if k, isK := constInt(bo.Y); isK && k == 92 && innermostLoopHeader(b) != nil {
				upd = b
			}
		}
	})
	if upd == nil {
		if m := p.scannerStepMethod(fn); m != nil {
			r.Assume(rule, name, "the escape flag follows every byte of a string", p.Pos(fn.Pos()), "the scanner's state is kept in a struct updated by "+p.Name(m)+": this clause is decided for a scanner written inline in the read loop only")
			return
		}
		r.Unknown(rule, name, "the escape flag follows every byte of a string", p.Pos(fn.Pos()), "no comparison of the byte with a backslash found in the read loop")
		return
	}
	hdr := innermostLoopHeader(upd)
	body := naturalLoop(hdr)
	// blocks from which upd is reached on every way back to the header: simply, upd dominates the latch … the flag phi at the
	// header must get, on every back edge taken inside a string, a value computed after upd. Search: from the header, follow paths
	// for received bytes with in-quote == true; reaching the header again without passing upd is the defect.
	quote := map[ssa.Value]bool{}
	for _, in := range hdr.Instrs {
		ph, ok := in.(*ssa.Phi)
		if !ok {
			break
		}
		if !isBoolType(ph.Type()) {
			continue
		}
		hasT, hasF := false, false
		seenV := map[ssa.Value]bool{}
		var walk func(v ssa.Value)
		walk = func(v ssa.Value) {
			if seenV[v] {
				return
			}
			seenV[v] = true
			if bv, isC := constBool(v); isC {
				if bv {
					hasT = true
				} else {
					hasF = true
				}
				return
			}
			if q, ok := v.(*ssa.Phi); ok && q != ph {
				for _, e := range q.Edges {
					walk(e)
				}
			}
			if u, ok := v.(*ssa.UnOp); ok && u.Op == token.NOT && u.X == ssa.Value(ph) {
				hasT, hasF = true, true
			}
		}
		for i, pr := range hdr.Preds {
			if hdr.Dominates(pr) {
				walk(ph.Edges[i])
			}
		}
		if hasT && hasF {
			quote[ph] = true
		}
	}
	if len(quote) == 0 {
		r.Unknown(rule, name, "the escape flag follows every byte of a string", p.Pos(fn.Pos()), "the in-string flag of the scanner was not recognised")
		return
	}
	isCount := func(v ssa.Value) bool {
		ex, ok := v.(*ssa.Extract)
		if !ok || ex.Index != 0 {
			return false
		}
		c, ok := ex.Tuple.(ssa.CallInstruction)
		return ok && c.Common().IsInvoke() && c.Common().Method.Name() == "Read"
	}
	_ = body
	// the escape flag: the header phi whose new value is computed from the comparison with the backslash
	var esc *ssa.Phi
	for _, in := range hdr.Instrs {
		ph, ok := in.(*ssa.Phi)
		if !ok {
			break
		}
		if !isBoolType(ph.Type()) || quote[ph] {
			continue
		}
		for i, pr := range hdr.Preds {
			if !hdr.Dominates(pr) {
				continue
			}
			for x := range backwardSliceStop(fn, ph.Edges[i], ph) {
				if bo, ok := x.(*ssa.BinOp); ok && bo.Op == token.EQL && isByte(bo.X) {
					if k, isK := constInt(bo.Y); isK && k == 92 {
						esc = ph
					}
				}
			}
		}
	}
	if esc == nil {
		r.Unknown(rule, name, "the escape flag follows every byte of a string", p.Pos(fn.Pos()), "the escape flag of the scanner was not recognised")
		return
	}
	bad := ""
	for i, pr := range hdr.Preds {
		if !hdr.Dominates(pr) {
			continue
		}
		// does this back edge carry the flag over unchanged?
		carried := false
		seenV := map[ssa.Value]bool{}
		var walk func(v ssa.Value)
		walk = func(v ssa.Value) {
			if seenV[v] {
				return
			}
			seenV[v] = true
			if v == ssa.Value(esc) {
				carried = true
				return
			}
			if q, ok := v.(*ssa.Phi); ok {
				for _, e := range q.Edges {
					walk(e)
				}
			}
		}
		walk(esc.Edges[i])
		if !carried {
			continue
		}
		// allowed where no byte was received, or where the scanner is outside a string
		okEdge := false
		gsEdge := dominatingGuards(pr)
		if ifi, ok := pr.Instrs[len(pr.Instrs)-1].(*ssa.If); ok {
			for si, sc := range pr.Succs {
				if sc == hdr {
					gsEdge = append(gsEdge, guard{ifi.Cond, si == 0})
				}
			}
		}
		for _, g := range expandAndGuards(gsEdge) {
			ng := normGuard(g)
			if bo, ok := ng.Cond.(*ssa.BinOp); ok && isCount(bo.X) {
				if k, isK := constInt(bo.Y); isK && k == 0 && ((bo.Op == token.EQL && ng.Pol) || (bo.Op == token.NEQ && !ng.Pol) || (bo.Op == token.GTR && !ng.Pol)) {
					okEdge = true
				}
			}
			if v, val := boolTest(g); quote[v] && !val {
				okEdge = true
			}
		}
		// a merged latch: the carried value may come in over some inner edges only; judge the inner predecessors
		if !okEdge {
			if q, ok := esc.Edges[i].(*ssa.Phi); ok && q != esc {
				allOK := true
				for j, e := range q.Edges {
					if e != ssa.Value(esc) {
						continue
					}
					inner := q.Block().Preds[j]
					innerOK := false
					for _, g := range expandAndGuards(dominatingGuards(inner)) {
						if v, val := boolTest(g); quote[v] && !val {
							innerOK = true
						}
						ng := normGuard(g)
						if bo, ok := ng.Cond.(*ssa.BinOp); ok && isCount(bo.X) {
							if k, isK := constInt(bo.Y); isK && k == 0 && ((bo.Op == token.EQL && ng.Pol) || (bo.Op == token.NEQ && !ng.Pol)) {
								innerOK = true
							}
						}
					}
					if !innerOK {
						allOK = false
					}
				}
				okEdge = allOK
			}
		}
		if !okEdge {
			bad = p.Pos(firstPos(pr))
		}
	}
	if bad == "" {
		r.OK(rule, name, "the escape flag follows every byte of a string", p.Pos(firstPos(upd)), "inside a string no byte other than the quote returns to the read without passing the comparison with the backslash")
	} else {
		r.Bad(rule, name, "the escape flag follows every byte of a string", bad, "inside a string a byte can return to the read (from "+bad+") without the escape flag having been recomputed: after an escape such as \\\\n the flag stays set and the next quote is taken for an escaped one")
	}
}

// scannerStepMethod: the read loop of fn hands the received byte to a method / function of the module (the scanner's state lives in
// a struct that the method updates). The two byte-level clauses of JSON.escape are decided for the inline form only.
func (p *Prog) scannerStepMethod(fn *ssa.Function) *ssa.Function {
	var out *ssa.Function
	eachInstr(fn, func(b *ssa.BasicBlock, in ssa.Instruction) {
		c, ok := in.(*ssa.Call)
		if !ok || innermostLoopHeader(b) == nil {
			return
		}
		g := staticCallee(&c.Call)
		if g == nil || !p.InModule(g) {
			return
		}
		for _, a := range c.Call.Args {
			if u, ok := a.(*ssa.UnOp); ok {
				if ia, ok := u.X.(*ssa.IndexAddr); ok && isByteSlice(ia.X.Type()) {
					out = g
				}
			}
		}
	})
	return out
}

// ---- ROOT.ownkey (C02, C03, C04, C16) ------------------------------------------------------------------------------------------------------

// ruleRootOwnKey: a Map with exactly one member and no root tag given is encoded with that member's key as the root element; the
// only member values for which the encoders may hang the whole Map from DefaultRootTag instead are lists (a list has no element
// of its own to be the root). Stated over the code: inside the single-iteration loop over the receiver, every place that hands the
// *whole receiver* to the element encoder as the value — directly, or as the incoming value of a phi that reaches the call — is
// dominated by a successful `[]interface{}` type test of the loop's member value. A wrap decided by anything else (a failed test
// for a map, a test of the key) puts an element into the document that the decoded input did not have.
func ruleRootOwnKey(p *Prog, r *Report) {
	const rule = "ROOT.ownkey"
	for _, n := range []string{"mxj.Map.Xml", "mxj.Map.XmlIndent", "mxj.MapSeq.Xml", "mxj.MapSeq.XmlIndent"} {
		fn := p.Fn(n)
		if fn == nil {
			r.Anchor(rule, n)
			continue
		}
		if len(fn.Params) == 0 {
			continue
		}
		recv := ssa.Value(fn.Params[0])
		isRecv := func(v ssa.Value) bool {
			for i := 0; i < 6; i++ {
				switch x := v.(type) {
				case *ssa.MakeInterface:
					v = x.X
					continue
				case *ssa.ChangeType:
					v = x.X
					continue
				case *ssa.Convert:
					v = x.X
					continue
				}
				break
			}
			return v == recv
		}
		cz := p.canonFor(fn)
		type site struct {
			blk  *ssa.BasicBlock
			edge int // successor index of blk taken (-1: the block itself)
			pos  string
		}
		var sites []site
		nCalls := 0
		seenPhi := map[*ssa.Phi]bool{}
		var fromPhi func(ph *ssa.Phi, pos string)
		fromPhi = func(ph *ssa.Phi, pos string) {
			if seenPhi[ph] {
				return
			}
			seenPhi[ph] = true
			for i, e := range ph.Edges {
				pred := ph.Block().Preds[i]
				if isRecv(e) {
					idx := -1
					for si, sc := range pred.Succs {
						if sc == ph.Block() {
							idx = si
						}
					}
					sites = append(sites, site{pred, idx, pos})
				} else if q, ok := e.(*ssa.Phi); ok {
					fromPhi(q, pos)
				}
			}
		}
		eachInstr(fn, func(b *ssa.BasicBlock, in ssa.Instruction) {
			c, ok := in.(*ssa.Call)
			if !ok {
				return
			}
			g := staticCallee(&c.Call)
			if g == nil || !p.InModule(g) || p.Exported(g) {
				return
			}
			sink := false
			for _, a := range c.Call.Args {
				if isOutputSinkType(a.Type()) {
					sink = true
				}
			}
			if !sink {
				return
			}
			nCalls++
			for _, a := range c.Call.Args {
				if !types.IsInterface(a.Type()) {
					continue
				}
				if isRecv(a) {
					sites = append(sites, site{b, -1, p.Pos(c.Pos())})
				} else if ph, ok := a.(*ssa.Phi); ok {
					fromPhi(ph, p.Pos(c.Pos()))
				} else if mi, ok := a.(*ssa.MakeInterface); ok {
					if ph, ok := mi.X.(*ssa.Phi); ok {
						fromPhi(ph, p.Pos(c.Pos()))
					}
				}
			}
		})
		if nCalls == 0 {
			r.Assume(rule, n, "the whole Map becomes the root's content only for a list member", p.Pos(fn.Pos()), "no call of an element encoder in this function: the root is chosen elsewhere, the clause is not decided here")
			continue
		}
		bad, assumed := "", ""
		nIn := 0
		for _, l := range findMapLoops(fn) {
			if l.next == nil || !isRecv(l.src) || !p.lenIsOneGuard(l) {
				continue
			}
			// the member value of the loop
			var member []ssa.Value
			for _, ref := range *l.next.Referrers() {
				if ex, ok := ref.(*ssa.Extract); ok && ex.Index == 2 {
					member = append(member, ex)
				}
			}
			isMember := func(v ssa.Value) bool {
				for _, mv := range member {
					if v == mv || cz.of(v) == cz.of(mv) {
						return true
					}
				}
				return false
			}
			// the region entered with a member in hand: everything dominated by the header's edge into the body (a `goto done`
			// after the call leaves the natural loop but not this region)
			inRegion := func(b *ssa.BasicBlock) bool {
				if b == l.header {
					return false
				}
				for si, sc := range l.header.Succs {
					if l.body[sc] && sc != l.header && edgeDominates(l.header, si, b) {
						return true
					}
				}
				return false
			}
			for _, s := range sites {
				if !inRegion(s.blk) {
					continue
				}
				nIn++
				opaque := false
				gs := dominatingGuards(s.blk)
				if s.edge >= 0 {
					if ifi, ok := s.blk.Instrs[len(s.blk.Instrs)-1].(*ssa.If); ok {
						gs = append(gs, guard{ifi.Cond, s.edge == 0})
					}
				}
				listOK := false
				// isListGuard: the guard is a successful []interface{} test of the member value
				isListGuard := func(g guard) bool {
					ng := normGuard(g)
					ex, ok := ng.Cond.(*ssa.Extract)
					if !ok || ex.Index != 1 || !ng.Pol {
						return false
					}
					ta, ok := ex.Tuple.(*ssa.TypeAssert)
					if !ok || !isMember(ta.X) {
						return false
					}
					sl, ok := ta.AssertedType.Underlying().(*types.Slice)
					return ok && types.IsInterface(sl.Elem())
				}
				// a boolean flag decided earlier (keyIsRoot := true; … = false under the list test): every edge that can deliver the
				// tested polarity comes from a block dominated by the list test
				var flagImplies func(ph *ssa.Phi, pol bool, seen map[*ssa.Phi]bool) bool
				flagImplies = func(ph *ssa.Phi, pol bool, seen map[*ssa.Phi]bool) bool {
					if seen[ph] {
						return true
					}
					seen[ph] = true
					some := false
					for i, e := range ph.Edges {
						if bv, isC := constBool(e); isC {
							if bv != pol {
								continue
							}
							okEdge := false
							for _, g := range expandAndGuards(dominatingGuards(ph.Block().Preds[i])) {
								if isListGuard(g) {
									okEdge = true
								}
							}
							if !okEdge {
								return false
							}
							some = true
							continue
						}
						q, isPhi := e.(*ssa.Phi)
						if !isPhi || !flagImplies(q, pol, seen) {
							return false
						}
						some = true
					}
					return some
				}
				for _, g := range expandAndGuards(gs) {
					ng := normGuard(g)
					if ph, ok := ng.Cond.(*ssa.Phi); ok && isBoolType(ph.Type()) {
						if flagImplies(ph, ng.Pol, map[*ssa.Phi]bool{}) {
							listOK = true
						}
						continue
					}
					if c, ok := ng.Cond.(*ssa.Call); ok {
						// a predicate of the member value: true only for lists?
						if h := staticCallee(&c.Call); h != nil && p.InModule(h) && len(h.Blocks) > 0 {
							for ai, a := range c.Call.Args {
								if isMember(a) && ai < len(h.Params) {
									if ng.Pol && predicateImpliesList(h, h.Params[ai]) {
										listOK = true
									} else {
										opaque = true
									}
								}
							}
						}
						continue
					}
					ex, ok := ng.Cond.(*ssa.Extract)
					if !ok || ex.Index != 1 || !ng.Pol {
						continue
					}
					ta, ok := ex.Tuple.(*ssa.TypeAssert)
					if !ok || !isMember(ta.X) {
						continue
					}
					if sl, ok := ta.AssertedType.Underlying().(*types.Slice); ok && types.IsInterface(sl.Elem()) {
						listOK = true
					}
				}
				if !listOK && opaque {
					assumed = s.pos
					continue
				}
				if !listOK && bad == "" {
					bad = s.pos
				}
			}
		}
		if bad != "" {
			r.Bad(rule, n, "the whole Map becomes the root's content only for a list member", bad, "inside the loop over the single member the element encoder call at "+bad+" receives the whole Map (wrapped in a default root) on a path that has not established that the member value is a []interface{}: a document whose root is not a list gets an extra element")
		} else if assumed != "" {
			r.Assume(rule, n, "the whole Map becomes the root's content only for a list member", assumed, "the wrap at "+assumed+" is decided by a predicate function of the member value whose true result could not be tied to a []interface{} test; assumed to hold for lists only")
		} else {
			r.OK(rule, n, "the whole Map becomes the root's content only for a list member", p.Pos(fn.Pos()), fmt.Sprintf("%d element encoder call(s), %d wrap site(s) inside the single-member loop, each dominated by a successful []interface{} test of the member value", nCalls, nIn))
		}
	}
}

// predicateImpliesList: every return of h that may yield true is dominated by a successful []interface{} test of prm.
func predicateImpliesList(h *ssa.Function, prm *ssa.Parameter) bool {
	found := false
	for _, b := range h.Blocks {
		ret, ok := b.Instrs[len(b.Instrs)-1].(*ssa.Return)
		if !ok || len(ret.Results) != 1 {
			continue
		}
		if v, isC := constBool(ret.Results[0]); isC && !v {
			continue
		}
		okList := false
		for _, g := range expandAndGuards(dominatingGuards(b)) {
			ng := normGuard(g)
			ex, ok := ng.Cond.(*ssa.Extract)
			if !ok || ex.Index != 1 || !ng.Pol {
				continue
			}
			ta, ok := ex.Tuple.(*ssa.TypeAssert)
			if !ok || ta.X != ssa.Value(prm) {
				continue
			}
			if sl, ok := ta.AssertedType.Underlying().(*types.Slice); ok && types.IsInterface(sl.Elem()) {
				okList = true
			}
		}
		if !okList {
			return false
		}
		found = true
	}
	return found
}

// isSegListType: a parsed path — a slice of segment records, by pointer or by value.
func isSegListType(t types.Type) bool {
	sl, ok := t.Underlying().(*types.Slice)
	if !ok {
		return false
	}
	et := sl.Elem().Underlying()
	if pt, ok := et.(*types.Pointer); ok {
		et = pt.Elem().Underlying()
	}
	_, isStruct := et.(*types.Struct)
	return isStruct
}

// segClassOfResult: the class of result idx of an unexported helper that is handed the path. Every return contributes the class
// of what it returns; "" (empty string) results are ignored, and the path itself counts as its own first / last segment where
// the return is guarded by a failed search for a separator.
func (p *Prog) segClassOfResult(c *ssa.Call, idx int, isPath func(ssa.Value) bool, depth int) string {
	g := staticCallee(&c.Call)
	var bound []*ssa.Parameter
	for i, a := range c.Call.Args {
		if i < len(g.Params) && isPath(a) {
			bound = append(bound, g.Params[i])
		}
	}
	if len(bound) == 0 {
		return ""
	}
	inner := func(w ssa.Value) bool {
		for _, b := range bound {
			if w == ssa.Value(b) {
				return true
			}
		}
		return false
	}
	noSepGuard := func(b *ssa.BasicBlock) bool {
		for _, gd := range dominatingGuards(b) {
			ng := normGuard(gd)
			bo, ok := ng.Cond.(*ssa.BinOp)
			if !ok {
				continue
			}
			ic, ok := bo.X.(*ssa.Call)
			if !ok || !isCallTo(&ic.Call, "strings.LastIndex", "strings.LastIndexByte", "strings.Index", "strings.IndexByte") || !inner(ic.Call.Args[0]) {
				continue
			}
			k, isK := constInt(bo.Y)
			if !isK {
				continue
			}
			switch {
			case bo.Op == token.LSS && k == 0 && ng.Pol, bo.Op == token.GEQ && k == 0 && !ng.Pol,
				bo.Op == token.EQL && k == -1 && ng.Pol, bo.Op == token.NEQ && k == -1 && !ng.Pol,
				bo.Op == token.GTR && k == -1 && !ng.Pol, bo.Op == token.LEQ && k == -1 && ng.Pol:
				return true
			}
		}
		return false
	}
	cls, ok, whole := "", true, false
	eachInstr(g, func(b *ssa.BasicBlock, in ssa.Instruction) {
		ret, isR := in.(*ssa.Return)
		if !isR || idx >= len(ret.Results) {
			return
		}
		cc := p.segClass(ret.Results[idx], inner, depth+1)
		if cc == "empty" {
			return
		}
		if cc == "path" && noSepGuard(b) {
			whole = true
			return
		}
		if cls == "" {
			cls = cc
		} else if cls != cc {
			ok = false
		}
		if cc == "" {
			ok = false
		}
	})
	if !ok {
		return ""
	}
	if whole {
		switch cls {
		case "last", "first":
			return cls
		case "":
			return "path"
		default:
			return ""
		}
	}
	return cls
}
