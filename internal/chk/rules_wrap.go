package chk

import (
	"fmt"
	"go/token"
	"go/types"
	"os"
	"sort"
	"strings"

	"golang.org/x/tools/go/ssa"
)

// ===== family D: WRAP / FWD — wrapper conformance and option forwarding ==========================

// wrapSpec: a wrapper and the documented composition of module calls it must consist of (in order).
type wrapSpec struct {
	Fn    string
	Calls []string
	First bool // returns the first element / a projection of the callee's result rather than the result itself
}

// wrapInnerOK: wrappers in which a stage may be replaced by the module function whose results the stage itself returns (see ruleWrapCompose)
var wrapInnerOK = map[string]bool{"mxj.Map.Copy": true}

func j2xSpecs() []wrapSpec {
	return []wrapSpec{
		{"j2x.JsonToMap", []string{"mxj.NewMapJson"}, false},
		{"j2x.MapToJson", []string{"mxj.Map.Json"}, false},
		{"j2x.JsonToXml", []string{"mxj.NewMapJson", "mxj.Map.Xml"}, false},
		{"j2x.JsonToXmlWriter", []string{"mxj.NewMapJson", "mxj.Map.XmlWriter"}, false},
		{"j2x.JsonReaderToXml", []string{"mxj.NewMapJsonReaderRaw", "mxj.Map.Xml"}, false},
		{"j2x.JsonReaderToXmlWriter", []string{"mxj.NewMapJsonReader", "mxj.Map.XmlWriter"}, false},
		{"j2x.JsonPathsForKey", []string{"mxj.NewMapJson", "mxj.Map.PathsForKey"}, false},
		{"j2x.JsonPathForKeyShortest", []string{"mxj.NewMapJson", "mxj.Map.PathForKeyShortest"}, false},
		{"j2x.JsonValuesForKey", []string{"mxj.NewMapJson", "mxj.Map.ValuesForKey"}, false},
		{"j2x.JsonValuesForKeyPath", []string{"mxj.NewMapJson", "mxj.Map.ValuesForPath"}, false},
		{"j2x.JsonUpdateValsForPath", []string{"mxj.NewMapJson", "mxj.Map.UpdateValuesForPath", "mxj.Map.Json"}, false},
		{"j2x.JsonNewJson", []string{"mxj.NewMapJson", "mxj.Map.NewMap", "mxj.Map.Json"}, false},
		{"j2x.JsonNewXml", []string{"mxj.NewMapJson", "mxj.Map.NewMap", "mxj.Map.Xml"}, false},
		{"j2x.JsonLeafNodes", []string{"mxj.NewMapJson", "mxj.Map.LeafNodes"}, false},
		{"j2x.JsonLeafValues", []string{"mxj.NewMapJson", "mxj.Map.LeafValues"}, false},
		{"j2x.JsonLeafPath", []string{"mxj.NewMapJson", "mxj.Map.LeafPaths"}, false},
	}
}

func x2jSpecs() []wrapSpec {
	return []wrapSpec{
		{"x2j.XmlToMap", []string{"mxj.NewMapXml"}, false},
		{"x2j.MapToXml", []string{"mxj.Map.Xml"}, false},
		{"x2j.XmlToJson", []string{"mxj.NewMapXml", "mxj.Map.Json"}, false},
		{"x2j.XmlToJsonWriter", []string{"mxj.NewMapXml", "mxj.Map.JsonWriterRaw"}, false},
		{"x2j.XmlReaderToJson", []string{"mxj.NewMapXmlReaderRaw", "mxj.Map.Json"}, false},
		{"x2j.XmlReaderToJsonWriter", []string{"mxj.NewMapXmlReaderRaw", "mxj.Map.JsonWriterRaw"}, false},
		{"x2j.XmlPathsForTag", []string{"mxj.NewMapXml", "mxj.Map.PathsForKey"}, false},
		{"x2j.XmlPathForTagShortest", []string{"mxj.NewMapXml", "mxj.Map.PathForKeyShortest"}, false},
		{"x2j.XmlValuesForTag", []string{"mxj.NewMapXml", "mxj.Map.ValuesForKey"}, false},
		{"x2j.XmlValuesForPath", []string{"mxj.NewMapXml", "mxj.Map.ValuesForPath"}, false},
		{"x2j.XmlUpdateValsForPath", []string{"mxj.NewMapXml", "mxj.Map.UpdateValuesForPath", "mxj.Map.Xml"}, false},
		{"x2j.XmlNewXml", []string{"mxj.NewMapXml", "mxj.Map.NewMap", "mxj.Map.Xml"}, false},
		{"x2j.XmlNewJson", []string{"mxj.NewMapXml", "mxj.Map.NewMap", "mxj.Map.Json"}, false},
		{"x2j.XmlLeafNodes", []string{"mxj.NewMapXml", "mxj.Map.LeafNodes"}, false},
		{"x2j.XmlLeafValues", []string{"mxj.NewMapXml", "mxj.Map.LeafValues"}, false},
		{"x2j.XmlLeafPath", []string{"mxj.NewMapXml", "mxj.Map.LeafPaths"}, false},
	}
}

func x2jwSpecs() []wrapSpec {
	return []wrapSpec{
		{"x2jw.CastNanInf", []string{"mxj.CastNanInf"}, false},
		{"x2jw.DocToJson", []string{"mxj.NewMapXml", "mxj.Map.Json"}, false},
		{"x2jw.DocToJsonIndent", []string{"mxj.NewMapXml", "mxj.Map.JsonIndent"}, false},
		{"x2jw.DocToMap", []string{"mxj.NewMapXml"}, false},
		{"x2jw.ByteDocToJson", []string{"mxj.NewMapXml", "mxj.Map.Json"}, false},
		{"x2jw.ByteDocToMap", []string{"mxj.NewMapXml"}, false},
		{"x2jw.ToMap", []string{"mxj.NewMapXmlReader"}, false},
		{"x2jw.ToJson", []string{"mxj.NewMapXmlReader"}, false},
		{"x2jw.ToJsonIndent", []string{"mxj.NewMapXmlReader"}, false},
		{"x2jw.XmlBufferToMap", []string{"mxj.NewMapXmlReader"}, false},
		{"x2jw.XmlBufferToJson", []string{"mxj.NewMapXmlReader", "mxj.Map.Json"}, false},
		{"x2jw.PathsForTag", []string{"mxj.NewMapXml", "x2jw.PathsForKey"}, false},
		{"x2jw.PathForTagShortest", []string{"mxj.NewMapXml", "x2jw.PathForKeyShortest"}, false},
		{"x2jw.BytePathsForTag", []string{"mxj.NewMapXml", "x2jw.PathsForKey"}, false},
		{"x2jw.BytePathForTagShortest", []string{"x2jw.ByteDocToMap", "x2jw.PathForKeyShortest"}, false},
		{"x2jw.ValuesForTag", []string{"mxj.NewMapXml", "x2jw.ValuesForKey"}, false},
		{"x2jw.ValuesFromTagPath", []string{"mxj.NewMapXml", "x2jw.ValuesFromKeyPath"}, false},
		{"x2jw.ValuesAtTagPath", []string{"mxj.NewMapXml", "x2jw.ValuesAtKeyPath"}, false},
		{"x2jw.ReaderValuesFromTagPath", []string{"mxj.NewMapXmlReader", "x2jw.ValuesFromKeyPath"}, false},
		{"x2jw.ReaderValuesForTag", []string{"mxj.NewMapXmlReader", "x2jw.ValuesForKey"}, false},
	}
}

func coreWrapSpecs() []wrapSpec {
	return []wrapSpec{
		{"mxj.Map.ValueForPath", []string{"mxj.Map.ValuesForPath"}, true},
		{"mxj.Map.ValueForPathString", []string{"mxj.Map.ValuesForPath"}, true},
		{"mxj.Map.ValueOrEmptyForPathString", []string{"mxj.Map.ValueForPathString"}, false},
		{"mxj.Map.Exists", []string{"mxj.Map.ValuesForPath"}, true},
		{"mxj.Map.ValueForKey", []string{"mxj.Map.ValuesForKey"}, true},
	}
}

// moduleCalls returns the calls of fn to module functions ordered by position; unexported module helpers
// are expanded (depth-bounded) so that routing a wrapper body through a shared helper leaves the sequence unchanged.
type mcall struct {
	Instr  ssa.CallInstruction
	Callee *ssa.Function
	Owner  *ssa.Function // function containing the instruction (fn itself or an expanded helper)
}

func (p *Prog) moduleCalls(fn *ssa.Function, depth int) []mcall {
	return p.moduleCallsK(fn, depth, nil)
}

// moduleCallsK: known holds the boolean parameters of fn that the expanding call site passes as constants; blocks reached only
// over an edge that contradicts them are not part of what this call of the helper executes.
func (p *Prog) moduleCallsK(fn *ssa.Function, depth int, known map[*ssa.Parameter]bool) []mcall {
	var out []mcall
	dead := map[*ssa.BasicBlock]bool{}
	if len(known) > 0 {
		for _, b := range fn.Blocks {
			for _, g := range dominatingGuards(b) {
				ng := normGuard(g)
				if prm, ok := ng.Cond.(*ssa.Parameter); ok {
					if v, isK := known[prm]; isK && v != ng.Pol {
						dead[b] = true
					}
				}
			}
		}
	}
	for _, in := range instrsByPos(fn) {
		ci, ok := in.(ssa.CallInstruction)
		if !ok || dead[in.Block()] {
			continue
		}
		g := staticCallee(ci.Common())
		if g == nil || !p.InModule(g) {
			continue
		}
		if g.Parent() != nil {
			continue // closure call
		}
		if !p.Exported(g) && depth > 0 && g != fn {
			var k map[*ssa.Parameter]bool
			for i, a := range ci.Common().Args {
				if i < len(g.Params) && isBoolType(g.Params[i].Type()) {
					if bv, isC := constBool(a); isC {
						if k == nil {
							k = map[*ssa.Parameter]bool{}
						}
						k[g.Params[i]] = bv
					}
				}
			}
			out = append(out, p.moduleCallsK(g, depth-1, k)...)
			continue
		}
		out = append(out, mcall{ci, g, fn})
	}
	return out
}

func isErrorType(t types.Type) bool {
	return types.Identical(t, types.Universe.Lookup("error").Type())
}

// resultsOf: the SSA values of a call's results (the call value itself for one result, Extracts for a tuple).
func resultsOf(ci ssa.CallInstruction) []ssa.Value {
	v := ci.Value()
	if v == nil {
		return nil
	}
	sig := ci.Common().Signature()
	n := sig.Results().Len()
	if n == 1 {
		return []ssa.Value{v}
	}
	out := make([]ssa.Value, n)
	if refs := v.Referrers(); refs != nil {
		for _, r := range *refs {
			if ex, ok := r.(*ssa.Extract); ok {
				out[ex.Index] = ex
			}
		}
	}
	return out
}

func errResult(ci ssa.CallInstruction) ssa.Value {
	sig := ci.Common().Signature()
	res := resultsOf(ci)
	for i := 0; i < sig.Results().Len(); i++ {
		if isErrorType(sig.Results().At(i).Type()) && i < len(res) {
			return res[i]
		}
	}
	return nil
}

// errCheckedBefore: blk is dominated by the "err is nil" edge of a test of errv.
func errCheckedBefore(errv ssa.Value, blk *ssa.BasicBlock) bool {
	if errv == nil {
		return true
	}
	for _, g := range dominatingGuards(blk) {
		ng := normGuard(g)
		bo, ok := ng.Cond.(*ssa.BinOp)
		if !ok {
			continue
		}
		var other ssa.Value
		if sameThroughPhi(bo.X, errv) {
			other = bo.Y
		} else if sameThroughPhi(bo.Y, errv) {
			other = bo.X
		} else {
			continue
		}
		if !isNilConst(other) {
			continue
		}
		if (bo.Op == token.NEQ && !ng.Pol) || (bo.Op == token.EQL && ng.Pol) {
			return true
		}
	}
	return false
}

func sameThroughPhi(a, b ssa.Value) bool {
	if a == b {
		return true
	}
	if ph, ok := a.(*ssa.Phi); ok {
		for _, e := range ph.Edges {
			if e == b {
				return true
			}
		}
	}
	return false
}

func ruleWrapCompose(p *Prog, r *Report, specs []wrapSpec) {
	const rule = "WRAP.compose"
	for _, sp := range specs {
		fn := p.Fn(sp.Fn)
		if fn == nil {
			r.Anchor(rule, sp.Fn)
			continue
		}
		for _, c := range sp.Calls {
			if p.Fn(c) == nil {
				r.Anchor(rule, c)
			}
		}
		pos := p.Pos(fn.Pos())
		calls := p.moduleCalls(fn, 0)
		names := func(cs []mcall) []string {
			var out []string
			for _, c := range cs {
				out = append(out, p.Name(c.Callee))
			}
			return out
		}
		direct := true
		if strings.Join(names(calls), ",") != strings.Join(sp.Calls, ",") {
			calls = p.moduleCalls(fn, 3)
			direct = false
		}
		// a wrapper may delegate to a sibling wrapper of the same table (DocToJson → ByteDocToJson): the sibling's own documented
		// composition, which is checked in its own right, stands for the call
		if strings.Join(names(calls), ",") != strings.Join(sp.Calls, ",") {
			var sub []string
			via := ""
			for _, c := range p.moduleCalls(fn, 0) {
				cn := p.Name(c.Callee)
				replaced := false
				for _, other := range specs {
					if other.Fn == cn && other.Fn != sp.Fn {
						sub = append(sub, other.Calls...)
						via = cn
						replaced = true
					}
				}
				if !replaced {
					sub = append(sub, cn)
				}
			}
			if via != "" && strings.Join(sub, ",") == strings.Join(sp.Calls, ",") {
				r.OK(rule, sp.Fn, "composition", pos, "delegates to "+via+", whose documented composition completes "+strings.Join(sp.Calls, " then "))
				for _, prm := range fn.Params {
					hits := reachesCallArg(fn, prm, func(c *ssa.CallCommon) bool {
						g := staticCallee(c)
						return g != nil && p.InModule(g)
					})
					if len(hits) > 0 {
						r.OK("FWD.param", sp.Fn, "parameter "+prm.Name(), pos, "flows into "+p.calleeName(hits[0].Common()))
					} else {
						r.Bad("FWD.param", sp.Fn, "parameter "+prm.Name(), pos, "parameter never reaches the wrapped call: the option/argument is silently ignored")
					}
				}
				r.Assume(rule, sp.Fn, "data flow through the sibling wrapper", pos, "receiver chaining and result identity are checked in "+via+", not re-checked across the delegation")
				continue
			}
		}
		inner := ""
		if strings.Join(names(calls), ",") != strings.Join(sp.Calls, ",") && wrapInnerOK[sp.Fn] {
			// Copy: encoding a Map yields an object (or null), so the stages' own preambles (option resolution, the empty-input and
			// top-level-list cases of NewMapJson) have nothing to do; calling the function a stage returns the results of is the
			// same composition. Recorded as an assumption, not decided.
			direct = true
			calls = p.moduleCalls(fn, 0)
			// an unexported helper that carries the whole composition is looked into, down to the stages' own inner functions
			innerFns := map[*ssa.Function]bool{}
			for _, sn := range sp.Calls {
				if st := p.Fn(sn); st != nil {
					for h := range returnsResultsOf(st) {
						innerFns[h] = true
					}
				}
			}
			if len(calls) == 1 && !p.Exported(calls[0].Callee) && !innerFns[calls[0].Callee] {
				var ex []mcall
				for _, c := range p.moduleCalls(calls[0].Callee, 0) {
					ex = append(ex, c)
				}
				if len(ex) == len(sp.Calls) {
					calls = ex
					direct = false
				}
			}
			ns := names(calls)
			if len(ns) == len(sp.Calls) {
				for i := range ns {
					if ns[i] == sp.Calls[i] {
						continue
					}
					st := p.Fn(sp.Calls[i])
					if st != nil && returnsResultsOf(st)[calls[i].Callee] {
						inner += " " + ns[i] + " for " + sp.Calls[i]
						ns[i] = sp.Calls[i]
					}
				}
				if strings.Join(ns, ",") == strings.Join(sp.Calls, ",") {
					r.Assume(rule, sp.Fn, "inner stages", pos, "calls"+inner+": the function whose results the documented stage returns; premise: a Map encodes as a JSON object or null, so the skipped preamble of the stage does nothing")
				} else {
					inner = ""
				}
			}
		}
		if inner == "" && strings.Join(names(calls), ",") != strings.Join(sp.Calls, ",") {
			r.Bad(rule, sp.Fn, "composition", pos, fmt.Sprintf("documented composition is %v, the resolved program calls %v", sp.Calls, names(calls)))
			continue
		}
		r.OK(rule, sp.Fn, "composition", pos, "calls exactly "+strings.Join(sp.Calls, " then ")+inner)
		// (b) every parameter flows into an argument of a spec call (or, for First-forms, into a branch)
		for _, prm := range fn.Params {
			hits := reachesCallArg(fn, prm, func(c *ssa.CallCommon) bool {
				g := staticCallee(c)
				return g != nil && p.InModule(g)
			})
			if len(hits) > 0 {
				r.OK("FWD.param", sp.Fn, "parameter "+prm.Name(), pos, "flows into "+p.calleeName(hits[0].Common()))
			} else {
				r.Bad("FWD.param", sp.Fn, "parameter "+prm.Name(), pos, "parameter never reaches the wrapped call: the option/argument is silently ignored")
			}
		}
		if !direct {
			r.Assume(rule, sp.Fn, "data flow through helper", pos, "composition matched after helper expansion; receiver chaining and result identity are not re-checked across the helper")
			continue
		}
		// (c) receiver chaining and (d) error tested before the result is used
		for i, c := range calls {
			if i == 0 {
				continue
			}
			args := c.Instr.Common().Args
			if c.Callee.Signature.Recv() == nil && len(args) == 0 {
				continue
			}
			// latest earlier call producing a map-shaped value
			var src ssa.Value
			var srcCall mcall
			for j := i - 1; j >= 0; j-- {
				for _, res := range resultsOf(calls[j].Instr) {
					if res != nil && isMapShaped(res.Type()) {
						src, srcCall = res, calls[j]
						break
					}
				}
				if src != nil {
					break
				}
			}
			if src == nil {
				continue
			}
			recv := args[0]
			cons := fmt.Sprintf("%s receives result of %s", p.Name(c.Callee), p.Name(srcCall.Callee))
			okRecv := derivesFrom(recv, src)
			if !okRecv {
				// var n Map; if err == nil { n, err = step() }: the zero value on the failed path, the result otherwise
				if ph, isPhi := recv.(*ssa.Phi); isPhi {
					some, all := false, true
					for _, e := range ph.Edges {
						if isNilConst(e) {
							continue
						}
						if derivesFrom(e, src) {
							some = true
						} else {
							all = false
						}
					}
					okRecv = some && all
				}
			}
			if okRecv {
				r.OK(rule, sp.Fn, cons, p.Pos(c.Instr.Pos()), "first argument is that result through conversions only")
			} else {
				r.Bad(rule, sp.Fn, cons, p.Pos(c.Instr.Pos()), "the call is not applied to the value produced by the preceding step of the documented composition")
			}
			ev := errResult(srcCall.Instr)
			cons2 := fmt.Sprintf("error of %s tested before %s", p.Name(srcCall.Callee), p.Name(c.Callee))
			if errCheckedBefore(ev, c.Instr.Block()) {
				r.OK(rule, sp.Fn, cons2, p.Pos(c.Instr.Pos()), "dominated by the err==nil edge")
			} else {
				r.Bad(rule, sp.Fn, cons2, p.Pos(c.Instr.Pos()), "result of the failed step may be used")
			}
		}
		// (e) returned values are results of the composition
		var specResults []ssa.Value
		for _, c := range calls {
			specResults = append(specResults, resultsOf(c.Instr)...)
		}
		last := calls[len(calls)-1]
		lastUsed := false
		nonErrLast := 0
		for i, res := range resultsOf(last.Instr) {
			_ = i
			if res != nil && !isErrorType(res.Type()) {
				nonErrLast++
			}
		}
		eachInstr(fn, func(b *ssa.BasicBlock, in ssa.Instruction) {
			ret, ok := in.(*ssa.Return)
			if !ok {
				return
			}
			for ri, op := range ret.Results {
				if _, isc := op.(*ssa.Const); isc {
					continue
				}
				if isErrorType(op.Type()) {
					continue // error operands are the subject of family ERR
				}
				okv := false
				for _, sr := range specResults {
					if sr == nil {
						continue
					}
					if derivesFrom(op, sr) || (sp.First && inBackward(fn, op, sr)) {
						okv = true
						for _, lr := range resultsOf(last.Instr) {
							if lr == sr {
								lastUsed = true
							}
						}
					}
				}
				// the tuple of a tail call `return f(...)` is returned through Extracts: handled by derivesFrom(Extract)
				cons := fmt.Sprintf("return value #%d", ri)
				if okv {
					r.OK(rule, sp.Fn, cons, p.Pos(ret.Pos()), "is a result of the composition (identity-preserving operations only)")
				} else if sp.First {
					r.Unknown(rule, sp.Fn, cons, p.Pos(ret.Pos()), "returned value does not derive from the wrapped call")
				} else if externalPost(fn, op, specResults) {
					r.OK(rule, sp.Fn, cons, p.Pos(ret.Pos()), "result of the composition post-processed by a standard-library encoder")
					lastUsed = true
				} else {
					r.Bad(rule, sp.Fn, cons, p.Pos(ret.Pos()), "returned value is not a result of the documented composition")
				}
			}
		})
		if nonErrLast > 0 && !lastUsed {
			r.Bad(rule, sp.Fn, "result of final step returned", pos, "no return statement returns the result of "+p.Name(last.Callee))
		}
	}
}

func inBackward(fn *ssa.Function, v, src ssa.Value) bool { return backwardSlice(fn, v)[src] }

// externalPost: the returned value is computed by stdlib calls (json.Marshal, string conversion) from a composition result.
func externalPost(fn *ssa.Function, v ssa.Value, specResults []ssa.Value) bool {
	bs := backwardSlice(fn, v)
	for _, sr := range specResults {
		if sr != nil && bs[sr] {
			return true
		}
	}
	return false
}

func isMapShaped(t types.Type) bool {
	m, ok := t.Underlying().(*types.Map)
	if !ok {
		return false
	}
	_, isIface := m.Elem().Underlying().(*types.Interface)
	return isIface
}

// ---- FWD.variadic ----------------------------------------------------------------------------------

// ruleFwdVariadic: every optional (variadic) parameter of an exported function is consumed: it reaches a
// call argument, a branch condition, a store or a return. A variadic parameter without any such use is an
// option the caller may pass and the function silently ignores.
func ruleFwdVariadic(p *Prog, r *Report, filter func(name string) bool) {
	const rule = "FWD.variadic"
	for _, fn := range p.FuncList {
		if !p.Exported(fn) || !fn.Signature.Variadic() {
			continue
		}
		name := p.Name(fn)
		if filter != nil && !filter(name) {
			continue
		}
		va := variadicParam(fn)
		used := false
		for in := range forwardSlice(fn, va) {
			switch x := in.(type) {
			case *ssa.If, *ssa.Return, *ssa.Store, *ssa.MapUpdate:
				used = true
			case ssa.CallInstruction:
				if b, ok := x.Common().Value.(*ssa.Builtin); ok && b.Name() == "len" {
					continue
				}
				used = true
			}
		}
		// len(va) reaching a branch alone does not consume the *value*: require an element or the slice itself to flow on
		if used {
			valueUsed := false
			if refs := va.Referrers(); refs != nil {
				for _, in := range *refs {
					switch x := in.(type) {
					case *ssa.IndexAddr, *ssa.Slice, *ssa.Range, *ssa.Phi, *ssa.Store, *ssa.Return, *ssa.MakeInterface:
						valueUsed = true
					case ssa.CallInstruction:
						if b, ok := x.Common().Value.(*ssa.Builtin); ok && b.Name() == "len" {
							continue
						}
						valueUsed = true
					}
				}
			}
			used = valueUsed
		}
		if used {
			r.OK(rule, name, "variadic "+va.Name(), p.Pos(fn.Pos()), "value of the optional argument is consumed")
		} else {
			r.Bad(rule, name, "variadic "+va.Name(), p.Pos(fn.Pos()), "optional argument is accepted but its value is never used: the documented option has no effect")
		}
	}
}

// ---- WRAP.writer -------------------------------------------------------------------------------------

var writerPairs = [][2]string{
	{"mxj.Map.XmlWriter", "mxj.Map.Xml"}, {"mxj.Map.XmlIndentWriter", "mxj.Map.XmlIndent"},
	{"mxj.Map.JsonWriter", "mxj.Map.Json"}, {"mxj.Map.JsonWriterRaw", "mxj.Map.Json"},
	{"mxj.Map.JsonIndentWriter", "mxj.Map.JsonIndent"}, {"mxj.Map.JsonIndentWriterRaw", "mxj.Map.JsonIndent"},
	{"mxj.MapSeq.XmlWriter", "mxj.MapSeq.Xml"}, {"mxj.MapSeq.XmlIndentWriter", "mxj.MapSeq.XmlIndent"},
}

func isIoWriter(t types.Type) bool {
	it, ok := t.Underlying().(*types.Interface)
	if !ok {
		return false
	}
	for i := 0; i < it.NumMethods(); i++ {
		if it.Method(i).Name() == "Write" {
			return true
		}
	}
	return false
}

// WRAP.writer is decided on an inlined view of the Writer form: module functions it calls (a helper that does the writing, the
// Raw sibling it delegates to) are followed up to depth 3, and every value is resolved across those calls to a term over the
// Writer form's own parameters and the results of the paired encoder. What is required is independent of how the code is cut into
// functions: one call of the paired encoder with the receiver and the non-writer parameters in order; one Write, on the writer
// parameter, of exactly the encoder's bytes, only after the encoder's error was tested nil; the Write's error returned; and (Raw
// forms) the encoder's bytes returned.

type wwFrame struct {
	fn     *ssa.Function
	parent *wwFrame
	call   ssa.CallInstruction // the call in the parent that this frame is the callee of
	depth  int
}

type wwTerm struct {
	kind string // "param", "enc", "write", "const", "other"
	idx  int    // parameter index / result index
	v    ssa.Value
	fr   *wwFrame
}

type wwEvent struct {
	fr   *wwFrame
	call ssa.CallInstruction
}

type wwWalker struct {
	p       *Prog
	enc     *ssa.Function
	root    *wwFrame
	encs    []wwEvent
	writes  []wwEvent
	frames  map[ssa.CallInstruction]map[*wwFrame]*wwFrame
	other   int // uses of the writer other than Write / being handed to a followed function
	onStack map[*ssa.Function]bool
}

func (w *wwWalker) walk(fr *wwFrame) {
	w.onStack[fr.fn] = true
	defer delete(w.onStack, fr.fn)
	eachInstr(fr.fn, func(b *ssa.BasicBlock, in ssa.Instruction) {
		ci, ok := in.(ssa.CallInstruction)
		if !ok {
			return
		}
		c := ci.Common()
		if c.IsInvoke() {
			if isIoWriter(c.Value.Type()) && w.isWriter(c.Value, fr) {
				if c.Method.Name() == "Write" {
					w.writes = append(w.writes, wwEvent{fr, ci})
				} else {
					w.other++
				}
			}
			return
		}
		g := staticCallee(c)
		if g == w.enc {
			w.encs = append(w.encs, wwEvent{fr, ci})
			return
		}
		if g != nil && w.p.InModule(g) && len(g.Blocks) > 0 && fr.depth < 3 && !w.onStack[g] {
			sub := &wwFrame{fn: g, parent: fr, call: ci, depth: fr.depth + 1}
			if w.frames[ci] == nil {
				w.frames[ci] = map[*wwFrame]*wwFrame{}
			}
			w.frames[ci][fr] = sub
			w.walk(sub)
			return
		}
		for _, a := range c.Args {
			if isIoWriter(a.Type()) && w.isWriter(a, fr) {
				w.other++
			}
		}
	})
}

func (w *wwWalker) isWriter(v ssa.Value, fr *wwFrame) bool {
	for _, t := range w.resolve(v, fr, 0) {
		if t.kind == "param" && isIoWriter(w.root.fn.Params[t.idx].Type()) {
			return true
		}
	}
	return false
}

// resolve: the terms a value can stand for.
func (w *wwWalker) resolve(v ssa.Value, fr *wwFrame, depth int) []wwTerm {
	if depth > 12 {
		return []wwTerm{{kind: "other", v: v, fr: fr}}
	}
	switch x := v.(type) {
	case *ssa.Parameter:
		for i, prm := range fr.fn.Params {
			if prm == x {
				if fr.parent == nil {
					return []wwTerm{{kind: "param", idx: i, v: v, fr: fr}}
				}
				args := fr.call.Common().Args
				if i < len(args) {
					return w.resolve(args[i], fr.parent, depth+1)
				}
			}
		}
	case *ssa.Const:
		return []wwTerm{{kind: "const", v: v, fr: fr}}
	case *ssa.Phi:
		var out []wwTerm
		for _, e := range x.Edges {
			if e != v {
				out = append(out, w.resolve(e, fr, depth+1)...)
			}
		}
		return out
	case *ssa.ChangeInterface:
		return w.resolve(x.X, fr, depth+1)
	case *ssa.ChangeType:
		return w.resolve(x.X, fr, depth+1)
	case *ssa.Extract:
		if ci, ok := x.Tuple.(ssa.CallInstruction); ok {
			return w.resolveResult(ci, x.Index, fr, depth)
		}
	case *ssa.Call:
		return w.resolveResult(x, 0, fr, depth)
	case *ssa.Slice:
		// b[:] of the same bytes
		if x.Low == nil && x.High == nil {
			return w.resolve(x.X, fr, depth+1)
		}
	}
	return []wwTerm{{kind: "other", v: v, fr: fr}}
}

func (w *wwWalker) resolveResult(ci ssa.CallInstruction, idx int, fr *wwFrame, depth int) []wwTerm {
	c := ci.Common()
	if !c.IsInvoke() && staticCallee(c) == w.enc {
		return []wwTerm{{kind: "enc", idx: idx, v: ci.Value(), fr: fr}}
	}
	if c.IsInvoke() && c.Method.Name() == "Write" {
		return []wwTerm{{kind: "write", idx: idx, v: ci.Value(), fr: fr}}
	}
	if sub := w.frames[ci][fr]; sub != nil {
		var out []wwTerm
		eachInstr(sub.fn, func(b *ssa.BasicBlock, in ssa.Instruction) {
			if ret, ok := in.(*ssa.Return); ok && idx < len(ret.Results) {
				out = append(out, w.resolve(ret.Results[idx], sub, depth+1)...)
			}
		})
		return out
	}
	return []wwTerm{{kind: "other", v: ci.Value(), fr: fr}}
}

// errNilBefore: in its own frame and in every enclosing frame the point is reached only over an edge on which a value that
// resolves to the encoder's error was tested nil.
func (w *wwWalker) errNilBefore(ev wwEvent) bool {
	fr := ev.fr
	blk := ev.call.Block()
	for fr != nil {
		for _, g := range dominatingGuards(blk) {
			ng := normGuard(g)
			bo, ok := ng.Cond.(*ssa.BinOp)
			if !ok || (bo.Op != token.EQL && bo.Op != token.NEQ) {
				continue
			}
			var side ssa.Value
			if isNilConst(bo.Y) {
				side = bo.X
			} else if isNilConst(bo.X) {
				side = bo.Y
			} else {
				continue
			}
			if (bo.Op == token.EQL) != ng.Pol {
				continue // this edge is the non-nil side
			}
			all := true
			ts := w.resolve(side, fr, 0)
			for _, t := range ts {
				if !(t.kind == "enc" && t.idx == 1) {
					all = false
				}
			}
			if all && len(ts) > 0 {
				return true
			}
		}
		if fr.parent == nil {
			break
		}
		blk = fr.call.Block()
		fr = fr.parent
	}
	return false
}

func ruleWrapWriter(p *Prog, r *Report) {
	const rule = "WRAP.writer"
	for _, pr := range writerPairs {
		fn, enc := p.Fn(pr[0]), p.Fn(pr[1])
		if fn == nil || enc == nil {
			r.Anchor(rule, pr[0]+"/"+pr[1])
			continue
		}
		pos := p.Pos(fn.Pos())
		wi := -1
		for i, prm := range fn.Params {
			if isIoWriter(prm.Type()) {
				wi = i
			}
		}
		if wi < 0 {
			r.Unknown(rule, pr[0], "writer parameter", pos, "no io.Writer parameter")
			continue
		}
		w := &wwWalker{p: p, enc: enc, frames: map[ssa.CallInstruction]map[*wwFrame]*wwFrame{}, onStack: map[*ssa.Function]bool{}}
		w.root = &wwFrame{fn: fn}
		w.walk(w.root)
		viaCore := ""
		if len(w.encs) == 0 {
			// the Writer form may call what the paired encoder itself is a thin wrapper of, with the same arguments: the encoder
			// `return core(t1(params), …)` and the Writer form `core(t1(params), …)` compute the same bytes
			if ccall := thinCore(p, enc); ccall != nil {
				core := staticCallee(&ccall.Call)
				w2 := &wwWalker{p: p, enc: core, frames: map[ssa.CallInstruction]map[*wwFrame]*wwFrame{}, onStack: map[*ssa.Function]bool{}}
				w2.root = &wwFrame{fn: fn}
				w2.walk(w2.root)
				if len(w2.encs) == 1 {
					same := len(w2.encs[0].call.Common().Args) == len(ccall.Call.Args)
					encRoot := &wwFrame{fn: enc}
					for i := 0; same && i < len(ccall.Call.Args); i++ {
						a, okA := wwShape(p, ccall.Call.Args[i], encRoot, func(k int) int { return k }, 0)
						b, okB := wwShape(p, w2.encs[0].call.Common().Args[i], w2.encs[0].fr, func(k int) int {
							if k > wi {
								return k - 1
							}
							if k == wi {
								return -1
							}
							return k
						}, 0)
						if !okA || !okB || a != b {
							same = false
						}
					}
					if same {
						w = w2
						viaCore = p.Name(core)
					}
				}
			}
		}
		if len(w.encs) != 1 {
			r.Bad(rule, pr[0], "paired encoder call", pos, fmt.Sprintf("expected exactly one call of %s (directly or through the functions the Writer form delegates to), found %d", pr[1], len(w.encs)))
			continue
		}
		ec := w.encs[0]
		// receiver and arguments forwarded in order
		okArgs := true
		if viaCore != "" {
			r.OK(rule, pr[0], "arguments forwarded to "+pr[1], p.Pos(ec.call.Pos()), "calls "+viaCore+", which "+pr[1]+" only wraps, with argument terms identical to the ones "+pr[1]+" builds from the same parameters")
		}
		if viaCore == "" {
			var fwd []int
			for i := range fn.Params {
				if i != wi {
					fwd = append(fwd, i)
				}
			}
			eargs := ec.call.Common().Args
			if len(eargs) != len(fwd) {
				okArgs = false
			} else {
				for i, a := range eargs {
					ts := w.resolve(a, ec.fr, 0)
					if len(ts) == 0 {
						okArgs = false
					}
					for _, t := range ts {
						if !(t.kind == "param" && t.idx == fwd[i]) {
							// in the Writer form itself a derived value (rootTag...) of the parameter counts as before
							if ec.fr.parent == nil && derivesFrom(a, fn.Params[fwd[i]]) {
								continue
							}
							okArgs = false
						}
					}
				}
			}
			if okArgs {
				r.OK(rule, pr[0], "arguments forwarded to "+pr[1], p.Pos(ec.call.Pos()), "receiver and all non-writer parameters in order")
			} else {
				r.Bad(rule, pr[0], "arguments forwarded to "+pr[1], p.Pos(ec.call.Pos()), "the paired encoder is not called on the same receiver with the same arguments in order")
			}
		}
		if len(w.writes) != 1 || w.other != 0 {
			r.Bad(rule, pr[0], "exactly one Write", pos, fmt.Sprintf("found %d Write calls and %d other uses of the writer", len(w.writes), w.other))
			continue
		}
		wr := w.writes[0]
		okData := len(wr.call.Common().Args) == 1
		if okData {
			ts := w.resolve(wr.call.Common().Args[0], wr.fr, 0)
			if len(ts) == 0 {
				okData = false
			}
			for _, t := range ts {
				if !(t.kind == "enc" && t.idx == 0) {
					okData = false
				}
			}
		}
		if okData {
			r.OK(rule, pr[0], "Write operand", p.Pos(wr.call.Pos()), "the unmodified first result of "+pr[1])
		} else {
			r.Bad(rule, pr[0], "Write operand", p.Pos(wr.call.Pos()), "the bytes handed to the writer are not exactly the bytes "+pr[1]+" returned")
		}
		if w.errNilBefore(wr) {
			r.OK(rule, pr[0], "encoder error tested before Write", p.Pos(wr.call.Pos()), "dominated by err==nil")
		} else {
			r.Bad(rule, pr[0], "encoder error tested before Write", p.Pos(wr.call.Pos()), "bytes may be written although the encoder failed")
		}
		// Write not inside a loop (in any frame on the way)
		inLoop := false
		for fr, blk := wr.fr, wr.call.Block(); fr != nil; {
			if reachableFromSuccs(blk)[blk] {
				inLoop = true
			}
			if fr.parent == nil {
				break
			}
			blk = fr.call.Block()
			fr = fr.parent
		}
		if inLoop {
			r.Bad(rule, pr[0], "Write not repeated", p.Pos(wr.call.Pos()), "the Write call is inside a loop")
		}
		// results of the Writer form: the last is the error (the encoder's or the Write's), Raw forms return the encoder's bytes first
		nres := fn.Signature.Results().Len()
		okRaw, okErr := true, false
		eachInstr(fn, func(b *ssa.BasicBlock, in ssa.Instruction) {
			ret, ok := in.(*ssa.Return)
			if !ok {
				return
			}
			if nres == 2 {
				ts := w.resolve(ret.Results[0], w.root, 0)
				if len(ts) == 0 {
					okRaw = false
				}
				for _, t := range ts {
					if !(t.kind == "enc" && t.idx == 0) {
						okRaw = false
					}
				}
			}
			for _, t := range w.resolve(ret.Results[nres-1], w.root, 0) {
				if t.kind == "write" && t.idx == 1 {
					okErr = true
				}
			}
		})
		if nres == 2 {
			if okRaw {
				r.OK(rule, pr[0], "Raw result", pos, "every return hands back the encoder's bytes")
			} else {
				r.Bad(rule, pr[0], "Raw result", pos, "a return does not hand back the bytes that were written")
			}
		}
		if okErr {
			r.OK(rule, pr[0], "Write error returned", pos, "")
		} else {
			r.Bad(rule, pr[0], "Write error returned", pos, "the error of the Write call is dropped")
		}
	}
	r.Floor(rule, 8*4)
}

func reachableFromSuccs(b *ssa.BasicBlock) map[*ssa.BasicBlock]bool {
	seen := map[*ssa.BasicBlock]bool{}
	var work []*ssa.BasicBlock
	for _, s := range b.Succs {
		if !seen[s] {
			seen[s] = true
			work = append(work, s)
		}
	}
	for len(work) > 0 {
		x := work[len(work)-1]
		work = work[:len(work)-1]
		for _, s := range x.Succs {
			if !seen[s] {
				seen[s] = true
				work = append(work, s)
			}
		}
	}
	return seen
}

// ---- WRAP.concat -------------------------------------------------------------------------------------

var concatPairs = [][2]string{
	{"mxj.Maps.XmlString", "mxj.Map.Xml"}, {"mxj.Maps.XmlStringIndent", "mxj.Map.XmlIndent"},
	{"mxj.Maps.JsonString", "mxj.Map.Json"}, {"mxj.Maps.JsonStringIndent", "mxj.Map.JsonIndent"},
}
var filePairs = [][2]string{
	{"mxj.Maps.XmlFile", "mxj.Maps.XmlString"}, {"mxj.Maps.XmlFileIndent", "mxj.Maps.XmlStringIndent"},
	{"mxj.Maps.JsonFile", "mxj.Maps.JsonString"}, {"mxj.Maps.JsonFileIndent", "mxj.Maps.JsonStringIndent"},
}

// rangeOverParam finds the index loop SSA builds for `for _, v := range param`: returns the element-address instruction.
func rangeElemOf(fn *ssa.Function, prm *ssa.Parameter) (*ssa.IndexAddr, *ssa.Phi) {
	var found *ssa.IndexAddr
	var idx *ssa.Phi
	eachInstr(fn, func(b *ssa.BasicBlock, in ssa.Instruction) {
		ia, ok := in.(*ssa.IndexAddr)
		if !ok || ia.X != ssa.Value(prm) {
			return
		}
		if isRangeIndex(ia.Index) {
			found, idx = ia, ia.Index.(*ssa.BinOp).X.(*ssa.Phi)
		}
	})
	return found, idx
}

func isBlankConst(v ssa.Value) bool {
	s, ok := constString(v)
	if !ok {
		return false
	}
	return strings.Trim(s, " \t\r\n") == ""
}

func ruleWrapConcat(p *Prog, r *Report) {
	const rule = "WRAP.concat"
	for _, pr := range concatPairs {
		fn, enc := p.Fn(pr[0]), p.Fn(pr[1])
		if fn == nil || enc == nil {
			r.Anchor(rule, pr[0]+"/"+pr[1])
			continue
		}
		pos := p.Pos(fn.Pos())
		recv := fn.Params[0]
		elem, _ := rangeElemOf(fn, recv)
		if elem == nil {
			r.Unknown(rule, pr[0], "range over receiver", pos, "no `for range` over the receiver slice recognised")
			continue
		}
		// encoder call on the element
		var ec ssa.CallInstruction
		n := 0
		eachInstr(fn, func(b *ssa.BasicBlock, in ssa.Instruction) {
			if ci, ok := in.(ssa.CallInstruction); ok && staticCallee(ci.Common()) == enc {
				ec = ci
				n++
			}
		})
		if n != 1 {
			r.Bad(rule, pr[0], "per-Map encoder call", pos, fmt.Sprintf("expected one call of %s in the loop, found %d", pr[1], n))
			continue
		}
		a0 := ec.Common().Args[0]
		if u, ok := a0.(*ssa.UnOp); ok && u.Op == token.MUL && u.X == ssa.Value(elem) {
			r.OK(rule, pr[0], "encoder applied to each member", p.Pos(ec.Pos()), "receiver of "+pr[1]+" is the range element")
		} else {
			r.Bad(rule, pr[0], "encoder applied to each member", p.Pos(ec.Pos()), "the encoder is not called on the current member of the list")
		}
		// the loop body is entered for every index: the block of the element load is the successor of the range test, and
		// the encoder call is in a block that post-dominates it (no skip), except for error returns
		cfgi := p.cfgOf(fn)
		_ = cfgi
		if !ec.Block().Dominates(ec.Block()) || !elem.Block().Dominates(ec.Block()) {
			r.Bad(rule, pr[0], "no member skipped", p.Pos(ec.Pos()), "encoder call is not on every path of the loop body")
		} else if len(dominatingGuardsWithin(ec.Block(), elem.Block())) > 0 {
			r.Bad(rule, pr[0], "no member skipped", p.Pos(ec.Pos()), "the encoder call is conditional inside the loop body: some members may be skipped")
		} else {
			r.OK(rule, pr[0], "no member skipped", p.Pos(ec.Pos()), "the call is unconditional in the loop body")
		}
		// accumulator: every Return's string operand is a phi chain built from: "" | acc + string(enc result) | acc + blank const
		res := resultsOf(ec)
		okAcc, why := true, ""
		var accVals = map[ssa.Value]bool{}
		var visit func(v ssa.Value) bool
		sawEnc := false
		visit = func(v ssa.Value) bool {
			if accVals[v] {
				return true
			}
			accVals[v] = true
			switch x := v.(type) {
			case *ssa.Const:
				s, ok := constString(x)
				return ok && strings.Trim(s, " \t\r\n") == ""
			case *ssa.Phi:
				for _, e := range x.Edges {
					if !visit(e) {
						return false
					}
				}
				return true
			case *ssa.BinOp:
				if x.Op != token.ADD {
					return false
				}
				return visit(x.X) && visit(x.Y)
			case *ssa.Convert:
				if res[0] != nil && x.X == res[0] {
					sawEnc = true
					return true
				}
				return false
			case *ssa.Call:
				// strings.Join(pieces, blank) over a slice that only ever receives encoder results, appended in order
				if isCallTo(&x.Call, "strings.Join") {
					sep, isS := constString(x.Call.Args[1])
					if !isS || strings.Trim(sep, " \t\r\n") != "" {
						return false
					}
					var srcs []ssa.Value
					if !sliceSources(x.Call.Args[0], map[ssa.Value]bool{}, &srcs) {
						return false
					}
					for _, sv := range srcs {
						cv, isCv := sv.(*ssa.Convert)
						if !isCv || res[0] == nil || cv.X != res[0] {
							return false
						}
						sawEnc = true
					}
					return len(srcs) > 0
				}
				// a local strings.Builder / bytes.Buffer as the accumulator: everything written to it is an encoder result or a blank
				if !isCallTo(&x.Call, "(*strings.Builder).String", "(*bytes.Buffer).String") {
					return false
				}
				acc, isLocal := x.Call.Args[0].(*ssa.Alloc)
				if !isLocal {
					return false
				}
				for _, ref := range *acc.Referrers() {
					c, isCall := ref.(*ssa.Call)
					if !isCall {
						if _, isDbg := ref.(*ssa.DebugRef); isDbg {
							continue
						}
						return false
					}
					switch {
					case isCallTo(&c.Call, "(*strings.Builder).String", "(*bytes.Buffer).String", "(*strings.Builder).Len", "(*bytes.Buffer).Len", "(*strings.Builder).Grow", "(*bytes.Buffer).Grow"):
					case isCallTo(&c.Call, "(*strings.Builder).Write", "(*bytes.Buffer).Write"):
						if res[0] == nil || c.Call.Args[1] != res[0] {
							return false
						}
						sawEnc = true
					case isCallTo(&c.Call, "(*strings.Builder).WriteString", "(*bytes.Buffer).WriteString"):
						if cv, ok := c.Call.Args[1].(*ssa.Convert); ok && res[0] != nil && cv.X == res[0] {
							sawEnc = true
						} else if sc, ok := constString(c.Call.Args[1]); !ok || strings.Trim(sc, " \t\r\n") != "" {
							return false
						}
					case isCallTo(&c.Call, "(*strings.Builder).WriteByte", "(*bytes.Buffer).WriteByte", "(*strings.Builder).WriteRune", "(*bytes.Buffer).WriteRune"):
						k, ok := constInt(c.Call.Args[1])
						if !ok || !(k == ' ' || k == '\n' || k == '\t' || k == '\r') {
							return false
						}
					default:
						return false
					}
				}
				return true
			}
			return false
		}
		eachInstr(fn, func(b *ssa.BasicBlock, in ssa.Instruction) {
			if ret, ok := in.(*ssa.Return); ok {
				if !visit(ret.Results[0]) {
					okAcc, why = false, "returned string at "+p.Pos(ret.Pos())+" is not built solely from per-Map encodings and blank separators"
				}
			}
		})
		if okAcc && sawEnc {
			// order: acc + piece (append), never piece + acc
			for v := range accVals {
				if bo, ok := v.(*ssa.BinOp); ok {
					if cv, ok := bo.X.(*ssa.Convert); ok && cv.X == res[0] {
						okAcc, why = false, "encoding is prepended to the accumulator (order reversed)"
					}
				}
			}
		}
		if okAcc && sawEnc {
			r.OK(rule, pr[0], "accumulator", pos, "result = concatenation in list order of "+pr[1]+" results and blank separators only")
		} else {
			if why == "" {
				why = "the encoder result never reaches the accumulator"
			}
			r.Bad(rule, pr[0], "accumulator", pos, why)
		}
		// non-receiver parameters forwarded to the per-Map encoder (safeEncoding!)
		for _, prm := range fn.Params[1:] {
			hits := reachesCallArg(fn, prm, func(c *ssa.CallCommon) bool { return staticCallee(c) == enc })
			if len(hits) > 0 {
				r.OK("FWD.param", pr[0], "parameter "+prm.Name(), pos, "forwarded to "+pr[1])
			} else {
				r.Bad("FWD.param", pr[0], "parameter "+prm.Name(), pos, "parameter is not forwarded to "+pr[1]+": the per-Map encodings ignore it")
			}
		}
	}
	// file writers write exactly the string form
	for _, pr := range filePairs {
		fn, sf := p.Fn(pr[0]), p.Fn(pr[1])
		if fn == nil || sf == nil {
			r.Anchor(rule, pr[0]+"/"+pr[1])
			continue
		}
		pos := p.Pos(fn.Pos())
		var sc ssa.CallInstruction
		n := 0
		var writes []ssa.CallInstruction
		eachInstr(fn, func(b *ssa.BasicBlock, in ssa.Instruction) {
			if ci, ok := in.(ssa.CallInstruction); ok {
				if _, isDefer := in.(*ssa.Defer); isDefer {
					return
				}
				if staticCallee(ci.Common()) == sf {
					sc = ci
					n++
				}
				if isCallTo(ci.Common(), "(*os.File).WriteString", "(*os.File).Write", "io.WriteString", "os.WriteFile") {
					writes = append(writes, ci)
				}
			}
		})
		if n != 1 {
			r.Bad(rule, pr[0], "string form call", pos, fmt.Sprintf("expected one call of %s, found %d", pr[1], n))
			continue
		}
		res := resultsOf(sc)
		// the write may be delegated to an unexported helper that writes one of its parameters to a file exactly once
		var delegatedData ssa.Value
		if len(writes) == 0 {
			eachInstr(fn, func(b *ssa.BasicBlock, in ssa.Instruction) {
				ci, ok := in.(ssa.CallInstruction)
				if !ok {
					return
				}
				if _, isDefer := in.(*ssa.Defer); isDefer {
					return
				}
				h := staticCallee(ci.Common())
				if h == nil || h == sf || !p.InModule(h) || p.Exported(h) || len(h.Blocks) == 0 {
					return
				}
				var hw []ssa.CallInstruction
				eachInstr(h, func(b2 *ssa.BasicBlock, i2 ssa.Instruction) {
					if c2, ok := i2.(ssa.CallInstruction); ok {
						if _, isDefer := i2.(*ssa.Defer); isDefer {
							return
						}
						if isCallTo(c2.Common(), "(*os.File).WriteString", "(*os.File).Write", "io.WriteString", "os.WriteFile") {
							hw = append(hw, c2)
						}
					}
				})
				if len(hw) != 1 || reachableFromSuccs(hw[0].Block())[hw[0].Block()] {
					return
				}
				for j, prm := range h.Params {
					for _, a := range hw[0].Common().Args {
						if derivesFrom(a, prm) && j < len(ci.Common().Args) && (isStringType(prm.Type()) || typeStr(prm.Type()) == "[]byte") {
							writes = append(writes, ci)
							delegatedData = ci.Common().Args[j]
						}
					}
				}
			})
		}
		if len(writes) != 1 {
			r.Bad(rule, pr[0], "single file write", pos, fmt.Sprintf("expected exactly one write to the file, found %d", len(writes)))
			continue
		}
		w := writes[0]
		okv := false
		if delegatedData != nil {
			okv = res[0] != nil && derivesFrom(delegatedData, res[0])
		} else {
			for _, a := range w.Common().Args {
				if res[0] != nil && derivesFrom(a, res[0]) {
					okv = true
				}
			}
		}
		if okv {
			r.OK(rule, pr[0], "file content", p.Pos(w.Pos()), "the file receives exactly the result of "+pr[1])
		} else {
			r.Bad(rule, pr[0], "file content", p.Pos(w.Pos()), "the bytes written are not the result of "+pr[1])
		}
		for _, prm := range fn.Params[1:] {
			if prm.Name() == "file" {
				continue
			}
			hits := reachesCallArg(fn, prm, func(c *ssa.CallCommon) bool { return staticCallee(c) == sf })
			if len(hits) > 0 {
				r.OK("FWD.param", pr[0], "parameter "+prm.Name(), pos, "forwarded to "+pr[1])
			} else {
				r.Bad("FWD.param", pr[0], "parameter "+prm.Name(), pos, "parameter is not forwarded to "+pr[1])
			}
		}
		// the file is created or truncated: what was in it before must not follow the new content
		var opens []ssa.CallInstruction
		scanOpen := func(f *ssa.Function) {
			eachInstr(f, func(b *ssa.BasicBlock, in ssa.Instruction) {
				if ci, ok := in.(ssa.CallInstruction); ok && isCallTo(ci.Common(), "os.Create", "os.OpenFile", "os.WriteFile") {
					opens = append(opens, ci)
				}
			})
		}
		scanOpen(fn)
		if h := staticCallee(w.Common()); h != nil && p.InModule(h) {
			scanOpen(h)
		}
		if len(opens) != 1 {
			r.Bad(rule, pr[0], "file created or truncated", pos, fmt.Sprintf("expected one os.Create / os.OpenFile / os.WriteFile, found %d", len(opens)))
		} else {
			oc := opens[0].Common()
			trunc := isCallTo(oc, "os.Create", "os.WriteFile")
			if isCallTo(oc, "os.OpenFile") {
				if k, isK := constInt(oc.Args[1]); isK && k&int64(os.O_TRUNC) != 0 && k&int64(os.O_WRONLY|os.O_RDWR) != 0 && k&int64(os.O_APPEND) == 0 {
					trunc = true
				}
			}
			if trunc {
				r.OK(rule, pr[0], "file created or truncated", p.Pos(opens[0].Pos()), "opened for writing with truncation")
			} else {
				r.Bad(rule, pr[0], "file created or truncated", p.Pos(opens[0].Pos()), "the file is opened without truncation (or for appending): the rest of a longer existing file stays behind the new content and is read back as further documents")
			}
		}
		if errCheckedBefore(errResult(sc), w.Block()) {
			r.OK(rule, pr[0], "encoder error tested before writing", p.Pos(w.Pos()), "")
		} else {
			r.Bad(rule, pr[0], "encoder error tested before writing", p.Pos(w.Pos()), "file may be written although encoding failed")
		}
	}
}

// dominatingGuardsWithin: branch edges that dominate blk and are themselves dominated by `from` (i.e. conditions inside a region).
func dominatingGuardsWithin(blk, from *ssa.BasicBlock) []guard {
	var out []guard
	fn := blk.Parent()
	for _, b := range fn.Blocks {
		if len(b.Instrs) == 0 || !from.Dominates(b) {
			continue
		}
		ifi, ok := b.Instrs[len(b.Instrs)-1].(*ssa.If)
		if !ok {
			continue
		}
		for si := 0; si < 2; si++ {
			if edgeDominates(b, si, blk) {
				// ignore the error test of a preceding call in the same region: conditions whose other edge leaves through a Return
				other := b.Succs[1-si]
				if blockReturnsImmediately(other) {
					continue
				}
				out = append(out, guard{ifi.Cond, si == 0})
			}
		}
	}
	return out
}

func blockReturnsImmediately(b *ssa.BasicBlock) bool {
	for _, in := range b.Instrs {
		switch in.(type) {
		case *ssa.Return:
			return true
		case *ssa.RunDefers, *ssa.DebugRef:
			continue
		default:
			if _, ok := in.(ssa.Value); ok {
				continue
			}
			return false
		}
	}
	return false
}

// ---- WRAP.fileloop ------------------------------------------------------------------------------------

var fileLoops = [][2]string{
	{"mxj.NewMapsFromJsonFile", "mxj.NewMapJsonReaderRaw"}, {"mxj.NewMapsFromJsonFileRaw", "mxj.NewMapJsonReaderRaw"},
	{"mxj.NewMapsFromXmlFile", "mxj.NewMapXmlReaderRaw"}, {"mxj.NewMapsFromXmlFileRaw", "mxj.NewMapXmlReaderRaw"},
}

func isEOFLoad(v ssa.Value) bool {
	g := globalOf(v)
	return g != nil && g.Name() == "EOF" && g.Pkg.Pkg.Path() == "io"
}

func ruleWrapFileLoop(p *Prog, r *Report) {
	const rule = "WRAP.fileloop"
	for _, pr := range fileLoops {
		fn, rd := p.Fn(pr[0]), p.Fn(pr[1])
		if fn == nil || rd == nil {
			r.Anchor(rule, pr[0]+"/"+pr[1])
			continue
		}
		pos := p.Pos(fn.Pos())
		var rc ssa.CallInstruction
		n := 0
		var open ssa.CallInstruction
		eachInstr(fn, func(b *ssa.BasicBlock, in ssa.Instruction) {
			if ci, ok := in.(ssa.CallInstruction); ok {
				if staticCallee(ci.Common()) == rd {
					rc = ci
					n++
				}
				if isCallTo(ci.Common(), "os.Open") {
					open = ci
				}
				// or an unexported module helper that opens the file (returns an *os.File obtained from os.Open)
				if g := staticCallee(ci.Common()); g != nil && p.InModule(g) && !p.Exported(g) && g.Signature.Results().Len() > 0 &&
					typeStr(g.Signature.Results().At(0).Type()) == "*os.File" {
					for h := range p.Reach(g) {
						if !p.InModule(h) && extName(h) == "os.Open" {
							open = ci
						}
					}
				}
			}
		})
		api := fn
		var fh ssa.Value
		if open != nil {
			fh = resultsOf(open)[0]
		}
		if n == 0 && open != nil && fh != nil {
			// the loop may live in an unexported helper that is handed the opened file and whose results the function returns
			eachInstr(api, func(b *ssa.BasicBlock, in ssa.Instruction) {
				ci, ok := in.(*ssa.Call)
				if !ok || n != 0 {
					return
				}
				h := staticCallee(&ci.Call)
				if h == nil || !p.InModule(h) || p.Exported(h) || len(h.Blocks) == 0 {
					return
				}
				returned := false
				for x := range forwardSlice(api, ci) { // through the result variables a deferred Close makes go/ssa spill to
					if _, isRet := x.(*ssa.Return); isRet {
						returned = true
					}
				}
				if !returned {
					return
				}
				for ai, a := range ci.Call.Args {
					if ai >= len(h.Params) || !derivesFrom(a, fh) {
						continue
					}
					cnt := 0
					var hrc ssa.CallInstruction
					eachInstr(h, func(b2 *ssa.BasicBlock, i2 ssa.Instruction) {
						if c2, ok := i2.(ssa.CallInstruction); ok && staticCallee(c2.Common()) == rd {
							cnt++
							hrc = c2
						}
					})
					if cnt == 1 {
						fn, rc, n, fh = h, hrc, 1, h.Params[ai]
					}
				}
			})
		}
		if n != 1 || open == nil {
			r.Bad(rule, pr[0], "reader call", pos, fmt.Sprintf("expected one call of %s on a file opened with os.Open, found %d", pr[1], n))
			continue
		}
		if a := rc.Common().Args[0]; fh != nil && derivesFrom(a, fh) {
			r.OK(rule, pr[0], "reads the opened file", p.Pos(rc.Pos()), pr[1]+" is applied to the os.Open result")
		} else {
			r.Bad(rule, pr[0], "reads the opened file", p.Pos(rc.Pos()), "the raw reader is not applied to the opened file")
		}
		// the call is in a loop
		loop := reachableFromSuccs(rc.Block())
		if !loop[rc.Block()] {
			r.Bad(rule, pr[0], "reader call in a loop", p.Pos(rc.Pos()), "documents after the first are never read")
			continue
		}
		r.OK(rule, pr[0], "reader call in a loop", p.Pos(rc.Pos()), "")
		// loop exits: every edge leaving the loop (a block in the loop with a successor outside) must be
		//  (1) the true edge of err == io.EOF, or (2) lead to a return whose first operand derives from the accumulator and whose error is non-nil
		inLoop := map[*ssa.BasicBlock]bool{}
		for b := range loop {
			if reachableFromSuccs(b)[rc.Block()] {
				inLoop[b] = true
			}
		}
		errv := errResult(rc)
		okExits, why := true, ""
		nExits := 0
		isEOFTest := func(b *ssa.BasicBlock, si int) bool {
			ifi, isIf := b.Instrs[len(b.Instrs)-1].(*ssa.If)
			if !isIf {
				return false
			}
			if bo, ok := ifi.Cond.(*ssa.BinOp); ok && (bo.Op == token.EQL || bo.Op == token.NEQ) {
				if (isErrOf(fn, bo.X, errv) && isEOFLoad(bo.Y)) || (isErrOf(fn, bo.Y, errv) && isEOFLoad(bo.X)) {
					if (bo.Op == token.EQL && si == 0) || (bo.Op == token.NEQ && si == 1) {
						return true
					}
				}
			}
			return false
		}
		// the region behind an exit edge: every return in it is either behind the true edge of an io.EOF test of the reader's
		// error, or an error return that carries the accumulator
		type exitState struct {
			b   *ssa.BasicBlock
			eof bool
		}
		var walkExit func(b *ssa.BasicBlock, eof bool, seen map[exitState]bool)
		walkExit = func(b *ssa.BasicBlock, eof bool, seen map[exitState]bool) {
			if seen[exitState{b, eof}] || inLoop[b] {
				return
			}
			seen[exitState{b, eof}] = true
			for _, in := range b.Instrs {
				if ret, ok := in.(*ssa.Return); ok {
					if eof {
						return
					}
					if isNilConst(ret.Results[len(ret.Results)-1]) {
						okExits, why = false, "loop is left early with a nil error at "+p.Pos(ret.Pos())
					}
					if isNilConst(ret.Results[0]) {
						okExits, why = false, "error return at "+p.Pos(ret.Pos())+" drops the Maps read so far"
					}
					return
				}
			}
			for si, s := range b.Succs {
				walkExit(s, eof || isEOFTest(b, si), seen)
			}
		}
		for b := range inLoop {
			for si, s := range b.Succs {
				if inLoop[s] {
					continue
				}
				nExits++
				if isEOFTest(b, si) {
					continue
				}
				// a plain fall out of the loop (break) that is not the io.EOF edge and reaches code other than a return
				if firstReturn(s) == nil {
					if _, isIf := s.Instrs[len(s.Instrs)-1].(*ssa.If); !isIf {
						okExits, why = false, "loop is left at "+p.Pos(b.Instrs[len(b.Instrs)-1].Pos())+" neither by the io.EOF test nor by an error return"
						continue
					}
				}
				walkExit(s, false, map[exitState]bool{})
			}
		}
		if nExits == 0 {
			okExits, why = false, "loop has no exit"
		}
		if okExits {
			r.OK(rule, pr[0], "loop exits", pos, fmt.Sprintf("%d exits: io.EOF test or error return carrying the accumulator", nExits))
		} else {
			r.Bad(rule, pr[0], "loop exits", pos, why)
		}
		// the decoded map is appended to the accumulator in the loop (no document dropped except empty ones)
		res := resultsOf(rc)
		appended := false
		for in := range forwardSlice(fn, res[0]) {
			if c, ok := in.(*ssa.Call); ok {
				if b, ok := c.Call.Value.(*ssa.Builtin); ok && b.Name() == "append" && inLoop[c.Block()] {
					appended = true
				}
			}
		}
		// … and only after the call's error has been looked at: a Map handed back together with an error is not one of "the Maps
		// read so far"
		untested := ""
		{
			tests := func(b *ssa.BasicBlock) bool {
				ifi, ok := b.Instrs[len(b.Instrs)-1].(*ssa.If)
				if !ok {
					return false
				}
				for v := range backwardSlice(fn, ifi.Cond) {
					if isErrorType(v.Type()) && isErrOf(fn, v, errv) {
						return true
					}
				}
				return false
			}
			seen := map[*ssa.BasicBlock]bool{}
			var work []*ssa.BasicBlock
			if !tests(rc.Block()) {
				work = append(work, rc.Block().Succs...)
			}
			for len(work) > 0 {
				b := work[len(work)-1]
				work = work[:len(work)-1]
				if seen[b] || b == rc.Block() {
					continue
				}
				seen[b] = true
				for _, in := range b.Instrs {
					if c, ok := in.(*ssa.Call); ok {
						if bi, ok := c.Call.Value.(*ssa.Builtin); ok && bi.Name() == "append" && inLoop[b] && forwardSlice(fn, res[0])[c] {
							untested = p.Pos(c.Pos())
						}
					}
				}
				if tests(b) {
					continue
				}
				work = append(work, b.Succs...)
			}
		}
		if untested != "" {
			r.Bad(rule, pr[0], "decoded Map appended", untested, "the Map is appended at "+untested+" before the reader's error has been tested: a partial Map delivered with an error ends up among the Maps returned")
		} else if appended {
			r.OK(rule, pr[0], "decoded Map appended", pos, "inside the loop, after a test of the reader's error")
		} else {
			r.Bad(rule, pr[0], "decoded Map appended", pos, "the Map returned by the reader never reaches the accumulator")
		}
	}
}

func firstReturn(b *ssa.BasicBlock) *ssa.Return {
	seen := map[*ssa.BasicBlock]bool{}
	for b != nil && !seen[b] {
		seen[b] = true
		for _, in := range b.Instrs {
			if ret, ok := in.(*ssa.Return); ok {
				return ret
			}
		}
		if len(b.Succs) != 1 {
			return nil
		}
		b = b.Succs[0]
	}
	return nil
}

// isErrOf: v is the error result errv, possibly reloaded from the local it was stored to.
func isErrOf(fn *ssa.Function, v, errv ssa.Value) bool {
	if errv == nil {
		return false
	}
	if sameThroughPhi(v, errv) {
		return true
	}
	return backwardSlice(fn, v)[errv] && isErrorType(v.Type())
}

func sortedKeys(m map[string]int) []string {
	var out []string
	for k := range m {
		out = append(out, k)
	}
	sort.Strings(out)
	return out
}

// delegatedWrite: fn passes (writer, bytes) to an unexported module helper, under the encoder's err == nil edge, and returns its
// error; the helper invokes Write on its writer parameter exactly once with its bytes parameter and returns that error.
func (p *Prog) delegatedWrite(fn *ssa.Function, w *ssa.Parameter, bytesV ssa.Value, encErr ssa.Value) (bool, string) {
	var call *ssa.Call
	eachInstr(fn, func(b *ssa.BasicBlock, in ssa.Instruction) {
		c, ok := in.(*ssa.Call)
		if !ok {
			return
		}
		g := staticCallee(&c.Call)
		if g == nil || !p.InModule(g) || p.Exported(g) {
			return
		}
		hasW, hasB := false, false
		for _, a := range c.Call.Args {
			if a == ssa.Value(w) {
				hasW = true
			}
			if bytesV != nil && a == bytesV {
				hasB = true
			}
		}
		if hasW && hasB {
			call = c
		}
	})
	if call == nil {
		return false, ""
	}
	g := staticCallee(&call.Call)
	wi, bi := -1, -1
	for i, a := range call.Call.Args {
		if a == ssa.Value(w) {
			wi = i
		}
		if a == bytesV {
			bi = i
		}
	}
	var writes []ssa.CallInstruction
	other := 0
	eachInstr(g, func(b *ssa.BasicBlock, in ssa.Instruction) {
		ci, ok := in.(ssa.CallInstruction)
		if !ok {
			return
		}
		cm := ci.Common()
		if cm.IsInvoke() && cm.Value == ssa.Value(g.Params[wi]) {
			if cm.Method.Name() == "Write" {
				writes = append(writes, ci)
			} else {
				other++
			}
		}
	})
	if len(writes) != 1 || other != 0 {
		return false, ""
	}
	wr := writes[0]
	if len(wr.Common().Args) != 1 || wr.Common().Args[0] != ssa.Value(g.Params[bi]) {
		return false, ""
	}
	if reachableFromSuccs(wr.Block())[wr.Block()] {
		return false, ""
	}
	// the helper returns the Write error; fn returns the helper's result
	ev := errResult(wr)
	okErr := false
	eachInstr(g, func(b *ssa.BasicBlock, in ssa.Instruction) {
		if ret, ok := in.(*ssa.Return); ok {
			for _, op := range ret.Results {
				if ev != nil && sameThroughPhi(op, ev) {
					okErr = true
				}
			}
		}
	})
	if !okErr {
		return false, ""
	}
	if !errCheckedBefore(encErr, call.Block()) {
		return false, ""
	}
	// fn returns what the helper returns
	okRet := false
	eachInstr(fn, func(b *ssa.BasicBlock, in ssa.Instruction) {
		if ret, ok := in.(*ssa.Return); ok {
			for _, op := range ret.Results {
				if sameThroughPhi(op, call) {
					okRet = true
				}
			}
		}
	})
	if !okRet {
		return false, ""
	}
	return true, "delegated to " + p.Name(g) + ", which writes exactly its bytes argument once and returns the Write error"
}

// thinCore: the encoder is nothing but `return core(terms over its parameters)`: one call of a module function whose results are
// returned position by position at every return, every other call being an unexported helper or a builtin (argument terms).
func thinCore(p *Prog, enc *ssa.Function) *ssa.Call {
	var core *ssa.Call
	ok := true
	eachInstr(enc, func(b *ssa.BasicBlock, in ssa.Instruction) {
		ret, isRet := in.(*ssa.Return)
		if !isRet {
			return
		}
		for i, rv := range ret.Results {
			ex, isEx := rv.(*ssa.Extract)
			if !isEx || ex.Index != i {
				ok = false
				return
			}
			c, isC := ex.Tuple.(*ssa.Call)
			if !isC || (core != nil && core != c) {
				ok = false
				return
			}
			core = c
		}
	})
	if !ok || core == nil {
		return nil
	}
	h := staticCallee(&core.Call)
	if h == nil || !p.InModule(h) || len(h.Blocks) == 0 {
		return nil
	}
	eachInstr(enc, func(b *ssa.BasicBlock, in ssa.Instruction) {
		switch x := in.(type) {
		case *ssa.Call:
			if x == core {
				return
			}
			if _, isB := x.Call.Value.(*ssa.Builtin); isB {
				return
			}
			if g := staticCallee(&x.Call); g != nil && p.InModule(g) && !p.Exported(g) {
				return
			}
			ok = false
		case *ssa.Store, *ssa.MapUpdate, *ssa.Go, *ssa.Defer, *ssa.Send:
			ok = false
		}
	})
	if !ok {
		return nil
	}
	return core
}

// wwShape: a value as a term over the positions of the root frame's parameters, constants and calls of unexported helpers.
func wwShape(p *Prog, v ssa.Value, fr *wwFrame, posOf func(int) int, depth int) (string, bool) {
	if depth > 12 {
		return "", false
	}
	switch x := v.(type) {
	case *ssa.Parameter:
		for i, prm := range fr.fn.Params {
			if prm == x {
				if fr.parent == nil {
					k := posOf(i)
					if k < 0 {
						return "", false
					}
					return fmt.Sprintf("P%d", k), true
				}
				args := fr.call.Common().Args
				if i < len(args) {
					return wwShape(p, args[i], fr.parent, posOf, depth+1)
				}
			}
		}
	case *ssa.Const:
		return "k:" + x.String(), true
	case *ssa.ChangeType:
		return wwShape(p, x.X, fr, posOf, depth+1)
	case *ssa.ChangeInterface:
		return wwShape(p, x.X, fr, posOf, depth+1)
	case *ssa.Call:
		name := ""
		if b, isB := x.Call.Value.(*ssa.Builtin); isB && (b.Name() == "len" || b.Name() == "cap") {
			name = b.Name()
		} else if g := staticCallee(&x.Call); g != nil && p.InModule(g) && !p.Exported(g) {
			name = p.Name(g)
		}
		if name == "" {
			return "", false
		}
		var parts []string
		for _, a := range x.Call.Args {
			t, ok := wwShape(p, a, fr, posOf, depth+1)
			if !ok {
				return "", false
			}
			parts = append(parts, t)
		}
		return name + "(" + strings.Join(parts, ",") + ")", true
	}
	return "", false
}

// returnsResultsOf: the module functions whose results fn hands back position by position at some return.
func returnsResultsOf(fn *ssa.Function) map[*ssa.Function]bool {
	out := map[*ssa.Function]bool{}
	eachInstr(fn, func(b *ssa.BasicBlock, in ssa.Instruction) {
		ret, ok := in.(*ssa.Return)
		if !ok || len(ret.Results) == 0 {
			return
		}
		var c *ssa.Call
		for i, rv := range ret.Results {
			ex, isEx := rv.(*ssa.Extract)
			if !isEx || ex.Index != i {
				return
			}
			cc, isC := ex.Tuple.(*ssa.Call)
			if !isC || (c != nil && c != cc) {
				return
			}
			c = cc
		}
		if c != nil {
			if h := staticCallee(&c.Call); h != nil {
				out[h] = true
			}
		}
	})
	return out
}
