package chk

import (
	"fmt"
	"go/token"
	"go/types"
	"strings"

	"golang.org/x/tools/go/ssa"
)

// ===== family K: ESC — escape taint (C05, C02, C03) =======================================================
//
// Sources are strings taken from Map *values* (v.(string), string(v.([]byte)), or an interface value that may
// hold a string and is formatted with %v); sinks are the operands of writes to the output buffer; the sanitiser
// is escapeChars. Every source→sink flow must, on every path where xmlEscapeChars is not known false, pass
// through the sanitiser. Exempt by construct: comment, directive and processing-instruction text, bytes produced
// by xml.Marshal*, element/attribute names, non-string scalars.

type escCtx struct {
	p     *Prog
	fn    *ssa.Function
	cz    *canonizer
	tf    *typeFlow
	flag  *ssa.Global
	memo  map[string]string
	nSrc  map[ssa.Value]bool
	depth int
}

// escOffGuard: blk (or the edge pred->blk) is dominated by xmlEscapeChars == false.
func (e *escCtx) escOff(blk *ssa.BasicBlock, extra *guard) bool {
	gs := dominatingGuards(blk)
	if extra != nil {
		gs = append(gs, *extra)
	}
	for _, g := range gs {
		ng := normGuard(g)
		if globalOf(ng.Cond) == e.flag && !ng.Pol {
			return true
		}
		if bo, ok := ng.Cond.(*ssa.BinOp); ok && globalOf(bo.X) == e.flag {
			if b, isB := constBool(bo.Y); isB {
				isTrue := (bo.Op == token.EQL) == (b == true)
				if (isTrue && !ng.Pol) || (!isTrue && ng.Pol) {
					return true
				}
			}
		}
	}
	return false
}

func (e *escCtx) exemptByKey(blk *ssa.BasicBlock) bool {
	for _, g := range dominatingGuards(blk) {
		ng := normGuard(g)
		bo, ok := ng.Cond.(*ssa.BinOp)
		if !ok || (bo.Op == token.EQL) != ng.Pol || (bo.Op != token.EQL && bo.Op != token.NEQ) {
			continue
		}
		for _, side := range []ssa.Value{bo.X, bo.Y} {
			if g := globalOf(side); g != nil {
				switch g.Name() {
				case "commentK", "directiveK", "procinstK":
					return true
				}
			}
		}
	}
	return false
}

func isStrOrBytes(t types.Type) bool { return isStringType(t) || isByteSlice(t) }

// dirty returns "" if v is safe to write at the context (block blk, optionally an extra edge guard), otherwise a description of the raw source.
func (e *escCtx) dirty(v ssa.Value, blk *ssa.BasicBlock, extra *guard, seen map[ssa.Value]bool) string {
	if v == nil || seen[v] {
		return ""
	}
	seen[v] = true
	defer delete(seen, v)
	switch x := v.(type) {
	case *ssa.Const, *ssa.Parameter, *ssa.Global, *ssa.FreeVar:
		if prm, ok := v.(*ssa.Parameter); ok && isIfaceType(prm.Type()) {
			return e.ifaceValue(v, blk, extra)
		}
		return ""
	case *ssa.TypeAssert:
		if isStrOrBytes(x.AssertedType) {
			return e.source(x, x.X, x.Block(), blk, extra)
		}
		return ""
	case *ssa.Extract:
		if ta, ok := x.Tuple.(*ssa.TypeAssert); ok && x.Index == 0 && isStrOrBytes(ta.AssertedType) {
			return e.source(x, ta.X, ta.Block(), blk, extra)
		}
		if _, ok := x.Tuple.(*ssa.Next); ok {
			if x.Index == 1 {
				return "" // map key: a name
			}
			return e.ifaceValue(v, blk, extra)
		}
		if c, ok := x.Tuple.(*ssa.Call); ok {
			if isCallTo(&c.Call, "encoding/xml.Marshal", "encoding/xml.MarshalIndent") {
				return ""
			}
		}
		if isIfaceType(x.Type()) {
			return e.ifaceValue(v, blk, extra)
		}
		return ""
	case *ssa.Call:
		if g := staticCallee(&x.Call); g != nil {
			if e.p.Name(g) == "mxj.escapeChars" {
				return ""
			}
			nm := extName(g)
			if hasPrefixAny(nm, "fmt.Sprint") {
				for _, a := range x.Call.Args {
					if d := e.dirty(a, blk, extra, seen); d != "" {
						return d
					}
				}
				return ""
			}
			if hasPrefixAny(nm, "strings.", "strconv.") {
				for _, a := range x.Call.Args {
					if d := e.dirty(a, blk, extra, seen); d != "" {
						return d
					}
				}
				return ""
			}
			return ""
		}
		return ""
	case *ssa.BinOp:
		if d := e.dirty(x.X, blk, extra, seen); d != "" {
			return d
		}
		return e.dirty(x.Y, blk, extra, seen)
	case *ssa.Convert:
		return e.dirty(x.X, blk, extra, seen)
	case *ssa.ChangeType:
		return e.dirty(x.X, blk, extra, seen)
	case *ssa.MakeInterface:
		return e.dirty(x.X, blk, extra, seen)
	case *ssa.Slice:
		// the variadic argument array of Sprintf, or a slice of a string
		if a, ok := x.X.(*ssa.Alloc); ok {
			for _, ref := range *a.Referrers() {
				if ia, ok := ref.(*ssa.IndexAddr); ok {
					for _, r2 := range *ia.Referrers() {
						if st, ok := r2.(*ssa.Store); ok {
							if d := e.dirty(st.Val, blk, extra, seen); d != "" {
								return d
							}
						}
					}
				}
			}
			return ""
		}
		return e.dirty(x.X, blk, extra, seen)
	case *ssa.Phi:
		if isIfaceType(x.Type()) {
			// refined after the merge (type switch on the merged value): judge it where it is used
			if e.ifaceValueQuiet(x, blk, extra) {
				return ""
			}
		}
		for i, ev := range x.Edges {
			pred := x.Block().Preds[i]
			var eg *guard
			if ifi, ok := pred.Instrs[len(pred.Instrs)-1].(*ssa.If); ok {
				eg = &guard{ifi.Cond, succIndex(pred, x.Block(), i) == 0}
			}
			if isIfaceType(ev.Type()) {
				if _, isMI := ev.(*ssa.MakeInterface); !isMI {
					if _, isPhi := ev.(*ssa.Phi); !isPhi {
						// a raw interface value arriving over this edge: decided by its type set on the edge
						if d := e.ifaceOnEdge(ev, pred, x.Block(), i, eg); d != "" {
							return d
						}
						continue
					}
				}
			}
			if d := e.dirty(ev, pred, eg, seen); d != "" {
				return d
			}
		}
		return ""
	case *ssa.UnOp:
		if x.Op == token.MUL {
			// loads: element of the sorted pair list (component 1 is a value), struct fields (keyval.v), pretty fields
			if ia, ok := x.X.(*ssa.IndexAddr); ok {
				if k, isK := constInt(ia.Index); isK && k == 0 {
					if _, isArr := derefType(ia.X.Type()).Underlying().(*types.Array); isArr {
						return "" // component 0 of a pair: the key / attribute name
					}
				}
				if isIfaceType(x.Type()) {
					return e.ifaceValue(v, blk, extra)
				}
				if isStringType(x.Type()) {
					// attrlist[n][1]: a string component that was stored from a value: follow the stores
					return e.storedStrings(ia, blk, extra, seen)
				}
				return ""
			}
			if isIfaceType(x.Type()) {
				return e.ifaceValue(v, blk, extra)
			}
		}
		return ""
	case *ssa.Lookup:
		if isIfaceType(x.Type()) {
			return e.ifaceValue(v, blk, extra)
		}
		return ""
	case *ssa.Index:
		if isIfaceType(x.Type()) {
			return e.ifaceValue(v, blk, extra)
		}
		return ""
	case *ssa.Field:
		if isIfaceType(x.Type()) {
			return e.ifaceValue(v, blk, extra)
		}
		return ""
	}
	return ""
}

// storedStrings: a string component loaded from an array element (attrlist[i][1]): every store to that component in the function must be clean.
func (e *escCtx) storedStrings(ia *ssa.IndexAddr, blk *ssa.BasicBlock, extra *guard, seen map[ssa.Value]bool) string {
	k, _ := constInt(ia.Index)
	arr := derefType(ia.X.Type())
	res := ""
	eachInstr(e.fn, func(b *ssa.BasicBlock, in ssa.Instruction) {
		st, ok := in.(*ssa.Store)
		if !ok || res != "" {
			return
		}
		ia2, ok := st.Addr.(*ssa.IndexAddr)
		if !ok || !types.Identical(derefType(ia2.X.Type()), arr) {
			return
		}
		if k2, isK := constInt(ia2.Index); !isK || k2 != k {
			return
		}
		if d := e.dirty(st.Val, st.Block(), nil, seen); d != "" {
			res = d
		}
	})
	return res
}

func (e *escCtx) source(v ssa.Value, operand ssa.Value, defBlk, useBlk *ssa.BasicBlock, extra *guard) string {
	// exemptions by construct
	if e.exemptByKey(defBlk) {
		return ""
	}
	if u, ok := operand.(*ssa.UnOp); ok {
		if ia, ok := u.X.(*ssa.IndexAddr); ok {
			if k, isK := constInt(ia.Index); isK && k == 0 {
				if _, isArr := derefType(ia.X.Type()).Underlying().(*types.Array); isArr {
					return "" // the key component of a sorted pair
				}
			}
		}
	}
	e.nSrc[v] = true
	if e.escOff(useBlk, extra) || e.escOff(defBlk, nil) {
		return ""
	}
	return "string value " + e.p.ExprAt(v.Pos()) + " asserted at " + e.p.Pos(v.Pos())
}

// ifaceValue: an interface value written with %v: safe if its dynamic type cannot be string or []byte here.
func (e *escCtx) ifaceValue(v ssa.Value, blk *ssa.BasicBlock, extra *guard) string {
	if e.exemptByKey(blk) {
		return ""
	}
	s := e.tf.setAtEntry(v, blk)
	return e.judgeSet(v, s, blk, extra)
}

// ifaceValueQuiet: true if the interface value cannot hold a string at blk (no source is recorded otherwise).
func (e *escCtx) ifaceValueQuiet(v ssa.Value, blk *ssa.BasicBlock, extra *guard) bool {
	s := e.tf.setAtEntry(v, blk)
	if s.neg {
		return s.ts["string"] && s.ts["[]byte"]
	}
	return !(s.ts["string"] || s.ts["[]byte"] || s.ts["[]uint8"])
}

func (e *escCtx) ifaceOnEdge(v ssa.Value, pred, succ *ssa.BasicBlock, slot int, eg *guard) string {
	s := e.tf.setOnEdge(v, pred, succ, slot)
	return e.judgeSet(v, s, pred, eg)
}

func (e *escCtx) judgeSet(v ssa.Value, s tset, blk *ssa.BasicBlock, extra *guard) string {
	mayStr := false
	if s.neg {
		mayStr = !(s.ts["string"] && s.ts["[]byte"])
	} else {
		mayStr = s.ts["string"] || s.ts["[]byte"] || s.ts["[]uint8"]
	}
	if !mayStr {
		return ""
	}
	if e.escOff(blk, extra) {
		return ""
	}
	e.nSrc[v] = true
	return "interface value " + v.Name() + " that may hold a string (type set " + s.String() + ")"
}

func ruleEsc(p *Prog, r *Report) {
	const rule = "ESC.flow"
	flag := p.Globals["mxj.xmlEscapeChars"]
	if flag == nil {
		r.Anchor(rule, "mxj.xmlEscapeChars")
		return
	}
	total := 0
	for _, n := range []string{"mxj.marshalMapToXmlIndent", "mxj.mapToXmlSeqIndent"} {
		fn := p.Fn(n)
		if fn == nil {
			r.Anchor(rule, n)
			continue
		}
		e := &escCtx{p: p, fn: fn, cz: p.canonFor(fn), tf: p.typeFlowOf(fn), flag: flag, nSrc: map[ssa.Value]bool{}}
		ord := newOrdinals()
		nSinks := 0
		for _, in := range instrsByPos(fn) {
			ci, ok := in.(ssa.CallInstruction)
			if !ok {
				continue
			}
			cm := ci.Common()
			if !isCallTo(cm, "(*bytes.Buffer).WriteString", "(*bytes.Buffer).Write", "(*strings.Builder).WriteString", "(*strings.Builder).Write") {
				continue
			}
			nSinks++
			arg := cm.Args[1]
			if _, isC := arg.(*ssa.Const); isC {
				continue
			}
			src := p.ExprAt(in.Pos())
			construct := ord.key(n, "write "+src)
			d := e.dirty(arg, in.Block(), nil, map[ssa.Value]bool{})
			if d == "" {
				r.OK(rule, n, construct, p.Pos(in.Pos()), "operand is a name, whitespace, an escaped value, or raw only where xmlEscapeChars is false")
			} else {
				r.Bad(rule, n, construct, p.Pos(in.Pos()), "a Map value reaches the output unescaped on a path where xmlEscapeChars may be true: "+d)
			}
		}
		total += len(e.nSrc)
		r.OK(rule, n, "value sources enumerated", p.Pos(fn.Pos()), fmt.Sprintf("%d output writes, %d distinct value sources (string assertions / interface values that may hold strings)", nSinks, len(e.nSrc)))
	}
	if total < 8 {
		r.Add(&Ob{Rule: rule + ".floor", Construct: "sources<8", Status: Undecided, Why: fmt.Sprintf("only %d value sources recognised in the two encoders (floor 8): the encoders changed shape", total)})
	}
}

var _ = strings.Join
