package chk

import (
	"go/token"

	"golang.org/x/tools/go/ssa"
)

// Intra-procedural data-flow closures over SSA def-use edges, with a simple treatment of local memory:
// a tainted value stored through an address rooted at a local Alloc taints every load rooted at that Alloc.

func rootAlloc(addr ssa.Value) *ssa.Alloc {
	for {
		switch x := addr.(type) {
		case *ssa.Alloc:
			return x
		case *ssa.FieldAddr:
			addr = x.X
		case *ssa.IndexAddr:
			addr = x.X
		default:
			return nil
		}
	}
}

// forwardSlice returns every value and instruction data-dependent on the seeds (operands only).
func forwardSlice(fn *ssa.Function, seeds ...ssa.Value) map[ssa.Instruction]bool {
	return forwardSliceOpt(fn, true, seeds...)
}

// forwardSliceOpt: with followMap==false a value inserted into a map does not taint the map (maps are
// order-insensitive containers for the ORDER rules).
func forwardSliceOpt(fn *ssa.Function, followMap bool, seeds ...ssa.Value) map[ssa.Instruction]bool {
	tainted := map[ssa.Value]bool{}
	instrs := map[ssa.Instruction]bool{}
	allocs := map[*ssa.Alloc]bool{}
	var work []ssa.Value
	push := func(v ssa.Value) {
		if v != nil && !tainted[v] {
			tainted[v] = true
			work = append(work, v)
		}
	}
	for _, s := range seeds {
		push(s)
	}
	for len(work) > 0 {
		v := work[len(work)-1]
		work = work[:len(work)-1]
		refs := v.Referrers()
		if refs == nil {
			continue
		}
		for _, in := range *refs {
			instrs[in] = true
			switch x := in.(type) {
			case *ssa.Store:
				if x.Val == v {
					if a := rootAlloc(x.Addr); a != nil && !allocs[a] {
						allocs[a] = true
						// every load rooted at a becomes tainted
						eachInstr(fn, func(b *ssa.BasicBlock, i2 ssa.Instruction) {
							if u, ok := i2.(*ssa.UnOp); ok && u.Op == token.MUL && rootAlloc(u.X) == a {
								push(u)
							}
						})
						// the alloc itself (its address) may be passed to a call
						push(a)
					}
				}
			case *ssa.MapUpdate:
				// the map now contains the tainted value
				if followMap && (x.Value == v || x.Key == v) {
					push(x.Map)
				}
			case ssa.Value:
				if !followMap {
					// a slice that is appended to carries the order of the appends, not a value: the ORDER rules require it to be
					// sorted before it is read (unordered-slice clause), so the taint does not pass through it
					if c, ok := x.(*ssa.Call); ok {
						if bi, ok := c.Call.Value.(*ssa.Builtin); ok && bi.Name() == "append" {
							continue
						}
					}
				}
				push(x)
			}
		}
	}
	return instrs
}

// reachesCallArg reports whether a value flows (forward slice) into an argument of a call to one of the callees
// (nil callees: any call), and returns those call instructions.
func reachesCallArg(fn *ssa.Function, seed ssa.Value, accept func(c *ssa.CallCommon) bool) []ssa.CallInstruction {
	var out []ssa.CallInstruction
	sl := forwardSlice(fn, seed)
	for in := range sl {
		ci, ok := in.(ssa.CallInstruction)
		if !ok {
			continue
		}
		if accept == nil || accept(ci.Common()) {
			out = append(out, ci)
		}
	}
	return out
}

// backwardSlice: all values v transitively used (as operands) to compute the seeds; through phis; through
// loads of local allocs to the values stored there.
func backwardSlice(fn *ssa.Function, seeds ...ssa.Value) map[ssa.Value]bool {
	seen := map[ssa.Value]bool{}
	var work []ssa.Value
	push := func(v ssa.Value) {
		if v != nil && !seen[v] {
			seen[v] = true
			work = append(work, v)
		}
	}
	for _, s := range seeds {
		push(s)
	}
	for len(work) > 0 {
		v := work[len(work)-1]
		work = work[:len(work)-1]
		if u, ok := v.(*ssa.UnOp); ok && u.Op == token.MUL {
			if a := rootAlloc(u.X); a != nil {
				eachInstr(fn, func(b *ssa.BasicBlock, in ssa.Instruction) {
					if st, ok := in.(*ssa.Store); ok && rootAlloc(st.Addr) == a {
						push(st.Val)
					}
				})
			}
		}
		if a, ok := v.(*ssa.Alloc); ok {
			eachInstr(fn, func(b *ssa.BasicBlock, in ssa.Instruction) {
				if st, ok := in.(*ssa.Store); ok && rootAlloc(st.Addr) == a {
					push(st.Val)
				}
			})
		}
		if in, ok := v.(ssa.Instruction); ok {
			for _, op := range in.Operands(nil) {
				if op != nil && *op != nil {
					push(*op)
				}
			}
		}
	}
	return seen
}

// derivesFrom: v is computed from src through identity-preserving operations only
// (conversions, change of named type, whole slices x[:], tuple extraction, phis all of whose edges derive from src).
func derivesFrom(v, src ssa.Value) bool {
	seen := map[ssa.Value]bool{}
	var rec func(v ssa.Value) bool
	rec = func(v ssa.Value) bool {
		if v == src {
			return true
		}
		if seen[v] {
			return false
		}
		seen[v] = true
		switch x := v.(type) {
		case *ssa.ChangeType:
			return rec(x.X)
		case *ssa.Convert:
			return rec(x.X)
		case *ssa.ChangeInterface:
			return rec(x.X)
		case *ssa.MakeInterface:
			return rec(x.X)
		case *ssa.Slice:
			if x.Low == nil && x.High == nil {
				return rec(x.X)
			}
		case *ssa.Extract:
			return rec(x.Tuple)
		case *ssa.Phi:
			for _, e := range x.Edges {
				if !rec(e) {
					return false
				}
			}
			return len(x.Edges) > 0
		}
		return false
	}
	return rec(v)
}
