package chk

import (
	"fmt"
	"go/token"
	"strings"

	"golang.org/x/tools/go/ssa"
)

// Rules added after the third round of seeded changes. Each is a structural necessary condition of the property named.

// SEQ.unwind (C04) — the sequence encoder sorts the children of an element by their own sequence number, so every member of a
// list of same-named children must be a sort entry of its own: the value put into a sort entry (the `v` field of the entries of
// the slice handed to sort.Sort) is either an element read from a []interface{} or a value whose dynamic type excludes
// []interface{} at that point. A list stored whole sorts as one block and interleaved siblings (a, b, a) come out as a, a, b.
func ruleSeqUnwind(p *Prog, r *Report) {
	const rule = "SEQ.unwind"
	fn := p.Fn("mxj.mapToXmlSeqIndent")
	if fn == nil {
		r.Anchor(rule, "mxj.mapToXmlSeqIndent")
		return
	}
	n := p.Name(fn)
	tf := p.typeFlowOf(fn)
	ord := newOrdinals()
	cnt := 0
	for _, in := range instrsByPos(fn) {
		st, ok := in.(*ssa.Store)
		if !ok {
			continue
		}
		fa, ok := st.Addr.(*ssa.FieldAddr)
		if !ok || !isEmptyIface(st.Val.Type()) {
			continue
		}
		// field of a sort entry: the struct type implements nothing itself; its slice type is converted to a sort.Interface
		stt := derefType(fa.X.Type())
		if !strings.HasSuffix(typeStr(stt), "keyval") {
			continue
		}
		v := st.Val
		// only the children of the element being encoded: members of a list, or values ranged out of the element's own map
		if !fromListElement(v) && !rangedFromParamMap(v, fn) {
			continue
		}
		cnt++
		construct := ord.key(n, "sort entry value")
		if fromListElement(v) {
			r.OK(rule, n, construct, p.Pos(st.Pos()), "a member read from a list: one sort entry per member")
			continue
		}
		ts := tf.setAtEntry(v, st.Block())
		if ts.neg && ts.ts["[]interface{}"] || !ts.neg && !ts.ts["[]interface{}"] && len(ts.ts) > 0 {
			r.OK(rule, n, construct, p.Pos(st.Pos()), "the value is not a list here (dynamic types: "+ts.String()+")")
			continue
		}
		r.Bad(rule, n, construct, p.Pos(st.Pos()), "a value that may be a whole list of same-named children becomes a single sort entry: its members are not ordered individually by their sequence numbers (dynamic types here: "+ts.String()+")")
	}
	if cnt < 1 {
		r.Unknown(rule, n, "sort entries", p.Pos(fn.Pos()), fmt.Sprintf("%d stores into sort entries found (2 on the pinned tree: list members and single values)", cnt))
	}
}

// rangedFromParamMap: v is the value half of a range over a map obtained from an interface parameter of fn by assertion only.
func rangedFromParamMap(v ssa.Value, fn *ssa.Function) bool {
	ex, ok := v.(*ssa.Extract)
	if !ok {
		return false
	}
	nx, ok := ex.Tuple.(*ssa.Next)
	if !ok {
		return false
	}
	rg, ok := nx.Iter.(*ssa.Range)
	if !ok {
		return false
	}
	root := nodeRoot(rg.X)
	for _, prm := range fn.Params {
		if root == ssa.Value(prm) || phiChainReachesValue(root, prm) {
			return true
		}
	}
	return false
}

// fromListElement: v is loaded from an element address of a []interface{}.
func fromListElement(v ssa.Value) bool {
	u, ok := v.(*ssa.UnOp)
	if !ok || u.Op != token.MUL {
		return false
	}
	ia, ok := u.X.(*ssa.IndexAddr)
	return ok && typeStr(ia.X.Type()) == "[]interface{}"
}

// SEQ.result (C04) — the sequence decoder collects everything an element contains (attributes, text, children, comments …) in
// one map and hands it over when the element ends. The map it returns is therefore written only on the way out: no store into a
// returned map may be followed by reading another token. A store into the result in the middle of the element (a "fast path" for
// simple elements) makes the end-of-element code return that early result and drop what was collected afterwards.
func ruleSeqResult(p *Prog, r *Report) {
	const rule = "SEQ.result"
	fn := p.Fn("mxj.xmlSeqToMapParser")
	if fn == nil {
		r.Anchor(rule, "mxj.xmlSeqToMapParser")
		return
	}
	n := p.Name(fn)
	// the values returned as the Map result
	results := map[ssa.Value]bool{}
	var add func(v ssa.Value)
	add = func(v ssa.Value) {
		if v == nil || results[v] || isNilConst(v) {
			return
		}
		results[v] = true
		if ph, ok := v.(*ssa.Phi); ok {
			for _, e := range ph.Edges {
				add(e)
			}
		}
	}
	eachInstr(fn, func(b *ssa.BasicBlock, in ssa.Instruction) {
		if ret, ok := in.(*ssa.Return); ok && len(ret.Results) > 0 {
			add(ret.Results[0])
		}
	})
	// the token loop
	var hdr *ssa.BasicBlock
	eachInstr(fn, func(b *ssa.BasicBlock, in ssa.Instruction) {
		if c, ok := in.(*ssa.Call); ok && isCallTo(&c.Call, "(*encoding/xml.Decoder).Token", "(*encoding/xml.Decoder).RawToken") {
			if h := innermostLoopHeader(b); h != nil {
				hdr = h
			}
		}
	})
	if hdr == nil {
		r.Unknown(rule, n, "token loop", p.Pos(fn.Pos()), "the loop reading tokens was not found")
		return
	}
	ord := newOrdinals()
	cnt := 0
	for _, in := range instrsByPos(fn) {
		mu, ok := in.(*ssa.MapUpdate)
		if !ok || !results[mu.Map] {
			continue
		}
		cnt++
		construct := ord.key(n, "store into the returned map")
		// can another token be read after this store?
		again := false
		seen := map[*ssa.BasicBlock]bool{}
		work := []*ssa.BasicBlock{}
		for _, sc := range mu.Block().Succs {
			work = append(work, sc)
		}
		for len(work) > 0 {
			b := work[len(work)-1]
			work = work[:len(work)-1]
			if seen[b] {
				continue
			}
			seen[b] = true
			if b == hdr {
				again = true
				break
			}
			work = append(work, b.Succs...)
		}
		if again {
			r.Bad(rule, n, construct, p.Pos(mu.Pos()), "the map that is returned is written before the element has ended (another token can be read after this store): what is collected afterwards is not part of the result")
		} else {
			r.OK(rule, n, construct, p.Pos(mu.Pos()), "every path from this store leads to a return")
		}
	}
	if cnt < 2 {
		r.Unknown(rule, n, "stores into the returned map", p.Pos(fn.Pos()), fmt.Sprintf("only %d found (at least 2 confirmed by reading: end of element with and without content)", cnt))
	}
}

// PRESENCE.commaok (C07 C08 C10 C11) — JSON null is a legitimate stored value, so whether a map has a key is decided by the
// comma-ok form of the lookup; a branch on `m[k] == nil` treats a null entry as absent. Every branch condition in the scoped
// functions that compares a map[string]interface{} lookup with nil is reported.
func rulePresence(p *Prog, r *Report, scope func(name string) bool, what string) {
	const rule = "PRESENCE.commaok"
	nLook, nFn := 0, 0
	for _, fn := range p.FuncList {
		name := p.Name(fn)
		if !scope(name) || len(fn.Blocks) == 0 {
			continue
		}
		nFn++
		ord := newOrdinals()
		eachInstr(fn, func(b *ssa.BasicBlock, in ssa.Instruction) {
			lk, ok := in.(*ssa.Lookup)
			if !ok || typeStr(lk.X.Type()) != "map[string]interface{}" {
				return
			}
			nLook++
			var val ssa.Value = lk
			if lk.CommaOk {
				// the value half compared with nil while the ok half is ignored is the same mistake
				var v0, okv ssa.Value
				for _, ref := range *lk.Referrers() {
					if ex, isEx := ref.(*ssa.Extract); isEx {
						if ex.Index == 0 {
							v0 = ex
						} else {
							okv = ex
						}
					}
				}
				if okv != nil && len(*okv.Referrers()) > 0 {
					return
				}
				val = v0
			}
			if val == nil || val.Referrers() == nil {
				return
			}
			for _, ref := range *val.Referrers() {
				bo, isBo := ref.(*ssa.BinOp)
				if !isBo || (bo.Op != token.EQL && bo.Op != token.NEQ) || !(isNilConst(bo.X) || isNilConst(bo.Y)) {
					continue
				}
				// used as a branch condition (directly or through !)
				steers := false
				for _, r2 := range *bo.Referrers() {
					switch y := r2.(type) {
					case *ssa.If:
						steers = true
					case *ssa.UnOp:
						if y.Op == token.NOT {
							steers = true
						}
					case *ssa.Phi:
						steers = true
					}
				}
				if steers {
					r.Bad(rule, name, ord.key(name, "nil comparison of a lookup"), p.Pos(bo.Pos()), "presence of a key is decided by comparing the looked-up value with nil: an entry holding null is treated as absent")
				}
			}
		})
	}
	// the same through a helper: a module function that returns the looked-up value, compared with nil by its caller
	for _, fn := range p.FuncList {
		name := p.Name(fn)
		if !scope(name) || len(fn.Blocks) == 0 {
			continue
		}
		ord := newOrdinals()
		eachInstr(fn, func(b *ssa.BasicBlock, in ssa.Instruction) {
			bo, ok := in.(*ssa.BinOp)
			if !ok || (bo.Op != token.EQL && bo.Op != token.NEQ) {
				return
			}
			var side ssa.Value
			if isNilConst(bo.Y) {
				side = bo.X
			} else if isNilConst(bo.X) {
				side = bo.Y
			} else {
				return
			}
			c, isCall := side.(*ssa.Call)
			if !isCall {
				if ex, isEx := side.(*ssa.Extract); isEx {
					c, isCall = ex.Tuple.(*ssa.Call)
				}
			}
			if !isCall {
				return
			}
			g := staticCallee(&c.Call)
			if g == nil || !p.InModule(g) || len(g.Blocks) == 0 || !isEmptyIface(side.Type()) {
				return
			}
			idx := 0
			if ex, isEx := side.(*ssa.Extract); isEx {
				idx = ex.Index
			}
			if p.returnsLookedUpValue(g, idx, 0) {
				r.Bad(rule, name, ord.key(name, "nil comparison of a looked-up value returned by "+p.Name(g)), p.Pos(bo.Pos()), "presence of a key is decided by comparing the value a helper looked up with nil: an entry holding null is treated as absent")
			}
		})
	}
	r.OK(rule, what, "presence tests", "", fmt.Sprintf("%d map lookups in %d functions: none decides presence by comparing the value with nil", nLook, nFn))
	if nLook < 2 {
		r.Unknown(rule, what, "lookups in scope", "", fmt.Sprintf("only %d lookups found in scope", nLook))
	}
}

// returnsLookedUpValue: some return of g hands back, as result idx, the plain value of a map[string]interface{} lookup (no ok flag).
func (p *Prog) returnsLookedUpValue(g *ssa.Function, idx int, depth int) bool {
	if depth > 2 {
		return false
	}
	found := false
	var isLooked func(v ssa.Value, seen map[ssa.Value]bool) bool
	isLooked = func(v ssa.Value, seen map[ssa.Value]bool) bool {
		if seen[v] {
			return false
		}
		seen[v] = true
		switch x := v.(type) {
		case *ssa.Lookup:
			return !x.CommaOk && typeStr(x.X.Type()) == "map[string]interface{}"
		case *ssa.Phi:
			for _, e := range x.Edges {
				if isLooked(e, seen) {
					return true
				}
			}
		case *ssa.Call:
			if h := staticCallee(&x.Call); h != nil && p.InModule(h) && len(h.Blocks) > 0 {
				return p.returnsLookedUpValue(h, 0, depth+1)
			}
		}
		return false
	}
	eachInstr(g, func(b *ssa.BasicBlock, in ssa.Instruction) {
		if ret, ok := in.(*ssa.Return); ok && idx < len(ret.Results) {
			if isLooked(ret.Results[idx], map[ssa.Value]bool{}) {
				found = true
			}
		}
	})
	return found
}
