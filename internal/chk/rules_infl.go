package chk

import (
	"fmt"
	"go/token"
	"go/types"
	"sort"
	"strings"

	"golang.org/x/tools/go/ssa"
)

// ===== F7 influence sets and family C: INFL — coverage and non-interference ============================

type inflSet struct {
	globals map[*ssa.Global]bool
	params  map[*ssa.Parameter]bool
	values  map[ssa.Value]bool
}

// influence: package variables and parameters in the backward closure of the seeds over data dependence and
// (intra-procedural) control dependence. Calls contribute their arguments only (under-approximation for coverage rules).
func (p *Prog) influence(fn *ssa.Function, withControl bool, seeds ...ssa.Value) inflSet {
	ci := p.cfgOf(fn)
	res := inflSet{globals: map[*ssa.Global]bool{}, params: map[*ssa.Parameter]bool{}, values: map[ssa.Value]bool{}}
	var work []ssa.Value
	push := func(v ssa.Value) {
		if v != nil && !res.values[v] {
			res.values[v] = true
			work = append(work, v)
		}
	}
	_ = ci
	pushBlockConds := func(b *ssa.BasicBlock) {
		if !withControl || b == nil {
			return
		}
		for _, ce := range ci.cdep[b.Index] {
			if ifi, ok := ce.Block.Instrs[len(ce.Block.Instrs)-1].(*ssa.If); ok {
				push(ifi.Cond)
			}
		}
	}
	for _, s := range seeds {
		push(s)
	}
	for len(work) > 0 {
		v := work[len(work)-1]
		work = work[:len(work)-1]
		switch x := v.(type) {
		case *ssa.Parameter:
			res.params[x] = true
			continue
		case *ssa.Global:
			res.globals[x] = true
			continue
		case *ssa.Const, *ssa.Function, *ssa.Builtin:
			continue
		}
		in, ok := v.(ssa.Instruction)
		if !ok {
			continue
		}
		for _, op := range in.Operands(nil) {
			if op != nil && *op != nil {
				push(*op)
			}
		}
		// the result of an unexported helper depends on the package variables its return values depend on
		if c, ok := v.(*ssa.Call); ok {
			if h := staticCallee(&c.Call); h != nil && h != fn && p.InModule(h) && !p.Exported(h) && len(h.Blocks) > 0 {
				for g := range p.returnGlobals(h, withControl) {
					res.globals[g] = true
				}
			}
		}
		if ph, ok := v.(*ssa.Phi); ok && withControl {
			// the conditions that select among the phi's incoming edges: branches between the join's immediate dominator and the join
			j := ph.Block()
			if d := j.Idom(); d != nil {
				for _, b := range fn.Blocks {
					if b == j || !(b == d || d.Dominates(b)) || !reachableFromSuccs(b)[j] {
						continue
					}
					if b != d && j.Dominates(b) {
						continue // inside a loop headed by j: handled by the back edge's own region
					}
					if ifi, ok := b.Instrs[len(b.Instrs)-1].(*ssa.If); ok {
						push(ifi.Cond)
					}
				}
			}
		}
		// a variable captured by a closure that is called: what the variable holds influences what the closure computes
		if a, ok := v.(*ssa.Alloc); ok {
			eachInstr(fn, func(b *ssa.BasicBlock, i2 ssa.Instruction) {
				if st, ok := i2.(*ssa.Store); ok && rootAlloc(st.Addr) == a {
					push(st.Val)
					pushBlockConds(st.Block())
				}
			})
		}
		// loads of locals: the values stored there
		if u, ok := v.(*ssa.UnOp); ok && u.Op == token.MUL {
			if a := rootAlloc(u.X); a != nil {
				eachInstr(fn, func(b *ssa.BasicBlock, i2 ssa.Instruction) {
					if st, ok := i2.(*ssa.Store); ok && rootAlloc(st.Addr) == a {
						push(st.Val)
						pushBlockConds(st.Block())
					}
				})
			}
		}
	}
	return res
}

// returnGlobals: the package variables that influence the values an unexported helper returns (cached; recursion yields nothing).
func (p *Prog) returnGlobals(h *ssa.Function, withControl bool) map[*ssa.Global]bool {
	key := fmt.Sprintf("retglobals:%p:%v", h, withControl)
	if v, ok := p.facts[key]; ok {
		return v.(map[*ssa.Global]bool)
	}
	out := map[*ssa.Global]bool{}
	p.facts[key] = out // in progress: a recursive helper sees the empty set
	var seeds []ssa.Value
	eachInstr(h, func(b *ssa.BasicBlock, in ssa.Instruction) {
		if ret, ok := in.(*ssa.Return); ok {
			seeds = append(seeds, ret.Results...)
		}
	})
	if len(seeds) > 0 {
		for g := range p.influence(h, withControl, seeds...).globals {
			out[g] = true
		}
	}
	// several return statements: which of them executes selects the value, as the branches before a join select a phi's
	if withControl {
		var rets []*ssa.Return
		eachInstr(h, func(b *ssa.BasicBlock, in ssa.Instruction) {
			if ret, ok := in.(*ssa.Return); ok {
				rets = append(rets, ret)
			}
		})
		if len(rets) > 1 {
			for _, ret := range rets {
				for g := range p.blockInfluence(h, ret).globals {
					out[g] = true
				}
			}
		}
	}
	return out
}

func (s inflSet) globalNames() []string {
	var out []string
	for g := range s.globals {
		out = append(out, g.Pkg.Pkg.Name()+"."+g.Name())
	}
	sort.Strings(out)
	return out
}

func (s inflSet) hasGlobals(p *Prog, names ...string) (missing []string) {
	for _, n := range names {
		if p.Globals[n] == nil && n == "mxj.trimRunes" {
			n = "mxj.disableTrimWhiteSpace" // no cached cut set: the flag itself
		}
		g := p.Globals[n]
		if g == nil || !s.globals[g] {
			missing = append(missing, n)
		}
	}
	return
}

// blockInfluence: variables influencing whether an instruction executes (transitive control dependence, then data dependence of the conditions).
func (p *Prog) blockInfluence(fn *ssa.Function, in ssa.Instruction) inflSet {
	ci := p.cfgOf(fn)
	var conds []ssa.Value
	seen := map[int]bool{}
	work := []int{in.Block().Index}
	for len(work) > 0 {
		bi := work[len(work)-1]
		work = work[:len(work)-1]
		if seen[bi] {
			continue
		}
		seen[bi] = true
		for _, ce := range ci.cdep[bi] {
			if ifi, ok := ce.Block.Instrs[len(ce.Block.Instrs)-1].(*ssa.If); ok {
				conds = append(conds, ifi.Cond)
			}
			work = append(work, ce.Block.Index)
		}
	}
	return p.influence(fn, true, conds...)
}

// ---- INFL.cover -------------------------------------------------------------------------------------------------------

func ruleInflCover(p *Prog, r *Report) {
	const rule = "INFL.cover"
	// Map decoder
	fn := p.Fn("mxj.xmlToMapParser")
	if fn == nil {
		r.Anchor(rule, "mxj.xmlToMapParser")
	} else {
		n := p.Name(fn)
		cz := p.canonFor(fn)
		castFn := p.Fn("mxj.cast")
		nAttr, nElem, nText, nSimple, nSeq := 0, 0, 0, 0, 0
		for _, in := range instrsByPos(fn) {
			mu, ok := in.(*ssa.MapUpdate)
			if !ok {
				continue
			}
			keyInfl := p.influence(fn, true, mu.Key)
			kc := cz.of(mu.Key)
			attrG := p.Globals["mxj.attrPrefix"]
			switch {
			case attrG != nil && keyInfl.globals[attrG] && kc != "load(mxj.textK)":
				// attribute key
				nAttr++
				miss := keyInfl.hasGlobals(p, "mxj.attrPrefix", "mxj.lowerCase", "mxj.snakeCaseKeys")
				// and the attribute's local name
				nameDep := false
				for v := range keyInfl.values {
					if f, ok := v.(*ssa.FieldAddr); ok && fieldName(f.X.Type(), f.Field) == "Local" {
						nameDep = true
					}
					if f, ok := v.(*ssa.Field); ok && fieldName(f.X.Type(), f.Field) == "Local" {
						nameDep = true
					}
				}
				if len(miss) == 0 && nameDep {
					r.OK(rule, n, "attribute key depends on prefix, case folding, snake case and the attribute name", p.Pos(mu.Pos()), "influence set: "+strings.Join(keyInfl.globalNames(), ","))
				} else {
					r.Bad(rule, n, "attribute key depends on prefix, case folding, snake case and the attribute name", p.Pos(mu.Pos()), fmt.Sprintf("missing influence: %v nameDependence=%v", miss, nameDep))
				}
				// value passes through cast and depends on decoder-side escaping
				p.checkCastValue(r, rule, fn, mu, castFn, "attribute value", []string{"mxj.xmlEscapeCharsDecoder"})
			case kc == "load(mxj.textK)" && isCastCall(mu.Value, castFn):
				nText++
				p.checkCastValue(r, rule, fn, mu, castFn, "text under the text key", []string{"mxj.trimRunes", "mxj.xmlEscapeCharsDecoder"})
				bi := p.blockInfluence(fn, mu)
				if miss := bi.hasGlobals(p, "mxj.decodeSimpleValuesAsMap"); len(miss) == 0 {
					r.OK(rule, n, "text-key versus simple-value choice depends on decodeSimpleValuesAsMap", p.Pos(mu.Pos()), "")
				} else {
					r.Bad(rule, n, "text-key versus simple-value choice depends on decodeSimpleValuesAsMap", p.Pos(mu.Pos()), "the option does not control where character data is stored")
				}
			case isCastCall(mu.Value, castFn):
				nSimple++
				p.checkCastValue(r, rule, fn, mu, castFn, "simple element value", []string{"mxj.trimRunes", "mxj.xmlEscapeCharsDecoder"})
				if miss := keyInfl.hasGlobals(p, "mxj.lowerCase", "mxj.snakeCaseKeys"); len(miss) == 0 {
					r.OK(rule, n, "element key depends on case folding and snake case", p.Pos(mu.Pos()), "")
				} else {
					r.Bad(rule, n, "element key depends on case folding and snake case", p.Pos(mu.Pos()), fmt.Sprintf("missing influence: %v", miss))
				}
			default:
				if s, ok := constString(mu.Key); ok && s == "_seq" {
					nSeq++
					bi := p.blockInfluence(fn, mu)
					if miss := bi.hasGlobals(p, "mxj.includeTagSeqNum"); len(miss) == 0 {
						r.OK(rule, n, ordKey(nSeq, "sequence number injected only under includeTagSeqNum"), p.Pos(mu.Pos()), "")
					} else {
						r.Bad(rule, n, ordKey(nSeq, "sequence number injected only under includeTagSeqNum"), p.Pos(mu.Pos()), "the _seq entry is written regardless of the option")
					}
				}
				// element keys: the skey under which the element value is stored
				if _, isParamKey := mu.Key.(*ssa.Phi); isParamKey && strings.Contains(keyString(mu.Key), "skey") {
					nElem++
				}
			}
		}
		if nAttr == 0 {
			r.Bad(rule, n, "attribute insertion site", p.Pos(fn.Pos()), "no map write whose key is built from attrPrefix found")
		}
		if nText == 0 {
			r.Bad(rule, n, "text insertion site", p.Pos(fn.Pos()), "no map write of character data under the text key found")
		}
		if nSimple == 0 {
			r.Bad(rule, n, "simple-value insertion site", p.Pos(fn.Pos()), "no map write of character data under the element key found")
		}
		if nSeq == 0 {
			r.Bad(rule, n, "sequence-number site", p.Pos(fn.Pos()), "no _seq injection found")
		}
	}
	// sequence decoder: keys depend on snakeCaseKeys; values pass through cast
	if fn := p.Fn("mxj.xmlSeqToMapParser"); fn == nil {
		r.Anchor(rule, "mxj.xmlSeqToMapParser")
	} else {
		n := p.Name(fn)
		castFn := p.Fn("mxj.cast")
		nCast := 0
		seenHelper := map[*ssa.Function]bool{}
		eachInstr(fn, func(b *ssa.BasicBlock, in ssa.Instruction) {
			if mu, ok := in.(*ssa.MapUpdate); ok && isCastCall(mu.Value, castFn) {
				nCast++
				return
			}
			// a cast() result handed to an unexported helper that stores its parameter in the map it builds
			c, ok := in.(*ssa.Call)
			if !ok {
				return
			}
			h := staticCallee(&c.Call)
			if h == nil || !p.InModule(h) || p.Exported(h) || len(h.Blocks) == 0 || h == fn {
				return
			}
			// or a helper of the parser that itself stores cast() results (attribute decoding moved out)
			if !seenHelper[h] {
				seenHelper[h] = true
				eachInstr(h, func(b2 *ssa.BasicBlock, i2 ssa.Instruction) {
					if mu, ok := i2.(*ssa.MapUpdate); ok && isCastCall(mu.Value, castFn) {
						nCast++
					}
				})
			}
			for i, a := range c.Call.Args {
				if !isCastCall(a, castFn) || i >= len(h.Params) {
					continue
				}
				stored := false
				for _, ref := range *h.Params[i].Referrers() {
					if mu, ok := ref.(*ssa.MapUpdate); ok && mu.Value == ssa.Value(h.Params[i]) {
						stored = true
					}
				}
				if stored {
					nCast++
				}
			}
		})
		// at least one attribute site and the text site; and no value taken from the document is stored without cast
		raw := ""
		eachInstr(fn, func(b *ssa.BasicBlock, in ssa.Instruction) {
			mu, ok := in.(*ssa.MapUpdate)
			if !ok {
				return
			}
			mi, ok := mu.Value.(*ssa.MakeInterface)
			if !ok || !isStringType(mi.X.Type()) {
				return
			}
			// strings stored directly: allowed for comment/directive/procinst text and the empty element value
			for v := range backwardSlice(fn, mi.X) {
				if f, ok := v.(*ssa.FieldAddr); ok && fieldName(f.X.Type(), f.Field) == "Value" {
					raw = p.Pos(mu.Pos()) // an attribute value stored without cast
				}
				if f, ok := v.(*ssa.Field); ok && fieldName(f.X.Type(), f.Field) == "Value" {
					raw = p.Pos(mu.Pos())
				}
			}
		})
		if nCast >= 2 && raw == "" {
			r.OK(rule, n, "attribute and text values pass through the cast function", p.Pos(fn.Pos()), fmt.Sprintf("%d sites", nCast))
		} else {
			r.Bad(rule, n, "attribute and text values pass through the cast function", p.Pos(fn.Pos()), fmt.Sprintf("%d value insertion sites store a cast() result (attribute and text sites expected); uncast attribute store at %q", nCast, raw))
		}
		// decoder-side escaping reaches every value the sequence decoder casts: the input of each cast() call (in the parser or in the
		// helper that decodes the attributes) depends on xmlEscapeCharsDecoder
		if eg := p.Globals["mxj.xmlEscapeCharsDecoder"]; eg != nil && castFn != nil {
			nIn, unesc := 0, ""
			scan := func(f *ssa.Function) {
				eachInstr(f, func(b *ssa.BasicBlock, in ssa.Instruction) {
					c, ok := in.(*ssa.Call)
					if !ok || staticCallee(&c.Call) != castFn || len(c.Call.Args) == 0 {
						return
					}
					nIn++
					if !p.influence(f, true, c.Call.Args[0]).globals[eg] && unesc == "" {
						unesc = p.Pos(c.Pos())
					}
				})
			}
			scan(fn)
			for h := range seenHelper {
				scan(h)
			}
			if nIn > 0 && unesc == "" {
				r.OK(rule, n, "cast values depend on xmlEscapeCharsDecoder", p.Pos(fn.Pos()), fmt.Sprintf("%d cast inputs, each influenced by the decoder-side escaping switch", nIn))
			} else if nIn > 0 {
				r.Bad(rule, n, "cast values depend on xmlEscapeCharsDecoder", unesc, "the value handed to cast() at "+unesc+" does not depend on XMLEscapeCharsDecoder: with decoder-side escaping on it reaches the Map unescaped, and the encoder (which then does not escape) writes it raw")
			}
		}
		// the key parameter of the recursive call depends on snakeCaseKeys
		skeyInfl := false
		eachInstr(fn, func(b *ssa.BasicBlock, in ssa.Instruction) {
			mu, ok := in.(*ssa.MapUpdate)
			if !ok {
				return
			}
			ki := p.influence(fn, true, mu.Key)
			if len(ki.hasGlobals(p, "mxj.snakeCaseKeys")) == 0 {
				skeyInfl = true
			}
		})
		if skeyInfl {
			r.OK(rule, n, "keys depend on snakeCaseKeys", p.Pos(fn.Pos()), "")
		} else {
			r.Bad(rule, n, "keys depend on snakeCaseKeys", p.Pos(fn.Pos()), "CoerceKeysToSnakeCase has no influence on the keys of the sequence decoder")
		}
	}
	ruleInflCoverJson(p, r)
}

// ruleInflCoverJson: NewMapJson switches the decoder to json.Number under JsonUseNumber.
func ruleInflCoverJson(p *Prog, r *Report) {
	const rule = "INFL.cover"
	if fn := p.Fn("mxj.NewMapJson"); fn == nil {
		r.Anchor(rule, "mxj.NewMapJson")
	} else {
		found := false
		// in NewMapJson itself or in the unexported helpers it decodes through
		for f := range p.Reach(fn) {
			if !p.InModule(f) || len(f.Blocks) == 0 || (f != fn && p.Exported(f)) {
				continue
			}
			ff := f
			eachInstr(ff, func(b *ssa.BasicBlock, in ssa.Instruction) {
				if c, ok := in.(ssa.CallInstruction); ok && isCallTo(c.Common(), "(*encoding/json.Decoder).UseNumber") {
					bi := p.blockInfluence(ff, in)
					if len(bi.hasGlobals(p, "mxj.JsonUseNumber")) == 0 {
						found = true
					}
				}
			})
		}
		if found {
			r.OK(rule, p.Name(fn), "decoder number mode depends on JsonUseNumber", p.Pos(fn.Pos()), "UseNumber() is called under the variable")
		} else {
			r.Bad(rule, p.Name(fn), "decoder number mode depends on JsonUseNumber", p.Pos(fn.Pos()), "JsonUseNumber does not control json.Decoder.UseNumber")
		}
	}
}

func ordKey(n int, s string) string {
	if n > 1 {
		return fmt.Sprintf("%s#%d", s, n)
	}
	return s
}

func keyString(v ssa.Value) string {
	if ph, ok := v.(*ssa.Phi); ok {
		return ph.Comment
	}
	return v.Name()
}

func isCastCall(v ssa.Value, castFn *ssa.Function) bool {
	c, ok := v.(*ssa.Call)
	return ok && castFn != nil && staticCallee(&c.Call) == castFn
}

// checkCastValue: the stored value is cast(text, castFlagParam, tag) and text depends on the listed options.
func (p *Prog) checkCastValue(r *Report, rule string, fn *ssa.Function, mu *ssa.MapUpdate, castFn *ssa.Function, what string, opts []string) {
	n := p.Name(fn)
	c, ok := mu.Value.(*ssa.Call)
	if !ok || castFn == nil || staticCallee(&c.Call) != castFn {
		r.Bad(rule, n, what+" passes through the cast function", p.Pos(mu.Pos()), "the value stored is not the result of cast(): the cast flag cannot take effect here")
		return
	}
	// the cast flag argument is the function's own bool parameter
	flagOK := false
	for _, prm := range fn.Params {
		if isBoolType(prm.Type()) && c.Call.Args[1] == ssa.Value(prm) {
			flagOK = true
		}
	}
	if flagOK {
		r.OK(rule, n, what+" passes through the cast function", p.Pos(mu.Pos()), "cast(text, castFlag, tag)")
	} else {
		r.Bad(rule, n, what+" passes through the cast function", p.Pos(mu.Pos()), "cast() is not given the decoder's cast flag")
	}
	// the tag handed to cast (consulted by the skip-tag function) is the key the value is stored under
	cz := p.canonFor(fn)
	if len(c.Call.Args) >= 3 {
		if cz.of(c.Call.Args[2]) == cz.of(mu.Key) {
			r.OK(rule, n, what+": cast tag is the storage key", p.Pos(mu.Pos()), "")
		} else {
			r.Bad(rule, n, what+": cast tag is the storage key", p.Pos(mu.Pos()), "cast() is told tag "+cz.of(c.Call.Args[2])+" but the value is stored under "+cz.of(mu.Key)+": SetCheckTagToSkipFunc is consulted with the wrong key")
		}
	}
	ti := p.influence(fn, true, c.Call.Args[0])
	if miss := ti.hasGlobals(p, opts...); len(miss) == 0 {
		r.OK(rule, n, what+" depends on "+strings.Join(opts, ","), p.Pos(mu.Pos()), "")
	} else {
		r.Bad(rule, n, what+" depends on "+strings.Join(opts, ","), p.Pos(mu.Pos()), fmt.Sprintf("missing influence: %v", miss))
	}
	// only element text is trimmed: an attribute value is stored as written (non-interference with the trim set)
	if what == "attribute value" {
		di := p.influence(fn, false, c.Call.Args[0])
		if g := p.Globals["mxj.trimRunes"]; g != nil && di.globals[g] {
			r.Bad(rule, n, what+" is not trimmed", p.Pos(mu.Pos()), "the attribute value handed to cast() is computed from trimRunes: leading and trailing white space of attribute values is removed, although only element text is documented as trimmed")
		} else {
			r.OK(rule, n, what+" is not trimmed", p.Pos(mu.Pos()), "no data dependence on trimRunes")
		}
	}
}

// ruleInflFieldSep: the separator used to split sub-key and new-value specifications is the fieldSep variable.
func ruleInflFieldSep(p *Prog, r *Report) {
	const rule = "INFL.cover"
	g := p.Globals["mxj.fieldSep"]
	for _, n := range []string{"mxj.getSubKeyMap", "mxj.Map.UpdateValuesForPath"} {
		fn := p.Fn(n)
		if fn == nil || g == nil {
			r.Anchor(rule, n)
			continue
		}
		ok := false
		// in the function or in the unexported helpers it hands the specification to
		for f := range p.Reach(fn) {
			if f != fn && (!p.InModule(f) || p.Exported(f) || len(f.Blocks) == 0 || p.Name(f) == "mxj.getSubKeyMap") {
				continue // getSubKeyMap parses the sub-key specifications and has its own obligation
			}
			eachInstr(f, func(b *ssa.BasicBlock, in ssa.Instruction) {
				if c, isC := in.(*ssa.Call); isC && isCallTo(&c.Call, "strings.Split", "strings.SplitN") && globalOf(c.Call.Args[1]) == g {
					ok = true
				}
			})
		}
		if ok {
			r.OK(rule, n, "specifications are split on fieldSep", p.Pos(fn.Pos()), "strings.Split(spec, fieldSep)")
		} else {
			r.Bad(rule, n, "specifications are split on fieldSep", p.Pos(fn.Pos()), "SetFieldSeparator has no effect on this parser")
		}
	}
}

// ---- INFL.castflag ---------------------------------------------------------------------------------------------------------

func ruleInflCastFlag(p *Prog, r *Report) {
	const rule = "INFL.castflag"
	castFn := p.Fn("mxj.cast")
	if castFn == nil {
		r.Anchor(rule, "mxj.cast")
		return
	}
	// (1) in both parsers the cast flag parameter is used only as argument of cast() and of the recursive call
	for _, n := range []string{"mxj.xmlToMapParser", "mxj.xmlSeqToMapParser"} {
		fn := p.Fn(n)
		if fn == nil {
			r.Anchor(rule, n)
			continue
		}
		var flag *ssa.Parameter
		for _, prm := range fn.Params {
			if isBoolType(prm.Type()) {
				flag = prm
			}
		}
		if flag == nil {
			r.Unknown(rule, n, "cast flag parameter", p.Pos(fn.Pos()), "no bool parameter")
			continue
		}
		bad := ""
		uses := 0
		// the flag may be handed on to unexported helpers of the parser (attribute decoding moved out, for instance): there, too, it
		// may only be an argument of cast(), of the parser or of such helpers
		var follow func(f *ssa.Function, fl *ssa.Parameter, depth int)
		follow = func(f *ssa.Function, fl *ssa.Parameter, depth int) {
			for _, ref := range *fl.Referrers() {
				switch x := ref.(type) {
				case *ssa.Call:
					g := staticCallee(&x.Call)
					if g == castFn || g == fn || g == f {
						uses++
						continue
					}
					if g != nil && p.InModule(g) && !p.Exported(g) && len(g.Blocks) > 0 && depth < 2 {
						okArg := false
						for i, a := range x.Call.Args {
							if a == ssa.Value(fl) && i < len(g.Params) {
								okArg = true
								follow(g, g.Params[i], depth+1)
							}
						}
						if okArg {
							continue
						}
					}
					bad = "passed to " + p.calleeName(&x.Call) + " at " + p.Pos(x.Pos())
				case *ssa.DebugRef:
				default:
					bad = "used by " + ref.String() + " at " + p.Pos(ref.Pos())
				}
			}
		}
		follow(fn, flag, 0)
		if bad == "" && uses > 0 {
			r.OK(rule, n, "structure independent of the cast flag", p.Pos(fn.Pos()), fmt.Sprintf("the flag has %d uses, all as argument of cast() or of the recursive call", uses))
		} else if bad != "" {
			r.Bad(rule, n, "structure independent of the cast flag", p.Pos(fn.Pos()), "the cast flag influences more than leaf values: "+bad)
		} else {
			r.Bad(rule, n, "structure independent of the cast flag", p.Pos(fn.Pos()), "the cast flag is never used")
		}
	}
	// (2) inside cast: every load of a cast option is dominated by the flag-true edge
	flag := (*ssa.Parameter)(nil)
	for _, prm := range castFn.Params {
		if isBoolType(prm.Type()) {
			flag = prm
		}
	}
	input := castFn.Params[0]
	if flag == nil {
		r.Unknown(rule, "mxj.cast", "flag parameter", p.Pos(castFn.Pos()), "no bool parameter")
		return
	}
	for _, vn := range []string{"mxj.castToInt", "mxj.castToFloat", "mxj.castToBool", "mxj.castNanInf"} {
		g := p.Globals[vn]
		if g == nil {
			r.Anchor(rule, vn)
			continue
		}
		nLoads, bad := 0, ""
		eachInstr(castFn, func(b *ssa.BasicBlock, in ssa.Instruction) {
			if globalOfInstr(in) != g {
				return
			}
			nLoads++
			dom := false
			for _, gd := range dominatingGuards(b) {
				ng := normGuard(gd)
				if ng.Cond == ssa.Value(flag) && ng.Pol {
					dom = true
				}
			}
			if !dom {
				bad = p.Pos(in.Pos())
			}
		})
		for _, ch := range p.castHelpers(castFn) {
			loads := 0
			eachInstr(ch.h, func(b *ssa.BasicBlock, in ssa.Instruction) {
				if globalOfInstr(in) == g {
					loads++
				}
			})
			if loads == 0 {
				continue
			}
			nLoads += loads
			dom := false
			for _, gd := range dominatingGuards(ch.site.Block()) {
				ng := normGuard(gd)
				if ng.Cond == ssa.Value(flag) && ng.Pol {
					dom = true
				}
			}
			if !dom {
				bad = p.Pos(ch.site.Pos())
			}
		}
		if bad == "" {
			r.OK(rule, "mxj.cast", vn+" consulted only when the cast flag is on", p.Pos(castFn.Pos()), fmt.Sprintf("%d loads, all dominated by the flag-true edge", nLoads))
		} else {
			r.Bad(rule, "mxj.cast", vn+" consulted only when the cast flag is on", bad, "the option is read on a path where the caller did not ask for casting: cast options affect un-cast decoding")
		}
	}
	// (3) every return is the input string itself or a strconv.Parse* result of that same string under err == nil
	eachInstr(castFn, func(b *ssa.BasicBlock, in ssa.Instruction) {
		ret, ok := in.(*ssa.Return)
		if !ok {
			return
		}
		mi, ok := ret.Results[0].(*ssa.MakeInterface)
		cons := "return value at " + fmt.Sprint(b.Index)
		if !ok {
			// the value handed back by an unexported helper that was given the input: every non-nil value the helper returns must
			// itself be a successful strconv.Parse* of its parameter, and the helper is called under the cast flag
			exIndex := 0
			var hcall *ssa.Call
			if ex, isEx := ret.Results[0].(*ssa.Extract); isEx {
				if hc, isC := ex.Tuple.(*ssa.Call); isC {
					hcall, exIndex = hc, ex.Index
				}
			} else if hc, isC := ret.Results[0].(*ssa.Call); isC {
				hcall = hc
			}
			{
				if hc := hcall; hc != nil {
					for _, ch := range p.castHelpers(castFn) {
						if ch.site != hc {
							continue
						}
						flagDom := false
						for _, gd := range dominatingGuards(hc.Block()) {
							ng := normGuard(gd)
							if ng.Cond == ssa.Value(flag) && ng.Pol {
								flagDom = true
							}
						}
						good, nRet := true, 0
						eachInstr(ch.h, func(b2 *ssa.BasicBlock, i2 ssa.Instruction) {
							r2, isR := i2.(*ssa.Return)
							if !isR || exIndex >= len(r2.Results) || isNilConst(r2.Results[exIndex]) {
								return
							}
							nRet++
							m2, isM := r2.Results[exIndex].(*ssa.MakeInterface)
							if !isM {
								good = false
								return
							}
							if m2.X == ssa.Value(ch.prm) {
								return // the identical string
							}
							e2, isE := m2.X.(*ssa.Extract)
							if !isE {
								good = false
								return
							}
							c2, isC2 := e2.Tuple.(*ssa.Call)
							if !isC2 || !hasPrefixAny(p.calleeName(&c2.Call), "strconv.Parse") || c2.Call.Args[0] != ssa.Value(ch.prm) || !errCheckedBefore(errResult(c2), b2) {
								good = false
							}
						})
						k := ord2(p, ret)
						if good && nRet > 0 && flagDom {
							r.OK(rule, "mxj.cast", "returns a parse result of the same string"+k, p.Pos(ret.Pos()), "value of "+p.Name(ch.h)+", whose every non-nil result is a strconv result of its parameter under err == nil; called on the input on the flag-true path")
						} else {
							r.Bad(rule, "mxj.cast", "returns a parse result of the same string"+k, p.Pos(ret.Pos()), fmt.Sprintf("the value returned through %s is not established to be a successful strconv.Parse* of the input under the cast flag (parseOK=%v underFlag=%v)", p.Name(ch.h), good && nRet > 0, flagDom))
						}
						return
					}
				}
			}
			r.Bad(rule, "mxj.cast", cons, p.Pos(ret.Pos()), "returned value is not a direct conversion")
			return
		}
		if mi.X == ssa.Value(input) {
			r.OK(rule, "mxj.cast", "returns the identical string", p.Pos(ret.Pos()), "")
			return
		}
		// without the flag only the string may be returned
		flagDom := false
		for _, gd := range dominatingGuards(b) {
			ng := normGuard(gd)
			if ng.Cond == ssa.Value(flag) && ng.Pol {
				flagDom = true
			}
		}
		ex, isEx := mi.X.(*ssa.Extract)
		good := false
		if isEx {
			if c, isC := ex.Tuple.(*ssa.Call); isC && hasPrefixAny(p.calleeName(&c.Call), "strconv.Parse") && c.Call.Args[0] == ssa.Value(input) {
				if errCheckedBefore(errResult(c), b) {
					good = true
				}
			}
		}
		k := ord2(p, ret)
		if good && flagDom {
			r.OK(rule, "mxj.cast", "returns a parse result of the same string"+k, p.Pos(ret.Pos()), "strconv result under err == nil, on the flag-true path")
		} else {
			r.Bad(rule, "mxj.cast", "returns a parse result of the same string"+k, p.Pos(ret.Pos()), fmt.Sprintf("the returned value is neither the input string nor a successful strconv.Parse* of it under the cast flag (parseOK=%v underFlag=%v)", good, flagDom))
		}
	})
}

func ord2(p *Prog, in ssa.Instruction) string {
	n := 0
	eachInstr(in.Parent(), func(b *ssa.BasicBlock, i2 ssa.Instruction) {
		if _, ok := i2.(*ssa.Return); ok && i2.Pos() < in.Pos() {
			n++
		}
	})
	return fmt.Sprintf(" (return %d)", n)
}

// ---- INFL.filter ---------------------------------------------------------------------------------------------------------------

// ruleInflFilter: sub-keys only filter. In each walker the sub-key map is used solely as argument of the predicate, of len,
// of a nil comparison and of the recursion; the predicate returns true early when there are no sub-keys.
func ruleInflFilter(p *Prog, r *Report, walkers []string) {
	const rule = "INFL.filter"
	pred := p.Fn("mxj.hasSubKeys")
	if pred == nil {
		r.Anchor(rule, "mxj.hasSubKeys")
		return
	}
	for _, wn := range walkers {
		fn := p.Fn(wn)
		if fn == nil {
			r.Anchor(rule, wn)
			continue
		}
		var sk *ssa.Parameter
		for _, prm := range fn.Params {
			if isMapShaped(prm.Type()) && prm.Name() != "m" && strings.Contains(strings.ToLower(prm.Name()), "sub") {
				sk = prm
			}
		}
		if sk == nil {
			r.Unknown(rule, wn, "sub-key parameter", p.Pos(fn.Pos()), "no sub-key map parameter recognised")
			continue
		}
		bad := ""
		for _, ref := range *sk.Referrers() {
			switch x := ref.(type) {
			case *ssa.Call:
				if bi, ok := x.Call.Value.(*ssa.Builtin); ok && bi.Name() == "len" {
					continue
				}
				g := staticCallee(&x.Call)
				if g == pred || g == fn || (g != nil && p.InModule(g) && p.usesOnlyAsFilterRec(g, x, sk, pred, map[*ssa.Function]bool{fn: true})) {
					continue
				}
				bad = "passed to " + p.calleeName(&x.Call)
			case *ssa.BinOp:
				if isNilConst(x.X) || isNilConst(x.Y) {
					continue
				}
				bad = "used in " + x.String()
			case *ssa.DebugRef:
			case *ssa.Store:
				// captured by local closures (a cell that is assigned once): what the closures do with it is judged like the walker's own uses
				cell, isCell := x.Addr.(*ssa.Alloc)
				okCell := isCell && x.Val == ssa.Value(sk)
				if okCell {
					for _, cref := range *cell.Referrers() {
						switch y := cref.(type) {
						case *ssa.Store:
							if y != x {
								okCell = false
							}
						case *ssa.UnOp, *ssa.DebugRef:
						case *ssa.MakeClosure:
							cf, _ := y.Fn.(*ssa.Function)
							if cf == nil {
								okCell = false
								continue
							}
							for i, bnd := range y.Bindings {
								if bnd != ssa.Value(cell) || i >= len(cf.FreeVars) {
									continue
								}
								for _, fr := range *cf.FreeVars[i].Referrers() {
									ld, isLd := fr.(*ssa.UnOp)
									if !isLd {
										if _, isMC := fr.(*ssa.MakeClosure); !isMC {
											okCell = false
										}
										continue
									}
									for _, use := range *ld.Referrers() {
										switch z := use.(type) {
										case *ssa.Call:
											if bi, ok := z.Call.Value.(*ssa.Builtin); ok && bi.Name() == "len" {
												continue
											}
											g := staticCallee(&z.Call)
											if g == pred || g == fn || (g != nil && p.InModule(g) && p.usesOnlyAsFilterRec(g, z, ld, pred, map[*ssa.Function]bool{fn: true})) {
												continue
											}
											okCell = false
										case *ssa.BinOp:
											if !(isNilConst(z.X) || isNilConst(z.Y)) {
												okCell = false
											}
										case *ssa.DebugRef:
										default:
											okCell = false
										}
									}
								}
							}
						default:
							okCell = false
						}
					}
				}
				if !okCell {
					bad = "used by " + ref.String()
				}
			default:
				bad = "used by " + ref.String()
			}
		}
		if bad == "" {
			r.OK(rule, wn, "sub-keys are used only to filter", p.Pos(fn.Pos()), "the sub-key map reaches only the predicate, len, nil tests and the recursion")
		} else {
			r.Bad(rule, wn, "sub-keys are used only to filter", p.Pos(fn.Pos()), "the sub-key map is "+bad+": sub-keys may change which values are produced, not merely select among them")
		}
	}
	// the predicate: `true` early under len(subkeys) == 0, and it never writes
	cz := p.canonFor(pred)
	early := false
	var skp *ssa.Parameter
	for _, prm := range pred.Params {
		if isMapShaped(prm.Type()) {
			skp = prm
		}
	}
	eachInstr(pred, func(b *ssa.BasicBlock, in ssa.Instruction) {
		ret, ok := in.(*ssa.Return)
		if !ok {
			return
		}
		if v, isC := constBool(ret.Results[0]); isC && v && skp != nil && lenEqGuard(cz, skp, 0, b) {
			early = true
		}
	})
	if early {
		r.OK(rule, "mxj.hasSubKeys", "no sub-keys means no filtering", p.Pos(pred.Pos()), "returns true under len(subkeys) == 0")
	} else {
		r.Bad(rule, "mxj.hasSubKeys", "no sub-keys means no filtering", p.Pos(pred.Pos()), "the predicate does not accept every value when no sub-keys are given")
	}
	if p.mayWriteMaps()[pred] {
		r.Bad(rule, "mxj.hasSubKeys", "predicate is read-only", p.Pos(pred.Pos()), "the predicate may write a map")
	} else {
		r.OK(rule, "mxj.hasSubKeys", "predicate is read-only", p.Pos(pred.Pos()), "no map write reachable")
	}
}

// usesOnlyAsFilter: callee g receives the sub-key map in a parameter that itself is only used as a filter.
func (p *Prog) usesOnlyAsFilter(g *ssa.Function, call *ssa.Call, sk ssa.Value, pred *ssa.Function) bool {
	return p.usesOnlyAsFilterRec(g, call, sk, pred, map[*ssa.Function]bool{})
}

// usesOnlyAsFilterRec follows the sub-key map through the module functions it is handed to (mutually recursive walkers included):
// everywhere it may only reach the predicate, len and nil tests.
func (p *Prog) usesOnlyAsFilterRec(g *ssa.Function, call *ssa.Call, sk ssa.Value, pred *ssa.Function, visiting map[*ssa.Function]bool) bool {
	if visiting[g] {
		return true
	}
	visiting[g] = true
	idx := -1
	for i, a := range call.Call.Args {
		if a == sk {
			idx = i
		}
	}
	if idx < 0 || idx >= len(g.Params) {
		return false
	}
	for _, ref := range *g.Params[idx].Referrers() {
		switch x := ref.(type) {
		case *ssa.Call:
			if bi, ok := x.Call.Value.(*ssa.Builtin); ok && bi.Name() == "len" {
				continue
			}
			h := staticCallee(&x.Call)
			if h == pred || h == g {
				continue
			}
			if h != nil && p.InModule(h) && len(h.Blocks) > 0 && p.usesOnlyAsFilterRec(h, x, g.Params[idx], pred, visiting) {
				continue
			}
			return false
		case *ssa.BinOp:
			if isNilConst(x.X) || isNilConst(x.Y) {
				continue
			}
			return false
		case *ssa.DebugRef:
		default:
			return false
		}
	}
	return true
}

// ---- INFL.indent ------------------------------------------------------------------------------------------------------------------

// ruleInflIndent: in the recursive XML encoders the indentation switch only adds whitespace: every output write that is
// control dependent on doIndent writes newline / padding / indent strings, and no other write's operand depends on it
// (except through xml.Marshal versus xml.MarshalIndent).
func ruleInflIndent(p *Prog, r *Report) {
	const rule = "INFL.indent"
	for _, n := range []string{"mxj.marshalMapToXmlIndent", "mxj.mapToXmlSeqIndent"} {
		fn := p.Fn(n)
		if fn == nil {
			r.Anchor(rule, n)
			continue
		}
		var flag *ssa.Parameter
		for _, prm := range fn.Params {
			if isBoolType(prm.Type()) {
				flag = prm
			}
		}
		if flag == nil {
			r.Unknown(rule, n, "indent flag", p.Pos(fn.Pos()), "no bool parameter")
			continue
		}
		nW, nWS := 0, 0
		bad := ""
		eachInstr(fn, func(b *ssa.BasicBlock, in ssa.Instruction) {
			c, ok := in.(ssa.CallInstruction)
			if !ok {
				return
			}
			cm := c.Common()
			if !isCallTo(cm, "(*bytes.Buffer).WriteString", "(*bytes.Buffer).Write", "(*strings.Builder).WriteString", "(*strings.Builder).Write") {
				return
			}
			nW++
			// under the flag: dominated by one edge of a branch on doIndent (error exits make plain control dependence too coarse)
			dep := false
			for _, gd := range dominatingGuards(b) {
				if normGuard(gd).Cond == ssa.Value(flag) {
					dep = true
				}
			}
			arg := cm.Args[1]
			if dep {
				nWS++
				if !p.isWhitespaceState(fn, arg) {
					bad = "write of non-whitespace content under doIndent at " + p.Pos(in.Pos())
				}
				return
			}
			// data dependence of the operand on the flag
			infl := p.influence(fn, false, arg)
			if infl.params[flag] {
				// allowed only through xml.Marshal / xml.MarshalIndent results
				viaMarshal := false
				for v := range infl.values {
					if cc, ok := v.(*ssa.Call); ok && isCallTo(&cc.Call, "encoding/xml.Marshal", "encoding/xml.MarshalIndent") {
						viaMarshal = true
					}
				}
				if !viaMarshal {
					bad = "operand of the write at " + p.Pos(in.Pos()) + " depends on doIndent"
				}
			}
		})
		if bad == "" && nWS > 0 {
			r.OK(rule, n, "indentation only adds whitespace", p.Pos(fn.Pos()), fmt.Sprintf("%d output writes, %d of them under doIndent and all of those write newline/padding/indent", nW, nWS))
		} else if bad != "" {
			r.Bad(rule, n, "indentation only adds whitespace", p.Pos(fn.Pos()), bad)
		} else {
			r.Bad(rule, n, "indentation only adds whitespace", p.Pos(fn.Pos()), "no write is controlled by the indent flag")
		}
	}
}

// isWhitespaceState: the value is "\n", pretty.padding, pretty.indent or a concatenation of those.
func (p *Prog) isWhitespaceState(fn *ssa.Function, v ssa.Value) bool {
	switch x := v.(type) {
	case *ssa.Const:
		s, ok := constString(x)
		return ok && strings.Trim(s, " \t\r\n") == ""
	case *ssa.BinOp:
		return x.Op == token.ADD && p.isWhitespaceState(fn, x.X) && p.isWhitespaceState(fn, x.Y)
	case *ssa.UnOp:
		if x.Op == token.MUL {
			if fa, ok := x.X.(*ssa.FieldAddr); ok {
				fnm := fieldName(fa.X.Type(), fa.Field)
				if nt, ok := derefType(fa.X.Type()).(*types.Named); ok && nt.Obj().Name() == "pretty" && (fnm == "padding" || fnm == "indent") {
					return true
				}
			}
		}
	case *ssa.Convert:
		return p.isWhitespaceState(fn, x.X)
	}
	return false
}

// ---- INFL.crumb ---------------------------------------------------------------------------------------------------------------------

// ruleInflCrumb: in a breadcrumb walker the path handed to the recursion on a map child is built from the incoming path
// and the child's key only — never from the searched key — while the basket entry is built from the incoming path and the searched key.
func ruleInflCrumb(p *Prog, r *Report, names []string) {
	const rule = "INFL.crumb"
	for _, n := range names {
		fn := p.Fn(n)
		if fn == nil {
			r.Anchor(rule, n)
			continue
		}
		// parameters: crumb string (first string), node, searched key (second string), basket
		var strs []*ssa.Parameter
		for _, prm := range fn.Params {
			if isStringType(prm.Type()) {
				strs = append(strs, prm)
			}
		}
		if len(strs) != 2 {
			r.Unknown(rule, n, "parameters", p.Pos(fn.Pos()), "expected a crumb and a key string parameter")
			continue
		}
		crumb, key := strs[0], strs[1]
		crumbIdx := -1
		for i, prm := range fn.Params {
			if prm == crumb {
				crumbIdx = i
			}
		}
		nMap := 0
		for _, c := range selfCalls(fn) {
			arg := c.Call.Args[crumbIdx]
			infl := p.influence(fn, true, arg)
			// is this the call on a map child? its crumb argument depends on a Next key
			onChild := false
			for v := range infl.values {
				if ex, ok := v.(*ssa.Extract); ok && ex.Index == 1 {
					if _, ok := ex.Tuple.(*ssa.Next); ok {
						onChild = true
					}
				}
			}
			if !onChild {
				// list arm: the crumb must be passed on unchanged
				if arg == ssa.Value(crumb) {
					r.OK(rule, n, "list members keep the crumb", p.Pos(c.Pos()), "")
				} else if !infl.params[key] && infl.params[crumb] {
					r.OK(rule, n, "list members keep the crumb", p.Pos(c.Pos()), "derived from the incoming crumb only")
				} else {
					r.Bad(rule, n, "list members keep the crumb", p.Pos(c.Pos()), "the crumb handed to list members depends on the searched key")
				}
				continue
			}
			nMap++
			// built afresh for every child: nothing carried over from the previous child of the same map
			carried := ""
			for v := range infl.values {
				ph, ok := v.(*ssa.Phi)
				if !ok || !isStringType(ph.Type()) {
					continue
				}
				for i, pr := range ph.Block().Preds {
					if ph.Block().Dominates(pr) && ph.Edges[i] != ssa.Value(ph) {
						if _, isC := ph.Edges[i].(*ssa.Const); !isC {
							carried = p.Pos(ph.Pos())
						}
					}
				}
			}
			if carried != "" {
				r.Bad(rule, n, "child crumb built afresh for every child", p.Pos(c.Pos()), "the path handed to a map child depends on a string carried over from the previous iteration of the loop over the children (variable at "+carried+"): the second and later children get a path that is not incoming path + '.' + their key")
			} else {
				r.OK(rule, n, "child crumb built afresh for every child", p.Pos(c.Pos()), "no loop-carried string in the influence set of the child's path")
			}
			if infl.params[key] {
				r.Bad(rule, n, "child crumb independent of the searched key", p.Pos(c.Pos()), "the path handed to a map child is built from the searched key: children get paths through a key that is only a sibling")
			} else if !infl.params[crumb] {
				r.Bad(rule, n, "child crumb independent of the searched key", p.Pos(c.Pos()), "the path handed to a map child does not extend the incoming path")
			} else {
				r.OK(rule, n, "child crumb independent of the searched key", p.Pos(c.Pos()), "built from the incoming path and the child's own key")
			}
		}
		if nMap == 0 {
			r.Bad(rule, n, "child crumb independent of the searched key", p.Pos(fn.Pos()), "no recursion on map children found")
		}
		// the basket entry
		nB := 0
		eachInstr(fn, func(b *ssa.BasicBlock, in ssa.Instruction) {
			mu, ok := in.(*ssa.MapUpdate)
			if !ok {
				return
			}
			nB++
			infl := p.influence(fn, true, mu.Key)
			if infl.params[key] && infl.params[crumb] {
				r.OK(rule, n, "basket entry is crumb + key", p.Pos(mu.Pos()), "")
			} else {
				r.Bad(rule, n, "basket entry is crumb + key", p.Pos(mu.Pos()), "the recorded path does not combine the incoming path with the searched key")
			}
		})
		if nB == 0 {
			r.Bad(rule, n, "basket entry is crumb + key", p.Pos(fn.Pos()), "no path is ever recorded")
		}
	}
}
