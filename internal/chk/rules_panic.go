package chk

import (
	"fmt"
	"go/types"
	"sort"

	"golang.org/x/tools/go/ssa"
)

// ===== family A: PANIC — panic-obligation discharge ===================================================

func (p *Prog) scopeFuncs(r *Report, rule string, roots []string) []*ssa.Function {
	rs := p.resolve(r, rule, roots...)
	a := p.PointsTo() // call edges incl. callbacks (ReadByte adaptors) and sort comparators
	seen := map[*ssa.Function]bool{}
	for _, root := range rs {
		reach, _ := a.reachFuncs(root)
		for f := range reach {
			if p.InModule(f) {
				seen[f] = true
			}
		}
		for f := range p.Reach(root) {
			if p.InModule(f) {
				seen[f] = true
			}
		}
	}
	// comparators handed to sort.Sort are called by the library
	for f := range seen {
		eachInstr(f, func(b *ssa.BasicBlock, in ssa.Instruction) {
			if ci, ok := in.(ssa.CallInstruction); ok && isCallTo(ci.Common(), "sort.Sort", "sort.Stable") {
				if mi, ok := ci.Common().Args[0].(*ssa.MakeInterface); ok {
					if nt, ok := mi.X.Type().(*types.Named); ok {
						for _, mn := range []string{"Len", "Less", "Swap"} {
							if m := p.methodOf(nt, mn); m != nil && p.InModule(m) {
								seen[m] = true
							}
						}
					}
				}
			}
		})
	}
	var out []*ssa.Function
	for f := range seen {
		out = append(out, f)
	}
	sort.Slice(out, func(i, j int) bool { return p.Name(out[i]) < p.Name(out[j]) })
	return out
}

// rulePanicAssert: every single-value type assertion is applied to a value whose dynamic type set is within the asserted type.
func rulePanicAssert(p *Prog, r *Report, fns []*ssa.Function) {
	const rule = "PANIC.assert"
	for _, fn := range fns {
		tf := p.typeFlowOf(fn)
		ord := newOrdinals()
		name := p.Name(fn)
		for _, in := range instrsByPos(fn) {
			ta, ok := in.(*ssa.TypeAssert)
			if !ok || ta.CommaOk {
				continue
			}
			src := p.ExprAt(ta.Pos())
			if src == "" {
				src = "assert " + typeStr(ta.AssertedType)
			}
			construct := ord.key(name, src)
			pos := p.Pos(ta.Pos())
			s, seen := tf.at[ta]
			if !seen {
				r.OK(rule, name, construct, pos, "unreachable block")
				continue
			}
			if ok, why := withinAsserted(s, ta.AssertedType); ok {
				r.OK(rule, name, construct, pos, "operand type set "+s.String()+" "+why)
				continue
			}
			if why := p.contentRule(fn, ta); why != "" {
				r.Assume(rule, name, construct, pos, why)
				continue
			}
			r.Bad(rule, name, construct, pos, fmt.Sprintf("operand may hold %s: the assertion to %s panics for the other types", s.String(), typeStr(ta.AssertedType)))
		}
	}
}

func withinAsserted(s tset, T types.Type) (bool, string) {
	if s.neg {
		return false, ""
	}
	if len(s.ts) == 0 {
		return true, "(no feasible type: unreachable)"
	}
	if isIfaceType(T) {
		return false, ""
	}
	want := tname(T)
	for k := range s.ts {
		if k != want {
			return false, ""
		}
	}
	return true, "is exactly the asserted type"
}

// contentRule: x[0].(string) on elements of [2]interface{} pairs — every store to component 0 of such arrays
// in the module stores a string (container-content typing). Returns the premise text, or "".
func (p *Prog) contentRule(fn *ssa.Function, ta *ssa.TypeAssert) string {
	u, ok := ta.X.(*ssa.UnOp)
	if !ok {
		return ""
	}
	ia, ok := u.X.(*ssa.IndexAddr)
	if !ok {
		return ""
	}
	k, ok := constInt(ia.Index)
	if !ok {
		return ""
	}
	arr, ok := derefType(ia.X.Type()).Underlying().(*types.Array)
	if !ok || !isIfaceType(arr.Elem()) {
		return ""
	}
	want := tname(ta.AssertedType)
	n := 0
	for _, f := range p.FuncList {
		bad := false
		eachInstr(f, func(b *ssa.BasicBlock, in ssa.Instruction) {
			st, ok := in.(*ssa.Store)
			if !ok {
				return
			}
			ia2, ok := st.Addr.(*ssa.IndexAddr)
			if !ok {
				return
			}
			arr2, ok := derefType(ia2.X.Type()).Underlying().(*types.Array)
			if !ok || !types.Identical(arr2, arr) {
				return
			}
			k2, isC := constInt(ia2.Index)
			if isC && k2 != k {
				return
			}
			if isVarargsArray(ia2.X) {
				return // argument array of a variadic call: never copied into a pair slice
			}
			n++
			mi, ok := st.Val.(*ssa.MakeInterface)
			if !ok || tname(mi.X.Type()) != want {
				bad = true
			}
		})
		if bad {
			return ""
		}
	}
	if n == 0 {
		return ""
	}
	return fmt.Sprintf("container-content typing: all %d stores into component %d of %s arrays in the module store a %s; premise: elements beyond the fill counter are cut off before use (fill idiom, PANIC.idx)", n, k, typeStr(arr), typeStr(ta.AssertedType))
}

// isVarargsArray: a compiler-made argument array of a variadic call whose only uses are element stores and the final slice.
func isVarargsArray(v ssa.Value) bool {
	a, ok := v.(*ssa.Alloc)
	if !ok || a.Comment != "varargs" {
		return false
	}
	if refs := a.Referrers(); refs != nil {
		for _, r := range *refs {
			switch r.(type) {
			case *ssa.IndexAddr, *ssa.Slice, *ssa.DebugRef:
			default:
				return false
			}
		}
	}
	return true
}
