package chk

import (
	"fmt"
	"go/token"
	"go/types"
	"regexp"
	"sort"
	"strings"

	"golang.org/x/tools/go/ssa"
)

// ===== family A: PANIC — panic-obligation discharge ===================================================

func (p *Prog) scopeFuncs(r *Report, rule string, roots []string) []*ssa.Function {
	rs := p.resolve(r, rule, roots...)
	a := p.PointsTo() // call edges incl. callbacks (ReadByte adaptors) and sort comparators
	seen := map[*ssa.Function]bool{}
	for _, root := range rs {
		reach, _ := a.reachFuncs(root)
		for f := range reach {
			if p.InModule(f) {
				seen[f] = true
			}
		}
		for f := range p.Reach(root) {
			if p.InModule(f) {
				seen[f] = true
			}
		}
	}
	// comparators handed to sort.Sort are called by the library
	for f := range seen {
		eachInstr(f, func(b *ssa.BasicBlock, in ssa.Instruction) {
			if ci, ok := in.(ssa.CallInstruction); ok && isCallTo(ci.Common(), "sort.Sort", "sort.Stable") {
				if mi, ok := ci.Common().Args[0].(*ssa.MakeInterface); ok {
					if nt, ok := mi.X.Type().(*types.Named); ok {
						for _, mn := range []string{"Len", "Less", "Swap"} {
							if m := p.methodOf(nt, mn); m != nil && p.InModule(m) {
								seen[m] = true
							}
						}
					}
				}
			}
		})
	}
	var out []*ssa.Function
	for f := range seen {
		out = append(out, f)
	}
	sort.Slice(out, func(i, j int) bool { return p.Name(out[i]) < p.Name(out[j]) })
	return out
}

// rulePanicAssert: every single-value type assertion is applied to a value whose dynamic type set is within the asserted type.
func rulePanicAssert(p *Prog, r *Report, fns []*ssa.Function) {
	const rule = "PANIC.assert"
	for _, fn := range fns {
		tf := p.typeFlowOf(fn)
		ord := newOrdinals()
		name := p.Name(fn)
		for _, in := range instrsByPos(fn) {
			ta, ok := in.(*ssa.TypeAssert)
			if !ok || ta.CommaOk {
				continue
			}
			src := p.ExprAt(ta.Pos())
			if src == "" {
				src = "assert " + typeStr(ta.AssertedType)
			}
			construct := ord.key(name, src)
			pos := p.Pos(ta.Pos())
			s, seen := tf.at[ta]
			if !seen {
				r.OK(rule, name, construct, pos, "unreachable block")
				continue
			}
			if ok, why := withinAsserted(s, ta.AssertedType); ok {
				r.OK(rule, name, construct, pos, "operand type set "+s.String()+" "+why)
				continue
			}
			if why := p.contentRule(fn, ta); why != "" {
				if strings.HasPrefix(why, "ok:") {
					r.OK(rule, name, construct, pos, strings.TrimPrefix(why, "ok:"))
				} else {
					r.Assume(rule, name, construct, pos, why)
				}
				continue
			}
			if why := p.shapeContract(fn, ta); why != "" {
				r.OK(rule, name, construct, pos, why)
				continue
			}
			r.Bad(rule, name, construct, pos, fmt.Sprintf("operand may hold %s: the assertion to %s panics for the other types", s.String(), typeStr(ta.AssertedType)))
		}
	}
}

// rulePanicCompare: == / != between two interface values panics when both hold the same uncomparable dynamic type (a map, a
// list, a function). Discharged when one operand is the nil constant, or when the type-set dataflow shows that one operand can
// only hold comparable types.
func rulePanicCompare(p *Prog, r *Report, fns []*ssa.Function) {
	const rule = "PANIC.compare"
	comparableOnly := func(s tset) bool {
		if s.neg {
			return false
		}
		for k := range s.ts {
			if strings.HasPrefix(k, "map[") || strings.HasPrefix(k, "[]") || strings.HasPrefix(k, "func(") || strings.HasPrefix(k, "struct{") || strings.HasPrefix(k, "[") {
				return false
			}
		}
		return true
	}
	for _, fn := range fns {
		if len(fn.Blocks) == 0 {
			continue
		}
		var tf *typeFlow
		ord := newOrdinals()
		name := p.Name(fn)
		for _, in := range instrsByPos(fn) {
			bo, ok := in.(*ssa.BinOp)
			if !ok || (bo.Op != token.EQL && bo.Op != token.NEQ) || !isEmptyIface(bo.X.Type()) || !isEmptyIface(bo.Y.Type()) {
				continue
			}
			if isNilConst(bo.X) || isNilConst(bo.Y) {
				continue
			}
			if tf == nil {
				tf = p.typeFlowOf(fn)
			}
			src := p.ExprAt(bo.Pos())
			if src == "" {
				src = "interface comparison"
			}
			construct := ord.key(name, src)
			sets, seen := tf.cmp[bo]
			if !seen {
				r.OK(rule, name, construct, p.Pos(bo.Pos()), "unreachable block")
				continue
			}
			if comparableOnly(sets[0]) || comparableOnly(sets[1]) {
				r.OK(rule, name, construct, p.Pos(bo.Pos()), "one operand can only hold comparable types ("+sets[0].String()+" / "+sets[1].String()+")")
			} else {
				r.Bad(rule, name, construct, p.Pos(bo.Pos()), "both operands may hold a map or a list ("+sets[0].String()+" / "+sets[1].String()+"): comparing two interface values of the same uncomparable dynamic type panics at run time")
			}
		}
	}
}

func withinAsserted(s tset, T types.Type) (bool, string) {
	if s.neg {
		return false, ""
	}
	if len(s.ts) == 0 {
		return true, "(no feasible type: unreachable)"
	}
	if isIfaceType(T) {
		return false, ""
	}
	want := tname(T)
	for k := range s.ts {
		if k != want {
			return false, ""
		}
	}
	return true, "is exactly the asserted type"
}

// contentRule: x[0].(string) on elements of [2]interface{} pairs — every store to component 0 of such arrays
// in the module stores a string (container-content typing). Returns the premise text, or "".
func (p *Prog) contentRule(fn *ssa.Function, ta *ssa.TypeAssert) string {
	u, ok := ta.X.(*ssa.UnOp)
	if !ok {
		return ""
	}
	ia, ok := u.X.(*ssa.IndexAddr)
	if !ok {
		return ""
	}
	k, ok := constInt(ia.Index)
	if !ok {
		return ""
	}
	arr, ok := derefType(ia.X.Type()).Underlying().(*types.Array)
	if !ok || !isIfaceType(arr.Elem()) {
		return ""
	}
	want := tname(ta.AssertedType)
	n := 0
	for _, f := range p.FuncList {
		bad := false
		eachInstr(f, func(b *ssa.BasicBlock, in ssa.Instruction) {
			st, ok := in.(*ssa.Store)
			if !ok {
				return
			}
			ia2, ok := st.Addr.(*ssa.IndexAddr)
			if !ok {
				return
			}
			arr2, ok := derefType(ia2.X.Type()).Underlying().(*types.Array)
			if !ok || !types.Identical(arr2, arr) {
				return
			}
			k2, isC := constInt(ia2.Index)
			if isC && k2 != k {
				return
			}
			if isVarargsArray(ia2.X) {
				return // argument array of a variadic call: never copied into a pair slice
			}
			n++
			mi, ok := st.Val.(*ssa.MakeInterface)
			if !ok || tname(mi.X.Type()) != want {
				bad = true
			}
		})
		if bad {
			return ""
		}
	}
	if n == 0 {
		return ""
	}
	base := fmt.Sprintf("container-content typing: all %d stores into component %d of %s arrays in the module store a %s", n, k, typeStr(arr), typeStr(ta.AssertedType))
	if ok, why := p.fillComplete(arr, k); ok {
		return "ok:" + base + "; " + why
	}
	return base + "; premise: elements beyond the fill counter are cut off before use (fill idiom, PANIC.idx)"
}

// fillComplete: every slice of arr elements made in the module is filled by the fill idiom such that all elements kept by
// the final S[:n] had component k stored: S is used only by S[n]... stores inside the loop and by one S[:n]; the counter is
// incremented only in blocks that store component k of S[n] first.
func (p *Prog) fillComplete(arr *types.Array, k int64) (bool, string) {
	nMakes := 0
	for _, f := range p.FuncList {
		var makes []*ssa.MakeSlice
		eachInstr(f, func(b *ssa.BasicBlock, in ssa.Instruction) {
			if ms, ok := in.(*ssa.MakeSlice); ok {
				if st, ok := ms.Type().Underlying().(*types.Slice); ok && types.Identical(st.Elem().Underlying(), arr) {
					makes = append(makes, ms)
				}
			}
		})
		for _, ms := range makes {
			nMakes++
			var counter *ssa.Phi
			nSlices := 0
			for _, ref := range *ms.Referrers() {
				switch x := ref.(type) {
				case *ssa.IndexAddr:
					ph, ok := x.Index.(*ssa.Phi)
					if !ok || (counter != nil && counter != ph) {
						return false, ""
					}
					counter = ph
				case *ssa.Slice:
					nSlices++
					if x.Low != nil || x.High == nil {
						return false, ""
					}
				case *ssa.DebugRef:
				default:
					return false, ""
				}
			}
			if counter == nil || nSlices != 1 {
				return false, ""
			}
			// every increment of the counter is preceded, in its block, by a store to S[counter][k]
			okInc := true
			eachInstr(f, func(b *ssa.BasicBlock, in ssa.Instruction) {
				bo, ok := in.(*ssa.BinOp)
				if !ok || bo.Op != token.ADD || bo.X != ssa.Value(counter) {
					return
				}
				stored := false
				for _, i2 := range b.Instrs {
					if i2 == in {
						break
					}
					if st, ok := i2.(*ssa.Store); ok {
						if ia, ok := st.Addr.(*ssa.IndexAddr); ok {
							if kk, isC := constInt(ia.Index); isC && kk == k {
								if inner, ok := ia.X.(*ssa.IndexAddr); ok && inner.X == ssa.Value(ms) && inner.Index == ssa.Value(counter) {
									stored = true
								}
							}
						}
					}
				}
				if !stored {
					okInc = false
				}
			})
			if !okInc {
				return false, ""
			}
		}
	}
	if nMakes == 0 {
		return false, ""
	}
	return true, fmt.Sprintf("all %d slices of such arrays are filled by the fill idiom (component stored before each counter increment, only S[:counter] escapes)", nMakes)
}

// isVarargsArray: a compiler-made argument array of a variadic call whose only uses are element stores and the final slice.
func isVarargsArray(v ssa.Value) bool {
	a, ok := v.(*ssa.Alloc)
	// the backing array of a variadic argument list or of a slice literal ([]interface{}{x, y}): it is reached only as a slice, never as
	// an element of a slice of arrays, so what is stored in it says nothing about the contents of such elements
	if !ok || (a.Comment != "varargs" && a.Comment != "slicelit") {
		return false
	}
	if refs := a.Referrers(); refs != nil {
		for _, r := range *refs {
			switch r.(type) {
			case *ssa.IndexAddr, *ssa.Slice, *ssa.DebugRef:
			default:
				return false
			}
		}
	}
	return true
}

// rulePanicExplicit: explicit panic statements, MustCompile, reflect map operations, nil-typed reflect.TypeOf, integer division.
func rulePanicExplicit(p *Prog, r *Report, fns []*ssa.Function) {
	const rule = "PANIC.explicit"
	n := 0
	for _, fn := range fns {
		name := p.Name(fn)
		cz := p.canonFor(fn)
		ord := newOrdinals()
		for _, in := range instrsByPos(fn) {
			switch x := in.(type) {
			case *ssa.Panic:
				n++
				r.Bad(rule, name, ord.key(name, "panic statement"), p.Pos(in.Pos()), "explicit panic reachable from an API documented to return errors")
			case *ssa.BinOp:
				if (x.Op == token.QUO || x.Op == token.REM) && isIntType(x.Type()) {
					n++
					if k, ok := constInt(x.Y); ok && k != 0 {
						r.OK(rule, name, ord.key(name, "integer division"), p.Pos(in.Pos()), "constant non-zero divisor")
					} else {
						r.Bad(rule, name, ord.key(name, "integer division"), p.Pos(in.Pos()), "divisor not known to be non-zero")
					}
				}
			case ssa.CallInstruction:
				c := x.Common()
				switch {
				case isCallTo(c, "regexp.MustCompile"):
					n++
					s, ok := constString(c.Args[0])
					if ok {
						if _, err := regexp.Compile(s); err == nil {
							r.OK(rule, name, ord.key(name, "regexp.MustCompile"), p.Pos(in.Pos()), fmt.Sprintf("constant pattern %q compiled by the checker itself", s))
							continue
						}
					}
					r.Bad(rule, name, ord.key(name, "regexp.MustCompile"), p.Pos(in.Pos()), "pattern is not a constant that compiles")
				case isCallTo(c, "(reflect.Value).MapKeys", "(reflect.Value).MapIndex", "(reflect.Value).MapRange"):
					n++
					recv := cz.of(c.Args[0])
					ok := false
					for _, g := range dominatingGuards(in.Block()) {
						ng := normGuard(g)
						bo, isB := ng.Cond.(*ssa.BinOp)
						if !isB || (bo.Op == token.EQL) != ng.Pol {
							continue
						}
						if k, isK := constInt(bo.Y); isK && k == 21 && cz.of(bo.X) == "(reflect.Value).Kind("+recv+")" {
							ok = true
						}
					}
					cons := ord.key(name, "reflect map operation "+staticCallee(c).Name())
					if ok {
						r.OK(rule, name, cons, p.Pos(in.Pos()), "dominated by Kind() == reflect.Map of the same value")
					} else {
						r.Bad(rule, name, cons, p.Pos(in.Pos()), "reflect map operation without a dominating Kind() == reflect.Map test of the same value")
					}
				case c.IsInvoke():
					// method on the result of reflect.TypeOf(x): nil when x is the nil interface
					if tc, ok := c.Value.(*ssa.Call); ok && isCallTo(&tc.Call, "reflect.TypeOf") {
						n++
						arg := tc.Call.Args[0]
						ok := false
						for _, g := range dominatingGuards(in.Block()) {
							ng := normGuard(g)
							if bo, isB := ng.Cond.(*ssa.BinOp); isB && isNilConst(bo.Y) && cz.of(bo.X) == cz.of(arg) && (bo.Op == token.NEQ) == ng.Pol {
								ok = true
							}
						}
						cons := ord.key(name, "method on reflect.TypeOf result")
						if ok {
							r.OK(rule, name, cons, p.Pos(in.Pos()), "argument known non-nil, so the Type is non-nil")
						} else {
							r.Bad(rule, name, cons, p.Pos(in.Pos()), "reflect.TypeOf(nil) returns a nil Type; the method call would panic")
						}
					}
				}
			}
		}
	}
	r.OK(rule, "scope", "explicit panic sources enumerated", "", fmt.Sprintf("%d constructs in %d functions", n, len(fns)))
}
