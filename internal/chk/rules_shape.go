package chk

import (
	"fmt"
	"go/token"
	"strings"

	"golang.org/x/tools/go/ssa"
)

// SHAPE.seq — producer/consumer shape contract of the sequence codec. The sequence encoder asserts the
// shape the sequence decoder produces for comments, directives, processing instructions and attributes.
// C15 claims panic-freedom of the encoder only for Maps produced by the decoder, so the consumer-side
// assertions are discharged by checking the producer side: every value the decoder stores under the
// comment/directive/procinst/attr keys has the asserted shape.

type seqShape struct {
	ok      bool
	why     string
	details []string
}

func (p *Prog) seqProducerShape() seqShape {
	if v, ok := p.facts["seqshape"]; ok {
		return v.(seqShape)
	}
	res := seqShape{ok: true}
	fn := p.Fn("mxj.xmlSeqToMapParser")
	if fn == nil {
		res = seqShape{ok: false, why: "decoder mxj.xmlSeqToMapParser not found"}
		p.facts["seqshape"] = res
		return res
	}
	cz := p.canonFor(fn)
	n := 0
	eachInstr(fn, func(b *ssa.BasicBlock, in ssa.Instruction) {
		mu, ok := in.(*ssa.MapUpdate)
		if !ok {
			return
		}
		// the key may be chosen first and stored once: a phi of loads of the key variables stands for each of them
		var alts []string
		var collect func(v ssa.Value, d int) bool
		collect = func(v ssa.Value, d int) bool {
			if ph, isPhi := v.(*ssa.Phi); isPhi && d < 4 {
				for _, e := range ph.Edges {
					if !collect(e, d+1) {
						return false
					}
				}
				return true
			}
			alts = append(alts, cz.of(v))
			return true
		}
		collect(mu.Key, 0)
		k := ""
		var need []string
		special, other := 0, 0
		for _, a := range alts {
			switch a {
			case "load(mxj.commentK)", "load(mxj.directiveK)":
				need = append(need, "load(mxj.textK)")
				special++
			case "load(mxj.procinstK)":
				need = append(need, "load(mxj.targetK)", "load(mxj.instK)")
				special++
			case "load(mxj.attrK)":
				special++
			default:
				other++
			}
			if k != "" {
				k += "|"
			}
			k += a
		}
		if special == 0 {
			return
		}
		if other > 0 || (special > 1 && strings.Contains(k, "load(mxj.attrK)")) {
			res.ok = false
			res.details = append(res.details, "the key of the store at "+p.Pos(in.Pos())+" may be a special key or something else ("+k+")")
			return
		}
		n += special
		mi, ok := mu.Value.(*ssa.MakeInterface)
		if !ok {
			res.ok = false
			res.details = append(res.details, "value stored under "+k+" at "+p.Pos(in.Pos())+" is not a direct conversion")
			return
		}
		if isStringType(mi.X.Type()) && k != "load(mxj.attrK)" {
			return // NoRoot form: a plain string, which the encoder does not assert on
		}
		root := &mmFrame{fn: fn}
		info, ok := p.madeMapOf(mi.X, root, 0)
		if !ok {
			res.ok = false
			res.details = append(res.details, "value stored under "+k+" at "+p.Pos(in.Pos())+" is not a map made by the decoder")
			return
		}
		if k == "load(mxj.attrK)" {
			// every entry of the attribute map is itself a made map
			for _, e := range info.entries {
				ev, efr := e.value()
				if _, isMade := p.madeMapOf(ev, efr, 0); !isMade {
					res.ok = false
					res.details = append(res.details, "attribute entry stored at "+p.Pos(e.at.Pos())+" is not a map")
				}
			}
			return
		}
		for _, nk := range need {
			found, bad := false, false
			for _, e := range info.entries {
				if e.key != nk {
					continue
				}
				ev, _ := e.value()
				mi2, isMi := ev.(*ssa.MakeInterface)
				if !isMi || !isStringType(mi2.X.Type()) {
					bad = true
					continue
				}
				// set before the map is stored: in the same function the entry's instruction must precede the store; an entry made
				// inside a helper is complete when the helper returns
				if e.frame.fn != fn {
					// made inside a helper: the entry must be set on every path to the helper's returns
					uncond := true
					eachInstr(e.frame.fn, func(b2 *ssa.BasicBlock, i2 ssa.Instruction) {
						if _, isRet := i2.(*ssa.Return); isRet && !(e.at.Block() == b2 || e.at.Block().Dominates(b2)) {
							uncond = false
						}
					})
					if uncond {
						found = true
					}
				} else if (e.at.Block() == in.Block() && indexIn(e.at) < indexIn(in)) || (e.at.Block() != in.Block() && e.at.Block().Dominates(in.Block())) {
					found = true
				}
			}
			if !found || bad {
				res.ok = false
				res.details = append(res.details, fmt.Sprintf("map stored under %s at %s lacks a string entry %s set before the store", k, p.Pos(in.Pos()), nk))
			}
		}
	})
	if n < 4 {
		res.ok = false
		res.details = append(res.details, fmt.Sprintf("only %d stores under the special keys found in the decoder (expected at least 4: comments, directives, instructions, attributes)", n))
	}
	if res.ok {
		res.why = fmt.Sprintf("producer side checked: all %d stores of the sequence decoder under the comment/directive/procinst/attr keys have the asserted shape", n)
	} else {
		res.why = strings.Join(res.details, "; ")
	}
	p.facts["seqshape"] = res
	return res
}

// shapeContract: is this assertion one of the consumer-side shape assertions of the sequence encoder, and does the producer check pass?
func (p *Prog) shapeContract(fn *ssa.Function, ta *ssa.TypeAssert) string {
	enc := p.Fn("mxj.mapToXmlSeqIndent")
	inHelper := false
	if fn != enc {
		// an unexported helper that only the sequence encoder calls (the attribute loop moved out of it, for instance)
		sites := p.CG().sites[fn]
		if enc == nil || p.Exported(fn) || len(sites) == 0 {
			return ""
		}
		for _, site := range sites {
			if site.Parent() != enc {
				return ""
			}
		}
		inHelper = true
	}
	cz := p.canonFor(fn)
	x := cz.of(ta.X)
	guards := dominatingGuards(ta.Block())
	if inHelper {
		// the conditions under which the helper is called hold inside it: take those common to all call sites (by canonical form)
		czE := p.canonFor(enc)
		var common []guard
		for i, site := range p.CG().sites[fn] {
			gs := dominatingGuards(site.Block())
			if i == 0 {
				common = gs
				continue
			}
			var keep []guard
			for _, g := range common {
				for _, g2 := range gs {
					if g.Pol == g2.Pol && czE.of(g.Cond) == czE.of(g2.Cond) {
						keep = append(keep, g)
						break
					}
				}
			}
			common = keep
		}
		cz = czE
		guards = append(guards, common...)
	}
	keyIs := func(name string) bool {
		for _, g := range guards {
			ng := normGuard(g)
			bo, ok := ng.Cond.(*ssa.BinOp)
			if !ok {
				continue
			}
			if cz.of(bo.Y) == "load(mxj."+name+")" || cz.of(bo.X) == "load(mxj."+name+")" {
				if (bo.Op == token.EQL) == ng.Pol {
					return true
				}
			}
		}
		return false
	}
	match := false
	switch {
	case strings.HasPrefix(x, "lookup(") && strings.HasSuffix(x, ",load(mxj.textK))") && isStringType(ta.AssertedType) && (keyIs("commentK") || keyIs("directiveK")):
		match = true
	case strings.HasPrefix(x, "lookup(") && (strings.HasSuffix(x, ",load(mxj.targetK))") || strings.HasSuffix(x, ",load(mxj.instK))")) && isStringType(ta.AssertedType) && keyIs("procinstK"):
		match = true
	case isMapShaped(ta.AssertedType):
		// a.v.(map[string]interface{}) over the entries of val[attrK].(map), under its ok edge
		for _, g := range guards {
			ng := normGuard(g)
			ex, ok := ng.Cond.(*ssa.Extract)
			if !ok || !ng.Pol || ex.Index != 1 {
				continue
			}
			if ta2, ok := ex.Tuple.(*ssa.TypeAssert); ok && strings.HasSuffix(cz.of(ta2.X), ",load(mxj.attrK))") {
				// operand is the .v field of a keyval element
				if u, ok := ta.X.(*ssa.UnOp); ok {
					if fa, ok := u.X.(*ssa.FieldAddr); ok && fieldName(fa.X.Type(), fa.Field) == "v" {
						match = true
					}
				}
				if f, ok := ta.X.(*ssa.Field); ok && fieldName(f.X.Type(), f.Field) == "v" {
					match = true
				}
			}
		}
	}
	if !match {
		return ""
	}
	sh := p.seqProducerShape()
	if !sh.ok {
		return ""
	}
	return "shape contract SHAPE.seq (Map produced by the sequence decoder under the same key prefix): " + sh.why
}
