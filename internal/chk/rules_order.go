package chk

import (
	"fmt"
	"go/token"
	"go/types"
	"sort"
	"strings"

	"golang.org/x/tools/go/ssa"
)

// ===== family F: ORDER — hash-order independence ======================================================
//
// For every range over a map (and every loop over reflect.Value.MapKeys) in a function reachable from an
// encoder entry point, the effects of the loop body are classified. Output written inside the loop, a
// string accumulated across iterations or an iteration-dependent value that survives the loop is
// order-sensitive and is a violation unless the range is edge-dominated by len(m)==1. Elements
// stored/appended into a slice make that slice unordered; a sort call must dominate every later
// element-reading use. Writes into other maps, counters, constant flags and error returns are
// order-insensitive. If no order-sensitive effect depends on a map range, the output cannot depend on
// the runtime's iteration order, for every Map, capacity and insertion history.

type mapLoop struct {
	fn     *ssa.Function
	header *ssa.BasicBlock // block containing Next (or the index test for MapKeys loops)
	body   map[*ssa.BasicBlock]bool
	src    ssa.Value // the map (or the MapKeys slice)
	pos    token.Pos
	next   *ssa.Next
	kind   string
}

func naturalLoop(header *ssa.BasicBlock) map[*ssa.BasicBlock]bool {
	body := map[*ssa.BasicBlock]bool{}
	for b := range reachableFromSuccs(header) {
		if header.Dominates(b) && reachableFromSuccs(b)[header] {
			body[b] = true
		}
	}
	body[header] = true
	return body
}

func findMapLoops(fn *ssa.Function) []mapLoop {
	var out []mapLoop
	eachInstr(fn, func(b *ssa.BasicBlock, in ssa.Instruction) {
		switch x := in.(type) {
		case *ssa.Next:
			rg, ok := x.Iter.(*ssa.Range)
			if !ok {
				return
			}
			if _, isMap := rg.X.Type().Underlying().(*types.Map); !isMap {
				return
			}
			out = append(out, mapLoop{fn: fn, header: b, body: naturalLoop(b), src: rg.X, pos: rg.Pos(), next: x, kind: "range over map"})
		case *ssa.IndexAddr, *ssa.Index:
			var base ssa.Value
			if ia, ok := x.(*ssa.IndexAddr); ok {
				base = ia.X
			} else {
				base = x.(*ssa.Index).X
			}
			if c, ok := base.(*ssa.Call); ok && isCallTo(&c.Call, "(reflect.Value).MapKeys") {
				// the loop containing this access
				loopHdr := innermostLoopHeader(b)
				if loopHdr != nil {
					out = append(out, mapLoop{fn: fn, header: loopHdr, body: naturalLoop(loopHdr), src: c, pos: c.Pos(), kind: "loop over reflect MapKeys"})
				}
			}
		}
	})
	return out
}

// innermostLoopHeader: the closest dominator of b that is the target of a back edge of a loop containing b.
func innermostLoopHeader(b *ssa.BasicBlock) *ssa.BasicBlock {
	for d := b; d != nil; d = d.Idom() {
		isHeader := false
		for _, pr := range d.Preds {
			if d.Dominates(pr) {
				isHeader = true
			}
		}
		if isHeader && naturalLoop(d)[b] {
			return d
		}
	}
	return nil
}

func isOutputSinkType(t types.Type) bool {
	s := types.TypeString(t, func(p *types.Package) string { return p.Path() })
	switch s {
	case "*bytes.Buffer", "*strings.Builder", "io.Writer", "*os.File", "*bufio.Writer", "io.StringWriter":
		return true
	}
	return false
}

// lenIsOneGuard: the loop is entered only under len(src)==1.
func (p *Prog) lenIsOneGuard(l mapLoop) bool {
	cz := p.canonFor(l.fn)
	want := "len(" + cz.of(l.src) + ")"
	for _, g := range expandAndGuards(dominatingGuards(l.header)) {
		ng := normGuard(g)
		bo, ok := ng.Cond.(*ssa.BinOp)
		if !ok {
			continue
		}
		k, isK := constInt(bo.Y)
		if !isK || k != 1 {
			continue
		}
		if cz.of(bo.X) != want {
			continue
		}
		if (bo.Op == token.EQL && ng.Pol) || (bo.Op == token.NEQ && !ng.Pol) {
			return true
		}
	}
	return false
}

// expandAndGuards: a guard on a boolean phi that is known true and has exactly one incoming edge that is not the constant false
// (the SSA form of `a && b` used as a condition) implies the value of that edge and everything that guards its source block.
func expandAndGuards(gs []guard) []guard {
	out := append([]guard{}, gs...)
	for _, g := range gs {
		ng := normGuard(g)
		ph, ok := ng.Cond.(*ssa.Phi)
		if !ok || !ng.Pol || !isBoolType(ph.Type()) {
			continue
		}
		live := -1
		n := 0
		for i, e := range ph.Edges {
			if b, isC := constBool(e); isC && !b {
				continue
			}
			live = i
			n++
		}
		if n != 1 {
			continue
		}
		out = append(out, guard{ph.Edges[live], true})
		out = append(out, dominatingGuards(ph.Block().Preds[live])...)
	}
	return out
}

var sortFuncs = []string{"sort.Sort", "sort.Stable", "sort.Strings", "sort.Slice", "sort.SliceStable", "sort.Ints", "sort.Float64s"}

func ruleOrder(p *Prog, r *Report, roots []string) {
	const rule = "ORDER.maprange"
	rs := p.resolve(r, rule, roots...)
	reach := p.Reach(rs...)
	var fns []*ssa.Function
	for f := range reach {
		if p.InModule(f) {
			fns = append(fns, f)
		}
	}
	sort.Slice(fns, func(i, j int) bool { return p.Name(fns[i]) < p.Name(fns[j]) })
	for _, fn := range fns {
		ord := newOrdinals()
		loops := findMapLoops(fn)
		sort.SliceStable(loops, func(i, j int) bool { return loops[i].pos < loops[j].pos })
		for _, l := range loops {
			p.orderLoop(r, rule, l, ord)
		}
	}
}

func (p *Prog) orderLoop(r *Report, rule string, l mapLoop, ord *ordinalKeys) {
	fn := l.fn
	name := p.Name(fn)
	src := p.ExprAt(l.pos)
	if src == "" {
		src = l.kind
	}
	construct := ord.key(name, src)
	pos := p.Pos(l.pos)
	single := p.lenIsOneGuard(l)
	var problems []string
	// iteration-dependent seeds: key/value extracts of Next, or elements of the MapKeys slice
	var seeds []ssa.Value
	if l.next != nil {
		if refs := l.next.Referrers(); refs != nil {
			for _, in := range *refs {
				if ex, ok := in.(*ssa.Extract); ok && ex.Index > 0 {
					seeds = append(seeds, ex)
				}
			}
		}
	} else {
		eachInstr(fn, func(b *ssa.BasicBlock, in ssa.Instruction) {
			if !l.body[b] {
				return
			}
			switch x := in.(type) {
			case *ssa.IndexAddr:
				if x.X == l.src {
					seeds = append(seeds, x)
				}
			case *ssa.Index:
				if x.X == l.src {
					seeds = append(seeds, x)
				}
			}
		})
	}
	dep := forwardSliceOpt(fn, false, seeds...)
	depVal := map[ssa.Value]bool{}
	for in := range dep {
		if v, ok := in.(ssa.Value); ok {
			depVal[v] = true
		}
	}
	for _, s := range seeds {
		depVal[s] = true
	}
	// slices that receive elements inside the loop
	unordered := map[ssa.Value]bool{}
	for b := range l.body {
		for _, in := range b.Instrs {
			switch x := in.(type) {
			case ssa.CallInstruction:
				if _, isDefer := in.(*ssa.Defer); isDefer {
					continue
				}
				c := x.Common()
				if bi, ok := c.Value.(*ssa.Builtin); ok {
					if bi.Name() == "append" {
						if v := x.Value(); v != nil {
							unordered[v] = true
						}
					}
					continue
				}
				sink := false
				if c.IsInvoke() && isOutputSinkType(c.Value.Type()) {
					sink = true
				}
				for _, a := range c.Args {
					if isOutputSinkType(a.Type()) {
						sink = true
					}
				}
				if sink {
					problems = append(problems, "output is written inside the loop at "+p.Pos(in.Pos())+" ("+p.calleeName(c)+")")
				}
			case *ssa.Store:
				if ia, ok := x.Addr.(*ssa.IndexAddr); ok {
					base := sliceBase(ia)
					if base != nil && !l.body[blockOf(base)] {
						unordered[base] = true
					}
				} else if fa, ok := x.Addr.(*ssa.FieldAddr); ok {
					if ia, ok := fa.X.(*ssa.IndexAddr); ok {
						base := sliceBase(ia)
						if base != nil && !l.body[blockOf(base)] {
							unordered[base] = true
						}
					}
				}
			case *ssa.BinOp:
				if x.Op == token.ADD && isStringType(x.Type()) {
					// accumulation across iterations: the sum is carried to the next iteration through a header phi that is also one of its operands
					for _, opnd := range []ssa.Value{x.X, x.Y} {
						for _, hin := range l.header.Instrs {
							hp, ok := hin.(*ssa.Phi)
							if !ok {
								break
							}
							if phiChainReaches(opnd, hp) && flowsBackTo(x, hp, l) {
								problems = append(problems, "a string is accumulated across iterations at "+p.Pos(x.Pos()))
							}
						}
					}
				}
			}
		}
	}
	// iteration-dependent scalar values surviving the loop (last-writer-wins): phis outside the body or header phis used outside
	eachInstr(fn, func(b *ssa.BasicBlock, in ssa.Instruction) {
		ph, ok := in.(*ssa.Phi)
		if !ok {
			return
		}
		if !depVal[ph] {
			return
		}
		if isOrderInsensitiveCarrier(ph.Type()) {
			return
		}
		usedOutside := false
		if refs := ph.Referrers(); refs != nil {
			for _, u := range *refs {
				if !l.body[u.Block()] {
					usedOutside = true
				}
				if _, isPhi := u.(*ssa.Phi); !isPhi && l.body[u.Block()] && l.body[ph.Block()] && ph.Block() == l.header {
					// read of the previous iteration's value inside the loop
					usedOutside = true
				}
			}
		}
		if !l.body[b] || usedOutside {
			if usedOutside || !l.body[b] {
				if hasRealUse(ph, l) {
					problems = append(problems, "an iteration-dependent value ("+ph.Comment+") survives the loop at "+p.Pos(ph.Pos()))
				}
			}
		}
	})
	// unordered slices must be sorted before use after the loop
	for base := range unordered {
		aliases := sliceAliases(fn, base)
		var sortCalls []ssa.Instruction
		var reads []ssa.Instruction
		for a := range aliases {
			refs := a.Referrers()
			if refs == nil {
				continue
			}
			for _, u := range *refs {
				if l.body[u.Block()] {
					continue
				}
				if !reachableFromSuccs(l.header)[u.Block()] && u.Block() != l.header {
					continue // before the loop
				}
				switch x := u.(type) {
				case ssa.CallInstruction:
					c := x.Common()
					if bi, ok := c.Value.(*ssa.Builtin); ok && (bi.Name() == "len" || bi.Name() == "cap") {
						continue
					}
					if isCallTo(c, sortFuncs...) {
						sortCalls = append(sortCalls, u)
						continue
					}
					reads = append(reads, u)
				case *ssa.IndexAddr, *ssa.Index, *ssa.Return, *ssa.Range, *ssa.Store, *ssa.MapUpdate:
					reads = append(reads, u)
				}
			}
		}
		for _, rd := range reads {
			sorted := false
			for _, sc := range sortCalls {
				if sc.Block() == rd.Block() && indexIn(sc) < indexIn(rd) {
					sorted = true
				} else if sc.Block() != rd.Block() && sc.Block().Dominates(rd.Block()) {
					sorted = true
				}
			}
			if !sorted {
				problems = append(problems, fmt.Sprintf("slice %s filled in map order is used at %s without a dominating sort", base.Name(), p.Pos(rd.Pos())))
			}
		}
		if len(reads) > 0 && len(problems) == 0 {
			p.sortKeyPurity(r, l, base, aliases, sortCalls, depVal)
		}
	}
	// what is stored for one entry must not depend on how many entries were visited before it: no element store inside the loop
	// is computed from, or conditional on, loop-carried state other than integer counters (which only choose the slot)
	{
		carried := map[ssa.Value]bool{}
		for _, in := range l.header.Instrs {
			ph, ok := in.(*ssa.Phi)
			if !ok {
				break
			}
			if isIntType(ph.Type()) {
				continue
			}
			for i, pr := range l.header.Preds {
				if l.header.Dominates(pr) && ph.Edges[i] != ssa.Value(ph) {
					carried[ph] = true
				}
			}
		}
		if len(carried) > 0 {
			dependsOnCarried := func(v ssa.Value) bool {
				for x := range backwardSlice(fn, v) {
					if carried[x] {
						return true
					}
				}
				return false
			}
			for b := range l.body {
				for _, in := range b.Instrs {
					st, ok := in.(*ssa.Store)
					if !ok {
						continue
					}
					if _, isElem := st.Addr.(*ssa.IndexAddr); !isElem {
						continue
					}
					bad := dependsOnCarried(st.Val)
					if !bad {
						for _, blk := range fn.Blocks {
							if !l.body[blk] || blk == l.header || len(blk.Instrs) == 0 {
								continue
							}
							ifi, ok := blk.Instrs[len(blk.Instrs)-1].(*ssa.If)
							if !ok {
								continue
							}
							for si := 0; si < 2; si++ {
								if edgeDominates(blk, si, b) && dependsOnCarried(ifi.Cond) {
									bad = true
								}
							}
						}
					}
					if bad {
						problems = append(problems, "what is stored for an entry at "+p.Pos(st.Pos())+" depends on state carried over from the entries visited before it")
					}
				}
			}
		}
	}
	if len(problems) == 0 {
		why := "no order-sensitive effect in the loop body"
		if len(unordered) > 0 {
			why = "collected elements are sorted before any use"
		}
		r.OK(rule, name, construct, pos, why)
		return
	}
	if single {
		r.OK(rule, name, construct, pos, "loop is entered only under len(m)==1: a single iteration has no order")
		return
	}
	r.Bad(rule, name, construct, pos, "output depends on map iteration order: "+strings.Join(uniq(problems), "; "))
}

// phiChainReaches: v is hp or a phi merging hp (through phis only).
func phiChainReaches(v ssa.Value, hp *ssa.Phi) bool {
	seen := map[ssa.Value]bool{}
	var rec func(v ssa.Value) bool
	rec = func(v ssa.Value) bool {
		if v == ssa.Value(hp) {
			return true
		}
		if seen[v] {
			return false
		}
		seen[v] = true
		if ph, ok := v.(*ssa.Phi); ok {
			for _, e := range ph.Edges {
				if rec(e) {
					return true
				}
			}
		}
		return false
	}
	return rec(v)
}

// flowsBackTo: x reaches a back-edge operand of the header phi hp through phis only.
func flowsBackTo(x ssa.Value, hp *ssa.Phi, l mapLoop) bool {
	for i, e := range hp.Edges {
		if !l.body[hp.Block().Preds[i]] {
			continue
		}
		seen := map[ssa.Value]bool{}
		var rec func(v ssa.Value) bool
		rec = func(v ssa.Value) bool {
			if v == x {
				return true
			}
			if seen[v] {
				return false
			}
			seen[v] = true
			if ph, ok := v.(*ssa.Phi); ok && ph != hp {
				for _, e2 := range ph.Edges {
					if rec(e2) {
						return true
					}
				}
			}
			return false
		}
		if rec(e) {
			return true
		}
	}
	return false
}

func hasRealUse(ph *ssa.Phi, l mapLoop) bool {
	seen := map[ssa.Value]bool{}
	var rec func(v ssa.Value) bool
	rec = func(v ssa.Value) bool {
		if seen[v] {
			return false
		}
		seen[v] = true
		refs := v.Referrers()
		if refs == nil {
			return false
		}
		for _, u := range *refs {
			if p2, ok := u.(*ssa.Phi); ok {
				if rec(p2) {
					return true
				}
				continue
			}
			if _, ok := u.(*ssa.DebugRef); ok {
				continue
			}
			return true
		}
		return false
	}
	return rec(ph)
}

func isStringType(t types.Type) bool {
	b, ok := t.Underlying().(*types.Basic)
	return ok && b.Info()&types.IsString != 0
}

// isOrderInsensitiveCarrier: counters, flags, errors, maps and slices are handled elsewhere or are insensitive.
func isOrderInsensitiveCarrier(t types.Type) bool {
	switch u := t.Underlying().(type) {
	case *types.Basic:
		return u.Info()&(types.IsInteger|types.IsBoolean) != 0
	case *types.Map, *types.Slice:
		return true
	case *types.Interface:
		return isErrorType(t)
	case *types.Pointer:
		return true
	}
	return false
}

func phiFedFromLoop(ph *ssa.Phi, l mapLoop) bool {
	for i, e := range ph.Edges {
		if l.body[ph.Block().Preds[i]] {
			if _, isConst := e.(*ssa.Const); !isConst {
				return true
			}
		}
	}
	return false
}

func blockOf(v ssa.Value) *ssa.BasicBlock {
	if in, ok := v.(ssa.Instruction); ok {
		return in.Block()
	}
	return nil
}

// sliceBase: the slice value an element address belongs to (through nested array element addresses).
func sliceBase(ia *ssa.IndexAddr) ssa.Value {
	for {
		if inner, ok := ia.X.(*ssa.IndexAddr); ok {
			ia = inner
			continue
		}
		if _, ok := ia.X.Type().Underlying().(*types.Slice); ok {
			return ia.X
		}
		return nil
	}
}

// sliceAliases: values denoting (parts of) the same slice: reslices, conversions, phis, append results.
func sliceAliases(fn *ssa.Function, base ssa.Value) map[ssa.Value]bool {
	al := map[ssa.Value]bool{base: true}
	changed := true
	for changed {
		changed = false
		eachInstr(fn, func(b *ssa.BasicBlock, in ssa.Instruction) {
			v, ok := in.(ssa.Value)
			if !ok || al[v] {
				return
			}
			add := false
			switch x := in.(type) {
			case *ssa.Slice:
				add = al[x.X]
			case *ssa.ChangeType:
				add = al[x.X]
			case *ssa.Convert:
				add = al[x.X]
			case *ssa.MakeInterface:
				add = al[x.X]
			case *ssa.Phi:
				for _, e := range x.Edges {
					if al[e] {
						add = true
					}
				}
			case *ssa.Call:
				if bi, ok := x.Call.Value.(*ssa.Builtin); ok && bi.Name() == "append" {
					add = al[x.Call.Args[0]]
				}
			}
			if add {
				al[v] = true
				changed = true
			}
		})
		// backwards: a phi/append/slice whose result is an alias makes its slice operands aliases too
		for v := range al {
			switch x := v.(type) {
			case *ssa.Phi:
				for _, e := range x.Edges {
					if _, isC := e.(*ssa.Const); !isC && !al[e] {
						al[e] = true
						changed = true
					}
				}
			case *ssa.Call:
				if bi, ok := x.Call.Value.(*ssa.Builtin); ok && bi.Name() == "append" && !al[x.Call.Args[0]] {
					if _, isC := x.Call.Args[0].(*ssa.Const); !isC {
						al[x.Call.Args[0]] = true
						changed = true
					}
				}
			}
		}
	}
	return al
}

// sortKeyPurity: the order established by the sort must be the key order. For sort.Strings the sorted
// elements must be (slices of) the map key itself; for sort.Sort with a module comparator, Less may read
// only the key component, and what the loop stores into that component derives from the map key only.
func (p *Prog) sortKeyPurity(r *Report, l mapLoop, base ssa.Value, aliases map[ssa.Value]bool, sortCalls []ssa.Instruction, depVal map[ssa.Value]bool) {
	const rule = "ORDER.sortkey"
	fn := l.fn
	name := p.Name(fn)
	var keyEx, valEx ssa.Value
	if l.next != nil {
		if refs := l.next.Referrers(); refs != nil {
			for _, in := range *refs {
				if ex, ok := in.(*ssa.Extract); ok {
					if ex.Index == 1 {
						keyEx = ex
					}
					if ex.Index == 2 {
						valEx = ex
					}
				}
			}
		}
	}
	if keyEx == nil {
		return
	}
	valDep := map[ssa.Value]bool{}
	if valEx != nil {
		for in := range forwardSlice(fn, valEx) {
			if v, ok := in.(ssa.Value); ok {
				valDep[v] = true
			}
		}
		valDep[valEx] = true
	}
	for _, sc := range sortCalls {
		c := sc.(ssa.CallInstruction).Common()
		construct := "sort key of " + p.ExprAt(sc.Pos())
		switch {
		case isCallTo(c, "sort.Strings"):
			// every element stored in the loop must not depend on the map value
			bad := ""
			for b := range l.body {
				for _, in := range b.Instrs {
					if st, ok := in.(*ssa.Store); ok {
						if ia, ok := st.Addr.(*ssa.IndexAddr); ok && aliases[ia.X] && valDep[st.Val] {
							bad = p.Pos(st.Pos())
						}
					}
					if cl, ok := in.(*ssa.Call); ok {
						if bi, ok := cl.Call.Value.(*ssa.Builtin); ok && bi.Name() == "append" && aliases[cl] {
							for _, a := range cl.Call.Args[1:] {
								if valDep[a] || anyElemDep(fn, a, valDep) {
									bad = p.Pos(cl.Pos())
								}
							}
						}
					}
				}
			}
			if bad == "" {
				r.OK(rule, name, construct, p.Pos(sc.Pos()), "sorted strings derive from the map key only")
			} else {
				r.Bad(rule, name, construct, p.Pos(sc.Pos()), "the sorted strings depend on the map value (stored at "+bad+"): the order is not the ascending key order")
			}
		case isCallTo(c, "sort.Sort", "sort.Stable"):
			// comparator type
			arg := c.Args[0]
			mi, ok := arg.(*ssa.MakeInterface)
			if !ok {
				r.Unknown(rule, name, construct, p.Pos(sc.Pos()), "argument of sort.Sort is not a direct conversion")
				continue
			}
			nt, ok := mi.X.Type().(*types.Named)
			if !ok {
				r.Unknown(rule, name, construct, p.Pos(sc.Pos()), "comparator type is not a named type")
				continue
			}
			less := p.methodOf(nt, "Less")
			if less == nil {
				r.Unknown(rule, name, construct, p.Pos(sc.Pos()), "Less method not found")
				continue
			}
			comp, why := lessComponent(less)
			if comp == "" {
				r.Unknown(rule, name, construct, p.Pos(sc.Pos()), "comparator "+p.Name(less)+": "+why)
				continue
			}
			// a cached sequence number: the comparator reads an integer field of elements that also carry the value. The order is
			// the sequence order only if that field is computed from the value stored in the same element.
			if est := elemStructOf(nt); est != nil && comp != "v(seq)" {
				ci, vi := -1, -1
				for i := 0; i < est.NumFields(); i++ {
					if est.Field(i).Name() == comp && isIntType(est.Field(i).Type()) {
						ci = i
					}
					if isEmptyIface(est.Field(i).Type()) {
						vi = i
					}
				}
				if ci >= 0 && vi >= 0 {
					n, badAt := p.cachedKeyOwnValue(fn, mi.X.Type(), ci, vi)
					switch {
					case badAt != "":
						r.Bad(rule, name, construct, p.Pos(sc.Pos()), "the cached number compared by "+p.Name(less)+" is computed (at "+badAt+") from something other than the value stored in the same element: elements are ordered by a number that is not their own sequence number")
					case n == 0:
						r.Unknown(rule, name, construct, p.Pos(sc.Pos()), "no element literal with the compared field found")
					default:
						r.OK(rule, name, construct, p.Pos(sc.Pos()), fmt.Sprintf("comparator %s orders by a cached number that each of the %d element literals computes from the value it stores", p.Name(less), n))
					}
					continue
				}
			}
			// what does the loop store into that component?
			bad := ""
			found := false
			for b := range l.body {
				for _, in := range b.Instrs {
					st, ok := in.(*ssa.Store)
					if !ok {
						continue
					}
					cname, onBase := storeComponent(st, aliases)
					if !onBase {
						continue
					}
					if cname == comp || cname == "*" {
						found = true
						if cname == "*" {
							// whole-element store (struct literal): check the field values of the composite
							if !compositeFieldPure(fn, st.Val, comp, valDep) {
								bad = p.Pos(st.Pos())
							}
						} else if valDep[st.Val] {
							bad = p.Pos(st.Pos())
						}
					}
				}
			}
			// elements appended as composite literals: append(list, T{…}) — the literal's compared component
			for b := range l.body {
				for _, in := range b.Instrs {
					cl, ok := in.(*ssa.Call)
					if !ok {
						continue
					}
					bi, ok := cl.Call.Value.(*ssa.Builtin)
					if !ok || bi.Name() != "append" || !(aliases[cl] || aliases[cl.Call.Args[0]]) || len(cl.Call.Args) != 2 {
						continue
					}
					sl, ok := cl.Call.Args[1].(*ssa.Slice)
					if !ok {
						continue
					}
					va, ok := sl.X.(*ssa.Alloc)
					if !ok {
						continue
					}
					// the variadic array's elements: loads of local composite literals
					for _, ref := range *va.Referrers() {
						ia, ok := ref.(*ssa.IndexAddr)
						if !ok {
							continue
						}
						for _, r2 := range *ia.Referrers() {
							st, ok := r2.(*ssa.Store)
							if !ok || st.Addr != ssa.Value(ia) {
								continue
							}
							u, ok := st.Val.(*ssa.UnOp)
							if !ok {
								continue
							}
							lit := rootAlloc(u.X)
							if lit == nil {
								continue
							}
							for _, r3 := range *lit.Referrers() {
								var cname string
								var addr ssa.Value
								switch a := r3.(type) {
								case *ssa.IndexAddr:
									if k, isK := constInt(a.Index); isK {
										cname, addr = fmt.Sprint(k), a
									}
								case *ssa.FieldAddr:
									cname, addr = fieldName(lit.Type(), a.Field), a
								}
								if addr == nil || cname != strings.TrimSuffix(comp, "(seq)") {
									continue
								}
								for _, r4 := range *addr.Referrers() {
									if st2, ok := r4.(*ssa.Store); ok && st2.Addr == addr {
										found = true
										if valDep[st2.Val] {
											bad = p.Pos(st2.Pos())
										}
									}
								}
							}
						}
					}
				}
			}
			if comp == "v(seq)" {
				r.OK(rule, name, construct, p.Pos(sc.Pos()), "comparator "+p.Name(less)+" orders by the sequence number of the element")
				continue
			}
			if bad != "" {
				r.Bad(rule, name, construct, p.Pos(sc.Pos()), "the component compared by "+p.Name(less)+" depends on the map value (stored at "+bad+")")
			} else if !found {
				r.Unknown(rule, name, construct, p.Pos(sc.Pos()), "no store of the compared component found in the loop")
			} else {
				r.OK(rule, name, construct, p.Pos(sc.Pos()), "comparator "+p.Name(less)+" reads only component "+comp+", which the loop fills from the map key")
			}
		default:
			r.Unknown(rule, name, construct, p.Pos(sc.Pos()), "sort form not modelled")
		}
	}
}

func elemStructOf(nt *types.Named) *types.Struct {
	sl, ok := nt.Underlying().(*types.Slice)
	if !ok {
		return nil
	}
	st, _ := sl.Elem().Underlying().(*types.Struct)
	return st
}

// cachedKeyOwnValue: in every element literal of the sorted slice's element type built in fn, the value stored in field ci is
// computed from the value stored in field vi of the same literal and from constants / package variables only.
func (p *Prog) cachedKeyOwnValue(fn *ssa.Function, sliceT types.Type, ci, vi int) (int, string) {
	sl, ok := sliceT.Underlying().(*types.Slice)
	if !ok {
		return 0, ""
	}
	n, bad := 0, ""
	eachInstr(fn, func(b *ssa.BasicBlock, in ssa.Instruction) {
		al, ok := in.(*ssa.Alloc)
		if !ok || !types.Identical(derefType(al.Type()), sl.Elem()) {
			return
		}
		var cv, vv ssa.Value
		for _, ref := range *al.Referrers() {
			fa, ok := ref.(*ssa.FieldAddr)
			if !ok {
				continue
			}
			for _, r2 := range *fa.Referrers() {
				if st, ok := r2.(*ssa.Store); ok && st.Addr == ssa.Value(fa) {
					if fa.Field == ci {
						cv = st.Val
					}
					if fa.Field == vi {
						vv = st.Val
					}
				}
			}
		}
		if cv == nil || vv == nil {
			return
		}
		n++
		// the stored value may be wrapped: interface conversion of the member
		own := map[ssa.Value]bool{vv: true}
		if mi, ok := vv.(*ssa.MakeInterface); ok {
			own[mi.X] = true
		}
		seen := map[ssa.Value]bool{}
		var walk func(v ssa.Value)
		walk = func(v ssa.Value) {
			if v == nil || seen[v] || own[v] || bad != "" {
				return
			}
			seen[v] = true
			switch x := v.(type) {
			case *ssa.Const, *ssa.Global, *ssa.Function, *ssa.Builtin:
				return
			case *ssa.Parameter, *ssa.FreeVar:
				bad = p.Pos(cv.Pos())
				return
			case ssa.Instruction:
				ops := x.Operands(nil)
				nonNil := 0
				for _, op := range ops {
					if op != nil && *op != nil {
						nonNil++
						walk(*op)
					}
				}
				if nonNil == 0 {
					if _, isAlloc := v.(*ssa.Alloc); !isAlloc {
						bad = p.Pos(cv.Pos())
					}
				}
			}
		}
		walk(cv)
	})
	return n, bad
}

func anyElemDep(fn *ssa.Function, v ssa.Value, dep map[ssa.Value]bool) bool {
	for x := range backwardSlice(fn, v) {
		if dep[x] {
			return true
		}
	}
	return false
}

func (p *Prog) methodOf(nt *types.Named, name string) *ssa.Function {
	for _, T := range []types.Type{nt, types.NewPointer(nt)} {
		ms := p.SSA.MethodSets.MethodSet(T)
		for i := 0; i < ms.Len(); i++ {
			if ms.At(i).Obj().Name() == name {
				return p.SSA.MethodValue(ms.At(i))
			}
		}
	}
	return nil
}

// lessComponent: which component of the elements does Less read? "0"/"1" for [2]T arrays, field name for structs.
func lessComponent(less *ssa.Function) (string, string) {
	comps := map[string]bool{}
	// the comparator may read the elements through a method / function of its own it hands the collection to (e.seq(i) <= e.seq(j))
	var scan func(f *ssa.Function, recv ssa.Value, depth int)
	scan = func(f *ssa.Function, recv ssa.Value, depth int) {
		eachInstr(f, func(b *ssa.BasicBlock, in ssa.Instruction) {
			switch x := in.(type) {
			case *ssa.IndexAddr:
				if inner, ok := x.X.(*ssa.IndexAddr); ok && inner.X == recv {
					if k, ok := constInt(x.Index); ok {
						comps[fmt.Sprint(k)] = true
					} else {
						comps["?"] = true
					}
				}
			case *ssa.FieldAddr:
				if inner, ok := x.X.(*ssa.IndexAddr); ok && inner.X == recv {
					comps[fieldName(inner.Type(), x.Field)] = true
				}
			case *ssa.Call:
				if h := staticCallee(&x.Call); h != nil && len(h.Blocks) > 0 && h != f && depth < 2 {
					for i, a := range x.Call.Args {
						if a == recv && i < len(h.Params) {
							scan(h, h.Params[i], depth+1)
						}
						// one element handed to a method / function of the element type (e[i].seq())
						var ia *ssa.IndexAddr
						if u, ok := a.(*ssa.UnOp); ok && u.Op == token.MUL {
							ia, _ = u.X.(*ssa.IndexAddr)
						} else {
							ia, _ = a.(*ssa.IndexAddr)
						}
						if ia != nil && ia.X == recv && i < len(h.Params) {
							elemComps(h, h.Params[i], comps)
						}
					}
				}
			}
		})
	}
	scan(less, less.Params[0], 0)
	if len(comps) != 1 {
		var ks []string
		for k := range comps {
			ks = append(ks, k)
		}
		sort.Strings(ks)
		return "", fmt.Sprintf("reads components %v", ks)
	}
	for k := range comps {
		if k == "v" {
			return "v(seq)", ""
		}
		return k, ""
	}
	return "", ""
}

// elemComps: the fields of one element (a struct parameter, by value or by pointer) that the function reads.
func elemComps(h *ssa.Function, prm *ssa.Parameter, comps map[string]bool) {
	bases := map[ssa.Value]bool{prm: true}
	// a value parameter whose address is taken is spilled to an alloc
	eachInstr(h, func(b *ssa.BasicBlock, in ssa.Instruction) {
		if st, ok := in.(*ssa.Store); ok && st.Val == ssa.Value(prm) {
			if a, ok := st.Addr.(*ssa.Alloc); ok {
				bases[a] = true
			}
		}
	})
	eachInstr(h, func(b *ssa.BasicBlock, in ssa.Instruction) {
		switch x := in.(type) {
		case *ssa.Field:
			if bases[x.X] {
				comps[fieldName(x.X.Type(), x.Field)] = true
			}
		case *ssa.FieldAddr:
			if bases[x.X] {
				comps[fieldName(x.X.Type(), x.Field)] = true
			}
		}
	})
}

// storeComponent: for a store into an element of one of the aliased slices, which component is written ("*" = whole element).
func storeComponent(st *ssa.Store, aliases map[ssa.Value]bool) (string, bool) {
	switch a := st.Addr.(type) {
	case *ssa.IndexAddr:
		if aliases[a.X] {
			return "*", true
		}
		if inner, ok := a.X.(*ssa.IndexAddr); ok && aliases[inner.X] {
			if k, ok := constInt(a.Index); ok {
				return fmt.Sprint(k), true
			}
			return "?", true
		}
	case *ssa.FieldAddr:
		if inner, ok := a.X.(*ssa.IndexAddr); ok && aliases[inner.X] {
			return fieldName(inner.Type(), a.Field), true
		}
	}
	return "", false
}

func compositeFieldPure(fn *ssa.Function, v ssa.Value, comp string, valDep map[ssa.Value]bool) bool {
	// v is a load of a local composite literal: check stores to its fields
	u, ok := v.(*ssa.UnOp)
	if !ok {
		return !valDep[v]
	}
	a := rootAlloc(u.X)
	if a == nil {
		return !valDep[v]
	}
	pure := true
	eachInstr(fn, func(b *ssa.BasicBlock, in ssa.Instruction) {
		if st, ok := in.(*ssa.Store); ok {
			if fa, ok := st.Addr.(*ssa.FieldAddr); ok && fa.X == ssa.Value(a) {
				if fieldName(a.Type(), fa.Field) == strings.TrimSuffix(comp, "(seq)") && valDep[st.Val] {
					pure = false
				}
			}
		}
	})
	return pure
}

// ---- EFFECT.nondet ---------------------------------------------------------------------------------------

var nondetCallees = []string{"time.Now", "time.Since", "os.Getenv", "os.Getpid", "os.Hostname", "os.Getwd", "(*sync.Pool).Get", "(*sync.Pool).Put", "runtime.NumGoroutine",
	// object identity is not part of a Map's value: output that depends on addresses differs between equal Maps
	"(reflect.Value).Pointer", "(reflect.Value).UnsafePointer", "(reflect.Value).UnsafeAddr"}

func ruleNondet(p *Prog, r *Report, roots []string) {
	const rule = "EFFECT.nondet"
	rs := p.resolve(r, rule, roots...)
	reach := p.Reach(rs...)
	n := 0
	for f := range reach {
		if !p.InModule(f) {
			continue
		}
		n++
		eachInstr(f, func(b *ssa.BasicBlock, in ssa.Instruction) {
			switch x := in.(type) {
			case *ssa.Go:
				r.Bad(rule, p.Name(f), "go statement", p.Pos(in.Pos()), "an encoder path starts a goroutine: output may depend on scheduling")
			case *ssa.Select:
				r.Bad(rule, p.Name(f), "select", p.Pos(in.Pos()), "an encoder path selects on channels")
			case *ssa.Send:
				r.Bad(rule, p.Name(f), "channel send", p.Pos(in.Pos()), "an encoder path communicates over a channel")
			case ssa.CallInstruction:
				c := x.Common()
				if g := staticCallee(c); g != nil {
					nm := extName(g)
					if hasPrefixAny(nm, "math/rand.", "(*math/rand.", "crypto/rand.", "math/rand/v2.") || isCallTo(c, nondetCallees...) {
						r.Bad(rule, p.Name(f), "call "+nm, p.Pos(in.Pos()), "an encoder path calls a nondeterministic or process-global-state function")
					}
				}
			}
		})
	}
	r.OK(rule, "encoders", "no nondeterministic callee", "", fmt.Sprintf("%d functions reachable from the encoder entry points contain no goroutine/channel/time/rand/pool/object-identity operation", n))
}
