package chk

import (
	"go/token"

	"golang.org/x/tools/go/ssa"
)

// Cell promotion. go/ssa allocates every variable that a nested function refers to on the heap, even when nobody assigns it after
// its definition: capturing `key` in a local closure turns every use of the parameter in the *outer* function into a load `*t0`.
// The rules compare values with parameters and follow phis, so a behaviour-preserving "extract a local closure" would blind them.
// For a cell with exactly one store that happens before every load and before every closure that binds it, and whose closures
// only read it, the loads in the defining function are replaced by the stored value (as go/ssa's own lifting would have done for
// a variable that does not escape); for the closures the stored value is recorded (CellValue).
//
// The rewriting changes no instruction order and removes nothing: the dead loads stay where they are.

// promoteCells runs over every module function; it is called once after the SSA build.
func (p *Prog) promoteCells() {
	p.cellVal = map[*ssa.FreeVar]ssa.Value{}
	n := 0
	for _, fn := range p.FuncList {
		if len(fn.Blocks) == 0 {
			continue
		}
		for _, b := range fn.Blocks {
			for _, in := range b.Instrs {
				a, ok := in.(*ssa.Alloc)
				if !ok || !a.Heap {
					continue
				}
				if p.promoteCell(fn, a) {
					n++
				}
			}
		}
	}
	p.LoadNotes = append(p.LoadNotes, "read-only captured variables promoted: "+itoa(n))
}

func itoa(n int) string {
	if n == 0 {
		return "0"
	}
	s := ""
	for n > 0 {
		s = string(rune('0'+n%10)) + s
		n /= 10
	}
	return s
}

func (p *Prog) promoteCell(fn *ssa.Function, a *ssa.Alloc) bool {
	var store *ssa.Store
	var loads []*ssa.UnOp
	var closures []*ssa.MakeClosure
	for _, ref := range *a.Referrers() {
		switch x := ref.(type) {
		case *ssa.Store:
			if x.Addr != ssa.Value(a) || store != nil {
				return false // stored as a value, or assigned twice
			}
			store = x
		case *ssa.UnOp:
			if x.Op != token.MUL {
				return false
			}
			loads = append(loads, x)
		case *ssa.MakeClosure:
			closures = append(closures, x)
		case *ssa.DebugRef:
		default:
			return false // address taken some other way (field, index, call argument)
		}
	}
	if store == nil || len(closures) == 0 {
		return false
	}
	before := func(x ssa.Instruction) bool {
		if store.Block() == x.Block() {
			return indexIn(store) < indexIn(x)
		}
		return store.Block().Dominates(x.Block())
	}
	for _, l := range loads {
		if !before(l) {
			return false
		}
	}
	// closures only read the cell
	var fvs []*ssa.FreeVar
	var readOnly func(mc *ssa.MakeClosure, cell ssa.Value) bool
	readOnly = func(mc *ssa.MakeClosure, cell ssa.Value) bool {
		cf, ok := mc.Fn.(*ssa.Function)
		if !ok {
			return false
		}
		for i, bnd := range mc.Bindings {
			if bnd != cell {
				continue
			}
			if i >= len(cf.FreeVars) {
				return false
			}
			fv := cf.FreeVars[i]
			for _, ref := range *fv.Referrers() {
				switch y := ref.(type) {
				case *ssa.UnOp:
					if y.Op != token.MUL {
						return false
					}
				case *ssa.MakeClosure:
					if !readOnly(y, fv) {
						return false
					}
				case *ssa.DebugRef:
				default:
					return false
				}
			}
			fvs = append(fvs, fv)
		}
		return true
	}
	for _, mc := range closures {
		if !before(mc) || !readOnly(mc, a) {
			return false
		}
	}
	x := store.Val
	for _, l := range loads {
		refs := l.Referrers()
		if refs == nil {
			continue
		}
		for _, user := range *refs {
			for _, op := range user.Operands(nil) {
				if *op == ssa.Value(l) {
					*op = x
				}
			}
			if xr := x.Referrers(); xr != nil {
				*xr = append(*xr, user)
			}
		}
		*refs = nil
	}
	for _, fv := range fvs {
		p.cellVal[fv] = x
	}
	return true
}

// CellValue: for a load `*fv` of a promoted read-only captured variable inside a closure, the value the variable holds (a value of
// the defining function), else nil.
func (p *Prog) CellValue(v ssa.Value) ssa.Value {
	u, ok := v.(*ssa.UnOp)
	if !ok || u.Op != token.MUL {
		return nil
	}
	fv, ok := u.X.(*ssa.FreeVar)
	if !ok {
		return nil
	}
	return p.cellVal[fv]
}
