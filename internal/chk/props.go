package chk

// Property registry: which rule families decide the structural clauses of each property.

type PropSpec struct {
	ID      string
	Explain string
	Rules   []func(p *Prog, r *Report)
	Trusted []string
}

var Props = map[string]*PropSpec{}

func register(id, explain string, trusted []string, rules ...func(p *Prog, r *Report)) {
	Props[id] = &PropSpec{ID: id, Explain: explain, Rules: rules, Trusted: trusted}
}

func init() {
	register("C18",
		"Structural necessary conditions of 'options have only their documented effect and can be restored', decided on the type-checked SSA program for every call history: "+
			"OPT.writers (each package variable is stored only by init and its named setter: no hidden state survives a reset), "+
			"OPT.setter (per setter and argument-count class {0,1,>=2}, every CFG path stores the documented value: toggle / explicit / unchanged; explicit stores do not depend on the old value), "+
			"OPT.excl (encoder- and decoder-side escaping never both on at a setter exit), OPT.dead (every option is read by some non-setter), "+
			"PAIR.derived (lenAttrPrefix and trimRunes are recomputed with their master variable), OPT.scope (API groups never load options documented not to affect them). "+
			"Not decided: behavioural equality with a fresh process; restorability of SetGlobalKeyMapPrefix for arbitrary prefix characters.",
		[]string{"option documentation transcribed in tables.go/rules_opt.go"},
		ruleOptWriters, ruleOptSetter, ruleOptExcl, func(p *Prog, r *Report) { ruleOptDead(p, r, "mxj") }, rulePairDerived,
		func(p *Prog, r *Report) { ruleOptScope(p, r) })
}
