package chk

// Property registry: which rule families decide the structural clauses of each property.

type PropSpec struct {
	ID      string
	Explain string
	Rules   []func(p *Prog, r *Report)
	Trusted []string
}

var Props = map[string]*PropSpec{}

func register(id, explain string, trusted []string, rules ...func(p *Prog, r *Report)) {
	Props[id] = &PropSpec{ID: id, Explain: explain, Rules: rules, Trusted: trusted}
}

func init() {
	register("C18",
		"Structural necessary conditions of 'options have only their documented effect and can be restored', decided on the type-checked SSA program for every call history: "+
			"OPT.writers (each package variable is stored only by init and its named setter: no hidden state survives a reset), "+
			"OPT.setter (per setter and argument-count class {0,1,>=2}, every CFG path stores the documented value: toggle / explicit / unchanged; explicit stores do not depend on the old value), "+
			"OPT.excl (encoder- and decoder-side escaping never both on at a setter exit), OPT.dead (every option is read by some non-setter), "+
			"PAIR.derived (lenAttrPrefix and trimRunes are recomputed with their master variable), OPT.scope (API groups never load options documented not to affect them). "+
			"Not decided: behavioural equality with a fresh process; restorability of SetGlobalKeyMapPrefix for arbitrary prefix characters.",
		[]string{"option documentation transcribed in tables.go/rules_opt.go"},
		ruleOptWriters, ruleOptSetter, ruleOptExcl, func(p *Prog, r *Report) { ruleOptDead(p, r, "mxj") }, rulePairDerived,
		func(p *Prog, r *Report) { ruleOptScope(p, r) })

	register("C20",
		"Wrapper conformance in the resolved program: WRAP.compose over every exported function of j2x (16), x2j (16) and the thin x2j-wrapper forms (19): the module calls are exactly the documented composition, each step is applied to the result of the previous one under its err==nil edge, returned values are results of the composition; FWD.param/FWD.variadic: every parameter reaches the wrapped call; OPT.dead for the wrapper's own option. Not decided: value equality of results.",
		[]string{"wrapper documentation transcribed in rules_wrap.go"},
		func(p *Prog, r *Report) { ruleWrapCompose(p, r, j2xSpecs()) },
		func(p *Prog, r *Report) { ruleWrapCompose(p, r, x2jSpecs()) },
		func(p *Prog, r *Report) { ruleWrapCompose(p, r, x2jwSpecs()) },
		func(p *Prog, r *Report) {
			ruleFwdVariadic(p, r, func(n string) bool { return hasPrefixAny(n, "j2x.", "x2j.", "x2jw.") })
		},
		func(p *Prog, r *Report) { ruleOptDead(p, r, "x2jw") })
	register("C16t",
		"temporary", nil, ruleWrapWriter, ruleWrapConcat, ruleWrapFileLoop,
		func(p *Prog, r *Report) { ruleWrapCompose(p, r, coreWrapSpecs()) },
		func(p *Prog, r *Report) { ruleFwdVariadic(p, r, func(n string) bool { return hasPrefixAny(n, "mxj.") }) })

	register("ERRt", "temporary", nil, func(p *Prog, r *Report) {
		var all []string
		for _, f := range p.FuncList {
			if p.Exported(f) {
				all = append(all, p.Name(f))
			}
		}
		ruleErr(p, r, all, "all exported API")
	})

	register("ORDt", "temporary", nil, func(p *Prog, r *Report) {
		roots := concat(grpMapEncode, grpSeqEncode, grpAnyEncode, grpJsonEncode, grpBeautify, []string{"mxj.Map.StringIndent", "mxj.Map.StringIndentNoTypeInfo", "mxj.MapSeq.StringIndent"})
		ruleOrder(p, r, roots)
		ruleNondet(p, r, roots)
	})

	register("EFFt", "temporary", nil, func(p *Prog, r *Report) {
		ruleEffectRecv(p, r, p.readOnlyMethods(), "EFFECT.recv")
		ruleEffectGlobal(p, r)
		ruleOwnFresh(p, r, "mxj.Map.Copy")
	})

	register("PANt", "temporary", nil, func(p *Prog, r *Report) {
		rulePanicAssert(p, r, p.FuncList)
		rulePanicIdx(p, r, "mxj", ".", nil)
		rulePanicNil(p, r, p.PkgFuncs("mxj"))
		rulePanicExplicit(p, r, p.PkgFuncs("mxj"))
	})

	register("IOt", "temporary", nil, func(p *Prog, r *Report) {
		fns := append(p.PkgFuncs("mxj"), p.PkgFuncs("x2jw")...)
		ruleIORead(p, r, fns)
		ruleIOByteReader(p, r, fns)
		ruleIOTee(p, r)
		ruleLoopHandler(p, r, []string{"mxj.HandleXmlReader", "mxj.HandleXmlReaderRaw", "mxj.HandleJsonReader", "mxj.HandleJsonReaderRaw",
			"x2jw.XmlMsgsFromReader", "x2jw.XmlMsgsFromReaderAsJson", "x2jw.XmlMsgsFromFile", "x2jw.XmlMsgsFromFileAsJson"})
	})

	register("TABt", "temporary", nil, ruleTableEscape, ruleTableNanInf, ruleTableKeys, ruleTableNoRewrite, ruleTableGob, ruleTablePartition)

	register("WALKt", "temporary", nil, func(p *Prog, r *Report) {
		ruleWalkProgress(p, r, []string{"mxj.valuesForKeyPath", "mxj.updateValuesForKeyPath", "x2jw.valuesFromKeyPath"})
		ruleWalkHandover(p, r)
		ruleWalkTotal(p, r, []walkerSpec{{"mxj.hasKey", nil}, {"mxj.hasKeyPath", nil}, {"mxj.getLeafNodes", []string{"param:noattr", "load(mxj.attrPrefix)"}},
			{"mxj.writeMap", nil}, {"x2jw.hasKey", nil}, {"x2jw.hasKeyPath", nil}})
		ruleWalkLeaf(p, r)
		rulePairCount(p, r, []string{"mxj.Map.ValuesForKey", "mxj.Map.oldValuesForPath"})
		rulePairUpdate(p, r)
		rulePairAtomic(p, r)
		ruleWalkParent(p, r)
		ruleWalkCollect(p, r, []string{"mxj.hasKey", "mxj.valuesForKeyPath", "x2jw.hasKey", "x2jw.valuesFromKeyPath"})
		ruleShortestMetric(p, r, []string{"mxj.Map.PathForKeyShortest", "x2jw.PathForKeyShortest"})
		ruleAliasReuse(p, r, p.PkgFuncs("mxj"))
	})

	register("INFt", "temporary", nil, func(p *Prog, r *Report) {
		ruleInflCover(p, r)
		ruleInflFieldSep(p, r)
		ruleInflCastFlag(p, r)
		ruleInflFilter(p, r, []string{"mxj.hasKey", "mxj.valuesForKeyPath", "mxj.updateValuesForKeyPath", "mxj.updateValue"})
		ruleInflIndent(p, r)
		ruleInflCrumb(p, r, []string{"mxj.hasKeyPath", "x2jw.hasKeyPath"})
	})

	register("ESCt", "temporary", nil, ruleEsc)

	register("MISCt", "temporary", nil, func(p *Prog, r *Report) {
		ruleValidCoupling(p, r)
		rulePairSeq(p, r)
		ruleDecodeSibling(p, r, []string{"mxj.xmlToMapParser", "mxj.xmlSeqToMapParser"})
		ruleWalkArms(p, r, []string{"mxj.marshalMapToXmlIndent", "mxj.mapToXmlSeqIndent"})
		ruleAnyXmlList(p, r)
	})
}
