package chk

import (
	"golang.org/x/tools/go/ssa"
)

// Property registry: which rule families decide the structural clauses of each property.

type PropSpec struct {
	ID      string
	Explain string
	Rules   []func(p *Prog, r *Report)
	Trusted []string
}

var Props = map[string]*PropSpec{}

func register(id, explain string, trusted []string, rules ...func(p *Prog, r *Report)) {
	Props[id] = &PropSpec{ID: id, Explain: explain, Rules: rules, Trusted: trusted}
}

const levelNote = " Level 'other': these are structural necessary conditions decided soundly from the type-checked program for every input / configuration / schedule; the behavioural whole of the property is NOT decided."

func fnSet(fns []*ssa.Function) map[*ssa.Function]bool {
	m := map[*ssa.Function]bool{}
	for _, f := range fns {
		m[f] = true
	}
	return m
}

func (p *Prog) named(names ...string) []*ssa.Function {
	var out []*ssa.Function
	for _, n := range names {
		if f := p.Fn(n); f != nil {
			out = append(out, f)
		}
	}
	return out
}

// c15Roots: every entry point C15 quantifies over (decoders, string-argument APIs, encoders applied to decoder output).
func c15Roots() []string {
	return concat(grpMapDecode, grpSeqDecode, grpJsonDecode, grpGob, grpBeautify, grpQuery, grpLeaf, grpProject, grpMutators,
		grpMapEncode, grpSeqEncode, grpAnyEncode, grpJsonEncode)
}

func encoderRoots() []string {
	return concat(grpMapEncode, grpSeqEncode, grpAnyEncode, grpJsonEncode, grpBeautify,
		[]string{"mxj.Map.StringIndent", "mxj.Map.StringIndentNoTypeInfo", "mxj.MapSeq.StringIndent", "mxj.MapSeq.StringIndentNoTypeInfo"})
}

// panicRules runs the PANIC family over the module functions reachable from the roots (core package only).
func panicRules(roots []string) func(p *Prog, r *Report) {
	return func(p *Prog, r *Report) {
		fns := p.scopeFuncs(r, "PANIC.scope", roots)
		var core []*ssa.Function
		for _, f := range fns {
			if p.isSetter(f) {
				continue
			}
			if hasPrefixAny(p.Name(f), "mxj.") {
				core = append(core, f)
			}
		}
		rulePanicAssert(p, r, core)
		rulePanicIdx(p, r, "mxj", ".", fnSet(core))
		rulePanicNil(p, r, core)
		rulePanicExplicit(p, r, core)
		rulePanicCompare(p, r, core)
		rulePanicOverflow(p, r, core)
	}
}

func init() {
	register("C01",
		"Structural clauses of 'XML decodes to the documented Map under all options' decided on xmlToMapParser: INFL.cover (attribute keys depend on attrPrefix, lowerCase, snakeCaseKeys and the attribute name; element keys on lowerCase/snakeCaseKeys; text on trimRunes and xmlEscapeCharsDecoder and passes through cast with the decoder's flag; text-key choice on decodeSimpleValuesAsMap; _seq only under includeTagSeqNum), INFL.castflag (structure independent of the cast flag), TABLE.keys (shared key variables, no literals), DECODE.sibling (every decoded child is stored on every path; repeated siblings are append(existing, new)), PAIR.seqnum (the _seq number is a running counter advanced with every child), OPT.setter + PAIR.derived for the options the decoder reads (each setter stores what its documentation says for no, one and more arguments; trimRunes follows disableTrimWhiteSpace), TEXT.nonempty (character data is stored only under a non-emptiness test of the trimmed text that is stored: white space between children never becomes or overwrites a text value), FOLD.total (snake-case folding replaces every hyphen), TABLE.escape (decoder-side escaping touches exactly the five special characters, '&' first), PANIC.nil/assert/idx on the decoder. Not decided: equality of the produced Map with the documented one (trimming results, collisions, case-folding values). TEXT.trimset (character data is trimmed with the option's cut set trimRunes only); TABLE.naninf for the decoder's cast. TABLE.trimset (the two trim cut sets differ by the blank only); FOLD.total whole-key clause (lower-casing applies to the assembled key). OPT.excl (the coupled escape setters). DECODER.config (every xml.Decoder made for the element parser is configured by the one shared sequence: no entry point decodes under other tokenizer settings)."+levelNote,
		[]string{"documented option semantics transcribed in rules_infl.go"},
		ruleInflCover,
		func(p *Prog, r *Report) { ruleInflCastFlag(p, r) },
		ruleTableKeys,
		func(p *Prog, r *Report) { ruleDecodeSibling(p, r, []string{"mxj.xmlToMapParser"}) },
		ruleSeqCover, ruleCastParsers, rulePairSeqNum, ruleTableEscape, ruleTableNanInf,
		ruleOptSetterFor([]string{"mxj.attrPrefix", "mxj.lowerCase", "mxj.snakeCaseKeys", "mxj.decodeSimpleValuesAsMap", "mxj.includeTagSeqNum",
			"mxj.xmlEscapeCharsDecoder", "mxj.disableTrimWhiteSpace", "mxj.castToInt", "mxj.castToFloat", "mxj.castToBool", "mxj.castNanInf", "mxj.checkTagToSkip"}),
		rulePairDerived,
		func(p *Prog, r *Report) { ruleFoldTotal(p, r, []string{"mxj.xmlToMapParser"}) },
		func(p *Prog, r *Report) { ruleTextNonEmpty(p, r, []string{"mxj.xmlToMapParser"}) },
		func(p *Prog, r *Report) { ruleTextTrimSet(p, r, []string{"mxj.xmlToMapParser"}) },
		ruleTableTrimSet,
		func(p *Prog, r *Report) { ruleFoldWhole(p, r, []string{"mxj.xmlToMapParser"}) },
		ruleOptExcl, ruleDecoderConfig,
		func(p *Prog, r *Report) { ruleCastOpaque(p, r, []string{"mxj.xmlToMapParser"}) },
		panicRules(grpMapDecode))

	register("C02",
		"Structural agreement of decoder and encoder conventions: TABLE.keys (both halves read the shared key variables), FOLD.total (the decoder's snake-case folding replaces every hyphen, so it is idempotent: the names the encoder writes decode to themselves), PAIR.derived (lenAttrPrefix tracks attrPrefix), TABLE.partition (attribute / text / element partition of a map's keys is the same predicate in both scans), ESC.flow (every Map value reaches the output escaped unless xmlEscapeChars is known false), TABLE.escape (entity table, order, no unescaped early return), ORDER (sorted emission), WALK.arms (every list member and collected child is encoded), TAGS.protocol (path-sensitive typestate of the Map element encoder: on every path feasible for a decoder-shaped value the buffer writes follow start tag, attributes, close, content, end tag / self-close; start and end tag name the same parameter; no successful return leaves an open element), ROOT.single (each encoder passes exactly one call of the element encoder on every path that returns a document; the call on the receiver's single entry is guarded by len == 1), TAGS.content (on no path is the element completed while its text entry or scalar value — string, number or boolean, as float/bool casting produces — has not been written). Not decided: equality of the second decode with the first; well-formedness of names and of the sequence encoder's output. ROOT.ownkey (in the single-member case the whole Map is wrapped in the default root only for a list member). TABLE.trimset. DECODE.sibling; TABLE.castparsers clause: ParseFloat is not behind a screen of the text."+levelNote,
		nil,
		ruleTagProtocol, func(p *Prog, r *Report) { ruleTagContent(p, r, "map") }, ruleTableKeys, ruleRootSingle, ruleRootOwnKey,
		ruleInflCover, ruleTableNanInf, ruleTableTrimSet,
		func(p *Prog, r *Report) { ruleDecodeSibling(p, r, []string{"mxj.xmlToMapParser"}) }, ruleCastUnscreened,
		func(p *Prog, r *Report) { ruleElemAlways(p, r, []string{"mxj.marshalMapToXmlIndent"}) },
		func(p *Prog, r *Report) { ruleTextNonEmpty(p, r, []string{"mxj.xmlToMapParser"}) },
		func(p *Prog, r *Report) { ruleCastOpaque(p, r, []string{"mxj.xmlToMapParser"}) },
		func(p *Prog, r *Report) { ruleFoldTotal(p, r, []string{"mxj.xmlToMapParser"}) },
		func(p *Prog, r *Report) { ruleRenderLossless(p, r, []string{"mxj.marshalMapToXmlIndent"}) }, rulePairDerived, ruleTablePartition, ruleEsc, ruleTableEscape, ruleOptExcl,
		func(p *Prog, r *Report) { ruleOrder(p, r, grpMapEncode) },
		func(p *Prog, r *Report) { ruleWalkArms(p, r, []string{"mxj.marshalMapToXmlIndent"}) })

	register("C03",
		"Structural clauses of 'encoding a JSON-shaped value as XML preserves all data': WALK.arms (every list member encoded in order under its key, every collected child encoded, AnyXml encodes every member of a list value), ROOT.explicit (AnyXml / AnyXmlIndent always name the root when they hand a map to Map.Xml / XmlIndent), TABLE.partition, ESC.flow, TABLE.escape (all five special characters are escaped, '&' first, no early return leaves one unescaped), ERR.path on the Map encoders and AnyXml/AnyXmlIndent (an element encoder error cannot be overwritten or dropped), TAGS.protocol (typestate of the element encoder: every path feasible for a JSON-shaped value writes a complete, properly nested element), TAGS.content (no scalar value or text entry is dropped: a write computed from it precedes the end of the element on every path), OWN.private (the document returned is not reachable from package state — a pooled or cached buffer — so no later call can rewrite it), RENDER.lossless (no value-changing numeric conversion between the encoded value and its text). Not decided: decode(encode(m)) ≅ m; well-formedness for arbitrary key strings. ROOT.ownkey (in the single-member case the whole Map is wrapped in the default root only for a list member). OPT.excl (the coupled escape setters). JSON.decoder for NewMapJson. ROOT.explicit (the first optional tag of AnyXml / AnyXmlIndent is read at a point not confined to the one-tag case: an explicit root is honoured with an element tag too). ROOT.explicit wrap clause (under the explicit root tag Map.Xml / XmlIndent encode the receiver itself)."+levelNote,
		nil,
		ruleTagProtocol, func(p *Prog, r *Report) { ruleTagContent(p, r, "map") }, ruleRootSingle, ruleRootOwnKey,
		func(p *Prog, r *Report) { ruleRenderLossless(p, r, []string{"mxj.marshalMapToXmlIndent"}) },
		func(p *Prog, r *Report) {
			ruleOwnPrivate(p, r, []string{"mxj.Map.Xml", "mxj.Map.XmlIndent", "mxj.AnyXml", "mxj.AnyXmlIndent"})
		},
		func(p *Prog, r *Report) { ruleWalkArms(p, r, []string{"mxj.marshalMapToXmlIndent"}) },
		ruleAnyXmlList, ruleAnyXmlNilOnly, ruleAnyXmlTags, ruleRootExplicitWrap, ruleTablePartition, ruleEsc, ruleTableEscape, ruleValidCoupling, ruleOptExcl,
		ruleJsonDecoderFor([]string{"mxj.NewMapJson"}),
		func(p *Prog, r *Report) { ruleErrContent(p, r, []string{"mxj.marshalMapToXmlIndent"}) },
		func(p *Prog, r *Report) { ruleElemAlways(p, r, []string{"mxj.marshalMapToXmlIndent"}) },
		func(p *Prog, r *Report) {
			ruleErr(p, r, []string{"mxj.Map.Xml", "mxj.Map.XmlIndent", "mxj.AnyXml", "mxj.AnyXmlIndent"}, "Map encoders and AnyXml")
		})

	register("C04",
		"Structural clauses of the MapSeq round trip: PAIR.seq (every token kind gets a fresh sequence number that is advanced in the same block; attributes take their index; the child collection skips exactly the attribute and sequence keys), ORDER on the sequence encoder (attributes and children are sorted by sequence number before any write), DECODE.sibling and WALK.arms for the sequence codec, SHAPE.seq (decoder output has the shape the encoder asserts), PANIC.* on both halves, WRAP.compose for BeautifyXml, TAGS.seqprotocol (token-level typestate of the sequence encoder: < name, blank name = quoted value, then either > content </ name > or />, comment / directive / processing-instruction forms; no successful return leaves an open element), TAGS.content (the text entry and the scalar value are written on every path that completes the element, for strings and for the numbers / booleans casting produces), OWN.private (the encoded document is not reachable from package state), SEQ.unwind (every member of a list of same-named children is a sort entry of its own), SEQ.result (the map the decoder returns for an element is written only when the element ends, so nothing collected for it is dropped), SEQ.types (every typed read of a '#seq' entry accepts int and float64), SEQ.leafkeys (every scan of an element's keys sets the same reserved keys aside as the child collection does), TEXT.nonempty (character data is recorded only under a non-emptiness test of the trimmed text that is stored, so indentation never replaces an element's text), RENDER.lossless. Not decided: token-stream equality. TEXT.trimset (character data is trimmed with the option's cut set only), ESC.verbatim (nothing in the arms for comments, directives and processing instructions reaches escapeChars), ROOT.ownkey (default-root wrap only for a list member). ALIAS.unsafe (no unsafe.Pointer conversions); INFL.cover clause: cast inputs of the sequence decoder depend on xmlEscapeCharsDecoder. OPT.excl (encoder- and decoder-side escaping never both on)."+levelNote,
		nil,
		ruleTagProtocolSeq, func(p *Prog, r *Report) { ruleTagContent(p, r, "seq") },
		func(p *Prog, r *Report) {
			ruleOwnPrivate(p, r, []string{"mxj.MapSeq.Xml", "mxj.MapSeq.XmlIndent", "mxj.BeautifyXml"})
		},
		rulePairSeq, ruleSeqUnwind, ruleSeqResult, ruleSeqTypes, ruleSeqLeafKeys, ruleRootSingle, ruleRootOwnKey, ruleEscVerbatim, ruleNoUnsafe, ruleInflCover, ruleTableEscape, ruleOptExcl,
		func(p *Prog, r *Report) { ruleErrContent(p, r, []string{"mxj.mapToXmlSeqIndent"}) },
		func(p *Prog, r *Report) { ruleTextNonEmpty(p, r, []string{"mxj.xmlSeqToMapParser"}) },
		func(p *Prog, r *Report) { ruleTextTrimSet(p, r, []string{"mxj.xmlSeqToMapParser"}) },
		func(p *Prog, r *Report) { ruleRenderLossless(p, r, []string{"mxj.mapToXmlSeqIndent"}) },
		func(p *Prog, r *Report) { ruleOrder(p, r, concat(grpSeqEncode, grpBeautify)) },
		func(p *Prog, r *Report) { ruleDecodeSibling(p, r, []string{"mxj.xmlSeqToMapParser"}) },
		func(p *Prog, r *Report) { ruleWalkArms(p, r, []string{"mxj.mapToXmlSeqIndent"}) },
		func(p *Prog, r *Report) {
			ruleWrapCompose(p, r, []wrapSpec{{"mxj.BeautifyXml", []string{"mxj.NewMapXmlSeq", "mxj.MapSeq.XmlIndent"}, false}})
		},
		panicRules(concat(grpSeqDecode, grpSeqEncode, grpBeautify)))

	register("C05",
		"Structural clauses of 'special characters survive; invalid output is an error': ESC.flow (value sinks of both encoders), TABLE.escape, OPT.excl (encoder- and decoder-side escaping never both on), VALID.coupling (each of the four encoders validates the very bytes it returns, under xmlCheckIsValid, to their end, with a decoder that keeps the default strict settings and reads a copy, not the output buffer), ERR.path on the four encoders (an encoder or validator error always reaches the caller), TAGS.protocol / TAGS.seqprotocol (the markup the two element encoders write around the escaped values is a properly nested start tag / attributes / content / end tag sequence on every path). Not decided: exact value recovery, absence of double escaping for already-escaped input, well-formedness of names. ROOT.ownkey. OPT.setter for the validity and escape switches."+levelNote,
		nil,
		ruleTagProtocol, ruleTagProtocolSeq, ruleEsc, ruleTableEscape, ruleOptExcl, ruleValidCoupling, ruleRootSingle, ruleRootOwnKey, ruleInflCover,
		ruleOptSetterFor([]string{"mxj.xmlCheckIsValid", "mxj.xmlEscapeChars", "mxj.xmlEscapeCharsDecoder"}),
		func(p *Prog, r *Report) {
			ruleErr(p, r, []string{"mxj.Map.Xml", "mxj.Map.XmlIndent", "mxj.MapSeq.Xml", "mxj.MapSeq.XmlIndent"}, "the four XML encoders")
		})

	register("C06",
		"Structural clauses of 'JSON encode/decode is lossless': TABLE.norewrite (the bytes returned by Json/JsonIndent come from encoding/json without textual substitution; safeEncoding selects the escaping mode), INFL.cover (JsonUseNumber controls Decoder.UseNumber), WRAP.compose (Copy = Json then NewMapJson), WRAP.writer (the Writer forms hand the writer exactly the encoder's bytes), ERR.path on the JSON functions, OWN.private (the bytes / the copy returned are not reachable from package state, so a later encode cannot rewrite them). Not decided: agreement with encoding/json on acceptance; array wrapping. JSON.firstvalue (NewMapJson answers without the decoder only for the empty input; one Decode, none in a loop or after another). JSON.firstvalue decoder-error clause (after Decode a nil error only where the decoder's error was tested nil). OPT.scope (no XML option is loaded below the JSON functions)."+levelNote,
		nil,
		func(p *Prog, r *Report) {
			ruleOwnPrivate(p, r, []string{"mxj.Map.Json", "mxj.Map.JsonIndent", "mxj.Map.JsonWriterRaw", "mxj.Map.JsonIndentWriterRaw", "mxj.Map.Copy"})
		},
		ruleTableNoRewrite,
		func(p *Prog, r *Report) { ruleOptScope(p, r, "Json") },
		func(p *Prog, r *Report) { ruleInflCoverJson(p, r) },
		ruleJsonDecoderFor([]string{"mxj.NewMapJson", "mxj.NewMapJsonReader", "mxj.NewMapJsonReaderRaw", "mxj.HandleJsonReader", "mxj.HandleJsonReaderRaw", "mxj.NewMapsFromJsonFile", "mxj.NewMapsFromJsonFileRaw"}),
		func(p *Prog, r *Report) {
			ruleWrapCompose(p, r, []wrapSpec{{"mxj.Map.Copy", []string{"mxj.Map.Json", "mxj.NewMapJson"}, false}})
		},
		ruleWrapWriter, ruleJsonListWrap, ruleJsonListWrapAlways, ruleJsonIdentity, ruleOptWriters, ruleJsonNoMarshal, ruleJsonFirstValue,
		func(p *Prog, r *Report) {
			ruleFwdNames(p, r, func(n string) bool { return hasPrefixAny(n, "mxj.Map.Json", "mxj.Maps.Json") })
		},
		func(p *Prog, r *Report) {
			ruleErr(p, r, concat(grpJsonEncode, []string{"mxj.NewMapJson", "mxj.NewMapJsonReader", "mxj.NewMapJsonReaderRaw"}), "JSON functions")
		})

	register("C07",
		"Structural clauses of ValuesForPath exactness: PAIR.count (result is ret[:cnt] with cnt == len(ret)), WALK.progress (each recursion consumes exactly one segment; values are appended only when the path is exhausted), WALK.collect (collecting helpers are not recursive), ALIAS.reuse (no result buffer shares the array of a slice still being ranged over faster than it is consumed), WRAP.compose for ValueForPath / ValueForPathString / Exists (first value / non-empty of the plural form), PANIC.idx/assert on the indexed-path wrapper and the path parser, PRESENCE.commaok (whether a node has a key is decided by the comma-ok lookup, never by comparing the value with nil: null is a value), ITER.fresh (each parsed path segment is built from that segment only: no index or array flag left over from the previous one), WALK.lastindex (the indexed walker tests the type of a selected value only where segments remain: a final indexed step returns its member whatever its type). Not decided: that the returned multiset is the denoted one. WALK.literalkeys (no numeric conversion of a path segment in the legacy walker). WALK.progress clause: the exhausted-path test precedes every test of the node; OPT.scope (query group). FWD.identity path clause (every module call of ValuesForPath that takes the path takes the parameter itself); ERR.path on ValuesForPath (no error of the indexed walker is dropped or translated). WALK.arms descent clause (the walker never calls itself where its node is known to be a scalar)."+levelNote,
		nil,
		func(p *Prog, r *Report) { rulePairCount(p, r, []string{"mxj.Map.oldValuesForPath"}) },
		func(p *Prog, r *Report) { ruleIterFresh(p, r, []string{"mxj.parsePath"}) },
		func(p *Prog, r *Report) { ruleWalkLiteralKeys(p, r, []string{"mxj.valuesForKeyPath"}) },
		func(p *Prog, r *Report) { ruleWalkNullLeaf(p, r, []string{"mxj.valuesForKeyPath"}) },
		func(p *Prog, r *Report) { ruleOptScope(p, r, "Query") },
		func(p *Prog, r *Report) { rulePathVerbatim(p, r, "mxj.parsePath") },
		func(p *Prog, r *Report) {
			in := map[string]bool{}
			for _, f := range p.scopeFuncs(r, "PRESENCE.commaok", []string{"mxj.Map.ValuesForPath", "mxj.Map.ValueForPath", "mxj.Map.Exists"}) {
				in[p.Name(f)] = true
			}
			rulePresence(p, r, func(n string) bool { return in[n] }, "path queries")
		},
		func(p *Prog, r *Report) { ruleWalkProgress(p, r, []string{"mxj.valuesForKeyPath"}) },
		func(p *Prog, r *Report) { ruleWalkCollect(p, r, []string{"mxj.valuesForKeyPath"}) },
		func(p *Prog, r *Report) { ruleWalkNoEarlyExit(p, r, []string{"mxj.valuesForKeyPath"}) },
		func(p *Prog, r *Report) { ruleResultOwnArray(p, r, []string{"mxj.valuesForKeyPath"}) },
		rulePredLocal,
		func(p *Prog, r *Report) {
			ruleScanComplete(p, r, p.scopeFuncs(r, "SCAN.complete", []string{"mxj.Map.ValuesForPath"}))
		},
		func(p *Prog, r *Report) {
			ruleWalkLastIndex(p, r, p.scopeFuncs(r, "WALK.lastindex", []string{"mxj.Map.ValuesForPath"}))
		},
		func(p *Prog, r *Report) {
			ruleFilterAfterIndex(p, r, p.scopeFuncs(r, "FILTER.afterindex", []string{"mxj.Map.ValuesForPath"}))
		},
		func(p *Prog, r *Report) {
			ruleWalkCurrent(p, r, p.scopeFuncs(r, "WALK.current", []string{"mxj.Map.ValuesForPath"}))
		},
		func(p *Prog, r *Report) {
			ruleAliasReuse(p, r, p.scopeFuncs(r, "ALIAS.reuse", []string{"mxj.Map.ValuesForPath"}))
		},
		func(p *Prog, r *Report) {
			ruleAccumFresh(p, r, p.scopeFuncs(r, "ACCUM.fresh", []string{"mxj.Map.ValuesForPath", "mxj.Map.ValuesForKey"}))
		},
		func(p *Prog, r *Report) {
			ruleWrapCompose(p, r, []wrapSpec{{"mxj.Map.ValueForPath", []string{"mxj.Map.ValuesForPath"}, true},
				{"mxj.Map.ValueForPathString", []string{"mxj.Map.ValuesForPath"}, true}, {"mxj.Map.Exists", []string{"mxj.Map.ValuesForPath"}, true}})
		},
		ruleFwdPathSelf,
		func(p *Prog, r *Report) { ruleErr(p, r, []string{"mxj.Map.ValuesForPath"}, "ValuesForPath") },
		func(p *Prog, r *Report) { ruleWalkDescend(p, r, []string{"mxj.valuesForKeyPath"}) },
		panicRules([]string{"mxj.Map.ValuesForPath", "mxj.Map.ValueForPath", "mxj.Map.ValueForPathString", "mxj.Map.Exists"}))

	register("C08",
		"Structural clauses of key search and sub-key filters: WALK.total (hasKey and hasKeyPath visit every map entry and list member), WALK.collect, PAIR.count (ValuesForKey), INFL.filter (sub-keys reach only the predicate; no sub-keys means no filtering; the predicate is read-only), INFL.crumb (child paths never contain the searched key), INFL.metric (shortest path by segment count), INFL.cover (sub-key specifications are split on fieldSep), EFFECT.recv for the query methods, PRESENCE.commaok, PRED.local (the sub-key predicate rejects a map only inside the loop over the conditions). Not decided: set equality between ValuesForKey, PathsForKey and ValuesForPath; the predicate's truth table. OPT.setter for SetFieldSeparator; PAIR.count for the path walker's counter (appends and advances paired by amount). OPT.scope (query group); ITER.fresh for the entries of getSubKeyMap."+levelNote,
		nil,
		func(p *Prog, r *Report) {
			ruleWalkTotal(p, r, []walkerSpec{{"mxj.hasKey", nil}, {"mxj.hasKeyPath", nil}})
		},
		func(p *Prog, r *Report) { ruleWalkCollect(p, r, []string{"mxj.hasKey"}) },
		func(p *Prog, r *Report) {
			ruleWalkNoEarlyExit(p, r, []string{"mxj.hasKey", "mxj.hasKeyPath", "mxj.valuesForKeyPath"})
		},
		func(p *Prog, r *Report) {
			ruleScanComplete(p, r, p.scopeFuncs(r, "SCAN.complete", []string{"mxj.Map.ValuesForKey", "mxj.Map.PathsForKey", "mxj.Map.ValuesForPath"}))
		},
		func(p *Prog, r *Report) {
			ruleFilterAfterIndex(p, r, p.scopeFuncs(r, "FILTER.afterindex", []string{"mxj.Map.ValuesForPath"}))
		},
		rulePredLocal,
		func(p *Prog, r *Report) {
			in := map[string]bool{}
			for _, f := range p.scopeFuncs(r, "PRESENCE.commaok", []string{"mxj.Map.ValuesForKey", "mxj.Map.PathsForKey", "mxj.Map.PathForKeyShortest"}) {
				in[p.Name(f)] = true
			}
			rulePresence(p, r, func(n string) bool { return in[n] }, "key search")
		},
		func(p *Prog, r *Report) {
			rulePairCount(p, r, []string{"mxj.Map.ValuesForKey", "mxj.Map.oldValuesForPath"})
		},
		ruleOptSetterFor([]string{"mxj.fieldSep"}),
		func(p *Prog, r *Report) { ruleOptScope(p, r, "Query") },
		func(p *Prog, r *Report) { ruleIterFreshMap(p, r, []string{"mxj.getSubKeyMap"}) },
		func(p *Prog, r *Report) {
			ruleWrapCompose(p, r, []wrapSpec{{"mxj.Map.ValueForKey", []string{"mxj.Map.ValuesForKey"}, true}})
		},
		func(p *Prog, r *Report) { ruleInflFilter(p, r, []string{"mxj.hasKey", "mxj.valuesForKeyPath"}) },
		func(p *Prog, r *Report) { ruleInflCrumb(p, r, []string{"mxj.hasKeyPath"}) },
		func(p *Prog, r *Report) { ruleShortestMetric(p, r, []string{"mxj.Map.PathForKeyShortest"}) },
		ruleInflFieldSep,
		func(p *Prog, r *Report) {
			ruleEffectRecv(p, r, p.named("mxj.Map.ValuesForKey", "mxj.Map.ValueForKey", "mxj.Map.PathsForKey", "mxj.Map.PathForKeyShortest", "mxj.Map.ValuesForPath"), "EFFECT.recv")
		},
		panicRules([]string{"mxj.Map.ValuesForKey", "mxj.Map.ValueForKey", "mxj.Map.PathsForKey", "mxj.Map.PathForKeyShortest"}))

	register("C09",
		"Structural clauses of LeafNodes: WALK.total (getLeafNodes visits every entry and member; skips depend only on the no-attribute option and the attribute prefix; the scalar arm appends exactly one LeafNode carrying the node), WRAP.compose + FWD (LeafPaths/LeafValues are projections of LeafNodes and forward their option), PANIC.idx/assert on the walker, ATTR.guard (a key is tested against the attribute prefix only where the prefix is known non-empty), PRESENCE.commaok on the walker and on the path resolution it must agree with (a null leaf is a value), WALK.lastindex (a path ending in an indexed step resolves to the member whatever its type). Not decided: that each path resolves to exactly its value. LEAF.attrfilter (every member loop below LeafNodes that hands the key on contains the attribute-prefix test); ITER.fresh for parsePath. PRED.local; WALK.total map arm always reaches a member loop. FWD.identity path clause of ValuesForPath. LEAF.attrfilter recursion clause (the leaf walker hands its option parameter on unchanged)."+levelNote,
		nil,
		func(p *Prog, r *Report) {
			ruleWalkTotal(p, r, []walkerSpec{{"mxj.getLeafNodes", []string{"param:noattr", "load(mxj.attrPrefix)"}}})
		},
		ruleWalkLeaf,
		func(p *Prog, r *Report) { ruleLeafPath(p, r, "mxj.getLeafNodes") },
		ruleLeafAttrFilter, rulePredLocal,
		func(p *Prog, r *Report) { ruleIterFresh(p, r, []string{"mxj.parsePath"}) },
		func(p *Prog, r *Report) { rulePairCount(p, r, []string{"mxj.Map.oldValuesForPath"}) },
		func(p *Prog, r *Report) { rulePathVerbatim(p, r, "mxj.parsePath") },
		func(p *Prog, r *Report) {
			ruleWalkNoEarlyExit(p, r, []string{"mxj.getLeafNodes", "mxj.valuesForKeyPath"})
		},
		func(p *Prog, r *Report) {
			ruleWalkCurrent(p, r, p.scopeFuncs(r, "WALK.current", []string{"mxj.Map.ValuesForPath"}))
		},
		func(p *Prog, r *Report) {
			ruleWalkLastIndex(p, r, p.scopeFuncs(r, "WALK.lastindex", []string{"mxj.Map.ValuesForPath"}))
		},
		func(p *Prog, r *Report) {
			ruleAttrGuard(p, r, p.scopeFuncs(r, "ATTR.guard", []string{"mxj.Map.LeafNodes"}), "leaf walker")
		},
		func(p *Prog, r *Report) {
			in := map[string]bool{}
			for _, f := range p.scopeFuncs(r, "PRESENCE.commaok", []string{"mxj.Map.LeafNodes", "mxj.Map.ValuesForPath"}) {
				in[p.Name(f)] = true
			}
			rulePresence(p, r, func(n string) bool { return in[n] }, "leaf walker and path resolution")
		},
		func(p *Prog, r *Report) {
			ruleWrapCompose(p, r, []wrapSpec{{"mxj.Map.LeafPaths", []string{"mxj.Map.LeafNodes"}, true}, {"mxj.Map.LeafValues", []string{"mxj.Map.LeafNodes"}, true}})
		},
		func(p *Prog, r *Report) {
			ruleFwdVariadic(p, r, func(n string) bool { return hasPrefixAny(n, "mxj.Map.Leaf") })
		},
		func(p *Prog, r *Report) { ruleFwdPure(p, r, "mxj.Map.LeafNodes", "mxj.getLeafNodes") },
		ruleFwdPathSelf,
		ruleLeafOptPass,
		panicRules(grpLeaf))

	register("C10",
		"Structural clauses of UpdateValuesForPath: PAIR.update (writes only under the update key or the last segment tested equal to it; the stored value is the new value or a list rebuilt from old members and the new value; per block the counter increments equal the replacements; the rebuilt list is stored only when something was replaced; the sub-key conditions guarding a write are evaluated on the node that is written), PRESENCE.commaok (a member holding null under the key is present), WALK.progress (one segment per recursion, hand-over to the leaf function exactly at the last segment), INFL.filter, INFL.cover (new-value strings are split on fieldSep). Not decided: that navigation addresses the same nodes as ValuesForPath; the post-state query clause. OPT.scope (query group); ITER.fresh for the entries of getSubKeyMap."+levelNote,
		nil,
		rulePairUpdate,
		func(p *Prog, r *Report) {
			ruleWalkNoEarlyExit(p, r, []string{"mxj.updateValuesForKeyPath", "mxj.updateValue"})
		},
		rulePredLocal, ruleOptWriters,
		func(p *Prog, r *Report) { ruleOptScope(p, r, "Query") },
		func(p *Prog, r *Report) { ruleIterFreshMap(p, r, []string{"mxj.getSubKeyMap"}) },
		func(p *Prog, r *Report) { rulePathWhole(p, r, "mxj.Map.UpdateValuesForPath") },
		func(p *Prog, r *Report) { ruleTypedValueUsed(p, r, "mxj.Map.UpdateValuesForPath") },
		func(p *Prog, r *Report) {
			ruleWalkReentry(p, r, p.scopeFuncs(r, "WALK.reentry", []string{"mxj.Map.UpdateValuesForPath"}))
		},
		func(p *Prog, r *Report) {
			in := map[string]bool{}
			for _, f := range p.scopeFuncs(r, "PRESENCE.commaok", []string{"mxj.Map.UpdateValuesForPath"}) {
				in[p.Name(f)] = true
			}
			rulePresence(p, r, func(n string) bool { return in[n] }, "UpdateValuesForPath")
		},
		func(p *Prog, r *Report) { ruleWalkProgress(p, r, []string{"mxj.updateValuesForKeyPath"}) },
		ruleWalkHandover,
		func(p *Prog, r *Report) {
			ruleInflFilter(p, r, []string{"mxj.updateValuesForKeyPath", "mxj.updateValue"})
		},
		ruleInflFieldSep,
		panicRules([]string{"mxj.Map.UpdateValuesForPath"}))

	register("C11",
		"Structural clauses of SetValueForPath / Remove / RenameKey: PAIR.atomic (exactly the documented writes, none in a loop, no error return reachable after a write, the renamed value moved unchanged then the old key deleted on the same parent, collision test is a presence test), WALK.progress for the parent walker (parent returned by position, recursion on the rest of the path; a value that is not a map ends the walk with an error), PATH.segments (the path is taken apart at its last separator: the deleted / moved key is the last segment, the sibling that forbids a rename is looked up under the path without its last segment), PANIC.assert/idx/nil, PRESENCE.commaok. Not decided: the frame condition as a whole; refusal to overwrite at top level (a string-value fact). PATH.segments value-independence clause for SetValueForPath. PATH.segments clause: SetValueForPath looks the parent up under the path without its last segment. PATH.segments empty-path clause (the segment list the lookup hands to its walker is not provably non-empty: the empty path selects the receiver itself). OPT.scope (no codec option is loaded below SetValueForPath / Remove / RenameKey)."+levelNote,
		nil,
		rulePairAtomic, ruleWalkParent, ruleSetValueIndependent, ruleSetParentPath, ruleEmptyPathSelf, rulePathSegments, ruleParentNotQueried,
		func(p *Prog, r *Report) {
			in := map[string]bool{}
			for _, f := range p.scopeFuncs(r, "PRESENCE.commaok", grpMutators[:3]) {
				in[p.Name(f)] = true
			}
			rulePresence(p, r, func(n string) bool { return in[n] }, "SetValueForPath / Remove / RenameKey")
		},
		func(p *Prog, r *Report) { ruleOptScope(p, r, "Query") },
		panicRules(grpMutators[:3]))

	register("C12",
		"Structural clauses of NewMap: EFFECT.recv (no write instruction reachable from NewMap can target memory reachable from the receiver, for every list of pairs), ERR.path, PANIC.* on the projection code. Not decided: exact content of the projection. ERR.path of j2x.JsonNewJson. ARGS.validated (no success return of NewMap is decided by a test of the receiver ahead of the pair loop: pairs are validated whatever the receiver holds). WALK.progress clause for addNewVal (no loop over the path nested in the descent restarts at the head of the path)."+levelNote,
		nil,
		func(p *Prog, r *Report) { ruleEffectRecv(p, r, p.named("mxj.Map.NewMap"), "EFFECT.recv") },
		func(p *Prog, r *Report) { ruleErr(p, r, []string{"mxj.Map.NewMap", "j2x.JsonNewJson"}, "NewMap") },
		ruleNewMapArgs, ruleCopyNonNil, ruleNewMapEarly, ruleAddNewValLinear,
		panicRules(grpProject))

	register("C13",
		"Structural clauses of reader-schedule independence: IO.read (every Read result is consumed as the io.Reader contract prescribes: count tested, data used only when n > 0, data before error, (0,nil) retried), IO.bytereader (xml.NewDecoder always gets an io.ByteReader; adaptors read one byte at a time), IO.tee (the raw capture receives exactly the bytes handed to the decoder; Raw functions return the sink's bytes), LOOP.handler (handlers get the decoded value, false stops reading), IO.nobuffer (the caller's reader is never wrapped in a reader that reads ahead), WRAP.fileloop, JSON.decoder (the stream and file readers decode through NewMapJson's configured decoder only, as direct decoding does), PANIC.nil on the raw JSON reader, ERR.path. Not decided: equality of decoded Maps with direct decoding; the hand-written JSON scanner's quote/escape logic. PANIC.nil over every function below the readers; WRAP.fileloop append-after-error-test clause."+levelNote,
		[]string{"io.Reader / io.ByteReader / io.Writer contracts as documented"},
		func(p *Prog, r *Report) { ruleIORead(p, r, p.PkgFuncs("mxj")) },
		func(p *Prog, r *Report) { ruleIOByteReader(p, r, p.PkgFuncs("mxj")) },
		func(p *Prog, r *Report) { ruleIORetry(p, r, p.PkgFuncs("mxj")) },
		func(p *Prog, r *Report) {
			ruleIoNoBuffer(p, r, p.scopeFuncs(r, "IO.nobuffer", []string{"mxj.NewMapXmlReader", "mxj.NewMapXmlReaderRaw", "mxj.NewMapXmlSeqReader", "mxj.NewMapXmlSeqReaderRaw",
				"mxj.NewMapJsonReader", "mxj.NewMapJsonReaderRaw", "mxj.HandleXmlReader", "mxj.HandleXmlReaderRaw", "mxj.HandleJsonReader", "mxj.HandleJsonReaderRaw"}), "stream decoders")
		},
		ruleIOTee, ruleJsonEscape, ruleDecoderConfig,
		func(p *Prog, r *Report) { ruleJsonScanClosing(p, r, "mxj.getJson") },
		func(p *Prog, r *Report) { ruleJsonScanEscape(p, r, "mxj.getJson") },
		ruleJsonDecoderFor([]string{"mxj.NewMapJson", "mxj.NewMapJsonReader", "mxj.NewMapJsonReaderRaw", "mxj.HandleJsonReader", "mxj.HandleJsonReaderRaw", "mxj.NewMapsFromJsonFile", "mxj.NewMapsFromJsonFileRaw"}),
		func(p *Prog, r *Report) {
			ruleLoopHandler(p, r, []string{"mxj.HandleXmlReader", "mxj.HandleXmlReaderRaw", "mxj.HandleJsonReader", "mxj.HandleJsonReaderRaw"})
		},
		ruleWrapFileLoop,
		func(p *Prog, r *Report) {
			rulePanicNil(p, r, p.scopeFuncs(r, "PANIC.nil", []string{"mxj.NewMapJsonReader", "mxj.NewMapJsonReaderRaw", "mxj.NewMapXmlReader", "mxj.NewMapXmlReaderRaw", "mxj.NewMapXmlSeqReader", "mxj.NewMapXmlSeqReaderRaw"}))
		},
		func(p *Prog, r *Report) {
			ruleErr(p, r, concat([]string{"mxj.NewMapXmlReader", "mxj.NewMapXmlReaderRaw", "mxj.NewMapXmlSeqReader", "mxj.NewMapXmlSeqReaderRaw", "mxj.NewMapJsonReader", "mxj.NewMapJsonReaderRaw",
				"mxj.HandleXmlReader", "mxj.HandleXmlReaderRaw", "mxj.HandleJsonReader", "mxj.HandleJsonReaderRaw", "mxj.NewMapsFromXmlFile", "mxj.NewMapsFromXmlFileRaw", "mxj.NewMapsFromJsonFile", "mxj.NewMapsFromJsonFileRaw"}), "reader functions")
		})

	register("C14",
		"Structural clauses of casting: INFL.castflag (the cast flag reaches only cast() and the recursion, so structure cannot depend on it; every cast option is read only on the flag-true path; every return of cast is the identical input string or a successful strconv.Parse* of it), TABLE.naninf (with CastNanInf off all seven spellings strconv.ParseFloat accepts for NaN/Inf are excluded before its result can be returned), cast call-site coverage (attribute, text and simple values of both decoders pass through cast with the decoder's flag), OPT.writers (cast and the decoders write no package variable: what a decode returns depends on the document and the options in force, not on earlier decodes), CAST.opaque (the decoders never test a value of the node under construction for a scalar type: what cast made of a text cannot change the keys), CAST.input (the string handed to cast is computed from the current token only, never from a value read back from the node being built, which has already been cast). Not decided: that each leaf gets exactly the value its text denotes. OPT.setter for the cast option setters. TABLE.castparsers clause: ParseFloat is not behind a screen of the text."+levelNote,
		[]string{"strconv.ParseFloat documentation (accepted NaN/Inf spellings)"},
		ruleInflCastFlag, ruleTableNanInf, ruleInflCover, ruleCastParsers, ruleCastUnscreened, ruleOptWriters, ruleSeqCover, ruleSeqCastTag,
		ruleOptSetterFor([]string{"mxj.castToInt", "mxj.castToFloat", "mxj.castToBool", "mxj.castNanInf", "mxj.checkTagToSkip"}),
		func(p *Prog, r *Report) { ruleCastInput(p, r, []string{"mxj.xmlToMapParser", "mxj.xmlSeqToMapParser"}) },
		func(p *Prog, r *Report) {
			ruleCastOpaque(p, r, []string{"mxj.xmlToMapParser", "mxj.xmlSeqToMapParser"})
		})

	register("C15",
		"Panic-obligation discharge over every core function reachable from the decoders, the string-argument APIs and the encoders: PANIC.idx (every index/slice operation is either proven in range by the Go compiler's prove pass or discharged by the zone analysis / a structural rule), PANIC.assert (every single-value type assertion has an operand whose dynamic type set is within the asserted type), PANIC.nil (nil map writes, nil dereferences of module results, method calls on nil errors, calls of nil function variables), PANIC.explicit, PANIC.overflow (an index or slice bound x + c is computed only where x is bounded above, so the zone analysis' mathematical integers are sound), PANIC.compare (== between two interface values only where one operand can hold comparable types only), WALK.reentry (a walker that calls itself with the same node does so only with a segment tested different from the one that triggered the call: no unbounded recursion on a key named like the wildcard), and ERR.path on the decoders. Not decided: stack exhaustion on deeply nested input, panics inside the standard library on well-typed arguments, termination of the bulk handlers, 'fails exactly when the tokenizer rejects'. OPT.setter for SetArraySize (the buffer capacity stays positive)."+levelNote,
		nil,
		panicRules(c15Roots()),
		ruleOptSetterFor([]string{"mxj.defaultArraySize"}),
		func(p *Prog, r *Report) { ruleWalkReentry(p, r, p.scopeFuncs(r, "WALK.reentry", c15Roots())) },
		ruleJsonDecoderFor([]string{"mxj.NewMapJson", "mxj.NewMapJsonReader", "mxj.NewMapJsonReaderRaw", "mxj.HandleJsonReader", "mxj.HandleJsonReaderRaw", "mxj.NewMapsFromJsonFile", "mxj.NewMapsFromJsonFileRaw"}),
		func(p *Prog, r *Report) {
			ruleErr(p, r, concat(grpMapDecode, grpSeqDecode, grpJsonDecode, grpGob, grpBeautify), "decoders")
		})

	register("C16",
		"Structural clauses of encoder determinism and variant agreement: ORDER (no order-sensitive effect inside a map range; collected slices sorted before use; the sort key is the map key / sequence number), WRAP.writer (8 writer forms write exactly the encoder's bytes once), WRAP.concat (Maps string forms concatenate per-Map encodings in list order; file forms write exactly the string form), INFL.indent (the indent flag only adds whitespace), SEQ.types (every typed read of a '#seq' entry in the sequence encoder accepts both int and float64, so equal MapSeqs are ordered alike however they were built), VALID.coupling (the optional validity check reads a copy and returns the accumulator's bytes untouched, so the document does not depend on the check being on), TAGS.protocol / TAGS.seqprotocol (in particular: no indentation is written between an element's own text and its end tag, where it would become character data), EFFECT.nondet (no goroutine/time/rand/pool on encoder paths), FWD.variadic/FWD.param (options forwarded), OPT.scope (encoders read only encoder options). Not decided: byte identity between variants beyond the structural identity of the bytes handed on. ROOT.single / ROOT.ownkey; EFFECT.nondet counts object identity as a source. EFFECT.recv of the six encoders (encoding twice gives the same bytes because the receiver is not written). SEQ.unwind (every member of a list of same-named children is an entry of its own in the sequence encoder)."+levelNote,
		nil,
		func(p *Prog, r *Report) { ruleOrder(p, r, encoderRoots()) },
		func(p *Prog, r *Report) { ruleNondet(p, r, encoderRoots()) },
		ruleWrapWriter, ruleWrapConcat, ruleInflIndent, ruleValidCoupling, ruleSeqTypes, ruleJsonNoMarshal, ruleRootSingle, ruleRootOwnKey, ruleSeqUnwind,
		func(p *Prog, r *Report) {
			ruleEffectRecv(p, r, p.named("mxj.Map.Xml", "mxj.Map.XmlIndent", "mxj.MapSeq.Xml", "mxj.MapSeq.XmlIndent", "mxj.Map.Json", "mxj.Map.JsonIndent"), "EFFECT.recv")
		},
		func(p *Prog, r *Report) {
			ruleFwdNames(p, r, func(n string) bool {
				return hasPrefixAny(n, "mxj.Maps.", "mxj.Map.", "mxj.MapSeq.", "mxj.AnyXml", "mxj.BeautifyXml")
			})
		},
		ruleTagProtocol, ruleTagProtocolSeq,
		func(p *Prog, r *Report) {
			ruleFwdVariadic(p, r, func(n string) bool {
				return hasPrefixAny(n, "mxj.Maps.", "mxj.Map.Json", "mxj.Map.Xml", "mxj.MapSeq.Xml", "mxj.AnyXml")
			})
		},
		func(p *Prog, r *Report) { ruleOptScope(p, r, "MapEncode", "SeqEncode", "SeqEncodeIndent", "Json") })

	register("C17",
		"The static argument for 'read-only operations never modify their receiver and may run concurrently': EFFECT.recv (for each of the read-only Map/MapSeq/Maps methods, no write instruction in any function reachable from it can target memory reachable from its receiver), EFFECT.global (no function reachable from a non-setter API writes a package variable or memory reachable from one), EFFECT.input (no write reachable from a package-level decoder can target the byte slice it is given, append into its spare capacity included: goroutines decoding adjacent documents of one buffer do not interfere), OWN.fresh (Copy's result reaches no memory of its argument), OPT.writers. Without a write instruction that can reach shared memory there is no schedule that races or modifies the receiver. Not decided: 'results identical to sequential execution' beyond the absence of shared writes; thread-safety of the standard library is trusted. OPT.callers (no library function calls an option setter). EFFECT.global pointer clause (no store through a pointer loaded from a package variable below a non-setter API)."+levelNote,
		[]string{"whole-program inclusion-based points-to analysis (pointsto.go) with the standard-library effect model", "standard library internals are data-race free for distinct values"},
		func(p *Prog, r *Report) { ruleEffectRecv(p, r, p.readOnlyMethods(), "EFFECT.recv") },
		ruleEffectGlobal, ruleEffectInput,
		func(p *Prog, r *Report) { ruleOwnFresh(p, r, "mxj.Map.Copy") },
		ruleOptWriters, ruleOptCallers)

	register("C18",
		"Structural necessary conditions of 'options have only their documented effect and can be restored', decided for every call history: OPT.writers (each package variable is stored only by init and its named setter: no hidden state survives a reset), OPT.setter (per setter and argument-count class {0,1,>=2}, every CFG path stores the documented value: toggle / explicit / unchanged; explicit stores do not depend on the old value), OPT.excl (encoder- and decoder-side escaping never both on at a setter exit), OPT.dead (every option is read by some non-setter), PAIR.derived (lenAttrPrefix and trimRunes are recomputed with their master variable), OPT.scope (API groups never load options documented not to affect them), INFL.castflag (cast options are read only under the cast flag). Not decided: behavioural equality with a fresh process; restorability of SetGlobalKeyMapPrefix for arbitrary prefix characters. OPT.callers; TABLE.trimset. WRAP.exactarg (the key-pair syntax of NewMap does not depend on options)."+levelNote,
		[]string{"option documentation transcribed in tables.go/rules_opt.go"},
		ruleOptWriters, ruleOptSetter, ruleSeqCastTag, ruleOptExcl, func(p *Prog, r *Report) { ruleOptDead(p, r, "mxj") }, rulePairDerived, ruleOptCallers, ruleTableTrimSet, ruleNewMapArgs,
		func(p *Prog, r *Report) { ruleOptScope(p, r) }, ruleInflCastFlag)

	register("C19",
		"Structural clauses of 'files, gob and Copy read back equal': WRAP.concat (file writers write exactly the string form, which is the concatenation of per-Map encodings), WRAP.fileloop (readers loop on the raw reader over the opened file; exits only by io.EOF or an error return carrying the Maps read so far; every decoded Map is appended), TABLE.gob (Encode/Decode type agreement; container types registered), WRAP.compose + OWN.fresh (Copy), JSON.decoder (every JSON decode the reader and file functions reach is the one Decoder of NewMapJson on which UseNumber is set under JsonUseNumber: numbers written from json.Number values are read back as such), ERR.path on the file and gob functions. Not decided: equality of what is read back; behaviour on truncated files. WRAP.fileloop append-after-error-test clause. WRAP.fileloop clause: no os.Lstat below the readers. TABLE.norewrite (the JSON written to a file comes from the one encoder without textual substitution or json.Marshal). ERR.eoftest (the end of the input is recognised by identity with io.EOF; an errors.Is test only where nothing reachable wraps errors). OWN.private for Gob (the bytes returned are not reachable from package state); OPT.scope (no option is loaded below Gob / NewMapGob)."+levelNote,
		nil,
		ruleWrapConcat, ruleWrapFileLoop, ruleTableGob, ruleJsonEscape, ruleFileNoLstat, ruleTableNoRewrite, ruleJsonNoMarshal, ruleEOFTest,
		func(p *Prog, r *Report) { ruleOwnPrivate(p, r, []string{"mxj.Map.Gob"}) },
		func(p *Prog, r *Report) { ruleOptScope(p, r, "Gob") },
		func(p *Prog, r *Report) { ruleJsonScanClosing(p, r, "mxj.getJson") },
		func(p *Prog, r *Report) { ruleJsonScanEscape(p, r, "mxj.getJson") },
		func(p *Prog, r *Report) {
			ruleFwdNames(p, r, func(n string) bool { return hasPrefixAny(n, "mxj.Maps.", "mxj.NewMapsFrom") })
		},
		ruleJsonDecoderFor([]string{"mxj.NewMapJson", "mxj.NewMapJsonReader", "mxj.NewMapJsonReaderRaw", "mxj.HandleJsonReader", "mxj.HandleJsonReaderRaw", "mxj.NewMapsFromJsonFile", "mxj.NewMapsFromJsonFileRaw"}),
		func(p *Prog, r *Report) {
			ruleWrapCompose(p, r, []wrapSpec{{"mxj.Map.Copy", []string{"mxj.Map.Json", "mxj.NewMapJson"}, false}})
		},
		func(p *Prog, r *Report) { ruleOwnFresh(p, r, "mxj.Map.Copy") },
		func(p *Prog, r *Report) {
			ruleErr(p, r, []string{"mxj.Maps.XmlFile", "mxj.Maps.XmlFileIndent", "mxj.Maps.JsonFile", "mxj.Maps.JsonFileIndent", "mxj.NewMapsFromXmlFile", "mxj.NewMapsFromXmlFileRaw",
				"mxj.NewMapsFromJsonFile", "mxj.NewMapsFromJsonFileRaw", "mxj.Map.Gob", "mxj.NewMapGob", "mxj.Map.Copy"}, "file, gob and Copy functions")
		})

	register("C20",
		"Wrapper conformance in the resolved program: WRAP.compose over every exported function of j2x (16), x2j (16) and the thin x2j-wrapper forms (19): the module calls are exactly the documented composition, each step is applied to the result of the previous one under its err==nil edge, returned values are results of the composition; FWD.param/FWD.variadic (every parameter reaches the wrapped call); FWD.identity (string / list / byte arguments reach the core call as the parameter itself); SCAN.complete (a member of another type never ends a scan over list members); for x2j-wrapper's re-implemented walkers INFL.crumb, WALK.total, WALK.progress, WALK.collect, INFL.metric; LOOP.handler and IO.read on its bulk forms; ERR.path; OPT.dead for the wrapper's own option. Not decided: value equality of results. FWD.pure (the getAttrs flag handed to the walker by ValuesFromKeyPath / ValuesAtKeyPath depends on the optional argument only). FWD.names cast-flag clause (an option of another meaning never reaches the decoder's cast argument). WALK.arms descent clause (the re-implemented path walker never calls itself where its node is known to be a scalar)."+levelNote,
		[]string{"wrapper documentation transcribed in rules_wrap.go"},
		func(p *Prog, r *Report) { ruleWrapCompose(p, r, j2xSpecs()) },
		func(p *Prog, r *Report) { ruleWrapCompose(p, r, x2jSpecs()) },
		func(p *Prog, r *Report) { ruleWrapCompose(p, r, x2jwSpecs()) },
		func(p *Prog, r *Report) {
			ruleFwdVariadic(p, r, func(n string) bool { return hasPrefixAny(n, "j2x.", "x2j.", "x2jw.") })
		},
		func(p *Prog, r *Report) { ruleFwdIdentity(p, r, "j2x", "x2j") },
		func(p *Prog, r *Report) {
			ruleFwdPure(p, r, "x2jw.ValuesFromKeyPath", "x2jw.valuesFromKeyPath")
			ruleFwdPure(p, r, "x2jw.ValuesAtKeyPath", "x2jw.valuesFromKeyPath")
		},
		func(p *Prog, r *Report) { ruleFwdCastFlag(p, r, "x2jw", "x2j") },
		ruleOptWriters,
		func(p *Prog, r *Report) { ruleScanComplete(p, r, p.PkgFuncs("x2jw")) },
		func(p *Prog, r *Report) { ruleResultOwnArray(p, r, []string{"x2jw.valuesFromKeyPath"}) },
		func(p *Prog, r *Report) { ruleWalkDescend(p, r, []string{"x2jw.valuesFromKeyPath"}) },
		func(p *Prog, r *Report) { ruleInflCrumb(p, r, []string{"x2jw.hasKeyPath"}) },
		func(p *Prog, r *Report) {
			ruleWalkTotal(p, r, []walkerSpec{{"x2jw.hasKey", nil}, {"x2jw.hasKeyPath", nil}})
		},
		func(p *Prog, r *Report) { ruleWalkProgress(p, r, []string{"x2jw.valuesFromKeyPath"}) },
		func(p *Prog, r *Report) { ruleWalkCollect(p, r, []string{"x2jw.hasKey", "x2jw.valuesFromKeyPath"}) },
		func(p *Prog, r *Report) { ruleShortestMetric(p, r, []string{"x2jw.PathForKeyShortest"}) },
		func(p *Prog, r *Report) {
			ruleLoopHandler(p, r, []string{"x2jw.XmlMsgsFromReader", "x2jw.XmlMsgsFromReaderAsJson", "x2jw.XmlMsgsFromFile", "x2jw.XmlMsgsFromFileAsJson"})
		},
		func(p *Prog, r *Report) { ruleIORead(p, r, p.PkgFuncs("x2jw")) },
		func(p *Prog, r *Report) {
			var all []string
			for _, a := range []string{"j2x", "x2j", "x2jw"} {
				for _, f := range p.exportedAPI(a) {
					all = append(all, p.Name(f))
				}
			}
			ruleErrPkg(p, r, all, []string{"j2x.", "x2j.", "x2jw."})
		},
		func(p *Prog, r *Report) { ruleOptDead(p, r, "x2jw") })

}
