package chk

import (
	"fmt"
	"go/token"
	"regexp"
	"sort"
	"strings"

	"golang.org/x/tools/go/ssa"
)

// ===== family E: ERR — error discipline ===========================================================
//
// For every call whose callee returns an error (module functions and the listed standard-library
// callees), along EVERY CFG path from the call to a function exit the error value — tracked through
// phis along the traversed edges and through local variables it is stored to — is consumed:
//   returned; passed to a call (handler, fmt.Errorf, .Error()); or compared with io.EOF on the equal
//   branch. A `!= nil` test discharges only the branch on which the error is nil.
// An error that reaches an exit unconsumed on some path can be overwritten or dropped: the caller sees
// success although a step failed.

// errProducer: does this call create an obligation?
func (p *Prog) errProducer(c *ssa.CallCommon) bool {
	sig := c.Signature()
	n := sig.Results().Len()
	if n == 0 || !isErrorType(sig.Results().At(n-1).Type()) {
		return false
	}
	if g := staticCallee(c); g != nil {
		if p.InModule(g) {
			return true
		}
		name := extName(g)
		if hasPrefixAny(name, "encoding/xml.", "(*encoding/xml.", "encoding/json.", "(*encoding/json.", "encoding/gob.", "(*encoding/gob.",
			"os.", "(*os.File).", "io.", "(*bufio.", "regexp.Compile") {
			// (*bytes.Buffer).Write* and (*strings.Builder).Write* are documented to always return a nil error: no obligation
			return true
		}
		return false
	}
	if c.IsInvoke() {
		switch c.Method.Name() {
		case "Write", "WriteString", "ReadByte", "Token", "Decode", "Encode":
			return true
		}
		// io.Reader.Read is owned by rule IO.read: an error delivered together with data must NOT be acted on before the
		// data, and by the io.Reader contract it is delivered again by the next call.
		return false
	}
	// dynamic call of a function value returning error (handlers return bool in mxj)
	return false
}

type errException struct{ Func, Callee, Reason string }

var errExceptions = []errException{
	{"mxj.Map.ValueOrEmptyForPathString", "mxj.Map.ValueForPathString", "documented: 'If the path is not found then it returns an empty string'"},
	{"mxj.marshalMapToXmlIndent", "encoding/xml.Marshal", "documented: 'structures, etc.: handed to xml.Marshal() - if there is an error, the element value is \"UNKNOWN\"'"},
	{"mxj.marshalMapToXmlIndent", "encoding/xml.MarshalIndent", "documented: element value is \"UNKNOWN\" on marshal error"},
	{"mxj.mapToXmlSeqIndent", "encoding/xml.Marshal", "documented: element value is \"UNKNOWN\" on marshal error"},
	{"mxj.mapToXmlSeqIndent", "encoding/xml.MarshalIndent", "documented: element value is \"UNKNOWN\" on marshal error"},
	{"mxj.mapToXmlSeqIndent", "(*strings.Builder).WriteString", "strings.Builder.WriteString is documented to always return a nil error"},
	{"mxj.mapToXmlSeqIndent", "(*strings.Builder).Write", "strings.Builder.Write is documented to always return a nil error"},
}

type errState struct {
	blk  *ssa.BasicBlock
	idx  int
	vals map[ssa.Value]bool
	mem  map[*ssa.Alloc]bool
	done map[*ssa.BasicBlock]bool // single-iteration loops (range over a map under len(m)==1) whose one iteration was taken
	bphi map[*ssa.Phi]ssa.Value   // boolean phis (a && b used as a value): the operand that flowed in on this path
}

func setKey(vals map[ssa.Value]bool, mem map[*ssa.Alloc]bool) string {
	var ks []string
	for v := range vals {
		ks = append(ks, v.Name())
	}
	for a := range mem {
		ks = append(ks, "@"+a.Name())
	}
	sort.Strings(ks)
	return strings.Join(ks, ",")
}

// errPathSearch returns a description of a path on which errv is dropped, or "" if every path consumes it.
func (p *Prog) errPathSearch(fn *ssa.Function, call ssa.Instruction, errv ssa.Value) (string, []string) {
	start := errState{blk: call.Block(), idx: indexIn(call) + 1, vals: map[ssa.Value]bool{errv: true}, mem: map[*ssa.Alloc]bool{}, done: map[*ssa.BasicBlock]bool{}}
	// single-iteration loops of fn
	single := map[*ssa.BasicBlock]map[*ssa.BasicBlock]bool{}
	for _, l := range findMapLoops(fn) {
		if l.next != nil && p.lenIsOneGuard(l) {
			single[l.header] = l.body
		}
	}
	// if errv is an Extract, begin after the Extract
	if ex, ok := errv.(*ssa.Extract); ok && ex.Block() == call.Block() {
		if i := indexIn(ex); i+1 > start.idx {
			start.idx = i + 1
		}
	}
	type frame struct {
		st   errState
		path []string
	}
	visited := map[string]bool{}
	stack := []frame{{start, []string{fmt.Sprintf("call at %s", p.Pos(call.Pos()))}}}
	steps := 0
	for len(stack) > 0 {
		fr := stack[len(stack)-1]
		stack = stack[:len(stack)-1]
		st := fr.st
		bk := ""
		if len(st.bphi) > 0 {
			var bs []string
			for ph, v := range st.bphi {
				bs = append(bs, ph.Name()+"="+v.Name())
			}
			sort.Strings(bs)
			bk = strings.Join(bs, ",")
		}
		key := fmt.Sprintf("%d:%d:%s:%d:%s", st.blk.Index, st.idx, setKey(st.vals, st.mem), len(st.done), bk)
		if visited[key] {
			continue
		}
		visited[key] = true
		steps++
		if steps > 200000 {
			return "path search exceeded its budget", fr.path
		}
		vals := map[ssa.Value]bool{}
		for v := range st.vals {
			vals[v] = true
		}
		mem := map[*ssa.Alloc]bool{}
		for a := range st.mem {
			mem[a] = true
		}
		consumed := false
		var term ssa.Instruction
		for i := st.idx; i < len(st.blk.Instrs) && !consumed; i++ {
			in := st.blk.Instrs[i]
			uses := false
			for _, op := range in.Operands(nil) {
				if op != nil && *op != nil && vals[*op] {
					uses = true
				}
			}
			switch x := in.(type) {
			case *ssa.UnOp:
				if x.Op == token.MUL {
					if a := rootAlloc(x.X); a != nil && mem[a] && isErrorType(x.Type()) {
						vals[x] = true
					}
				}
			case *ssa.Store:
				if vals[x.Val] {
					if a := rootAlloc(x.Addr); a != nil {
						mem[a] = true
					} else {
						consumed = true // stored into caller-visible memory (result struct, global): handed on
					}
				} else if a := rootAlloc(x.Addr); a != nil && mem[a] && isErrorType(x.Val.Type()) && x.Addr == ssa.Value(a) {
					delete(mem, a) // the variable is overwritten: the tracked error is no longer there
				}
			case *ssa.Return:
				if uses {
					consumed = true
				} else {
					// a return that reports some other, certainly non-nil error still reports failure
					if len(x.Results) > 0 {
						last := x.Results[len(x.Results)-1]
						if isErrorType(last.Type()) && certainlyNonNilError(last) {
							consumed = true
						}
					}
				}
			case *ssa.Panic:
				consumed = true
			case ssa.CallInstruction:
				if uses {
					consumed = true
				}
			case *ssa.MakeInterface:
				if uses {
					vals[x] = true
				}
			case *ssa.ChangeInterface:
				if uses {
					vals[x] = true
				}
			case *ssa.MakeClosure:
				if uses {
					consumed = true // captured by a closure (deferred handler)
				}
			case *ssa.MapUpdate, *ssa.Send:
				if uses {
					consumed = true
				}
			}
			term = in
		}
		if consumed {
			continue
		}
		if len(st.blk.Succs) == 0 {
			return fmt.Sprintf("error reaches the exit at %s without being returned, passed on or tested against io.EOF", p.Pos(term.Pos())), fr.path
		}
		// successor edges
		for si, s := range st.blk.Succs {
			if ifi, ok := term.(*ssa.If); ok {
				cond, taken := ifi.Cond, si == 0
				// a boolean phi (the value of `a && b`): on this path it is the operand that flowed in
				for d := 0; d < 4; d++ {
					ng := normGuard(guard{cond, taken})
					ph, isPhi := ng.Cond.(*ssa.Phi)
					if !isPhi || st.bphi[ph] == nil {
						break
					}
					cond, taken = st.bphi[ph], ng.Pol
				}
				if bv, isC := constBool(cond); isC {
					if bv != taken {
						continue // infeasible: the phi held the other constant on this path
					}
				} else if verdict := errBranch(cond, vals, taken); verdict == "nil" || verdict == "eof" {
					continue // on this edge the error is nil, or it is io.EOF and was recognised as such
				}
			}
			nv := map[ssa.Value]bool{}
			for v := range vals {
				nv[v] = true
			}
			// phis of s for this predecessor
			pi := -1
			cnt := 0
			for k, pr := range s.Preds {
				if pr == st.blk {
					if cnt == predOrdinal(st.blk, si) {
						pi = k
					}
					cnt++
				}
			}
			if pi < 0 {
				for k, pr := range s.Preds {
					if pr == st.blk {
						pi = k
					}
				}
			}
			nb := map[*ssa.Phi]ssa.Value{}
			for ph, v := range st.bphi {
				nb[ph] = v
			}
			for _, in := range s.Instrs {
				ph, ok := in.(*ssa.Phi)
				if !ok {
					break
				}
				if pi >= 0 && isBoolType(ph.Type()) {
					nb[ph] = ph.Edges[pi]
				}
				if pi >= 0 && vals[ph.Edges[pi]] {
					nv[ph] = true
				} else {
					delete(nv, ph) // the phi is redefined on this edge with something else
				}
			}
			nm := map[*ssa.Alloc]bool{}
			for a := range mem {
				nm[a] = true
			}
			nd := map[*ssa.BasicBlock]bool{}
			for h := range st.done {
				nd[h] = true
			}
			if body, ok := single[s]; ok && body[st.blk] && s != st.blk {
				nd[s] = true // back edge of a loop that runs exactly once
			}
			if body, ok := single[st.blk]; ok && st.done[st.blk] && body[s] && s != st.blk {
				continue // a second iteration is infeasible under len(m) == 1
			}
			np := append(append([]string{}, fr.path...), fmt.Sprintf("block %d -> %d (%s)", st.blk.Index, s.Index, p.Pos(firstPos(s))))
			stack = append(stack, frame{errState{blk: s, idx: 0, vals: nv, mem: nm, done: nd, bphi: nb}, np})
		}
	}
	return "", nil
}

// predOrdinal: when a block has both edges to the same successor, distinguish them (rare); returns 0 normally.
func predOrdinal(b *ssa.BasicBlock, si int) int {
	n := 0
	for j := 0; j < si; j++ {
		if b.Succs[j] == b.Succs[si] {
			n++
		}
	}
	return n
}

func firstPos(b *ssa.BasicBlock) token.Pos {
	for _, in := range b.Instrs {
		if in.Pos().IsValid() {
			return in.Pos()
		}
	}
	return token.NoPos
}

// errBranch classifies the edge (taken==true for the true edge) of a branch on cond with respect to tracked error values:
// "nil": the error is nil on this edge; "eof": it equals io.EOF on this edge; "": nothing known.
func errBranch(cond ssa.Value, vals map[ssa.Value]bool, taken bool) string {
	g := normGuard(guard{cond, taken})
	bo, ok := g.Cond.(*ssa.BinOp)
	if !ok || (bo.Op != token.EQL && bo.Op != token.NEQ) {
		return ""
	}
	var other ssa.Value
	if vals[bo.X] {
		other = bo.Y
	} else if vals[bo.Y] {
		other = bo.X
	} else {
		return ""
	}
	equal := (bo.Op == token.EQL) == g.Pol
	if !equal {
		return ""
	}
	if isNilConst(other) {
		return "nil"
	}
	if isEOFLoad(other) {
		return "eof"
	}
	return ""
}

// certainlyNonNilError: a fresh error (errors.New / fmt.Errorf) or a load of an exported sentinel variable.
func certainlyNonNilError(v ssa.Value) bool {
	return certainlyNonNilErrorRec(v, 0)
}

func certainlyNonNilErrorRec(v ssa.Value, depth int) bool {
	switch x := v.(type) {
	case *ssa.Call:
		if isCallTo(&x.Call, "errors.New", "fmt.Errorf") {
			return true
		}
		// a helper that builds the error: every return of it is a non-nil error
		if g := staticCallee(&x.Call); g != nil && len(g.Blocks) > 0 && depth < 2 && g.Signature.Results().Len() == 1 && g.Pkg != nil && strings.HasPrefix(g.Pkg.Pkg.Path(), "github.com/clbanning/mxj") {
			all, n := true, 0
			eachInstr(g, func(b *ssa.BasicBlock, in ssa.Instruction) {
				if ret, ok := in.(*ssa.Return); ok {
					n++
					if !certainlyNonNilErrorRec(ret.Results[0], depth+1) {
						all = false
					}
				}
			})
			return all && n > 0
		}
		return false
	case *ssa.UnOp:
		if g := globalOf(x); g != nil {
			return isErrorType(x.Type()) && (strings.HasSuffix(g.Name(), "Error") || strings.HasPrefix(g.Name(), "Err") || g.Name() == "NoRoot" || g.Name() == "NO_ROOT" || g.Name() == "EOF")
		}
	case *ssa.MakeInterface:
		return true
	}
	return false
}

// ruleErr checks every error-producing call in the module functions reachable from the roots.
func ruleErr(p *Prog, r *Report, roots []string, scopeNote string) {
	const rule = "ERR.path"
	rs := p.resolve(r, rule, roots...)
	reach := p.Reach(rs...)
	var fns []*ssa.Function
	for f := range reach {
		if p.InModule(f) {
			fns = append(fns, f)
		}
	}
	sort.Slice(fns, func(i, j int) bool { return p.Name(fns[i]) < p.Name(fns[j]) })
	for _, fn := range fns {
		p.errFunc(r, rule, fn)
	}
}

func (p *Prog) errFunc(r *Report, rule string, fn *ssa.Function) {
	ord := newOrdinals()
	name := p.Name(fn)
	for _, in := range instrsByPos(fn) {
		ci, ok := in.(ssa.CallInstruction)
		if !ok {
			continue
		}
		if _, isDefer := in.(*ssa.Defer); isDefer {
			continue
		}
		if _, isGo := in.(*ssa.Go); isGo {
			continue
		}
		c := ci.Common()
		if !p.errProducer(c) {
			continue
		}
		callee := p.calleeName(c)
		construct := ord.key(name, "error of "+callee)
		pos := p.Pos(in.Pos())
		exc := ""
		for _, e := range errExceptions {
			if e.Func == name && e.Callee == callee {
				exc = e.Reason
			}
		}
		ev := errResult(ci)
		if isCallTo(c, "regexp.Compile") {
			if s, ok := constString(c.Args[0]); ok {
				if _, cerr := regexp.Compile(s); cerr == nil {
					r.OK(rule, name, construct, pos, fmt.Sprintf("regexp.Compile of the constant %q, which the checker compiled itself: the error is always nil", s))
					continue
				}
			}
		}
		if ev == nil {
			if exc != "" {
				r.OK(rule, name, construct, pos, "named exception: "+exc)
				continue
			}
			r.Bad(rule, name, construct, pos, "the error result is discarded at the call")
			continue
		}
		why, path := p.errPathSearch(fn, in, ev)
		if why == "" {
			r.OK(rule, name, construct, pos, "consumed on every path")
		} else if exc != "" {
			r.OK(rule, name, construct, pos, "named exception: "+exc)
		} else {
			r.Bad(rule, name, construct, pos, why, path...)
		}
	}
}

// ruleErrPkg checks the error-producing calls inside the named functions themselves, restricted to functions whose
// qualified name has one of the prefixes (used for the wrapper packages: the core they call is checked by its own properties).
func ruleErrPkg(p *Prog, r *Report, roots []string, prefixes []string) {
	const rule = "ERR.path"
	rs := p.resolve(r, rule, roots...)
	reach := p.Reach(rs...)
	var fns []*ssa.Function
	for f := range reach {
		if p.InModule(f) && hasPrefixAny(p.Name(f), prefixes...) {
			fns = append(fns, f)
		}
	}
	sort.Slice(fns, func(i, j int) bool { return p.Name(fns[i]) < p.Name(fns[j]) })
	for _, fn := range fns {
		p.errFunc(r, rule, fn)
	}
}
