package chk

import (
	"fmt"
	"go/token"
	"sort"
	"strings"

	"golang.org/x/tools/go/ssa"
)

// ===== family B: EFFECT — origins and effects (C17, C12; clauses of C16, C18) =========================

// readOnlyAPI: every exported method of Map/MapSeq/Maps except the documented mutators, plus the exported functions
// taking a Map-shaped argument in the wrapper packages are handled per property.
func (p *Prog) readOnlyMethods() []*ssa.Function {
	mut := map[string]bool{}
	for _, m := range grpMutators {
		mut[m] = true
	}
	var out []*ssa.Function
	for _, f := range p.PkgFuncs("mxj") {
		if !p.Exported(f) || f.Signature.Recv() == nil {
			continue
		}
		n := p.Name(f)
		if mut[n] {
			continue
		}
		if !hasPrefixAny(n, "mxj.Map.", "mxj.MapSeq.", "mxj.Maps.") {
			continue
		}
		if n == "mxj.Map.NewMap" {
			continue // the projection is the subject of C12 (checked there with the same rule)
		}
		out = append(out, f)
	}
	return out
}

func (p *Prog) modelGaps(r *Report, a *ptsTo) {
	var ks []string
	for k := range a.unmodeled {
		ks = append(ks, k)
	}
	sort.Strings(ks)
	for _, k := range ks {
		in := a.unmodeled[k]
		r.Unknown("EFFECT.model", p.Name(in.Parent()), k, p.Pos(in.Pos()), "no effect model for this callee/construct: its writes cannot be bounded")
	}
}

// ruleEffectRecv: no write instruction reachable from a read-only method can modify memory reachable from its receiver.
func ruleEffectRecv(p *Prog, r *Report, fns []*ssa.Function, rule string) {
	a := p.PointsTo()
	p.modelGaps(r, a)
	for _, f := range fns {
		name := p.Name(f)
		if len(f.Params) == 0 {
			continue
		}
		k := extKey{f, 0}
		eo, ok := a.extObj[k]
		if !ok {
			r.OK(rule, name, "receiver unmodified", p.Pos(f.Pos()), "receiver carries no references")
			continue
		}
		reach, prev := a.reachFuncs(f)
		bad := 0
		nw := 0
		for _, w := range a.writes {
			if !reach[w.Fn] {
				continue
			}
			nw++
			if a.pts[w.Target].has(eo) {
				bad++
				if bad <= 3 {
					r.Bad(rule, name, fmt.Sprintf("receiver unmodified (%s in %s)", w.What, p.Name(w.Fn)), p.Pos(w.Instr.Pos()),
						"this write may modify memory reachable from the receiver of "+name+"; targets: "+a.describe(a.pts[w.Target].toMap()),
						a.pathTo(prev, f, w.Fn))
				}
			}
		}
		if bad == 0 {
			r.OK(rule, name, "receiver unmodified", p.Pos(f.Pos()), fmt.Sprintf("%d write instructions in %d reachable functions, none can target memory reachable from the receiver", nw, len(reach)))
		}
	}
}

// ruleEffectInput: the package-level decoders never write to the byte slice they are given — not to its elements and, through
// append, not to the spare capacity behind it (which may be the caller's next document). For each exported function with a
// []byte parameter: no write instruction reachable from it can target the memory of that argument.
func ruleEffectInput(p *Prog, r *Report) {
	const rule = "EFFECT.input"
	a := p.PointsTo()
	p.modelGaps(r, a)
	n := 0
	for _, f := range p.PkgFuncs("mxj") {
		if !p.Exported(f) || f.Signature.Recv() != nil || len(f.Blocks) == 0 {
			continue
		}
		for i, prm := range f.Params {
			if !isByteSlice(prm.Type()) {
				continue
			}
			eo, ok := a.extObj[extKey{f, i}]
			if !ok {
				continue
			}
			n++
			name := p.Name(f)
			reach, prev := a.reachFuncs(f)
			bad, nw := 0, 0
			for _, w := range a.writes {
				if !reach[w.Fn] {
					continue
				}
				nw++
				if a.pts[w.Target].has(eo) {
					bad++
					if bad <= 3 {
						r.Bad(rule, name, fmt.Sprintf("input %s unmodified (%s in %s)", prm.Name(), w.What, p.Name(w.Fn)), p.Pos(w.Instr.Pos()),
							"this write may modify the caller's byte slice (or the memory behind it, within its capacity); targets: "+a.describe(a.pts[w.Target].toMap()),
							a.pathTo(prev, f, w.Fn))
					}
				}
			}
			if bad == 0 {
				r.OK(rule, name, "input "+prm.Name()+" unmodified", p.Pos(f.Pos()), fmt.Sprintf("%d write instructions in %d reachable functions, none can target the argument's memory", nw, len(reach)))
			}
		}
	}
	_ = n
	r.Floor(rule, 5)
}

// ruleEffectGlobal: no function reachable from a non-setter API writes a package variable or memory reachable from one.
func ruleEffectGlobal(p *Prog, r *Report) {
	const rule = "EFFECT.global"
	a := p.PointsTo()
	p.modelGaps(r, a)
	// global-reachable objects of module packages
	gstart := map[objID]bool{}
	for g, o := range a.globObj {
		if p.moduleGlobal(g) {
			gstart[o] = true
		}
	}
	greach := a.reachObjs(gstart)
	// external objects (user arguments stored into option variables) are not module state
	for o := range greach {
		if a.objs[o].kind == "ext" || a.objs[o].kind == "func" {
			delete(greach, o)
		}
	}
	for g, o := range a.globObj {
		if !p.moduleGlobal(g) {
			delete(greach, o)
		}
	}
	var roots []*ssa.Function
	for _, f := range p.FuncList {
		if p.Exported(f) && !p.isSetter(f) {
			roots = append(roots, f)
		}
	}
	reachAll := map[*ssa.Function]bool{}
	prevAll := map[*ssa.Function]*ssa.Function{}
	rootOf := map[*ssa.Function]*ssa.Function{}
	for _, f := range roots {
		rs, prev := a.reachFuncs(f)
		for g := range rs {
			if !reachAll[g] {
				reachAll[g] = true
				rootOf[g] = f
				if pv, ok := prev[g]; ok {
					prevAll[g] = pv
				}
			}
		}
	}
	nw, bad := 0, 0
	for _, w := range a.writes {
		if !reachAll[w.Fn] || isPkgInit(w.Fn) {
			continue
		}
		nw++
		hit := map[objID]bool{}
		a.pts[w.Target].each(func(o objID) {
			if greach[o] {
				hit[o] = true
			}
		})
		if len(hit) == 0 {
			continue
		}
		bad++
		root := rootOf[w.Fn]
		_, prev := a.reachFuncs(root)
		r.Bad(rule, p.Name(w.Fn), w.What+" to package state", p.Pos(w.Instr.Pos()),
			"a function reachable from the non-setter API "+p.Name(root)+" writes package-level state: "+a.describe(hit)+" — concurrent calls race and results depend on history",
			a.pathTo(prev, root, w.Fn))
	}
	// stores through a pointer that was loaded from a package variable: whatever the variable points to (a user's value
	// included) is shared by every caller, so the points-to exclusion of external objects does not apply to them
	for f := range reachAll {
		if isPkgInit(f) {
			continue
		}
		for _, b := range f.Blocks {
			for _, in := range b.Instrs {
				st, ok := in.(*ssa.Store)
				if !ok {
					continue
				}
				addr := st.Addr
				depth := 0
				for {
					if fa, ok := addr.(*ssa.FieldAddr); ok {
						addr = fa.X
						depth++
						continue
					}
					if ia, ok := addr.(*ssa.IndexAddr); ok {
						addr = ia.X
						depth++
						continue
					}
					break
				}
				ld, ok := addr.(*ssa.UnOp)
				if !ok || ld.Op != token.MUL || depth == 0 {
					continue
				}
				g, ok := ld.X.(*ssa.Global)
				if !ok || !p.moduleGlobal(g) {
					continue
				}
				bad++
				root := rootOf[f]
				_, prev := a.reachFuncs(root)
				r.Bad(rule, p.Name(f), "store through the pointer in "+g.Name(), p.Pos(st.Pos()),
					"a function reachable from the non-setter API "+p.Name(root)+" writes the value that the package variable "+g.Name()+" points to: every concurrent caller shares it",
					a.pathTo(prev, root, f))
			}
		}
	}
	if bad == 0 {
		r.OK(rule, "non-setter API", "no write to package state", "", fmt.Sprintf("%d roots, %d reachable functions, %d write instructions, none can target a package variable or memory reachable from one (%d objects)", len(roots), len(reachAll), nw, len(greach)))
	}
	r.Instances[rule] += len(roots)
}

// ruleOwnFresh: the result of fn shares no structure with its arguments.
func ruleOwnFresh(p *Prog, r *Report, fname string) {
	const rule = "OWN.fresh"
	f := p.Fn(fname)
	if f == nil {
		r.Anchor(rule, fname)
		return
	}
	a := p.PointsTo()
	res := a.results[f]
	start := map[objID]bool{}
	for i, n := range res {
		if isErrorType(f.Signature.Results().At(i).Type()) {
			continue
		}
		a.pts[n].each(func(o objID) { start[o] = true })
	}
	reach := a.reachObjs(start)
	var shared []string
	for o := range reach {
		ob := a.objs[o]
		if (ob.kind == "ext" && ob.ext != nil && ob.ext.fn == f) || (ob.kind == "global" && p.moduleGlobal(ob.site.(*ssa.Global))) {
			shared = append(shared, ob.label)
		}
	}
	sort.Strings(shared)
	if len(shared) == 0 {
		r.OK(rule, fname, "result shares no structure with arguments", p.Pos(f.Pos()), fmt.Sprintf("%d objects reachable from the result, all allocated during the call", len(reach)))
	} else {
		r.Bad(rule, fname, "result shares no structure with arguments", p.Pos(f.Pos()), "memory reachable from the result includes: "+strings.Join(shared, "; "))
	}
}

// ruleOwnPrivate (OWN.private): what fn returns is the caller's alone — no object reachable from a (non-error) result is also
// reachable from a package variable of the module (a cache, a pool, a shared scratch buffer). A document handed to the caller
// that package state still references can be rewritten by a later call.
func ruleOwnPrivate(p *Prog, r *Report, fnames []string) {
	const rule = "OWN.private"
	a := p.PointsTo()
	// everything reachable from module package variables
	gstart := map[objID]bool{}
	for _, ob := range a.objs {
		if ob.kind == "global" {
			if g, ok := ob.site.(*ssa.Global); ok && p.moduleGlobal(g) {
				gstart[ob.id] = true
			}
		}
	}
	greach := a.reachObjs(gstart)
	for _, fname := range fnames {
		f := p.Fn(fname)
		if f == nil {
			r.Anchor(rule, fname)
			continue
		}
		start := map[objID]bool{}
		for i, n := range a.results[f] {
			if isErrorType(f.Signature.Results().At(i).Type()) {
				continue
			}
			a.pts[n].each(func(o objID) { start[o] = true })
		}
		reach := a.reachObjs(start)
		var shared []string
		for o := range reach {
			ob := a.objs[o]
			if ob.kind == "func" {
				continue
			}
			if greach[o] {
				shared = append(shared, ob.label)
			}
		}
		sort.Strings(shared)
		if len(shared) == 0 {
			r.OK(rule, fname, "result not reachable from package state", p.Pos(f.Pos()), fmt.Sprintf("%d objects reachable from the result, none of them reachable from one of the module's package variables (%d objects)", len(reach), len(greach)))
		} else {
			if len(shared) > 4 {
				shared = append(shared[:4], fmt.Sprintf("… %d more", len(shared)-4))
			}
			r.Bad(rule, fname, "result not reachable from package state", p.Pos(f.Pos()), "memory reachable from the result is also referenced by package state: "+strings.Join(shared, "; "))
		}
	}
}
