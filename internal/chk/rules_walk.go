package chk

import (
	"fmt"
	"go/token"
	"go/types"
	"strings"

	"golang.org/x/tools/go/ssa"
)

// ===== family J: WALK — traversal completeness and progress; family H: PAIR — pairing and counting =====

func paramIndexByType(fn *ssa.Function, pred func(t types.Type) bool) []int {
	var out []int
	for i, prm := range fn.Params {
		if pred(prm.Type()) {
			out = append(out, i)
		}
	}
	return out
}

func isStringSlice(t types.Type) bool {
	s, ok := t.Underlying().(*types.Slice)
	return ok && isStringType(s.Elem())
}

func isEmptyIface(t types.Type) bool {
	it, ok := t.Underlying().(*types.Interface)
	return ok && it.Empty()
}

// recursive calls of fn to itself
func selfCalls(fn *ssa.Function) []*ssa.Call {
	var out []*ssa.Call
	eachInstr(fn, func(b *ssa.BasicBlock, in ssa.Instruction) {
		if c, ok := in.(*ssa.Call); ok && staticCallee(&c.Call) == fn {
			out = append(out, c)
		}
	})
	return out
}

// vCall: a recursive call of fn seen from fn itself — made directly, or made by a module helper (a function the walker was split
// into, a local closure) that fn calls. args are the recursive call's arguments expressed as values of fn wherever they are
// parameters, constants or captured variables of the helper; other helper-local values are kept as they are (resolved false).
type vCall struct {
	site     *ssa.Call // the call instruction in fn
	inner    *ssa.Call // the recursive call (== site when fn calls itself directly)
	args     []ssa.Value
	resolved []bool
}

func (p *Prog) virtualSelfCalls(fn *ssa.Function) []vCall {
	var out []vCall
	var scan func(g *ssa.Function, site *ssa.Call, bind map[ssa.Value]ssa.Value, depth int, stack map[*ssa.Function]bool)
	scan = func(g *ssa.Function, site *ssa.Call, bind map[ssa.Value]ssa.Value, depth int, stack map[*ssa.Function]bool) {
		resolve := func(a ssa.Value) (ssa.Value, bool) {
			if g == fn {
				return a, true
			}
			if _, isC := a.(*ssa.Const); isC {
				return a, true
			}
			if bv, ok := bind[a]; ok {
				return bv, bv != nil
			}
			if cv := p.CellValue(a); cv != nil {
				if cv.Parent() == fn {
					return cv, true
				}
				if bv, ok := bind[cv]; ok {
					return bv, bv != nil
				}
			}
			// a slice of a bound value keeps its meaning only if the operand is resolved; callers look at Slice instructions
			return a, false
		}
		eachInstr(g, func(b *ssa.BasicBlock, in ssa.Instruction) {
			c, ok := in.(*ssa.Call)
			if !ok {
				return
			}
			h := staticCallee(&c.Call)
			if h == nil {
				return
			}
			st := site
			if g == fn {
				st = c
			}
			if h == fn {
				vc := vCall{site: st, inner: c, args: make([]ssa.Value, len(c.Call.Args)), resolved: make([]bool, len(c.Call.Args))}
				for i, a := range c.Call.Args {
					vc.args[i], vc.resolved[i] = resolve(a)
				}
				out = append(out, vc)
				return
			}
			if !p.InModule(h) || len(h.Blocks) == 0 || depth >= 2 || stack[h] || p.Exported(h) {
				return
			}
			// does h (transitively, within the bound) call fn at all? cheap pre-check through the call graph
			if !p.Reach(h)[fn] {
				return
			}
			nb := map[ssa.Value]ssa.Value{}
			for k, v := range bind {
				nb[k] = v // a closure of the helper still sees the helper's parameters (through its captured variables)
			}
			for i, prm := range h.Params {
				if i < len(c.Call.Args) {
					if rv, ok := resolve(c.Call.Args[i]); ok {
						nb[prm] = rv
					} else {
						nb[prm] = nil
					}
				}
			}
			stack[h] = true
			scan(h, st, nb, depth+1, stack)
			delete(stack, h)
		})
	}
	scan(fn, nil, nil, 0, map[*ssa.Function]bool{fn: true})
	return out
}

// encCall: a call in fn that encodes one (key, node) pair by recursion — the recursive call itself, or a call of a local closure /
// helper that hands its argument on to exactly one recursive call which every successful return of the helper has passed.
type encCall struct {
	call *ssa.Call
	args []ssa.Value // the recursive call's arguments as values of fn (nil where not resolvable)
}

func (p *Prog) encodeCalls(fn *ssa.Function) []encCall {
	var out []encCall
	eachInstr(fn, func(b *ssa.BasicBlock, in ssa.Instruction) {
		c, ok := in.(*ssa.Call)
		if !ok {
			return
		}
		g := staticCallee(&c.Call)
		if g == fn {
			out = append(out, encCall{c, c.Call.Args})
			return
		}
		if g == nil || !p.InModule(g) || len(g.Blocks) == 0 {
			return
		}
		var inner []*ssa.Call
		eachInstr(g, func(b2 *ssa.BasicBlock, in2 ssa.Instruction) {
			if c2, ok := in2.(*ssa.Call); ok && staticCallee(&c2.Call) == fn {
				inner = append(inner, c2)
			}
		})
		if len(inner) != 1 {
			return
		}
		sc := inner[0]
		// every return that may report success is dominated by the recursive call
		okDom := true
		eachInstr(g, func(b2 *ssa.BasicBlock, in2 ssa.Instruction) {
			if ret, ok := in2.(*ssa.Return); ok {
				success := len(ret.Results) == 0
				for _, res := range ret.Results {
					if isErrorType(res.Type()) && isNilConst(res) {
						success = true
					}
				}
				if success && !sc.Block().Dominates(b2) {
					okDom = false
				}
			}
		})
		if !okDom {
			return
		}
		args := make([]ssa.Value, len(sc.Call.Args))
		for i, a := range sc.Call.Args {
			switch x := a.(type) {
			case *ssa.Parameter:
				for j, prm := range g.Params {
					if prm == x && j < len(c.Call.Args) {
						args[i] = c.Call.Args[j]
					}
				}
			case *ssa.Const:
				args[i] = x
			default:
				if cv := p.CellValue(a); cv != nil {
					args[i] = cv
				}
			}
		}
		out = append(out, encCall{c, args})
	})
	return out
}

// lenGuard: blk is dominated by an edge on which len(v) == k.
func lenEqGuard(cz *canonizer, v ssa.Value, k int64, blk *ssa.BasicBlock) bool {
	want := "len(" + cz.of(v) + ")"
	for _, g := range dominatingGuards(blk) {
		ng := normGuard(g)
		bo, ok := ng.Cond.(*ssa.BinOp)
		if !ok {
			continue
		}
		kk, isK := constInt(bo.Y)
		if !isK || kk != k || cz.of(bo.X) != want {
			continue
		}
		if (bo.Op == token.EQL) == ng.Pol && (bo.Op == token.EQL || bo.Op == token.NEQ) {
			return true
		}
	}
	return false
}

// ruleWalkProgress: path walkers consume exactly one path segment per recursion and yield values only when the path is exhausted.
func ruleWalkProgress(p *Prog, r *Report, names []string) {
	const rule = "WALK.progress"
	for _, n := range names {
		fn := p.Fn(n)
		if fn == nil {
			r.Anchor(rule, n)
			continue
		}
		ki := paramIndexByType(fn, isStringSlice)
		if len(ki) != 1 {
			r.Unknown(rule, n, "path parameter", p.Pos(fn.Pos()), "expected exactly one []string path parameter")
			continue
		}
		keys := fn.Params[ki[0]]
		cz := p.canonFor(fn)
		calls := p.virtualSelfCalls(fn)
		if len(calls) == 0 {
			r.Bad(rule, n, "recursion", p.Pos(fn.Pos()), "the walker does not recurse")
			continue
		}
		ord := newOrdinals()
		for _, vc := range calls {
			c := vc.inner
			arg := vc.args[ki[0]]
			construct := ord.key(n, "recursive call passes keys[1:]")
			sl, ok := arg.(*ssa.Slice)
			good := false
			if ok && vc.resolved[ki[0]] && sl.X == ssa.Value(keys) && sl.High == nil && sl.Max == nil && sl.Low != nil {
				if k, isK := constInt(sl.Low); isK && k == 1 {
					good = true
				}
			}
			if good {
				r.OK(rule, n, construct, p.Pos(c.Pos()), "one segment consumed")
			} else {
				r.Bad(rule, n, construct, p.Pos(c.Pos()), "the recursive call does not pass the path minus its first segment ("+cz.of(arg)+"): a segment is applied twice or skipped")
			}
		}
		// result appends (through a result pointer parameter) only when the path is exhausted
		var retPtr *ssa.Parameter
		for _, prm := range fn.Params {
			if pt, ok := prm.Type().Underlying().(*types.Pointer); ok {
				if _, isSl := pt.Elem().Underlying().(*types.Slice); isSl {
					retPtr = prm
				}
			}
		}
		if retPtr != nil {
			nApp := 0
			bad := ""
			for _, ref := range *retPtr.Referrers() {
				st, ok := ref.(*ssa.Store)
				if !ok || st.Addr != ssa.Value(retPtr) {
					continue
				}
				nApp++
				if !lenEqGuard(cz, keys, 0, st.Block()) {
					bad = p.Pos(st.Pos())
				}
			}
			// the loading may live in an unexported helper that is handed the result pointer (not the recursion itself): the call
			// stands for the helper's stores
			for _, ref := range *retPtr.Referrers() {
				ci, ok := ref.(ssa.CallInstruction)
				if !ok {
					continue
				}
				h := staticCallee(ci.Common())
				if h == nil || h == fn || !p.InModule(h) || p.Exported(h) || len(h.Blocks) == 0 {
					continue
				}
				isWalkerCall := false
				for _, vc := range calls {
					if ssa.Instruction(vc.inner) == ssa.Instruction(ci) || ssa.Instruction(vc.site) == ssa.Instruction(ci) {
						isWalkerCall = true
					}
				}
				if isWalkerCall {
					continue
				}
				stores := 0
				for ai, a := range ci.Common().Args {
					if a == ssa.Value(retPtr) && ai < len(h.Params) {
						for _, r2 := range *h.Params[ai].Referrers() {
							if st, isSt := r2.(*ssa.Store); isSt && st.Addr == ssa.Value(h.Params[ai]) {
								stores++
							}
						}
					}
				}
				if stores == 0 {
					continue
				}
				nApp += stores
				if !lenEqGuard(cz, keys, 0, ci.Block()) {
					bad = p.Pos(ci.Pos())
				}
			}
			if nApp == 0 {
				r.Bad(rule, n, "values appended when the path is exhausted", p.Pos(fn.Pos()), "the walker never appends to its result")
			} else if bad == "" {
				r.OK(rule, n, "values appended when the path is exhausted", p.Pos(fn.Pos()), fmt.Sprintf("all %d appends are dominated by len(keys) == 0", nApp))
			} else {
				r.Bad(rule, n, "values appended when the path is exhausted", bad, "a value is appended from an intermediate step of the path")
			}
		}
	}
}

// ruleWalkHandover: the update walker hands over to the leaf function exactly at len(keys) == 1.
func ruleWalkHandover(p *Prog, r *Report) {
	const rule = "WALK.progress"
	fn, leaf := p.Fn("mxj.updateValuesForKeyPath"), p.Fn("mxj.updateValue")
	if fn == nil || leaf == nil {
		r.Anchor(rule, "mxj.updateValuesForKeyPath/updateValue")
		return
	}
	n := p.Name(fn)
	cz := p.canonFor(fn)
	ki := paramIndexByType(fn, isStringSlice)
	keys := fn.Params[ki[0]]
	var lc []*ssa.Call
	eachInstr(fn, func(b *ssa.BasicBlock, in ssa.Instruction) {
		if c, ok := in.(*ssa.Call); ok && staticCallee(&c.Call) == leaf {
			lc = append(lc, c)
		}
	})
	if len(lc) != 1 {
		r.Bad(rule, n, "hand-over to the leaf function", p.Pos(fn.Pos()), fmt.Sprintf("expected one call of %s, found %d", p.Name(leaf), len(lc)))
		return
	}
	c := lc[0]
	if lenEqGuard(cz, keys, 1, c.Block()) {
		r.OK(rule, n, "hand-over to the leaf function", p.Pos(c.Pos()), "dominated by len(keys) == 1")
	} else {
		r.Bad(rule, n, "hand-over to the leaf function", p.Pos(c.Pos()), "the leaf function is not called exactly when one path segment remains")
	}
	// the last segment is what the leaf receives
	okSeg := false
	for _, a := range c.Call.Args {
		if u, ok := a.(*ssa.UnOp); ok {
			if ia, ok := u.X.(*ssa.IndexAddr); ok && ia.X == ssa.Value(keys) {
				if k, isK := constInt(ia.Index); isK && k == 0 {
					okSeg = true
				}
			}
		}
	}
	if okSeg {
		r.OK(rule, n, "leaf receives the last segment", p.Pos(c.Pos()), "keys[0] under len(keys) == 1")
	} else {
		r.Bad(rule, n, "leaf receives the last segment", p.Pos(c.Pos()), "the leaf function is not given keys[0]")
	}
	// every other recursive step happens with more than one segment: recursive calls are not reachable on the len==1 edge
	for _, rc := range selfCalls(fn) {
		if lenEqGuard(cz, keys, 1, rc.Block()) {
			r.Bad(rule, n, "no recursion past the last segment", p.Pos(rc.Pos()), "recursion continues although only one segment remains")
		}
	}
}

// walkerSpec: an exhaustive walker and the index of its node parameter.
type walkerSpec struct {
	Fn       string
	SkipVars []string // option variables/parameters a skip inside the loop body may depend on
}

// ruleWalkTotal: exhaustive walkers visit every map entry and every list member.
func ruleWalkTotal(p *Prog, r *Report, specs []walkerSpec) {
	const rule = "WALK.total"
	for _, sp := range specs {
		fn := p.Fn(sp.Fn)
		if fn == nil {
			r.Anchor(rule, sp.Fn)
			continue
		}
		ni := paramIndexByType(fn, isEmptyIface)
		if len(ni) < 1 {
			r.Unknown(rule, sp.Fn, "node parameter", p.Pos(fn.Pos()), "no interface{} node parameter")
			continue
		}
		// the node parameter is the one that is type-switched on
		var node *ssa.Parameter
		for _, i := range ni {
			prm := fn.Params[i]
			for _, ref := range *prm.Referrers() {
				if ta, ok := ref.(*ssa.TypeAssert); ok && ta.CommaOk && isMapShaped(ta.AssertedType) {
					node = prm
				}
			}
		}
		if node == nil {
			r.Unknown(rule, sp.Fn, "node parameter", p.Pos(fn.Pos()), "no parameter is type-switched on map[string]interface{}")
			continue
		}
		nodeIdx := -1
		for i, prm := range fn.Params {
			if prm == node {
				nodeIdx = i
			}
		}
		calls := selfCalls(fn)
		mapOK, listOK := "", ""
		var mapWhy, listWhy string
		type arm struct {
			hdr   *ssa.BasicBlock
			calls []*ssa.Call
		}
		mapArms := map[*ssa.BasicBlock]*arm{}
		listArms := map[*ssa.BasicBlock]*arm{}
		for _, c := range calls {
			arg := c.Call.Args[nodeIdx]
			// map arm: arg is the value extract of a Next over node.(map)
			if ex, ok := arg.(*ssa.Extract); ok && ex.Index == 2 {
				if nx, ok := ex.Tuple.(*ssa.Next); ok {
					if rg, ok := nx.Iter.(*ssa.Range); ok && assertOf(rg.X, node) {
						hdr := nx.Block()
						if mapArms[hdr] == nil {
							mapArms[hdr] = &arm{hdr: hdr}
						}
						mapArms[hdr].calls = append(mapArms[hdr].calls, c)
					}
				}
			}
			// list arm: arg is a load of &slice[i] over node.([]interface{}) with a range index
			if u, ok := arg.(*ssa.UnOp); ok && u.Op == token.MUL {
				if ia, ok := u.X.(*ssa.IndexAddr); ok && assertOf(ia.X, node) && isRangeIndex(ia.Index) {
					hdr := ia.Index.(*ssa.BinOp).X.(*ssa.Phi).Block()
					if listArms[hdr] == nil {
						listArms[hdr] = &arm{hdr: hdr}
					}
					listArms[hdr].calls = append(listArms[hdr].calls, c)
				}
			}
		}
		for _, a := range mapArms {
			if why := p.callsCoverBody(fn, a.calls, a.hdr, sp.SkipVars); why == "" {
				mapOK = p.Pos(a.calls[0].Pos())
			} else {
				mapWhy = why
			}
		}
		for _, a := range listArms {
			if why := p.callsCoverBody(fn, a.calls, a.hdr, sp.SkipVars); why == "" {
				listOK = p.Pos(a.calls[0].Pos())
			} else {
				listWhy = why
			}
		}
		// an arm may live in an unexported helper that is handed the asserted map / list and calls the walker back for every
		// member (walker split into a dispatcher and its arms)
		armInHelper := func(wantMap bool) string {
			found := ""
			eachInstr(fn, func(b *ssa.BasicBlock, in ssa.Instruction) {
				c, ok := in.(*ssa.Call)
				if !ok || found != "" {
					return
				}
				h := staticCallee(&c.Call)
				if h == nil || h == fn || !p.InModule(h) || p.Exported(h) || len(h.Blocks) == 0 {
					return
				}
				for ai, a := range c.Call.Args {
					if ai >= len(h.Params) || !assertOf(a, node) || isMapShaped(a.Type()) != wantMap {
						continue
					}
					prm := h.Params[ai]
					arms := map[*ssa.BasicBlock]*arm{}
					eachInstr(h, func(b2 *ssa.BasicBlock, i2 ssa.Instruction) {
						c2, ok := i2.(*ssa.Call)
						if !ok || staticCallee(&c2.Call) != fn || nodeIdx >= len(c2.Call.Args) {
							return
						}
						arg := c2.Call.Args[nodeIdx]
						if wantMap {
							if ex, ok := arg.(*ssa.Extract); ok && ex.Index == 2 {
								if nx, ok := ex.Tuple.(*ssa.Next); ok {
									if rg, ok := nx.Iter.(*ssa.Range); ok && rg.X == ssa.Value(prm) {
										if arms[nx.Block()] == nil {
											arms[nx.Block()] = &arm{hdr: nx.Block()}
										}
										arms[nx.Block()].calls = append(arms[nx.Block()].calls, c2)
									}
								}
							}
						} else if u, ok := arg.(*ssa.UnOp); ok && u.Op == token.MUL {
							if ia, ok := u.X.(*ssa.IndexAddr); ok && ia.X == ssa.Value(prm) && isRangeIndex(ia.Index) {
								hdr := ia.Index.(*ssa.BinOp).X.(*ssa.Phi).Block()
								if arms[hdr] == nil {
									arms[hdr] = &arm{hdr: hdr}
								}
								arms[hdr].calls = append(arms[hdr].calls, c2)
							}
						}
					})
					for _, a2 := range arms {
						if why := p.callsCoverBody(h, a2.calls, a2.hdr, sp.SkipVars); why == "" {
							// the loop is reached on every path through the helper
							reach := true
							for _, hb := range h.Blocks {
								if _, isRet := hb.Instrs[len(hb.Instrs)-1].(*ssa.Return); isRet {
									if !(a2.hdr == hb || a2.hdr.Dominates(hb)) {
										reach = false
									}
								}
							}
							if reach {
								found = p.Pos(a2.calls[0].Pos())
							}
						}
					}
				}
			})
			return found
		}
		if len(mapArms) == 0 {
			if at := armInHelper(true); at != "" {
				mapOK = at
			}
		}
		if len(listArms) == 0 {
			if at := armInHelper(false); at != "" {
				listOK = at
			}
		}
		// the loops themselves are reached whenever the node has the arm's type
		for _, a := range mapArms {
			if why := p.armReachesLoop(fn, node, a.hdr, true, sp.SkipVars); why != "" && mapWhy == "" {
				mapOK, mapWhy = "", why
			}
		}
		for _, a := range listArms {
			if why := p.armReachesLoop(fn, node, a.hdr, false, sp.SkipVars); why != "" && listWhy == "" {
				listOK, listWhy = "", why
			}
		}
		if mapOK != "" {
			r.OK(rule, sp.Fn, "every map entry visited", mapOK, "recursive call on the entry value, unconditional in the body of a range over the node's map")
		} else {
			if mapWhy == "" {
				mapWhy = "no recursive call on the entries of the node's map"
			}
			r.Bad(rule, sp.Fn, "every map entry visited", p.Pos(fn.Pos()), mapWhy)
		}
		if listOK != "" {
			r.OK(rule, sp.Fn, "every list member visited", listOK, "recursive call on the member, unconditional in the body of an ascending range over the node's list")
		} else {
			if listWhy == "" {
				listWhy = "no recursive call on the members of the node's list"
			}
			r.Bad(rule, sp.Fn, "every list member visited", p.Pos(fn.Pos()), listWhy)
		}
	}
}

// armReachesLoop: once the node is known to have the arm's type (the true edge of the comma-ok test that dominates the loop),
// no path leaves the function without entering the loop over its members, except under a condition on the allowed skip
// variables or on the emptiness of the node.
func (p *Prog) armReachesLoop(fn *ssa.Function, node ssa.Value, hdr *ssa.BasicBlock, wantMap bool, allowed []string) string {
	cz := p.canonFor(fn)
	var entry *ssa.BasicBlock
	for _, ref := range *node.Referrers() {
		ta, ok := ref.(*ssa.TypeAssert)
		if !ok || !ta.CommaOk {
			continue
		}
		if wantMap != isMapShaped(ta.AssertedType) {
			continue
		}
		if _, isSl := ta.AssertedType.Underlying().(*types.Slice); !wantMap && !isSl {
			continue
		}
		for _, r2 := range *ta.Referrers() {
			ex, ok := r2.(*ssa.Extract)
			if !ok || ex.Index != 1 {
				continue
			}
			for _, r3 := range *ex.Referrers() {
				ifi, ok := r3.(*ssa.If)
				if !ok {
					continue
				}
				if edgeDominates(ifi.Block(), 0, hdr) {
					entry = ifi.Block().Succs[0]
				}
			}
		}
	}
	if entry == nil || entry == hdr {
		return "" // arm not entered through a comma-ok test on the node: nothing to decide here
	}
	// an option may select between two loops over the members (one that filters, one that does not): any loop over a map of the
	// function counts as "the members are ranged over"; an option never excuses leaving without a loop
	otherHdr := map[*ssa.BasicBlock]bool{}
	if wantMap {
		for _, l := range findMapLoops(fn) {
			if l.next != nil && l.header != hdr {
				otherHdr[l.header] = true
			}
		}
	}
	seen := map[*ssa.BasicBlock]bool{entry: true}
	work := []*ssa.BasicBlock{entry}
	for len(work) > 0 {
		b := work[len(work)-1]
		work = work[:len(work)-1]
		if len(b.Instrs) == 0 || otherHdr[b] {
			continue
		}
		last := b.Instrs[len(b.Instrs)-1]
		if _, isRet := last.(*ssa.Return); isRet {
			return "the function can return at " + p.Pos(firstPos(b)) + " without ranging over the node's members: they are not visited"
		}
		skip := -1
		if ifi, ok := last.(*ssa.If); ok {
			cs := cz.of(ifi.Cond)
			for _, a := range allowed {
				if strings.Contains(cs, a) && !wantMap {
					skip = 2
				}
			}
			if bo, ok := ifi.Cond.(*ssa.BinOp); ok {
				if c, ok := bo.X.(*ssa.Call); ok && isBuiltin(c, "len") && assertOf(c.Call.Args[0], node) {
					if k, isK := constInt(bo.Y); isK {
						switch {
						case bo.Op == token.EQL && k == 0, bo.Op == token.LSS && k == 1, bo.Op == token.LEQ && k == 0:
							skip = 0
						case bo.Op == token.NEQ && k == 0, bo.Op == token.GTR && k == 0, bo.Op == token.GEQ && k == 1:
							skip = 1
						}
					}
				}
			}
		}
		for si, s := range b.Succs {
			if s == hdr || seen[s] || skip == 2 || skip == si {
				continue
			}
			seen[s] = true
			work = append(work, s)
		}
	}
	return ""
}

// assertOf: v is node.(T) (comma-ok value or plain assertion) of the node parameter.
func assertOf(v ssa.Value, node ssa.Value) bool {
	switch x := v.(type) {
	case *ssa.TypeAssert:
		return x.X == node
	case *ssa.Extract:
		if ta, ok := x.Tuple.(*ssa.TypeAssert); ok && x.Index == 0 {
			return ta.X == node
		}
	case *ssa.ChangeType:
		return assertOf(x.X, node)
	}
	return false
}

// callsCoverBody: every path through one iteration of the loop (from the body entry back to the header or out of the loop)
// passes through one of the calls, except paths that branch off at a condition mentioning only the allowed skip variables.
func (p *Prog) callsCoverBody(fn *ssa.Function, calls []*ssa.Call, hdr *ssa.BasicBlock, allowed []string) string {
	cz := p.canonFor(fn)
	body := naturalLoop(hdr)
	callBlk := map[*ssa.BasicBlock]bool{}
	for _, c := range calls {
		callBlk[c.Block()] = true
	}
	canReachCall := func(b *ssa.BasicBlock) bool {
		if callBlk[b] {
			return true
		}
		seen := map[*ssa.BasicBlock]bool{b: true}
		work := []*ssa.BasicBlock{b}
		for len(work) > 0 {
			x := work[len(work)-1]
			work = work[:len(work)-1]
			for _, s := range x.Succs {
				if !body[s] || s == hdr || seen[s] {
					continue
				}
				if callBlk[s] {
					return true
				}
				seen[s] = true
				work = append(work, s)
			}
		}
		return false
	}
	singleIterLoops := map[*ssa.BasicBlock]bool{}
	for _, l := range findMapLoops(fn) {
		if l.next != nil && body[l.header] && l.header != hdr && p.lenIsOneGuard(l) {
			for b := range l.body {
				if callBlk[b] {
					singleIterLoops[l.header] = true
				}
			}
		}
	}
	// body entries: successors of the header inside the loop
	var starts []*ssa.BasicBlock
	for _, s := range hdr.Succs {
		if body[s] && s != hdr {
			starts = append(starts, s)
		}
	}
	seen := map[*ssa.BasicBlock]bool{}
	var work []*ssa.BasicBlock
	for _, s := range starts {
		seen[s] = true
		work = append(work, s)
	}
	for len(work) > 0 {
		b := work[len(work)-1]
		work = work[:len(work)-1]
		if callBlk[b] {
			continue // paths through the call are fine
		}
		// a single-iteration range (entered only under len(m) == 1) whose body makes the call always makes it
		if l, ok := singleIterLoops[b]; ok && l {
			continue
		}
		allowedIf := false
		if ifi, ok := b.Instrs[len(b.Instrs)-1].(*ssa.If); ok {
			cs := cz.of(ifi.Cond)
			for _, a := range allowed {
				if strings.Contains(cs, a) {
					allowedIf = true
				}
			}
			// a predicate helper whose answer depends on an allowed option variable
			if hc, isCall := normGuard(guard{ifi.Cond, true}).Cond.(*ssa.Call); isCall && !allowedIf {
				if h := staticCallee(&hc.Call); h != nil && p.InModule(h) && !p.Exported(h) && len(h.Blocks) > 0 {
					rg := p.returnGlobals(h, true)
					for _, a := range allowed {
						if strings.HasPrefix(a, "load(") && strings.HasSuffix(a, ")") {
							if g := p.Globals[a[5:len(a)-1]]; g != nil && rg[g] {
								allowedIf = true
							}
						}
					}
				}
			}
		}
		for _, s := range b.Succs {
			if s == hdr || !body[s] {
				// an iteration ends (or the loop is left by return) without the call
				if allowedIf {
					continue
				}
				if _, isRet := firstInstr(s).(*ssa.Return); isRet && !body[s] {
					continue // error/early return leaves the whole walk
				}
				return "an iteration can complete without the recursive call (through block " + fmt.Sprint(b.Index) + " at " + p.Pos(firstPos(b)) + "): some entries are not visited"
			}
			if allowedIf && !canReachCall(s) {
				continue // documented skip
			}
			if !seen[s] {
				seen[s] = true
				work = append(work, s)
			}
		}
	}
	return ""
}

func firstInstr(b *ssa.BasicBlock) ssa.Instruction {
	for _, in := range b.Instrs {
		if _, ok := in.(*ssa.DebugRef); ok {
			continue
		}
		return in
	}
	return nil
}

// unconditionalInBody: the call executes in every iteration, except for skips that depend only on the allowed variables.
func (p *Prog) unconditionalInBody(fn *ssa.Function, c *ssa.Call, hdr *ssa.BasicBlock, body map[*ssa.BasicBlock]bool, allowed []string) string {
	cz := p.canonFor(fn)
	for _, b := range fn.Blocks {
		if !body[b] || len(b.Instrs) == 0 {
			continue
		}
		ifi, ok := b.Instrs[len(b.Instrs)-1].(*ssa.If)
		if !ok || b == hdr {
			continue
		}
		for si := 0; si < 2; si++ {
			if !edgeDominates(b, si, c.Block()) {
				continue
			}
			// a condition inside the loop guards the call: allowed only if it mentions nothing but allowed variables and the loop key
			cs := cz.of(ifi.Cond)
			okc := false
			for _, a := range allowed {
				if strings.Contains(cs, a) {
					okc = true
				}
			}
			// calls of module functions in the condition (filters) are not allowed
			if !okc {
				return "the recursive call is conditional on " + cs + ": some entries are not visited"
			}
		}
	}
	return ""
}

// ruleWalkLeaf: the leaf arm of getLeafNodes appends exactly one LeafNode{path, node}.
func ruleWalkLeaf(p *Prog, r *Report) {
	const rule = "WALK.total"
	fn := p.Fn("mxj.getLeafNodes")
	if fn == nil {
		r.Anchor(rule, "mxj.getLeafNodes")
		return
	}
	n := p.Name(fn)
	var lp *ssa.Parameter
	for _, prm := range fn.Params {
		if _, ok := prm.Type().Underlying().(*types.Pointer); ok {
			lp = prm
		}
	}
	var node *ssa.Parameter
	for _, prm := range fn.Params {
		if isEmptyIface(prm.Type()) {
			node = prm
		}
	}
	if node == nil {
		r.Unknown(rule, n, "leaf arm", p.Pos(fn.Pos()), "parameters not recognised")
		return
	}
	// the result list: written through a pointer parameter, or passed in as a slice, appended to and returned
	var st ssa.Instruction
	var ap *ssa.Call
	if lp != nil {
		var stores []*ssa.Store
		for _, ref := range *lp.Referrers() {
			if s0, ok := ref.(*ssa.Store); ok && s0.Addr == ssa.Value(lp) {
				stores = append(stores, s0)
			}
		}
		if len(stores) != 1 {
			r.Bad(rule, n, "leaf arm appends one LeafNode", p.Pos(fn.Pos()), fmt.Sprintf("%d appends to the result list", len(stores)))
			return
		}
		st = stores[0]
		ap, _ = stores[0].Val.(*ssa.Call)
	} else {
		var resT types.Type
		if fn.Signature.Results().Len() == 1 {
			resT = fn.Signature.Results().At(0).Type()
		}
		var apps []*ssa.Call
		eachInstr(fn, func(b *ssa.BasicBlock, in ssa.Instruction) {
			if c, ok := in.(*ssa.Call); ok && resT != nil {
				if bi, ok := c.Call.Value.(*ssa.Builtin); ok && bi.Name() == "append" && types.Identical(c.Type(), resT) {
					apps = append(apps, c)
				}
			}
		})
		if resT == nil {
			r.Unknown(rule, n, "leaf arm", p.Pos(fn.Pos()), "parameters not recognised")
			return
		}
		if len(apps) != 1 {
			r.Bad(rule, n, "leaf arm appends one LeafNode", p.Pos(fn.Pos()), fmt.Sprintf("%d appends to the result list", len(apps)))
			return
		}
		st, ap = apps[0], apps[0]
	}
	if ap == nil || !appendsExactlyOne(ap) {
		r.Bad(rule, n, "leaf arm appends one LeafNode", p.Pos(st.Pos()), "not an append of exactly one element")
		return
	}
	// the appended struct's Value field is the node parameter
	bs := backwardSlice(fn, ap.Call.Args[1])
	if !bs[node] {
		r.Bad(rule, n, "leaf value is the node", p.Pos(st.Pos()), "the LeafNode does not carry the node being visited")
	} else {
		r.OK(rule, n, "leaf value is the node", p.Pos(st.Pos()), "LeafNode built from the current path and node")
	}
	// the append is on the path where node is neither a map nor a list: dominated by both false edges
	falseMap, falseList := false, false
	for _, g := range dominatingGuards(st.Block()) {
		ng := normGuard(g)
		if ex, ok := ng.Cond.(*ssa.Extract); ok && ex.Index == 1 && !ng.Pol {
			if ta, ok := ex.Tuple.(*ssa.TypeAssert); ok && ta.X == ssa.Value(node) {
				if isMapShaped(ta.AssertedType) {
					falseMap = true
				}
				if _, isSl := ta.AssertedType.Underlying().(*types.Slice); isSl {
					falseList = true
				}
			}
		}
	}
	if falseMap && falseList {
		r.OK(rule, n, "leaf arm appends one LeafNode", p.Pos(st.Pos()), "exactly one append, on the arm where the node is neither a map nor a list, outside any loop")
	} else {
		r.Bad(rule, n, "leaf arm appends one LeafNode", p.Pos(st.Pos()), "the append is not confined to the scalar arm of the type switch")
	}
	if reachableFromSuccs(st.Block())[st.Block()] {
		r.Bad(rule, n, "leaf append not repeated", p.Pos(st.Pos()), "the append sits in a loop")
	}
}

// ---- PAIR.count (standalone obligations for the query APIs) -----------------------------------------------------

func rulePairCount(p *Prog, r *Report, names []string) {
	const rule = "PAIR.count"
	for _, n := range names {
		fn := p.Fn(n)
		if fn == nil {
			r.Anchor(rule, n)
			continue
		}
		found := false
		eachInstr(fn, func(b *ssa.BasicBlock, in ssa.Instruction) {
			sl, ok := in.(*ssa.Slice)
			if !ok || sl.Low != nil || sl.High == nil {
				return
			}
			lr, ok := sl.X.(*ssa.UnOp)
			if !ok {
				return
			}
			retA, ok := lr.X.(*ssa.Alloc)
			if !ok {
				return
			}
			lc, ok := sl.High.(*ssa.UnOp)
			if !ok {
				return
			}
			cntA, ok := lc.X.(*ssa.Alloc)
			if !ok {
				return
			}
			found = true
			okp, why := p.pairCount(fn, retA, cntA)
			if okp {
				r.OK(rule, n, "result is ret[:cnt] with cnt == len(ret)", p.Pos(sl.Pos()), why)
			} else {
				r.Bad(rule, n, "result is ret[:cnt] with cnt == len(ret)", p.Pos(sl.Pos()), why)
			}
			// the returned value is that slice
			okRet := false
			eachInstr(fn, func(b2 *ssa.BasicBlock, i2 ssa.Instruction) {
				if ret, ok := i2.(*ssa.Return); ok && ret.Results[0] == ssa.Value(sl) {
					okRet = true
				}
			})
			if okRet {
				r.OK(rule, n, "returns the counted prefix", p.Pos(sl.Pos()), "")
			} else {
				r.Bad(rule, n, "returns the counted prefix", p.Pos(sl.Pos()), "the API does not return ret[:cnt]")
			}
		})
		if !found {
			// no counted prefix: the API may return the accumulated slice itself (its length is what append made it)
			okDirect := false
			eachInstr(fn, func(b *ssa.BasicBlock, in ssa.Instruction) {
				ret, ok := in.(*ssa.Return)
				if !ok || len(ret.Results) == 0 {
					return
				}
				if u, ok := ret.Results[0].(*ssa.UnOp); ok {
					if a, ok := u.X.(*ssa.Alloc); ok {
						// the variable's address is handed to a module walker
						for _, ref := range *a.Referrers() {
							if ci, ok := ref.(ssa.CallInstruction); ok {
								if g := staticCallee(ci.Common()); g != nil && p.InModule(g) {
									okDirect = true
								}
							}
						}
					}
				}
			})
			if okDirect {
				r.OK(rule, n, "result is the accumulated slice", p.Pos(fn.Pos()), "the API returns the slice the walker appended to; no separate counter")
			} else {
				r.Bad(rule, n, "result is ret[:cnt] with cnt == len(ret)", p.Pos(fn.Pos()), "neither the counted-prefix idiom nor a direct return of the accumulated slice was found")
			}
		}
	}
}

// ---- PAIR.update ---------------------------------------------------------------------------------------------------

func rulePairUpdate(p *Prog, r *Report) {
	const rule = "PAIR.update"
	fn := p.Fn("mxj.updateValue")
	if fn == nil {
		r.Anchor(rule, "mxj.updateValue")
		return
	}
	n := p.Name(fn)
	cz := p.canonFor(fn)
	var keyP, keys0P, valP, cntP *ssa.Parameter
	for _, prm := range fn.Params {
		switch prm.Name() {
		case "key":
			keyP = prm
		case "keys0":
			keys0P = prm
		case "value":
			valP = prm
		case "cnt":
			cntP = prm
		}
	}
	if keyP == nil || keys0P == nil || valP == nil || cntP == nil {
		// fall back on types: string, interface{}, interface{}, string, map, *int
		var strs []*ssa.Parameter
		for _, prm := range fn.Params {
			if isStringType(prm.Type()) {
				strs = append(strs, prm)
			}
			if pt, ok := prm.Type().Underlying().(*types.Pointer); ok && isIntType(pt.Elem()) {
				cntP = prm
			}
		}
		if len(strs) == 2 {
			keyP, keys0P = strs[0], strs[1]
		}
		ifs := paramIndexByType(fn, isEmptyIface)
		if len(ifs) >= 1 {
			valP = fn.Params[ifs[0]]
		}
	}
	if keyP == nil || keys0P == nil || valP == nil || cntP == nil {
		r.Unknown(rule, n, "parameters", p.Pos(fn.Pos()), "key / value / last-segment / counter parameters not recognised")
		return
	}
	ord := newOrdinals()
	events := map[*ssa.BasicBlock]int{}
	var listStores []*ssa.MapUpdate
	for _, in := range instrsByPos(fn) {
		switch x := in.(type) {
		case *ssa.MapUpdate:
			construct := ord.key(n, "map write")
			// key
			keyOK := x.Key == ssa.Value(keyP)
			if x.Key == ssa.Value(keys0P) {
				for _, g := range dominatingGuards(x.Block()) {
					ng := normGuard(g)
					if bo, ok := ng.Cond.(*ssa.BinOp); ok && (bo.Op == token.EQL) == ng.Pol && (bo.Op == token.EQL || bo.Op == token.NEQ) {
						if (bo.X == ssa.Value(keyP) && bo.Y == ssa.Value(keys0P)) || (bo.Y == ssa.Value(keyP) && bo.X == ssa.Value(keys0P)) {
							keyOK = true
						}
					}
				}
			}
			if keyOK {
				r.OK(rule, n, construct+": key", p.Pos(x.Pos()), "written under the update key (or the last path segment tested equal to it)")
			} else {
				r.Bad(rule, n, construct+": key", p.Pos(x.Pos()), "an entry other than the one named by the new value's key is written ("+cz.of(x.Key)+")")
			}
			// an entry exists under the written key: the update replaces values, it never creates entries
			if why := entryPresent(x); why != "" {
				r.OK(rule, n, construct+": replaces an existing entry", p.Pos(x.Pos()), why)
			} else {
				r.Bad(rule, n, construct+": replaces an existing entry", p.Pos(x.Pos()), "the entry is written without a dominating test that the node has the key (a comma-ok lookup, or a successful type test of the looked-up value): where the key is absent an entry is created and counted as a replacement")
			}
			// value
			if x.Value == ssa.Value(valP) {
				events[x.Block()]++
				r.OK(rule, n, construct+": value", p.Pos(x.Pos()), "the new value")
				// the sub-key conditions are evaluated on the node that is written (or on the node holding the written entry)
				tested := false
				var testedNodes []string
				for _, g := range dominatingGuards(x.Block()) {
					ng := normGuard(g)
					c, isCall := ng.Cond.(*ssa.Call)
					if !isCall || !ng.Pol {
						continue
					}
					if callee := staticCallee(&c.Call); callee == nil || p.Name(callee) != "mxj.hasSubKeys" {
						continue
					}
					testedNodes = append(testedNodes, cz.of(nodeRoot(c.Call.Args[0])))
					if nodeRoot(c.Call.Args[0]) == nodeRoot(x.Map) {
						tested = true
					}
				}
				// the node written is one the path addresses: when the update key is not the path's last segment, the node is reached
				// through that segment (m[keys0], or a member of the list found there) — not the node the last segment is looked up in
				if x.Key == ssa.Value(keyP) {
					underEq := false
					for _, g := range dominatingGuards(x.Block()) {
						ng := normGuard(g)
						if bo, ok := ng.Cond.(*ssa.BinOp); ok && (bo.Op == token.EQL || bo.Op == token.NEQ) && (bo.Op == token.EQL) == ng.Pol {
							if (bo.X == ssa.Value(keyP) && bo.Y == ssa.Value(keys0P)) || (bo.Y == ssa.Value(keyP) && bo.X == ssa.Value(keys0P)) {
								underEq = true
							}
						}
					}
					viaLast := false
					for v := range backwardSlice(fn, nodeRoot(x.Map)) {
						if lk, ok := v.(*ssa.Lookup); ok && lk.Index == ssa.Value(keys0P) {
							viaLast = true
						}
					}
					if underEq || viaLast {
						r.OK(rule, n, construct+": node addressed by the path", p.Pos(x.Pos()), "the written node is reached through the last path segment (or the update key is that segment)")
					} else {
						r.Bad(rule, n, construct+": node addressed by the path", p.Pos(x.Pos()), "the update key is not known to be the path's last segment here, yet the entry is written in a node that is not reached through that segment: the value is replaced in the node the path passes through, not in the node it addresses")
					}
				}
				if tested {
					r.OK(rule, n, construct+": sub-keys tested on the written node", p.Pos(x.Pos()), "hasSubKeys is evaluated on "+cz.of(nodeRoot(x.Map)))
				} else {
					r.Bad(rule, n, construct+": sub-keys tested on the written node", p.Pos(x.Pos()), "the entry is written in "+cz.of(nodeRoot(x.Map))+" but the sub-key conditions that guard the write are evaluated on "+strings.Join(testedNodes, ", ")+" (or not at all)")
				}
			} else if mi, ok := x.Value.(*ssa.MakeInterface); ok && p.rebuiltList(fn, mi.X, valP) {
				listStores = append(listStores, x)
				r.OK(rule, n, construct+": value", p.Pos(x.Pos()), "a rebuilt list whose members are the old members or the new value")
			} else {
				r.Bad(rule, n, construct+": value", p.Pos(x.Pos()), "the stored value is neither the new value nor a list rebuilt from old members and the new value")
			}
		case *ssa.Call:
			if bi, ok := x.Call.Value.(*ssa.Builtin); ok && bi.Name() == "append" && len(x.Call.Args) == 2 {
				// append(nv, value) is a replacement event
				if sl, ok := x.Call.Args[1].(*ssa.Slice); ok {
					if a, ok := sl.X.(*ssa.Alloc); ok {
						for _, ref := range *a.Referrers() {
							if ia, ok := ref.(*ssa.IndexAddr); ok {
								for _, r2 := range *ia.Referrers() {
									if st, ok := r2.(*ssa.Store); ok && st.Val == ssa.Value(valP) {
										events[x.Block()]++
									}
									// the member was replaced by the new value before the append: the replacement happens on the edge that
									// carries the new value into the phi
									if st, ok := r2.(*ssa.Store); ok {
										if ph, isPhi := st.Val.(*ssa.Phi); isPhi {
											for i, e := range ph.Edges {
												if e == ssa.Value(valP) {
													events[ph.Block().Preds[i]]++
												}
											}
										}
									}
								}
							}
						}
					}
				}
			}
		}
	}
	// the two addressing forms are not interchangeable: a path that does not end in the update key addresses the key entry of the
	// node the path yields, under the sub-keys of that node. Re-entering the function with the update key as the last segment
	// applies the rules of the other form one level down, including its fall-back to the members of a list found under the key.
	for _, c := range selfCalls(fn) {
		k0 := -1
		for i, prm := range fn.Params {
			if prm == keys0P {
				k0 = i
			}
		}
		if k0 < 0 || k0 >= len(c.Call.Args) {
			continue
		}
		construct := ord.key(n, "recursion keeps the addressing form")
		if c.Call.Args[k0] == ssa.Value(keyP) {
			r.Bad(rule, n, construct, p.Pos(c.Pos()), "the function calls itself with the update key as the last path segment: the node is then treated as if the path had ended in the key, and list members below it are replaced although the addressed node fails the sub-key conditions")
		} else {
			r.OK(rule, n, construct, p.Pos(c.Pos()), "the last-segment argument of the self call is not the update key")
		}
	}
	// pairing: per block, replacement events == counter increments
	incs := map[*ssa.BasicBlock]int{}
	for _, b := range fn.Blocks {
		incs[b] = countIncrements(b, cntP)
	}
	okPair := true
	for _, b := range fn.Blocks {
		if events[b] != incs[b] {
			okPair = false
			r.Bad(rule, n, "count equals replacements", p.Pos(firstPos(b)), fmt.Sprintf("block %d performs %d replacements but increments the counter %d times", b.Index, events[b], incs[b]))
		}
	}
	if okPair {
		r.OK(rule, n, "count equals replacements", p.Pos(fn.Pos()), "in every block the number of counter increments equals the number of values replaced")
	}
	// every store to *cnt is an increment
	for _, ref := range *cntP.Referrers() {
		if st, ok := ref.(*ssa.Store); ok && st.Addr == ssa.Value(cntP) && !isIncrementOf(st.Val, cntP) {
			r.Bad(rule, n, "counter only incremented", p.Pos(st.Pos()), "the counter is written other than by ++")
		}
	}
	// the rebuilt list is stored only if something was replaced: guarded by a flag that is set only in blocks with an increment
	for _, mu := range listStores {
		ok := false
		for _, g := range dominatingGuards(mu.Block()) {
			ng := normGuard(g)
			if ph, isPhi := ng.Cond.(*ssa.Phi); isPhi && ng.Pol && isBoolType(ph.Type()) {
				if flagSetOnlyWithIncrement(ph, incs, map[*ssa.Phi]bool{}) {
					ok = true
				}
			}
		}
		if ok {
			r.OK(rule, n, "zero count means no write (list form)", p.Pos(mu.Pos()), "the rebuilt list is stored only under a flag that is set together with a counter increment")
		} else {
			r.Bad(rule, n, "zero count means no write (list form)", p.Pos(mu.Pos()), "the list entry may be overwritten although nothing was replaced")
		}
	}
}

// entryPresent: the map write is dominated by evidence that the map already has the key: the ok of a comma-ok lookup of the same
// key in the same node, or a successful comma-ok type assertion of the value looked up there (nil has no dynamic type).
func entryPresent(mu *ssa.MapUpdate) string {
	fn := mu.Parent()
	root := nodeRoot(mu.Map)
	guards := dominatingGuards(mu.Block())
	holds := func(v ssa.Value) bool {
		for _, g := range guards {
			ng := normGuard(g)
			if ng.Cond == v && ng.Pol {
				return true
			}
		}
		return false
	}
	why := ""
	eachInstr(fn, func(b *ssa.BasicBlock, in ssa.Instruction) {
		lk, ok := in.(*ssa.Lookup)
		if !ok || lk.Index != mu.Key || nodeRoot(lk.X) != root {
			return
		}
		if _, isMap := lk.X.Type().Underlying().(*types.Map); !isMap {
			return
		}
		var vals []ssa.Value
		if lk.CommaOk {
			for _, ref := range *lk.Referrers() {
				if ex, ok := ref.(*ssa.Extract); ok {
					if ex.Index == 1 && holds(ex) {
						why = "dominated by the ok of a comma-ok lookup of the key in the same node"
					}
					if ex.Index == 0 {
						vals = append(vals, ex)
					}
				}
			}
		} else {
			vals = append(vals, lk)
		}
		for _, v := range vals {
			for _, ref := range *v.Referrers() {
				ta, ok := ref.(*ssa.TypeAssert)
				if !ok || !ta.CommaOk {
					continue
				}
				for _, r2 := range *ta.Referrers() {
					if ex, ok := r2.(*ssa.Extract); ok && ex.Index == 1 && holds(ex) {
						why = "dominated by a successful type test of the value stored under the key (an absent key yields nil, which has no type)"
					}
				}
			}
		}
	})
	// the key ranges over the node's own keys
	if ex, ok := mu.Key.(*ssa.Extract); ok && ex.Index == 1 {
		if nx, ok := ex.Tuple.(*ssa.Next); ok {
			if rg, ok := nx.Iter.(*ssa.Range); ok && nodeRoot(rg.X) == root {
				why = "the key is drawn from a range over the node itself"
			}
		}
	}
	return why
}

// nodeRoot strips the assertions and interface conversions between a Map node and the map value the code works with.
func nodeRoot(v ssa.Value) ssa.Value {
	for {
		switch x := v.(type) {
		case *ssa.TypeAssert:
			v = x.X
		case *ssa.MakeInterface:
			v = x.X
		case *ssa.ChangeType:
			v = x.X
		case *ssa.ChangeInterface:
			v = x.X
		case *ssa.Extract:
			if ta, ok := x.Tuple.(*ssa.TypeAssert); ok && x.Index == 0 {
				v = ta.X
				continue
			}
			return v
		default:
			return v
		}
	}
}

// flagSetOnlyWithIncrement: every `true` that can reach the flag comes over an edge from a block that increments the counter.
func flagSetOnlyWithIncrement(ph *ssa.Phi, incs map[*ssa.BasicBlock]int, seen map[*ssa.Phi]bool) bool {
	if seen[ph] {
		return true
	}
	seen[ph] = true
	for i, e := range ph.Edges {
		if b, ok := constBool(e); ok {
			if b && incs[ph.Block().Preds[i]] == 0 {
				// the assignment may sit in a predecessor chain: accept if some dominator of the edge source within the loop increments
				src := ph.Block().Preds[i]
				found := false
				for d := src; d != nil; d = d.Idom() {
					if incs[d] > 0 {
						found = true
						break
					}
					if d == ph.Block() {
						break
					}
				}
				if !found {
					return false
				}
			}
			continue
		}
		if p2, ok := e.(*ssa.Phi); ok {
			if !flagSetOnlyWithIncrement(p2, incs, seen) {
				return false
			}
			continue
		}
		return false
	}
	return true
}

// rebuiltList: v is a slice assembled only from appends of the new value and of members of an existing list.
func (p *Prog) rebuiltList(fn *ssa.Function, v ssa.Value, valP ssa.Value) bool {
	for x := range backwardSlice(fn, v) {
		switch y := x.(type) {
		case *ssa.Call:
			if bi, ok := y.Call.Value.(*ssa.Builtin); ok && (bi.Name() == "append" || bi.Name() == "len") {
				continue
			}
			if g := staticCallee(&y.Call); g != nil && p.Name(g) == "mxj.hasSubKeys" {
				continue
			}
			return false
		case *ssa.Parameter:
			// any parameter may be involved through the range source; the members must not be anything else than value or old members
			continue
		}
	}
	// appended elements: stores into the 1-element argument arrays
	ok := true
	eachInstr(fn, func(b *ssa.BasicBlock, in ssa.Instruction) {
		c, isCall := in.(*ssa.Call)
		if !isCall {
			return
		}
		bi, isB := c.Call.Value.(*ssa.Builtin)
		if !isB || bi.Name() != "append" || !backwardSlice(fn, v)[c] {
			return
		}
		sl, isSl := c.Call.Args[1].(*ssa.Slice)
		if !isSl {
			ok = false
			return
		}
		a, isA := sl.X.(*ssa.Alloc)
		if !isA {
			ok = false
			return
		}
		for _, ref := range *a.Referrers() {
			if ia, isIA := ref.(*ssa.IndexAddr); isIA {
				for _, r2 := range *ia.Referrers() {
					if st, isSt := r2.(*ssa.Store); isSt {
						member := func(v ssa.Value) bool {
							if v == valP {
								return true
							}
							// an old member: element of a ranged list
							if u, isU := v.(*ssa.UnOp); isU {
								if ia2, isIA2 := u.X.(*ssa.IndexAddr); isIA2 && isRangeIndex(ia2.Index) {
									return true
								}
							}
							return false
						}
						if member(st.Val) {
							continue
						}
						// `if cond { v = value }; nv = append(nv, v)`: the old member or the new value, chosen before the append
						if ph, isPhi := st.Val.(*ssa.Phi); isPhi {
							all := len(ph.Edges) > 0
							for _, e := range ph.Edges {
								if !member(e) {
									all = false
								}
							}
							if all {
								continue
							}
						}
						ok = false
					}
				}
			}
		}
	})
	return ok
}

// ---- PAIR.atomic ---------------------------------------------------------------------------------------------------

type mapWrite struct {
	in   ssa.Instruction
	fn   *ssa.Function
	kind string // update | delete
}

// writesOf: map writes of fn and of the unexported module functions it calls (depth-bounded).
func (p *Prog) writesOf(fn *ssa.Function, depth int, seen map[*ssa.Function]bool) []mapWrite {
	if seen[fn] {
		return nil
	}
	seen[fn] = true
	var out []mapWrite
	eachInstr(fn, func(b *ssa.BasicBlock, in ssa.Instruction) {
		switch x := in.(type) {
		case *ssa.MapUpdate:
			out = append(out, mapWrite{in, fn, "update"})
		case ssa.CallInstruction:
			c := x.Common()
			if bi, ok := c.Value.(*ssa.Builtin); ok && bi.Name() == "delete" {
				out = append(out, mapWrite{in, fn, "delete"})
				return
			}
			if g := staticCallee(c); g != nil && p.InModule(g) && !p.Exported(g) && depth > 0 {
				out = append(out, p.writesOf(g, depth-1, seen)...)
			}
		}
	})
	return out
}

func rulePairAtomic(p *Prog, r *Report) {
	const rule = "PAIR.atomic"
	type spec struct {
		fn      string
		updates int
		deletes int
	}
	for _, sp := range []spec{{"mxj.Map.SetValueForPath", 1, 0}, {"mxj.Map.Remove", 0, 1}, {"mxj.Map.RenameKey", 1, 1}} {
		fn := p.Fn(sp.fn)
		if fn == nil {
			r.Anchor(rule, sp.fn)
			continue
		}
		ws := p.writesOf(fn, 2, map[*ssa.Function]bool{})
		nu, nd := 0, 0
		for _, w := range ws {
			if w.kind == "update" {
				nu++
			} else {
				nd++
			}
		}
		if nu == sp.updates && nd == sp.deletes {
			r.OK(rule, sp.fn, "exactly the documented writes", p.Pos(fn.Pos()), fmt.Sprintf("%d map assignment(s) and %d delete(s)", nu, nd))
		} else {
			r.Bad(rule, sp.fn, "exactly the documented writes", p.Pos(fn.Pos()), fmt.Sprintf("expected %d map assignment(s) and %d delete(s), found %d and %d: more than one entry is touched", sp.updates, sp.deletes, nu, nd))
		}
		// no write inside a loop
		for _, w := range ws {
			if reachableFromSuccs(w.in.Block())[w.in.Block()] {
				r.Bad(rule, sp.fn, "write not repeated", p.Pos(w.in.Pos()), "a map write sits inside a loop")
			}
		}
		// all fallible checks precede all writes: after a write no return carries a possibly non-nil error
		okAtomic := true
		for _, w := range ws {
			after := reachableAfter(w.in)
			eachInstr(w.fn, func(b *ssa.BasicBlock, in ssa.Instruction) {
				ret, ok := in.(*ssa.Return)
				if !ok || !after[in] {
					return
				}
				for _, op := range ret.Results {
					if isErrorType(op.Type()) && !isNilConst(op) {
						// the same error value was tested nil on the way to the write ("if err == nil { write }; return err")
						knownNil := false
						for _, g := range expandAndGuards(dominatingGuards(w.in.Block())) {
							g = normGuard(g)
							bo, ok := g.Cond.(*ssa.BinOp)
							if !ok || (bo.Op != token.EQL && bo.Op != token.NEQ) {
								continue
							}
							if !((bo.X == op && isNilConst(bo.Y)) || (bo.Y == op && isNilConst(bo.X))) {
								continue
							}
							if (bo.Op == token.EQL) == g.Pol {
								knownNil = true
							}
						}
						if knownNil {
							continue
						}
						okAtomic = false
						r.Bad(rule, sp.fn, "no failure after a write", p.Pos(ret.Pos()), "an error can be returned after the Map was already modified (in "+p.Name(w.fn)+")")
					}
				}
			})
			// in the caller, errors of steps after the writing call: the writing call must be the last fallible step
		}
		if okAtomic {
			r.OK(rule, sp.fn, "no failure after a write", p.Pos(fn.Pos()), "every return reachable after a map write returns a nil error")
		}
		// shapes
		switch sp.fn {
		case "mxj.Map.SetValueForPath":
			for _, w := range ws {
				mu := w.in.(*ssa.MapUpdate)
				val := w.fn.Params[1]
				path := w.fn.Params[2]
				if mu.Value == ssa.Value(val) && backwardSlice(w.fn, mu.Key)[path] {
					r.OK(rule, sp.fn, "stores the value under the last path segment", p.Pos(mu.Pos()), "value operand is the value argument, key derives from the path argument")
				} else {
					r.Bad(rule, sp.fn, "stores the value under the last path segment", p.Pos(mu.Pos()), "the assignment does not store the given value under a key computed from the path")
				}
			}
		case "mxj.Map.RenameKey":
			var mu *ssa.MapUpdate
			var del ssa.CallInstruction
			var wf *ssa.Function
			for _, w := range ws {
				if w.kind == "update" {
					mu, wf = w.in.(*ssa.MapUpdate), w.fn
				} else {
					del = w.in.(ssa.CallInstruction)
				}
			}
			if mu == nil || del == nil || del.Parent() != wf {
				continue
			}
			cz := p.canonFor(wf)
			lk := cz.of(mu.Value)
			dm, dk := del.Common().Args[0], del.Common().Args[1]
			moved := strings.Contains(lk, "lookup("+cz.of(mu.Map)+","+cz.of(dk)+")")
			sameMap := cz.of(dm) == cz.of(mu.Map)
			ordered := mu.Block() == del.Block() && indexIn(mu) < indexIn(del.(ssa.Instruction)) || mu.Block() != del.Block() && mu.Block().Dominates(del.Block())
			if moved && sameMap && ordered {
				r.OK(rule, sp.fn, "value moved unchanged, old key deleted afterwards", p.Pos(mu.Pos()), "m[new] = m[old]; delete(m, old) on the same parent map")
			} else {
				r.Bad(rule, sp.fn, "value moved unchanged, old key deleted afterwards", p.Pos(mu.Pos()), fmt.Sprintf("movedValue=%v sameParent=%v assignBeforeDelete=%v", moved, sameMap, ordered))
			}
			// the collision test is a presence test on the new name that precedes the write
			p.renameCollision(r, rule, fn, wf, mu)
		}
	}
}

// renameCollision: before the write there is a presence test for the new name (Exists on a path ending in it, or a comma-ok lookup)
// whose positive outcome returns an error.
func (p *Prog) renameCollision(r *Report, rule string, api, wf *ssa.Function, mu *ssa.MapUpdate) {
	newName := api.Params[2]
	found := false
	for _, f := range []*ssa.Function{api, wf} {
		eachInstr(f, func(b *ssa.BasicBlock, in ssa.Instruction) {
			switch x := in.(type) {
			case *ssa.Call:
				if g := staticCallee(&x.Call); g != nil && (p.Name(g) == "mxj.Map.Exists" || p.Name(g) == "mxj.Map.ValuesForPath") {
					for _, a := range x.Call.Args {
						if f == api && backwardSlice(f, a)[newName] {
							found = true
						}
					}
				}
			case *ssa.Lookup:
				if x.CommaOk {
					var nn ssa.Value = newName
					if f != api {
						// parameter of the helper that receives newName
						for _, site := range p.CG().sites[f] {
							for i, a := range site.Common().Args {
								if a == ssa.Value(newName) && i < len(f.Params) {
									nn = f.Params[i]
								}
							}
						}
					}
					if x.Index == nn {
						found = true
					}
				}
			}
		})
	}
	// a sibling path assembled as parent + "." + newName must also be right when the parent path is empty (top level)
	eachInstr(api, func(b *ssa.BasicBlock, in ssa.Instruction) {
		c, ok := in.(*ssa.Call)
		if !ok {
			return
		}
		g := staticCallee(&c.Call)
		if g == nil || (p.Name(g) != "mxj.Map.Exists" && p.Name(g) != "mxj.Map.ValuesForPath") {
			return
		}
		for _, a := range c.Call.Args {
			if !isStringType(a.Type()) || !backwardSlice(api, a)[newName] {
				continue
			}
			// find a concatenation left + "." … in the function itself or in an unexported helper that assembles the sibling path
			type catSite struct {
				f  *ssa.Function
				bo *ssa.BinOp
			}
			var cats []catSite
			for v := range backwardSlice(api, a) {
				if bo, ok := v.(*ssa.BinOp); ok && bo.Op == token.ADD {
					if s, isS := constString(bo.Y); isS && s == "." {
						cats = append(cats, catSite{api, bo})
					}
				}
				if hc, ok := v.(*ssa.Call); ok {
					if h := staticCallee(&hc.Call); h != nil && p.InModule(h) && !p.Exported(h) && len(h.Blocks) > 0 {
						takesName := false
						for _, ha := range hc.Call.Args {
							if ha == ssa.Value(newName) {
								takesName = true
							}
						}
						if takesName {
							eachInstr(h, func(b2 *ssa.BasicBlock, i2 ssa.Instruction) {
								if bo, ok := i2.(*ssa.BinOp); ok && bo.Op == token.ADD {
									if s, isS := constString(bo.Y); isS && s == "." {
										cats = append(cats, catSite{h, bo})
									}
								}
							})
						}
					}
				}
			}
			for _, ct := range cats {
				bo := ct.bo
				z := p.zoneFlowOf(ct.f, nil)
				lt := z.lenTerm(bo.X)
				if z.leq(bo, zterm{0, 1, true}, lt) {
					r.OK(rule, p.Name(api), "sibling path well formed at top level", p.Pos(bo.Pos()), "the parent path is known non-empty where it is joined with '.'")
				} else {
					r.Bad(rule, p.Name(api), "sibling path well formed at top level", p.Pos(bo.Pos()), "the parent path may be empty where it is joined with '.': for a top-level key the collision test asks for \".newName\" and never finds the existing sibling")
				}
			}
		}
	})
	// the test is made on every path to the write: its block dominates the call that performs the write (or the write itself)
	if wf != api {
		var testBlks []*ssa.BasicBlock
		eachInstr(api, func(b *ssa.BasicBlock, in ssa.Instruction) {
			if c, ok := in.(*ssa.Call); ok {
				if g := staticCallee(&c.Call); g != nil && (p.Name(g) == "mxj.Map.Exists" || p.Name(g) == "mxj.Map.ValuesForPath") {
					for _, a := range c.Call.Args {
						if isStringType(a.Type()) && backwardSlice(api, a)[newName] {
							testBlks = append(testBlks, b)
						}
					}
				}
			}
		})
		eachInstr(api, func(b *ssa.BasicBlock, in ssa.Instruction) {
			c, ok := in.(*ssa.Call)
			if !ok || len(testBlks) == 0 {
				return
			}
			g := staticCallee(&c.Call)
			if g == nil || !(g == wf || p.Reach(g)[wf]) || !p.InModule(g) || p.Exported(g) {
				return
			}
			dom := false
			for _, tb := range testBlks {
				if tb.Dominates(b) {
					dom = true
				}
			}
			if dom {
				r.OK(rule, p.Name(api), "collision test on every path to the write", p.Pos(c.Pos()), "the block of the presence test dominates the call that writes")
			} else {
				r.Bad(rule, p.Name(api), "collision test on every path to the write", p.Pos(c.Pos()), "the write is reachable without the presence test of the new name having been made: on that path an existing entry (the renamed key itself, when the new name equals the old one) is overwritten and then deleted")
			}
		})
	}
	if found {
		r.OK(rule, p.Name(api), "collision test is a presence test", p.Pos(api.Pos()), "the new name is looked up with Exists or a comma-ok lookup before the write")
	} else {
		r.Bad(rule, p.Name(api), "collision test is a presence test", p.Pos(api.Pos()), "no presence test (Exists / comma-ok lookup) of the new name precedes the write: an existing sibling (for instance one holding null) can be overwritten")
	}
}

// ruleWalkParent: the map-only walker behind Remove/RenameKey returns a parent map only when, by position, exactly the
// last path segment remains (a comparison involving len(keys)), never because a segment merely has the same name as the last one.
func ruleWalkParent(p *Prog, r *Report) {
	const rule = "WALK.progress"
	fn := p.Fn("mxj.prevValueByPath")
	if fn == nil {
		// renamed or re-cut: the parent walker is the unexported function both RenameKey and Remove reach that returns
		// (map[string]interface{}, error) and walks (recursion or a loop)
		ren, rem := p.Fn("mxj.Map.RenameKey"), p.Fn("mxj.Map.Remove")
		if ren != nil && rem != nil {
			r1, r2 := p.Reach(ren), p.Reach(rem)
			var cands []*ssa.Function
			for f := range r1 {
				if !r2[f] || !p.InModule(f) || p.Exported(f) || len(f.Blocks) == 0 {
					continue
				}
				res := f.Signature.Results()
				if res.Len() != 2 || typeStr(res.At(0).Type()) != "map[string]interface{}" || !isErrorType(res.At(1).Type()) {
					continue
				}
				if len(selfCalls(f)) > 0 || hasCycle(f) {
					cands = append(cands, f)
				}
			}
			if len(cands) == 1 {
				fn = cands[0]
			}
		}
	}
	if fn == nil {
		r.Anchor(rule, "mxj.prevValueByPath")
		return
	}
	// keys: the split of the path parameter — in the walker itself, or made by a thin wrapper that hands it to the walker proper
	var keys ssa.Value
	findSplit := func(f *ssa.Function) *ssa.Call {
		var sp *ssa.Call
		eachInstr(f, func(b *ssa.BasicBlock, in ssa.Instruction) {
			if c, ok := in.(*ssa.Call); ok && isCallTo(&c.Call, "strings.Split") {
				if _, isP := c.Call.Args[0].(*ssa.Parameter); isP {
					sp = c
				}
			}
		})
		return sp
	}
	if sp := findSplit(fn); sp != nil {
		keys = sp
		// handed on to a module function that does the walking?
		for _, ref := range *sp.Referrers() {
			if c, ok := ref.(*ssa.Call); ok {
				if g := staticCallee(&c.Call); g != nil && g != fn && p.InModule(g) && len(g.Blocks) > 0 {
					for i, a := range c.Call.Args {
						if a == ssa.Value(sp) && i < len(g.Params) && len(selfCalls(g)) > 0 {
							fn = g
							keys = g.Params[i]
						}
					}
				}
			}
		}
	}
	if keys == nil {
		// the walker receives the path already split
		if ki := paramIndexByType(fn, isStringSlice); len(ki) == 1 {
			keys = fn.Params[ki[0]]
		}
	}
	n := p.Name(fn)
	cz := p.canonFor(fn)
	if keys == nil {
		r.Unknown(rule, n, "path split", p.Pos(fn.Pos()), "the path parameter is not split with strings.Split")
		return
	}
	lenKeys := "len(" + cz.of(keys) + ")"
	nRet := 0
	eachInstr(fn, func(b *ssa.BasicBlock, in ssa.Instruction) {
		ret, ok := in.(*ssa.Return)
		if !ok || isNilConst(ret.Results[0]) {
			return
		}
		if ex, ok := ret.Results[0].(*ssa.Extract); ok {
			if c, ok := ex.Tuple.(*ssa.Call); ok && staticCallee(&c.Call) == fn {
				// tail recursion: the rest of the path must be keys[1:]
				good := false
				for _, arg := range c.Call.Args {
					if !isStringType(arg.Type()) && !isStringSlice(arg.Type()) {
						continue
					}
					for v := range backwardSlice(fn, arg) {
						if sl, ok := v.(*ssa.Slice); ok && sl.X == keys && sl.High == nil && sl.Low != nil {
							if k, isK := constInt(sl.Low); isK && k == 1 {
								good = true
							}
						}
					}
				}
				nRet++
				if good {
					r.OK(rule, n, "recursion on the rest of the path", p.Pos(c.Pos()), "the recursive call receives keys[1:]")
				} else {
					r.Bad(rule, n, "recursion on the rest of the path", p.Pos(c.Pos()), "the recursive call does not receive the path minus its first segment")
				}
				return
			}
		}
		nRet++
		positional := false
		for _, g := range dominatingGuards(b) {
			ng := normGuard(g)
			bo, ok := ng.Cond.(*ssa.BinOp)
			if !ok || !isIntType(bo.X.Type()) {
				continue
			}
			cs := cz.of(bo)
			if strings.Contains(cs, lenKeys) && (bo.Op == token.EQL || bo.Op == token.NEQ) && (bo.Op == token.EQL) == ng.Pol {
				positional = true // len(keys) == 1, or i == len(keys)-1
			}
		}
		exhausted, early := false, ""
		if !positional {
			exhausted, early = p.returnedAfterExhaustion(fn, b, lenKeys)
		}
		if positional {
			r.OK(rule, n, "parent returned at the last segment by position", p.Pos(ret.Pos()), "the return is dominated by a comparison involving len(keys)")
		} else if exhausted {
			r.OK(rule, n, "parent returned at the last segment by position", p.Pos(ret.Pos()), "the return is taken only when the loop over all segments ran to its end: every early exit of the loop falsifies the flag that guards the return")
		} else if early != "" {
			r.Bad(rule, n, "parent returned at the last segment by position", p.Pos(ret.Pos()), "the loop over the path segments can be left early at "+early+" with the success flag still set: the map reached so far is returned as the parent although the walk did not reach the last segment (a value on the way is not a map)")
		} else {
			r.Bad(rule, n, "parent returned at the last segment by position", p.Pos(ret.Pos()), "a parent map is returned without a positional test that only the last segment remains (an earlier segment of the same name would end the walk)")
		}
	})
	if nRet == 0 {
		r.Bad(rule, n, "parent returned at the last segment by position", p.Pos(fn.Pos()), "the walker never returns a parent map")
	}
	// iterative form: the node walked is a loop-carried variable; every iteration that goes on must have moved it to the child
	// it looked up — an iteration that keeps the node (the child was not a map) would match the remaining segments against the
	// wrong map
	eachInstr(fn, func(b *ssa.BasicBlock, in ssa.Instruction) {
		ph, ok := in.(*ssa.Phi)
		if !ok || typeStr(ph.Type()) != "map[string]interface{}" {
			return
		}
		isHeader := false
		for _, pr := range b.Preds {
			if b.Dominates(pr) {
				isHeader = true
			}
		}
		if !isHeader {
			return
		}
		var canKeep func(v ssa.Value, seen map[ssa.Value]bool) bool
		canKeep = func(v ssa.Value, seen map[ssa.Value]bool) bool {
			if v == ssa.Value(ph) {
				return true
			}
			if seen[v] {
				return false
			}
			seen[v] = true
			if q, isPhi := v.(*ssa.Phi); isPhi {
				for _, e := range q.Edges {
					if canKeep(e, seen) {
						return true
					}
				}
			}
			return false
		}
		kept := false
		for i, pr := range b.Preds {
			if b.Dominates(pr) && canKeep(ph.Edges[i], map[ssa.Value]bool{}) {
				kept = true
			}
		}
		if kept {
			r.Bad(rule, n, "every continuing iteration descends", p.Pos(ph.Pos()), "the loop can go on to the next path segment with the node unchanged (the child looked up was not a map): the remaining segments are matched against the wrong map")
		} else {
			r.OK(rule, n, "every continuing iteration descends", p.Pos(ph.Pos()), "each back edge carries the child of the node walked")
		}
	})
}

// returnedAfterExhaustion: the block returns under a boolean flag (a phi where the exits of the loop over all path segments
// meet) and on every exit of that loop other than running out of segments the flag is known to have the value that forbids
// the return. Returns (true, "") when that holds, (false, position) for an early exit that leaves the flag possibly set.
func (p *Prog) returnedAfterExhaustion(fn *ssa.Function, rb *ssa.BasicBlock, lenKeys string) (bool, string) {
	cz := p.canonFor(fn)
	var hdr *ssa.BasicBlock
	exitIdx := -1
	for _, blk := range fn.Blocks {
		if len(blk.Instrs) == 0 {
			continue
		}
		ifi, ok := blk.Instrs[len(blk.Instrs)-1].(*ssa.If)
		if !ok || !strings.Contains(cz.of(ifi.Cond), lenKeys) {
			continue
		}
		isHeader := false
		for _, pr := range blk.Preds {
			if blk.Dominates(pr) {
				isHeader = true
			}
		}
		if !isHeader {
			continue
		}
		body := naturalLoop(blk)
		for si, sc := range blk.Succs {
			if !body[sc] {
				hdr, exitIdx = blk, si
			}
		}
	}
	if hdr == nil {
		return false, ""
	}
	early := ""
	for _, g := range dominatingGuards(rb) {
		ng := normGuard(g)
		ph, ok := ng.Cond.(*ssa.Phi)
		if !ok {
			continue
		}
		j := ph.Block()
		allOK := true
		for i, pb := range j.Preds {
			v := ph.Edges[i]
			can := true
			if c, isC := v.(*ssa.Const); isC && c.Value != nil {
				can = (c.Value.String() == "true") == ng.Pol
			} else {
				gs := dominatingGuards(pb)
				if len(pb.Instrs) > 0 {
					if ifi, isIf := pb.Instrs[len(pb.Instrs)-1].(*ssa.If); isIf {
						for si, sc := range pb.Succs {
							if sc == j {
								gs = append(gs, guard{ifi.Cond, si == 0})
							}
						}
					}
				}
				for _, g2 := range gs {
					n2 := normGuard(g2)
					if n2.Cond == v && n2.Pol != ng.Pol {
						can = false
					}
				}
			}
			if can && !(pb == hdr || edgeDominates(hdr, exitIdx, pb)) {
				allOK = false
				early = p.Pos(firstPos(pb))
			}
		}
		if allOK {
			return true, ""
		}
	}
	return false, early
}

// ruleWalkCollect: values are collected only from direct children of the node under inspection: the functions that append
// to the result on behalf of a walker are not recursive themselves; only the walker recurses.
func ruleWalkCollect(p *Prog, r *Report, walkers []string) {
	const rule = "WALK.collect"
	for _, wn := range walkers {
		w := p.Fn(wn)
		if w == nil {
			r.Anchor(rule, wn)
			continue
		}
		// module functions reachable from the walker that receive its result pointer
		var retIdx = -1
		for i, prm := range w.Params {
			if pt, ok := prm.Type().Underlying().(*types.Pointer); ok {
				if _, isSl := pt.Elem().Underlying().(*types.Slice); isSl {
					retIdx = i
				}
			}
		}
		if retIdx < 0 {
			r.Unknown(rule, wn, "result pointer", p.Pos(w.Pos()), "no result pointer parameter")
			continue
		}
		bad := ""
		seen := map[*ssa.Function]bool{w: true}
		work := []*ssa.Function{w}
		for len(work) > 0 {
			f := work[len(work)-1]
			work = work[:len(work)-1]
			eachInstr(f, func(b *ssa.BasicBlock, in ssa.Instruction) {
				c, ok := in.(*ssa.Call)
				if !ok {
					return
				}
				g := staticCallee(&c.Call)
				if g == nil || !p.InModule(g) {
					return
				}
				passes := false
				for _, a := range c.Call.Args {
					if pt, ok := a.Type().Underlying().(*types.Pointer); ok {
						if _, isSl := pt.Elem().Underlying().(*types.Slice); isSl {
							passes = true
						}
					}
				}
				if !passes {
					return
				}
				if g != w && (g == f || seen[g] && g != w) {
					if g == f {
						bad = p.Name(g) + " (called at " + p.Pos(c.Pos()) + ") collects into the result and calls itself"
					}
				}
				if !seen[g] {
					seen[g] = true
					work = append(work, g)
				}
			})
		}
		if bad == "" {
			r.OK(rule, wn, "collecting helpers are not recursive", p.Pos(w.Pos()), "only the walker itself recurses; values are taken from direct children of the visited node")
		} else {
			r.Bad(rule, wn, "collecting helpers are not recursive", p.Pos(w.Pos()), bad+": values from deeper levels are collected under a match at a shallower level (nested lists are flattened)")
		}
	}
}

// ruleShortestMetric: PathForKeyShortest compares paths by their number of dot-separated segments.
func ruleShortestMetric(p *Prog, r *Report, names []string) {
	const rule = "INFL.metric"
	for _, n := range names {
		fn := p.Fn(n)
		if fn == nil {
			r.Anchor(rule, n)
			continue
		}
		found := false
		ok := true
		why := ""
		eachInstr(fn, func(b *ssa.BasicBlock, in ssa.Instruction) {
			bo, isB := in.(*ssa.BinOp)
			if !isB || (bo.Op != token.LSS && bo.Op != token.GTR && bo.Op != token.LEQ && bo.Op != token.GEQ) || !isIntType(bo.X.Type()) {
				return
			}
			// comparisons inside the selection loop (not the loop bound i < len(paths))
			if !reachableFromSuccs(b)[b] {
				return
			}
			if isRangeLikeBound(bo) || !bo.Pos().IsValid() {
				return // the bound of a counting loop / of the index go/ssa generates for `range`
			}
			found = true
			for _, side := range []ssa.Value{bo.X, bo.Y} {
				viaSplit := false
				for v := range backwardSlice(fn, side) {
					if c, isC := v.(*ssa.Call); isC && isCallTo(&c.Call, "strings.Split") {
						if sep, isS := constString(c.Call.Args[1]); isS && sep == "." {
							viaSplit = true
						}
					}
					if c, isC := v.(*ssa.Call); isC && isCallTo(&c.Call, "strings.Count") {
						if sep, isS := constString(c.Call.Args[1]); isS && sep == "." {
							viaSplit = true
						}
					}
					// a module helper that computes the depth of the path it is given
					if c, isC := v.(*ssa.Call); isC {
						if h := staticCallee(&c.Call); h != nil && p.InModule(h) && len(h.Blocks) > 0 && h != fn {
							eachInstr(h, func(hb *ssa.BasicBlock, hi ssa.Instruction) {
								ret, isRet := hi.(*ssa.Return)
								if !isRet || len(ret.Results) != 1 {
									return
								}
								for hv := range backwardSlice(h, ret.Results[0]) {
									if hc, ok := hv.(*ssa.Call); ok && isCallTo(&hc.Call, "strings.Count", "strings.Split") {
										if sep, isS := constString(hc.Call.Args[1]); isS && sep == "." {
											viaSplit = true
										}
									}
								}
							})
						}
					}
				}
				if !viaSplit {
					ok = false
					why = "the comparison at " + p.Pos(bo.Pos()) + " does not compare numbers of path segments"
				}
			}
		})
		if !found {
			r.Unknown(rule, n, "shortest by segment count", p.Pos(fn.Pos()), "no selection comparison found")
		} else if ok {
			r.OK(rule, n, "shortest by segment count", p.Pos(fn.Pos()), "both sides of the selecting comparison are segment counts (split on '.')")
		} else {
			r.Bad(rule, n, "shortest by segment count", p.Pos(fn.Pos()), why)
		}
	}
}

// isRangeLikeBound: i < len(x) where i is a loop counter.
func isRangeLikeBound(bo *ssa.BinOp) bool {
	if c, ok := bo.Y.(*ssa.Call); ok {
		if bi, ok := c.Call.Value.(*ssa.Builtin); ok && bi.Name() == "len" {
			if _, isPhi := bo.X.(*ssa.Phi); isPhi {
				if _, isSl := c.Call.Args[0].Type().Underlying().(*types.Slice); isSl {
					return true
				}
			}
		}
	}
	return false
}

// ruleAliasReuse: a slice obtained as y[:0] shares y's array; appending to it while y is still being ranged over is only
// safe when at most one element is appended per element consumed.
func ruleAliasReuse(p *Prog, r *Report, fns []*ssa.Function) {
	const rule = "ALIAS.reuse"
	n := 0
	for _, fn := range fns {
		eachInstr(fn, func(b *ssa.BasicBlock, in ssa.Instruction) {
			sl, ok := in.(*ssa.Slice)
			if !ok || sl.High == nil {
				return
			}
			if k, isK := constInt(sl.High); !isK || k != 0 {
				return
			}
			if _, isSl := sl.X.Type().Underlying().(*types.Slice); !isSl {
				return
			}
			n++
			al := sliceAliases(fn, sl)
			delete(al, sl.X)
			// loops ranging over sl.X
			bad := ""
			eachInstr(fn, func(b2 *ssa.BasicBlock, i2 ssa.Instruction) {
				ia, ok := i2.(*ssa.IndexAddr)
				if !ok || ia.X != sl.X || !isRangeIndex(ia.Index) {
					return
				}
				hdr := ia.Index.(*ssa.BinOp).X.(*ssa.Phi).Block()
				body := naturalLoop(hdr)
				appends := 0
				for bb := range body {
					for _, i3 := range bb.Instrs {
						c, ok := i3.(*ssa.Call)
						if !ok {
							continue
						}
						bi, ok := c.Call.Value.(*ssa.Builtin)
						if !ok || bi.Name() != "append" || !al[c] {
							continue
						}
						appends++
						if !appendsExactlyOne(c) {
							bad = "append of a whole slice at " + p.Pos(c.Pos())
						}
						// nested loops inside the body multiply the appends
						if innermostLoopHeader(bb) != hdr {
							bad = "append inside a nested loop at " + p.Pos(c.Pos())
						}
					}
				}
				if appends > 1 && bad == "" {
					bad = fmt.Sprintf("%d appends per iteration", appends)
				}
			})
			if bad == "" {
				r.OK(rule, p.Name(fn), "reuse of "+p.ExprAt(sl.Pos()), p.Pos(sl.Pos()), "at most one element appended per element read")
			} else {
				r.Bad(rule, p.Name(fn), "reuse of "+p.ExprAt(sl.Pos()), p.Pos(sl.Pos()), "the result shares the array of the slice still being ranged over and may grow faster than it is consumed ("+bad+"): unread elements are overwritten")
			}
		})
	}
	r.OK(rule, "scope", "buffer-reuse sites enumerated", "", fmt.Sprintf("%d sites of the form y[:0] in %d functions", n, len(fns)))
}

// ruleAccumFresh: a loop-carried accumulator (x = append(x, ...) around a loop) starts from an empty slice (nil, make, or
// y[:0]), not from a value that was computed for another purpose — otherwise stale entries survive into the result.
func ruleAccumFresh(p *Prog, r *Report, fns []*ssa.Function) {
	const rule = "ACCUM.fresh"
	n := 0
	for _, fn := range fns {
		ord := newOrdinals()
		for _, in := range instrsByPos(fn) {
			ph, ok := in.(*ssa.Phi)
			if !ok {
				continue
			}
			if _, isSl := ph.Type().Underlying().(*types.Slice); !isSl {
				continue
			}
			// loop header phi whose back edge value is append(phi-chain, ...)
			hdr := ph.Block()
			isHdr := false
			for _, pr := range hdr.Preds {
				if hdr.Dominates(pr) {
					isHdr = true
				}
			}
			if !isHdr {
				continue
			}
			accum := false
			for i, e := range ph.Edges {
				if !hdr.Dominates(hdr.Preds[i]) {
					continue
				}
				if isAppendOf(e, ph, map[ssa.Value]bool{}) {
					accum = true
				}
			}
			if !accum {
				continue
			}
			n++
			construct := ord.key(p.Name(fn), "accumulator "+ph.Comment)
			bad := ""
			for i, e := range ph.Edges {
				if hdr.Dominates(hdr.Preds[i]) {
					continue
				}
				if why := notFreshSlice(e, map[ssa.Value]bool{}); why != "" {
					bad = why
				}
			}
			if bad == "" {
				r.OK(rule, p.Name(fn), construct, p.Pos(ph.Pos()), "the accumulation starts from an empty slice")
			} else {
				r.Bad(rule, p.Name(fn), construct, p.Pos(ph.Pos()), "values are appended in a loop to a slice that may already hold "+bad+": entries computed for an earlier step leak into the result")
			}
		}
	}
	r.OK(rule, "scope", "loop-carried accumulators enumerated", "", fmt.Sprintf("%d accumulators in %d functions", n, len(fns)))
}

func isAppendOf(v ssa.Value, ph *ssa.Phi, seen map[ssa.Value]bool) bool {
	if seen[v] {
		return false
	}
	seen[v] = true
	switch x := v.(type) {
	case *ssa.Call:
		if bi, ok := x.Call.Value.(*ssa.Builtin); ok && bi.Name() == "append" {
			return x.Call.Args[0] == ssa.Value(ph) || phiChainReaches(x.Call.Args[0], ph) || isAppendOf(x.Call.Args[0], ph, seen)
		}
	case *ssa.Phi:
		for _, e := range x.Edges {
			if isAppendOf(e, ph, seen) {
				return true
			}
		}
	}
	return false
}

// notFreshSlice: "" if v is certainly an empty slice on loop entry, else what it may hold.
func notFreshSlice(v ssa.Value, seen map[ssa.Value]bool) string {
	if seen[v] {
		return ""
	}
	seen[v] = true
	switch x := v.(type) {
	case *ssa.Const:
		if x.Value == nil {
			return ""
		}
	case *ssa.MakeSlice:
		if k, ok := constInt(x.Len); ok && k == 0 {
			return ""
		}
		return "the elements of a non-empty make"
	case *ssa.Slice:
		if x.High != nil {
			if k, ok := constInt(x.High); ok && k == 0 {
				return ""
			}
		}
		if a, ok := x.X.(*ssa.Alloc); ok {
			if at, ok := derefType(a.Type()).Underlying().(*types.Array); ok && at.Len() == 0 {
				return ""
			}
		}
		return "a slice of existing values"
	case *ssa.Phi:
		for _, e := range x.Edges {
			if why := notFreshSlice(e, seen); why != "" {
				return why
			}
		}
		return ""
	case *ssa.Call:
		if bi, ok := x.Call.Value.(*ssa.Builtin); ok && bi.Name() == "append" {
			return "previously appended values"
		}
		return "the result of " + x.Call.Value.Name()
	case *ssa.Extract:
		return "the result of an earlier call"
	}
	return "other values"
}
