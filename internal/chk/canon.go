package chk

import (
	"fmt"
	"go/token"
	"go/types"
	"strings"

	"golang.org/x/tools/go/ssa"
)

// F2 — value equivalence. go/ssa performs no common-subexpression elimination, so two loads of the
// same package variable, two lookups m[k] or two assertions x.(T) are distinct SSA values. canon
// maps a value to a string such that equal strings denote equal runtime values *provided the memory
// they read is not written between the two evaluations*. The memory premises are:
//   - package variables: only those with no Store outside package init and the option setters are
//     canonicalised (rule OPT.writers establishes that no other function stores to them);
//   - loads through IndexAddr/FieldAddr: canonicalised only in functions that contain no Store to an
//     address of the same element type (checked per function, see stableLoads);
//   - map lookups: canonical keys are produced, but the users (type-set dataflow) kill them at
//     MapUpdate/delete and at calls that may write maps.
type canonizer struct {
	p      *Prog
	fn     *ssa.Function
	memo   map[ssa.Value]string
	stable map[string]bool // element types (as strings) with no stores in fn => loads canonical
}

func (p *Prog) canonFor(fn *ssa.Function) *canonizer {
	key := "canon:" + p.Name(fn) + fmt.Sprintf("%p", fn)
	if v, ok := p.facts[key]; ok {
		return v.(*canonizer)
	}
	c := &canonizer{p: p, fn: fn, memo: map[ssa.Value]string{}, stable: map[string]bool{}}
	// stores of fn, keyed by the shape of the address: element of a slice/array type, field of a struct type, or anything else
	stored := map[string]bool{}
	eachInstr(fn, func(b *ssa.BasicBlock, in ssa.Instruction) {
		switch x := in.(type) {
		case *ssa.Store:
			for _, k := range storeKeys(x.Addr) {
				stored[k] = true
			}
		case ssa.CallInstruction:
			cm := x.Common()
			if bi, ok := cm.Value.(*ssa.Builtin); ok {
				if bi.Name() == "copy" {
					stored["idx:"+typeStr(cm.Args[0].Type())] = true
				}
				return
			}
			// a module callee (or a callback-taking stdlib function) may write elements of a slice it is given
			g := staticCallee(cm)
			for _, a := range cm.Args {
				switch a.Type().Underlying().(type) {
				case *types.Slice, *types.Pointer:
					if g == nil || p.InModule(g) && p.calleeStoresIdx(g, typeStr(a.Type()), map[*ssa.Function]bool{}) || g != nil && !p.InModule(g) && extWritesArg(extName(g)) {
						stored["idx:"+typeStr(a.Type())] = true
						stored["any:"+typeStr(derefType(a.Type()))] = true
					}
				}
			}
		}
	})
	c.stable = stored // meaning: stored[k]==true => loads of shape k are not canonicalised
	p.facts[key] = c
	return c
}

// stableGlobal: the variable is never stored to outside init and the setters, so within any other
// function two loads yield the same value (premise OPT.writers).
func (p *Prog) stableGlobal(g *ssa.Global) bool {
	w := p.globalWriters()
	for fn := range w[g] {
		if fn.Name() == "init" && fn.Synthetic != "" {
			continue
		}
		if p.isSetter(fn) {
			continue
		}
		return false
	}
	return true
}

// globalWriters: for every package variable, the functions containing a Store whose address is the variable.
func (p *Prog) globalWriters() map[*ssa.Global]map[*ssa.Function]bool {
	if v, ok := p.facts["gw"]; ok {
		return v.(map[*ssa.Global]map[*ssa.Function]bool)
	}
	w := map[*ssa.Global]map[*ssa.Function]bool{}
	add := func(g *ssa.Global, f *ssa.Function) {
		if w[g] == nil {
			w[g] = map[*ssa.Function]bool{}
		}
		w[g][f] = true
	}
	var all []*ssa.Function
	all = append(all, p.FuncList...)
	for _, sp := range p.SPkgs {
		if ini := sp.Func("init"); ini != nil {
			all = append(all, ini)
		}
	}
	for _, f := range all {
		eachInstr(f, func(b *ssa.BasicBlock, in ssa.Instruction) {
			if st, ok := in.(*ssa.Store); ok {
				if g, ok := st.Addr.(*ssa.Global); ok {
					add(g, f)
				}
			}
		})
	}
	p.facts["gw"] = w
	return w
}

func (c *canonizer) of(v ssa.Value) string {
	if v == nil {
		return "<nil>"
	}
	if s, ok := c.memo[v]; ok {
		return s
	}
	c.memo[v] = "%" + v.Name() // cycle guard
	s := c.compute(v)
	c.memo[v] = s
	return s
}

func (c *canonizer) uniq(v ssa.Value) string { return "%" + v.Name() }

func (c *canonizer) compute(v ssa.Value) string {
	switch x := v.(type) {
	case *ssa.Const:
		return "const:" + x.String()
	case *ssa.Parameter:
		return "param:" + x.Name()
	case *ssa.FreeVar:
		return "free:" + x.Name()
	case *ssa.Global:
		return "&" + x.Pkg.Pkg.Name() + "." + x.Name()
	case *ssa.Function:
		return "func:" + x.String()
	case *ssa.Builtin:
		return "builtin:" + x.Name()
	case *ssa.UnOp:
		if x.Op == token.MUL {
			if g, ok := x.X.(*ssa.Global); ok {
				if c.p.stableGlobal(g) {
					return "load(" + g.Pkg.Pkg.Name() + "." + g.Name() + ")"
				}
				return c.uniq(v)
			}
			switch a := x.X.(type) {
			case *ssa.IndexAddr, *ssa.FieldAddr:
				unstable := c.stable["any:"+typeStr(derefType(a.Type()))]
				for _, k := range storeKeys(a) {
					if c.stable[k] {
						unstable = true
					}
				}
				if !unstable && c.rootedOutside(a) {
					return "ld(" + c.of(a) + ")"
				}
			}
			return c.uniq(v)
		}
		if x.Op == token.ARROW {
			return c.uniq(v)
		}
		return x.Op.String() + "(" + c.of(x.X) + ")"
	case *ssa.BinOp:
		return "(" + c.of(x.X) + " " + x.Op.String() + " " + c.of(x.Y) + ")"
	case *ssa.Call:
		if b, ok := x.Call.Value.(*ssa.Builtin); ok && (b.Name() == "len" || b.Name() == "cap") {
			return b.Name() + "(" + c.of(x.Call.Args[0]) + ")"
		}
		if f := staticCallee(&x.Call); f != nil && !c.p.InModule(f) && pureExt(extName(f)) {
			var args []string
			for _, a := range x.Call.Args {
				args = append(args, c.of(a))
			}
			return extName(f) + "(" + strings.Join(args, ",") + ")"
		}
		return c.uniq(v)
	case *ssa.IndexAddr:
		return "&" + c.of(x.X) + "[" + c.of(x.Index) + "]"
	case *ssa.Index:
		return c.of(x.X) + "[" + c.of(x.Index) + "]"
	case *ssa.FieldAddr:
		return "&" + c.of(x.X) + "." + fieldName(x.X.Type(), x.Field)
	case *ssa.Field:
		return c.of(x.X) + "." + fieldName(x.X.Type(), x.Field)
	case *ssa.TypeAssert:
		if !x.CommaOk {
			return "assert(" + c.of(x.X) + "," + typeStr(x.AssertedType) + ")"
		}
		return c.uniq(v)
	case *ssa.Lookup:
		if _, isMap := x.X.Type().Underlying().(*types.Map); isMap {
			if !x.CommaOk {
				return "lookup(" + c.of(x.X) + "," + c.of(x.Index) + ")"
			}
			return c.uniq(v)
		}
		return "stridx(" + c.of(x.X) + "," + c.of(x.Index) + ")"
	case *ssa.Extract:
		if lk, ok := x.Tuple.(*ssa.Lookup); ok && lk.CommaOk && x.Index == 0 {
			return "lookup(" + c.of(lk.X) + "," + c.of(lk.Index) + ")"
		}
		return fmt.Sprintf("extract(%s,#%d)", c.of(x.Tuple), x.Index)
	case *ssa.Convert:
		return "conv:" + typeStr(x.Type()) + "(" + c.of(x.X) + ")"
	case *ssa.ChangeType:
		return c.of(x.X) // same value, different named type
	case *ssa.ChangeInterface:
		return c.of(x.X)
	case *ssa.MakeInterface:
		return "iface(" + c.of(x.X) + ")"
	case *ssa.Slice:
		return "slice(" + c.of(x.X) + "," + c.opt(x.Low) + "," + c.opt(x.High) + ")"
	}
	return c.uniq(v)
}

func (c *canonizer) opt(v ssa.Value) string {
	if v == nil {
		return "-"
	}
	return c.of(v)
}

// rootedOutside: the address chain does not start at a local Alloc (whose contents change with local stores).
func (c *canonizer) rootedOutside(v ssa.Value) bool {
	for {
		switch x := v.(type) {
		case *ssa.IndexAddr:
			v = x.X
		case *ssa.FieldAddr:
			v = x.X
		case *ssa.UnOp:
			if x.Op == token.MUL {
				v = x.X
				continue
			}
			return true
		case *ssa.Alloc:
			return false
		default:
			return true
		}
	}
}

func fieldName(t types.Type, i int) string {
	t = derefType(t)
	if st, ok := t.Underlying().(*types.Struct); ok && i < st.NumFields() {
		return st.Field(i).Name()
	}
	return fmt.Sprintf("f%d", i)
}

// pureExt: external functions whose result depends only on their arguments (no state, no effects).
func pureExt(name string) bool {
	if hasPrefixAny(name, "strings.", "strconv.", "unicode.", "unicode/utf8.", "math.", "path.") {
		return !strings.Contains(name, "NewReader") && !strings.Contains(name, "NewReplacer")
	}
	switch name {
	case "bytes.Count", "bytes.Index", "bytes.Contains", "bytes.Equal", "bytes.HasPrefix", "bytes.HasSuffix",
		"reflect.ValueOf", "reflect.TypeOf", "(reflect.Value).Kind", "(*reflect.rtype).Kind", "errors.New", "fmt.Sprintf", "fmt.Sprint":
		// errors.New yields a fresh pointer; never compared for identity in mxj
		return name != "errors.New"
	}
	return false
}

// storeKeys classifies an address by shape: "idx:<slice type>", "fld:<struct>.<i>", or "any:<elem type>".
func storeKeys(addr ssa.Value) []string {
	switch a := addr.(type) {
	case *ssa.IndexAddr:
		return []string{"idx:" + typeStr(a.X.Type())}
	case *ssa.FieldAddr:
		return []string{fmt.Sprintf("fld:%s.%d", typeStr(derefType(a.X.Type())), a.Field)}
	case *ssa.Alloc, *ssa.Global:
		return nil
	}
	return []string{"any:" + typeStr(derefType(addr.Type()))}
}

// calleeStoresIdx: a module function that (transitively) stores into elements of a slice/array of the given type.
func (p *Prog) calleeStoresIdx(g *ssa.Function, typ string, seen map[*ssa.Function]bool) bool {
	if seen[g] {
		return false
	}
	seen[g] = true
	found := false
	eachInstr(g, func(b *ssa.BasicBlock, in ssa.Instruction) {
		switch x := in.(type) {
		case *ssa.Store:
			if ia, ok := x.Addr.(*ssa.IndexAddr); ok && typeStr(ia.X.Type()) == typ {
				found = true
			}
			if _, ok := x.Addr.(*ssa.IndexAddr); !ok {
				if _, ok := x.Addr.(*ssa.FieldAddr); !ok {
					if _, ok := x.Addr.(*ssa.Alloc); !ok {
						if _, ok := x.Addr.(*ssa.Global); !ok {
							found = true // store through an arbitrary pointer
						}
					}
				}
			}
		case ssa.CallInstruction:
			if h := staticCallee(x.Common()); h != nil && p.InModule(h) {
				if p.calleeStoresIdx(h, typ, seen) {
					found = true
				}
			} else if h != nil && extWritesArg(extName(h)) {
				found = true
			} else if h == nil && !x.Common().IsInvoke() {
				if _, isB := x.Common().Value.(*ssa.Builtin); !isB {
					found = true
				}
			}
		}
	})
	return found
}

// extWritesArg: standard-library functions that modify memory reachable from their arguments.
func extWritesArg(name string) bool {
	return hasPrefixAny(name, "sort.", "(*encoding/json.Decoder).Decode", "encoding/json.Unmarshal", "(*encoding/gob.Decoder).Decode",
		"(*encoding/xml.Decoder).Decode", "encoding/xml.Unmarshal", "io.ReadFull", "io.ReadAtLeast", "(*os.File).Read", "(*bytes.Buffer).Read", "copy")
}
