package chk

import (
	"sort"

	"golang.org/x/tools/go/ssa"
)

// F8 — API groups. Exact entry-point tables transcribed from `go doc` of the pinned tree.
// A missing entry point is an unresolved anchor (reported, fails the check).

var grpMapDecode = []string{"mxj.NewMapXml", "mxj.NewMapXmlReader", "mxj.NewMapXmlReaderRaw", "mxj.HandleXmlReader",
	"mxj.HandleXmlReaderRaw", "mxj.NewMapsFromXmlFile", "mxj.NewMapsFromXmlFileRaw"}
var grpSeqDecode = []string{"mxj.NewMapXmlSeq", "mxj.NewMapFormattedXmlSeq", "mxj.NewMapXmlSeqReader", "mxj.NewMapXmlSeqReaderRaw"}
var grpJsonDecode = []string{"mxj.NewMapJson", "mxj.NewMapJsonReader", "mxj.NewMapJsonReaderRaw", "mxj.HandleJsonReader",
	"mxj.HandleJsonReaderRaw", "mxj.NewMapsFromJsonFile", "mxj.NewMapsFromJsonFileRaw"}
var grpGob = []string{"mxj.NewMapGob", "mxj.Map.Gob"}
var grpMapEncode = []string{"mxj.Map.Xml", "mxj.Map.XmlIndent", "mxj.Map.XmlWriter", "mxj.Map.XmlIndentWriter",
	"mxj.Maps.XmlString", "mxj.Maps.XmlStringIndent", "mxj.Maps.XmlFile", "mxj.Maps.XmlFileIndent"}
var grpAnyEncode = []string{"mxj.AnyXml", "mxj.AnyXmlIndent"}
var grpSeqEncode = []string{"mxj.MapSeq.Xml", "mxj.MapSeq.XmlIndent", "mxj.MapSeq.XmlWriter", "mxj.MapSeq.XmlIndentWriter"}
var grpJsonEncode = []string{"mxj.Map.Json", "mxj.Map.JsonIndent", "mxj.Map.JsonWriter", "mxj.Map.JsonWriterRaw",
	"mxj.Map.JsonIndentWriter", "mxj.Map.JsonIndentWriterRaw", "mxj.Maps.JsonString", "mxj.Maps.JsonStringIndent",
	"mxj.Maps.JsonFile", "mxj.Maps.JsonFileIndent", "mxj.Map.Struct", "mxj.Map.Copy"}
var grpQuery = []string{"mxj.Map.ValuesForKey", "mxj.Map.ValueForKey", "mxj.Map.ValuesForPath", "mxj.Map.ValueForPath",
	"mxj.Map.ValueForPathString", "mxj.Map.ValueOrEmptyForPathString", "mxj.Map.Exists", "mxj.Map.PathsForKey",
	"mxj.Map.PathForKeyShortest", "mxj.Map.Root", "mxj.Map.Elements", "mxj.Map.Attributes", "mxj.Map.Old",
	"mxj.Map.StringIndent", "mxj.Map.StringIndentNoTypeInfo", "mxj.MapSeq.StringIndent", "mxj.MapSeq.StringIndentNoTypeInfo"}
var grpLeaf = []string{"mxj.Map.LeafNodes", "mxj.Map.LeafPaths", "mxj.Map.LeafValues"}
var grpProject = []string{"mxj.Map.NewMap"}
var grpMutators = []string{"mxj.Map.SetValueForPath", "mxj.Map.Remove", "mxj.Map.RenameKey", "mxj.Map.UpdateValuesForPath"}
var grpBeautify = []string{"mxj.BeautifyXml"}

// setters of package options (core) and of the wrapper.
var grpSetters = []string{"mxj.CastNanInf", "mxj.CastValuesToBool", "mxj.CastValuesToFloat", "mxj.CastValuesToInt",
	"mxj.CoerceKeysToLower", "mxj.CoerceKeysToSnakeCase", "mxj.DecodeSimpleValuesAsMap", "mxj.DisableTrimWhiteSpace",
	"mxj.HandleXMPPStreamTag", "mxj.IncludeTagSeqNum", "mxj.LeafUseDotNotation", "mxj.PrependAttrWithHyphen",
	"mxj.SetArraySize", "mxj.SetAttrPrefix", "mxj.SetCheckTagToSkipFunc", "mxj.SetFieldSeparator",
	"mxj.SetGlobalKeyMapPrefix", "mxj.XMLEscapeChars", "mxj.XMLEscapeCharsDecoder", "mxj.XmlCheckIsValid",
	"mxj.XmlDefaultEmptyElemSyntax", "mxj.XmlGoEmptyElemSyntax", "x2jw.CastNanInf"}

// optWriters: option variable -> the only functions (besides package init) allowed to store to it.
var optWriters = map[string][]string{
	"mxj.attrPrefix":              {"mxj.PrependAttrWithHyphen", "mxj.SetAttrPrefix"},
	"mxj.lenAttrPrefix":           {"mxj.PrependAttrWithHyphen", "mxj.SetAttrPrefix"},
	"mxj.textK":                   {"mxj.SetGlobalKeyMapPrefix"},
	"mxj.seqK":                    {"mxj.SetGlobalKeyMapPrefix"},
	"mxj.commentK":                {"mxj.SetGlobalKeyMapPrefix"},
	"mxj.attrK":                   {"mxj.SetGlobalKeyMapPrefix"},
	"mxj.directiveK":              {"mxj.SetGlobalKeyMapPrefix"},
	"mxj.procinstK":               {"mxj.SetGlobalKeyMapPrefix"},
	"mxj.targetK":                 {"mxj.SetGlobalKeyMapPrefix"},
	"mxj.instK":                   {"mxj.SetGlobalKeyMapPrefix"},
	"mxj.castNanInf":              {"mxj.CastNanInf"},
	"mxj.castToBool":              {"mxj.CastValuesToBool"},
	"mxj.castToFloat":             {"mxj.CastValuesToFloat"},
	"mxj.castToInt":               {"mxj.CastValuesToInt"},
	"mxj.lowerCase":               {"mxj.CoerceKeysToLower"},
	"mxj.snakeCaseKeys":           {"mxj.CoerceKeysToSnakeCase"},
	"mxj.decodeSimpleValuesAsMap": {"mxj.DecodeSimpleValuesAsMap"},
	"mxj.handleXMPPStreamTag":     {"mxj.HandleXMPPStreamTag"},
	"mxj.includeTagSeqNum":        {"mxj.IncludeTagSeqNum"},
	"mxj.useDotNotation":          {"mxj.LeafUseDotNotation"},
	"mxj.xmlCheckIsValid":         {"mxj.XmlCheckIsValid"},
	"mxj.xmlEscapeCharsDecoder":   {"mxj.XMLEscapeCharsDecoder"},
	"mxj.checkTagToSkip":          {"mxj.SetCheckTagToSkipFunc"},
	"mxj.fieldSep":                {"mxj.SetFieldSeparator"},
	"mxj.defaultArraySize":        {"mxj.SetArraySize"},
	"mxj.disableTrimWhiteSpace":   {"mxj.DisableTrimWhiteSpace"},
	"mxj.trimRunes":               {"mxj.DisableTrimWhiteSpace"},
	"mxj.useGoXmlEmptyElemSyntax": {"mxj.XmlGoEmptyElemSyntax", "mxj.XmlDefaultEmptyElemSyntax"},
	"mxj.xmlEscapeChars":          {"mxj.XMLEscapeChars", "mxj.XMLEscapeCharsDecoder"},
}

// userVars: exported variables the user assigns; the module itself never stores to them.
var userVars = map[string]string{
	"mxj.XmlCharsetReader":  "charset reader hook, assigned by the user",
	"mxj.CustomDecoder":     "decoder settings, assigned by the user",
	"mxj.JsonUseNumber":     "json.Number switch, assigned by the user",
	"x2jw.X2jCharsetReader": "charset reader hook of the wrapper, assigned by the user",
}

func (p *Prog) isSetter(fn *ssa.Function) bool {
	n := p.Name(fn)
	for _, s := range grpSetters {
		if s == n {
			return true
		}
	}
	return false
}

// resolve returns the functions named, reporting missing anchors.
func (p *Prog) resolve(r *Report, rule string, names ...string) []*ssa.Function {
	var out []*ssa.Function
	for _, n := range names {
		f := p.Fn(n)
		if f == nil {
			if r != nil {
				r.Anchor(rule, n)
			}
			continue
		}
		out = append(out, f)
	}
	return out
}

func concat(groups ...[]string) []string {
	var out []string
	seen := map[string]bool{}
	for _, g := range groups {
		for _, n := range g {
			if !seen[n] {
				seen[n] = true
				out = append(out, n)
			}
		}
	}
	sort.Strings(out)
	return out
}

// exportedAPI lists every exported function/method of a package alias.
func (p *Prog) exportedAPI(alias string) []*ssa.Function {
	var out []*ssa.Function
	for _, f := range p.PkgFuncs(alias) {
		if p.Exported(f) {
			out = append(out, f)
		}
	}
	return out
}
