package chk

import (
	"bufio"
	"bytes"
	"fmt"
	"go/token"
	"go/types"
	"os"
	"os/exec"
	"path/filepath"
	"regexp"
	"sort"
	"strconv"
	"strings"

	"golang.org/x/tools/go/ssa"
)

// PANIC.idx — bounds obligations. The Go compiler's prove pass is the first oracle: with inlining off,
// `-d=ssa/check_bce/debug=1` lists every index/slice operation whose bounds check it could NOT remove;
// every operation it does not list is proven in range by the compiler (the check is absent from the binary).
// The listed operations are mapped to SSA instructions by the position of the bracket within this run and
// must then be discharged by the zone analysis or one of the structural rules below.

type bceSite struct {
	File string
	Line int
	Col  int
	Kind string
}

var bceLine = regexp.MustCompile(`^(.+\.go):(\d+):(\d+): Found (IsInBounds|IsSliceInBounds)`)

// bceReport runs the compiler on one package directory (relative to the repo root).
func (p *Prog) bceReport(dir string) ([]bceSite, error) {
	key := "bce:" + dir
	if v, ok := p.facts[key]; ok {
		return v.([]bceSite), nil
	}
	args := []string{"build", "-gcflags=-l -d=ssa/check_bce/debug=1"}
	if p.Cfg.Tags != "" {
		args = append(args, "-tags="+p.Cfg.Tags)
	}
	args = append(args, ".")
	cmd := exec.Command("go", args...)
	cmd.Dir = filepath.Join(p.Cfg.Repo, dir)
	cmd.Env = append(os.Environ(), "GOFLAGS=-mod=mod", "GOPROXY=off", "GOSUMDB=off", "GOTOOLCHAIN=local", "GOWORK=off", "CGO_ENABLED=0")
	if p.Cfg.GOARCH != "" {
		cmd.Env = append(cmd.Env, "GOARCH="+p.Cfg.GOARCH)
	}
	var buf bytes.Buffer
	cmd.Stdout = &buf
	cmd.Stderr = &buf
	err := cmd.Run()
	var sites []bceSite
	sc := bufio.NewScanner(&buf)
	var other []string
	for sc.Scan() {
		line := sc.Text()
		if m := bceLine.FindStringSubmatch(line); m != nil {
			l, _ := strconv.Atoi(m[2])
			c, _ := strconv.Atoi(m[3])
			f := filepath.Join(dir, filepath.Base(m[1]))
			sites = append(sites, bceSite{filepath.Clean(f), l, c, m[4]})
		} else if !strings.HasPrefix(line, "#") && strings.TrimSpace(line) != "" {
			other = append(other, line)
		}
	}
	if err != nil && len(sites) == 0 {
		return nil, fmt.Errorf("go build (bounds-check report) failed in %s: %v: %s", dir, err, strings.Join(other, "; "))
	}
	if len(other) > 0 && err != nil {
		return nil, fmt.Errorf("go build (bounds-check report) failed in %s: %s", dir, strings.Join(other, "; "))
	}
	p.facts[key] = sites
	return sites, nil
}

// boundsOps: all index/slice instructions of a package's functions by position "file:line:col".
func (p *Prog) boundsOps(alias string) map[string][]ssa.Instruction {
	out := map[string][]ssa.Instruction{}
	for _, f := range p.PkgFuncs(alias) {
		eachInstr(f, func(b *ssa.BasicBlock, in ssa.Instruction) {
			switch x := in.(type) {
			case *ssa.IndexAddr, *ssa.Index, *ssa.Slice:
				out[p.posKey(in.Pos())] = append(out[p.posKey(in.Pos())], in)
			case *ssa.Lookup:
				if isStringType(x.X.Type()) {
					out[p.posKey(in.Pos())] = append(out[p.posKey(in.Pos())], in)
				}
			}
		})
	}
	return out
}

func (p *Prog) posKey(pos token.Pos) string {
	ps := p.Fset.Position(pos)
	rel, _ := filepath.Rel(p.Cfg.Repo, ps.Filename)
	return fmt.Sprintf("%s:%d:%d", filepath.Clean(rel), ps.Line, ps.Column)
}

func rulePanicIdx(p *Prog, r *Report, alias, dir string, scope map[*ssa.Function]bool) {
	const rule = "PANIC.idx"
	sites, err := p.bceReport(dir)
	if err != nil {
		r.Unknown(rule, alias, "compiler bounds report", "", err.Error())
		return
	}
	r.Trusted["Go compiler prove pass ("+goVersion()+"): operations it does not list have no bounds check left in the binary"] = true
	ops := p.boundsOps(alias)
	total := 0
	for _, l := range ops {
		total += len(l)
	}
	listed := map[ssa.Instruction]bool{}
	var todo []ssa.Instruction
	for _, s := range sites {
		key := fmt.Sprintf("%s:%d:%d", s.File, s.Line, s.Col)
		ins := ops[key]
		if len(ins) == 0 {
			// the compiler reports the position of the index expression; try same line, nearest column
			r.Unknown(rule, alias, "unmapped "+key, key, "compiler reports an unproven bounds check that could not be mapped to an SSA index/slice instruction")
			continue
		}
		for _, in := range ins {
			if !listed[in] {
				listed[in] = true
				todo = append(todo, in)
			}
		}
	}
	sort.SliceStable(todo, func(i, j int) bool { return todo[i].Pos() < todo[j].Pos() })
	ords := map[*ssa.Function]*ordinalKeys{}
	nScope := 0
	for _, in := range todo {
		fn := in.Parent()
		if scope != nil && !scope[fn] {
			continue
		}
		nScope++
		if ords[fn] == nil {
			ords[fn] = newOrdinals()
		}
		name := p.Name(fn)
		src := p.ExprAt(in.Pos())
		if src == "" {
			src = in.String()
		}
		construct := ords[fn].key(name, src)
		pos := p.Pos(in.Pos())
		ok, why := p.dischargeBounds(fn, in)
		switch {
		case ok && strings.HasPrefix(why, "assumed:"):
			r.Assume(rule, name, construct, pos, strings.TrimPrefix(why, "assumed:"))
		case ok:
			r.OK(rule, name, construct, pos, why)
		default:
			r.Bad(rule, name, construct, pos, "the compiler could not prove this access in range and no rule discharges it: "+why)
		}
	}
	inScopeOps := 0
	for _, l := range ops {
		for _, in := range l {
			if scope == nil || scope[in.Parent()] {
				inScopeOps++
			}
		}
	}
	r.OK(rule, alias, "operations proven by the compiler", "", fmt.Sprintf("%d of %d index/slice operations in scope have no bounds check left after the compiler's prove pass; %d were listed as unproven", inScopeOps-nScope, inScopeOps, nScope))
	r.Notes = append(r.Notes, fmt.Sprintf("bounds: package %s: %d index/slice ops, %d unproven by the compiler, %d of them in scope", alias, total, len(todo), nScope))
}

func goVersion() string {
	out, err := exec.Command("go", "version").Output()
	if err != nil {
		return "go"
	}
	return strings.TrimSpace(string(out))
}

// dischargeBounds tries the structural rules, then the zone analysis.
func (p *Prog) dischargeBounds(fn *ssa.Function, in ssa.Instruction) (bool, string) {
	if ok, why := p.sortContract(fn, in); ok {
		return true, why
	}
	if ok, why := p.fieldLenInvariant(fn, in); ok {
		return true, why
	}
	if ok, why := p.fillIdiom(fn, in); ok {
		return true, why
	}
	if ok, why := p.pairCountSlice(fn, in); ok {
		return true, why
	}
	if ok, why := p.outdentInvariant(fn, in); ok {
		return true, why
	}
	if ok, why := p.tableConstIndex(fn, in); ok {
		return true, why
	}
	var assume []zdefSpec
	pre := p.paramLenPre(fn)
	for prm, min := range pre {
		assume = append(assume, zdefSpec{prm, min})
	}
	sort.Slice(assume, func(i, j int) bool { return assume[i].param.Name() < assume[j].param.Name() })
	// B11 for strings: a string parameter that every caller has tested to contain the separator it is split at
	nPre := len(assume)
	for _, sc := range p.paramContainsPre(fn) {
		assume = append(assume, zdefSpec{sc, 2})
	}
	_ = nPre
	z := p.zoneFlowOf(fn, assume)
	ok, why := z.checkOp(in)
	if ok && len(assume) > 0 {
		why += " (using the verified precondition on a slice parameter: B11)"
	}
	return ok, why
}

// checkOp decides an index or slice operation with the zone facts at its block.
func (z *zoneFlow) checkOp(in ssa.Instruction) (bool, string) {
	b := in
	switch x := in.(type) {
	case *ssa.IndexAddr:
		return z.checkIndex(b, x.Index, z.lenTerm(x.X))
	case *ssa.Index:
		return z.checkIndex(b, x.Index, z.lenTerm(x.X))
	case *ssa.Lookup:
		return z.checkIndex(b, x.Index, z.lenTerm(x.X))
	case *ssa.Slice:
		ln := z.lenTerm(x.X)
		lo := zterm{0, 0, true}
		if x.Low != nil {
			lo = z.term(x.Low)
		}
		hi := ln
		if x.High != nil {
			hi = z.term(x.High)
		}
		if x.Max != nil {
			return false, "3-index slice not modelled"
		}
		zero := zterm{0, 0, true}
		var miss []string
		if !z.leq(b, zero, lo) {
			miss = append(miss, "0 <= low (low in "+z.describe(b, lo)+")")
		}
		if !z.leq(b, lo, hi) {
			miss = append(miss, "low <= high")
		}
		if !z.leq(b, hi, ln) {
			miss = append(miss, "high <= len (high in "+z.describe(b, hi)+", len in "+z.describe(b, ln)+")")
		}
		if len(miss) == 0 {
			return true, "zone facts: 0 <= low <= high <= len on every path"
		}
		return false, "not established: " + strings.Join(miss, "; ")
	}
	return false, "unexpected instruction"
}

func (z *zoneFlow) checkIndex(b ssa.Instruction, idx ssa.Value, ln zterm) (bool, string) {
	lo, hi := z.idxInBounds(b, idx, ln)
	if lo && hi {
		return true, "zone facts: 0 <= index < len on every path (index in " + z.describe(b, z.term(idx)) + ", len in " + z.describe(b, ln) + ")"
	}
	var miss []string
	if !lo {
		miss = append(miss, "index >= 0")
	}
	if !hi {
		miss = append(miss, "index < len")
	}
	return false, "not established: " + strings.Join(miss, ", ") + " (index in " + z.describe(b, z.term(idx)) + ", len in " + z.describe(b, ln) + ")"
}

// ---- B7: sort.Interface contract -----------------------------------------------------------------------

// sortContract: inside Less/Swap of a type whose Len returns len(receiver), indices i,j passed by package sort satisfy 0 <= i,j < Len().
func (p *Prog) sortContract(fn *ssa.Function, in ssa.Instruction) (bool, string) {
	ia, ok := in.(*ssa.IndexAddr)
	if !ok {
		return false, ""
	}
	// a helper method of the collection that Less / Swap hand their own receiver and one of their indices to (e.seq(i))
	if fn.Signature.Recv() != nil && fn.Name() != "Less" && fn.Name() != "Swap" && len(fn.Params) == 2 && isIntType(fn.Params[1].Type()) {
		if ia.X != ssa.Value(fn.Params[0]) || ia.Index != ssa.Value(fn.Params[1]) {
			return false, ""
		}
		sites := p.CG().sites[fn]
		if len(sites) == 0 {
			return false, ""
		}
		why := ""
		for _, cs := range sites {
			l := cs.Parent()
			args := cs.Common().Args
			if l.Signature.Recv() == nil || (l.Name() != "Less" && l.Name() != "Swap") || len(l.Params) != 3 || len(args) != 2 {
				return false, ""
			}
			if args[0] != ssa.Value(l.Params[0]) || (args[1] != ssa.Value(l.Params[1]) && args[1] != ssa.Value(l.Params[2])) {
				return false, ""
			}
			// the caller itself is under the contract: check it on a synthetic access e[i] of the caller
			nt, ok := l.Params[0].Type().(*types.Named)
			if !ok {
				return false, ""
			}
			lenM := p.methodOf(nt, "Len")
			if lenM == nil || !p.lenReturnsLenRecv(lenM) || len(p.CG().sites[l]) > 0 {
				return false, ""
			}
			why = "sort.Interface contract handed on by " + p.Name(l) + ": the receiver and one of its indices are passed unchanged, " + p.Name(lenM) + " returns len(receiver)"
		}
		return true, why
	}
	if fn.Signature.Recv() == nil || (fn.Name() != "Less" && fn.Name() != "Swap") || len(fn.Params) != 3 {
		return false, ""
	}
	recv := fn.Params[0]
	if ia.X != ssa.Value(recv) || (ia.Index != ssa.Value(fn.Params[1]) && ia.Index != ssa.Value(fn.Params[2])) {
		return false, ""
	}
	nt, ok := recv.Type().(*types.Named)
	if !ok {
		return false, ""
	}
	lenM := p.methodOf(nt, "Len")
	if lenM == nil || !p.lenReturnsLenRecv(lenM) {
		return false, ""
	}
	// premise: no direct caller in the module (only package sort calls it)
	if n := len(p.CG().sites[fn]); n > 0 {
		return false, ""
	}
	return true, "sort.Interface contract: " + p.Name(lenM) + " returns len(receiver), the method is only called by package sort with 0 <= i,j < Len()"
}

func (p *Prog) lenReturnsLenRecv(f *ssa.Function) bool {
	ok := true
	n := 0
	eachInstr(f, func(b *ssa.BasicBlock, in ssa.Instruction) {
		if ret, isRet := in.(*ssa.Return); isRet {
			n++
			c, isCall := ret.Results[0].(*ssa.Call)
			if !isCall {
				ok = false
				return
			}
			bi, isB := c.Call.Value.(*ssa.Builtin)
			if !isB || bi.Name() != "len" || c.Call.Args[0] != ssa.Value(f.Params[0]) {
				ok = false
			}
		}
	})
	return ok && n > 0
}

// ---- B8: field length invariant ------------------------------------------------------------------------------

// fieldLenInvariant: x.f[c] / x.f[:c] where every store to field f in the module stores make([]T, k) with constant k >= c+1.
func (p *Prog) fieldLenInvariant(fn *ssa.Function, in ssa.Instruction) (bool, string) {
	var base ssa.Value
	var need int64
	switch x := in.(type) {
	case *ssa.IndexAddr:
		k, ok := constInt(x.Index)
		if !ok || k < 0 {
			return false, ""
		}
		base, need = x.X, k+1
	case *ssa.Slice:
		if x.Low != nil {
			if k, ok := constInt(x.Low); !ok || k != 0 {
				return false, ""
			}
		}
		if x.High == nil {
			return false, ""
		}
		k, ok := constInt(x.High)
		if !ok || k < 0 {
			return false, ""
		}
		base, need = x.X, k
	default:
		return false, ""
	}
	u, ok := base.(*ssa.UnOp)
	if !ok || u.Op != token.MUL {
		return false, ""
	}
	fa, ok := u.X.(*ssa.FieldAddr)
	if !ok {
		return false, ""
	}
	st, ok := derefType(fa.X.Type()).Underlying().(*types.Struct)
	if !ok {
		return false, ""
	}
	owner := derefType(fa.X.Type())
	// all stores to this field, module-wide
	nStores := 0
	good := true
	for _, f := range p.allFuncsWithInit() {
		eachInstr(f, func(b *ssa.BasicBlock, i2 ssa.Instruction) {
			s, ok := i2.(*ssa.Store)
			if !ok {
				return
			}
			fa2, ok := s.Addr.(*ssa.FieldAddr)
			if !ok || fa2.Field != fa.Field || !types.Identical(derefType(fa2.X.Type()), owner) {
				// whole-struct stores of this type would also matter
				if types.Identical(derefType(s.Addr.Type()), owner) {
					good = false
				}
				return
			}
			nStores++
			k, ok := constLenOf(s.Val)
			if !ok || k < need {
				good = false
			}
		})
	}
	if !good || nStores == 0 {
		return false, ""
	}
	return true, fmt.Sprintf("field invariant: every one of the %d stores to %s.%s in the module stores make([]T, k) with constant k >= %d, and values of the type are only built field by field", nStores, typeStr(owner), st.Field(fa.Field).Name(), need)
}

// constLenOf: the constant length of a freshly made slice: make([]T, k) in either of the two forms go/ssa emits.
func constLenOf(v ssa.Value) (int64, bool) {
	switch x := v.(type) {
	case *ssa.MakeSlice:
		return constInt(x.Len)
	case *ssa.Slice:
		a, ok := x.X.(*ssa.Alloc)
		if !ok {
			return 0, false
		}
		at, ok := derefType(a.Type()).Underlying().(*types.Array)
		if !ok {
			return 0, false
		}
		if x.Low != nil {
			if k, ok := constInt(x.Low); !ok || k != 0 {
				return 0, false
			}
		}
		if x.High == nil {
			return at.Len(), true
		}
		return constInt(x.High)
	}
	return 0, false
}

// ---- B5: fill idiom --------------------------------------------------------------------------------------------

// fillIdiom: S = make([]T, len(M)); n counts at most one increment per iteration of `range M`; then S[n] inside the loop
// and S[:n] after it are in range, provided M is not modified in between.
func (p *Prog) fillIdiom(fn *ssa.Function, in ssa.Instruction) (bool, string) {
	var sl ssa.Value
	var idx ssa.Value
	isSlice := false
	switch x := in.(type) {
	case *ssa.IndexAddr:
		// S[n] or S[n][c] (inner constant index into an array element is the compiler's business)
		sl, idx = x.X, x.Index
	case *ssa.Slice:
		if x.Low != nil || x.High == nil || x.Max != nil {
			return false, ""
		}
		sl, idx, isSlice = x.X, x.High, true
	default:
		return false, ""
	}
	ms, ok := sl.(*ssa.MakeSlice)
	if !ok {
		return false, ""
	}
	// len argument is len(M) of a map M
	lc, ok := ms.Len.(*ssa.Call)
	if !ok {
		return false, ""
	}
	bi, ok := lc.Call.Value.(*ssa.Builtin)
	if !ok || bi.Name() != "len" {
		return false, ""
	}
	M := lc.Call.Args[0]
	if _, isMap := M.Type().Underlying().(*types.Map); !isMap {
		return false, ""
	}
	// find the range loop over (a value canonically equal to) M
	cz := p.canonFor(fn)
	var loop *mapLoop
	for _, l := range findMapLoops(fn) {
		l := l
		if l.next != nil && cz.of(l.src) == cz.of(M) {
			// the index must relate to this loop: counter phi in the loop header
			if ph := counterPhi(idx, l); ph != nil {
				loop = &l
				break
			}
		}
	}
	if loop == nil {
		return false, ""
	}
	ph := counterPhi(idx, *loop)
	// counter: phi(c0 == 0 from outside, v from inside) where v <= phi+1 through phis
	okCounter := true
	for i, e := range ph.Edges {
		pred := ph.Block().Preds[i]
		if loop.body[pred] {
			if !atMostPlusOne(e, ph, map[ssa.Value]bool{}) {
				okCounter = false
			}
		} else {
			if k, isC := constInt(e); !isC || k != 0 {
				okCounter = false
			}
		}
	}
	if !okCounter {
		return false, ""
	}
	// M must not be modified between the make and the end of the loop: no MapUpdate/delete on a map of that type and
	// no call that may write maps, in the whole function region from make to loop (conservatively: the whole function for maps of this type)
	mwm := p.mayWriteMaps()
	clean := true
	eachInstr(fn, func(b *ssa.BasicBlock, i2 ssa.Instruction) {
		switch y := i2.(type) {
		case *ssa.MapUpdate:
			if types.Identical(y.Map.Type().Underlying(), M.Type().Underlying()) && cz.of(y.Map) == cz.of(M) {
				clean = false
			}
		case ssa.CallInstruction:
			if !loop.body[b] {
				return
			}
			c := y.Common()
			if bi, ok := c.Value.(*ssa.Builtin); ok {
				if bi.Name() == "delete" {
					clean = false
				}
				return
			}
			g := staticCallee(c)
			if g == nil && !c.IsInvoke() {
				clean = false
			}
			if g != nil && p.InModule(g) && mwm[g] {
				clean = false
			}
			if g != nil && !p.InModule(g) && extWritesMaps(extName(g)) {
				clean = false
			}
		}
	})
	if !clean {
		return false, ""
	}
	if isSlice {
		// S[:n] after (or in) the loop: n <= iterations <= len(M) = len(S)
		if idx == ssa.Value(ph) || derivesFromPhiOnly(idx, ph) {
			return true, "fill idiom: slice made with len(map), counter incremented at most once per iteration of the range over that map, map not modified: counter <= len"
		}
		return false, ""
	}
	// S[n] inside the loop body with n the header phi itself (not yet incremented this iteration)
	if idx == ssa.Value(ph) && loop.body[in.Block()] && in.Block() != loop.header {
		return true, "fill idiom: slice made with len(map), index is the fill counter before its increment inside the range over that map: counter < len"
	}
	return false, ""
}

// counterPhi: the loop-header phi an index value is (or, after the loop, derives from through phis only).
func counterPhi(idx ssa.Value, l mapLoop) *ssa.Phi {
	seen := map[ssa.Value]bool{}
	var rec func(v ssa.Value) *ssa.Phi
	rec = func(v ssa.Value) *ssa.Phi {
		if seen[v] {
			return nil
		}
		seen[v] = true
		ph, ok := v.(*ssa.Phi)
		if !ok {
			return nil
		}
		if ph.Block() == l.header {
			return ph
		}
		for _, e := range ph.Edges {
			if r := rec(e); r != nil {
				return r
			}
		}
		return nil
	}
	return rec(idx)
}

func derivesFromPhiOnly(v ssa.Value, ph *ssa.Phi) bool {
	if v == ssa.Value(ph) {
		return true
	}
	if p2, ok := v.(*ssa.Phi); ok {
		for _, e := range p2.Edges {
			if !derivesFromPhiOnly(e, ph) {
				return false
			}
		}
		return true
	}
	return false
}

// atMostPlusOne: v is ph, ph+1, or a phi of such values.
func atMostPlusOne(v ssa.Value, ph *ssa.Phi, seen map[ssa.Value]bool) bool {
	if v == ssa.Value(ph) {
		return true
	}
	if seen[v] {
		return true
	}
	seen[v] = true
	switch x := v.(type) {
	case *ssa.BinOp:
		if x.Op == token.ADD {
			if k, ok := constInt(x.Y); ok && k == 1 {
				return x.X == ssa.Value(ph) || isPlainCopyOf(x.X, ph)
			}
		}
	case *ssa.Phi:
		for _, e := range x.Edges {
			if !atMostPlusOne(e, ph, seen) {
				return false
			}
		}
		return true
	}
	return false
}

func isPlainCopyOf(v ssa.Value, ph *ssa.Phi) bool {
	if p2, ok := v.(*ssa.Phi); ok {
		for _, e := range p2.Edges {
			if e != ssa.Value(ph) {
				return false
			}
		}
		return len(p2.Edges) > 0
	}
	return false
}

// ---- B10: ret[:cnt] via the append/count pairing ------------------------------------------------------------------

// pairCountSlice: ret[:cnt] where ret and cnt are locals whose addresses go only to a walker in which every
// `*ret = append(*ret, one element)` is paired with `*cnt = *cnt + 1` and nothing else writes them: cnt == len(ret).
func (p *Prog) pairCountSlice(fn *ssa.Function, in ssa.Instruction) (bool, string) {
	sl, ok := in.(*ssa.Slice)
	if !ok || sl.Low != nil || sl.High == nil {
		return false, ""
	}
	lr, ok := sl.X.(*ssa.UnOp)
	if !ok || lr.Op != token.MUL {
		return false, ""
	}
	retA, ok := lr.X.(*ssa.Alloc)
	if !ok {
		return false, ""
	}
	lc, ok := sl.High.(*ssa.UnOp)
	if !ok || lc.Op != token.MUL {
		return false, ""
	}
	cntA, ok := lc.X.(*ssa.Alloc)
	if !ok {
		return false, ""
	}
	ok2, why := p.pairCount(fn, retA, cntA)
	if !ok2 {
		return false, why
	}
	return true, "append/count pairing (PAIR.count): " + why
}

// pairCount verifies the invariant *cnt == len(*ret) for two local allocs of fn.
func (p *Prog) pairCount(fn *ssa.Function, retA, cntA *ssa.Alloc) (bool, string) {
	// initial stores in fn: ret = make([]T, 0, _), cnt = 0 (zero value when no store)
	var walkers []*ssa.Function
	walkerParams := map[*ssa.Function][2]int{}
	okInit := true
	for _, a := range []*ssa.Alloc{retA, cntA} {
		for _, ref := range *a.Referrers() {
			switch x := ref.(type) {
			case *ssa.Store:
				if x.Addr != ssa.Value(a) {
					okInit = false
					continue
				}
				if a == retA {
					ms, ok := x.Val.(*ssa.MakeSlice)
					if !ok {
						okInit = false
						continue
					}
					if k, ok := constInt(ms.Len); !ok || k != 0 {
						okInit = false
					}
				} else {
					if k, ok := constInt(x.Val); !ok || k != 0 {
						okInit = false
					}
				}
			case *ssa.UnOp, *ssa.DebugRef:
			case ssa.CallInstruction:
				g := staticCallee(x.Common())
				if g == nil || !p.InModule(g) {
					okInit = false
					continue
				}
				ri, ci := -1, -1
				for i, arg := range x.Common().Args {
					if arg == ssa.Value(retA) {
						ri = i
					}
					if arg == ssa.Value(cntA) {
						ci = i
					}
				}
				if ri < 0 || ci < 0 {
					okInit = false
					continue
				}
				if _, seen := walkerParams[g]; !seen {
					walkers = append(walkers, g)
				}
				walkerParams[g] = [2]int{ri, ci}
			default:
				okInit = false
			}
		}
	}
	if !okInit || len(walkers) == 0 {
		return false, "result slice or counter is used in an unrecognised way"
	}
	// check each walker (and the callees it forwards both pointers to)
	seen := map[*ssa.Function]bool{}
	var check func(g *ssa.Function, ri, ci int) (bool, string)
	check = func(g *ssa.Function, ri, ci int) (bool, string) {
		if seen[g] {
			return true, ""
		}
		seen[g] = true
		rp, cp := g.Params[ri], g.Params[ci]
		// every use of rp: load, store of append(load, one elem), or forwarded together with cp
		for _, ref := range *rp.Referrers() {
			switch x := ref.(type) {
			case *ssa.UnOp, *ssa.DebugRef:
			case *ssa.Store:
				if x.Addr != ssa.Value(rp) {
					return false, "result pointer escapes in " + p.Name(g)
				}
				ap, ok := x.Val.(*ssa.Call)
				if !ok {
					return false, "store to *ret that is not an append in " + p.Name(g)
				}
				bi, ok := ap.Call.Value.(*ssa.Builtin)
				if !ok || bi.Name() != "append" {
					return false, "store to *ret that is not an append in " + p.Name(g)
				}
				if ld, ok := ap.Call.Args[0].(*ssa.UnOp); !ok || ld.X != ssa.Value(rp) {
					return false, "append base is not *ret in " + p.Name(g)
				}
				if _, okAmt := appendAmount(p.canonFor(g), ap); !okAmt {
					return false, "append of an unrecognised number of elements in " + p.Name(g) + " at " + p.Pos(ap.Pos())
				}
				// paired increment in the same block, by the same amount
				if !sameAmounts(p.canonFor(g), x.Block(), rp, cp) {
					return false, "append at " + p.Pos(ap.Pos()) + " is not paired with an advance of *cnt by the number of elements appended in its block"
				}
			case ssa.CallInstruction:
				h := staticCallee(x.Common())
				if h == nil || !p.InModule(h) {
					return false, "result pointer passed to an unknown callee in " + p.Name(g)
				}
				r2, c2 := -1, -1
				for i, arg := range x.Common().Args {
					if arg == ssa.Value(rp) {
						r2 = i
					}
					if arg == ssa.Value(cp) {
						c2 = i
					}
				}
				if r2 < 0 || c2 < 0 {
					return false, "result pointer forwarded without the counter in " + p.Name(g)
				}
				if ok, why := check(h, r2, c2); !ok {
					return false, why
				}
			default:
				return false, "unrecognised use of the result pointer in " + p.Name(g)
			}
		}
		// every store to *cnt is an increment in a block that also appends
		for _, ref := range *cp.Referrers() {
			switch x := ref.(type) {
			case *ssa.UnOp, *ssa.DebugRef, ssa.CallInstruction:
			case *ssa.Store:
				if x.Addr != ssa.Value(cp) {
					return false, "counter written other than by an advance in " + p.Name(g)
				}
				if _, okAmt := incrementAmount(p.canonFor(g), x.Val, cp); !okAmt {
					return false, "counter written other than by ++ / += len(appended) in " + p.Name(g)
				}
				if !sameAmounts(p.canonFor(g), x.Block(), rp, cp) {
					return false, "counter advance at " + p.Pos(x.Pos()) + " is not paired with an append of as many elements in its block"
				}
			default:
				return false, "unrecognised use of the counter in " + p.Name(g)
			}
		}
		return true, ""
	}
	for _, w := range walkers {
		pr := walkerParams[w]
		if ok, why := check(w, pr[0], pr[1]); !ok {
			return false, why
		}
	}
	var names []string
	for f := range seen {
		names = append(names, p.Name(f))
	}
	sort.Strings(names)
	return true, "in " + strings.Join(names, ",") + " every append to *ret is paired, in its block, with an advance of *cnt by the number of elements appended, and nothing else writes them, so cnt == len(ret)"
}

// appendAmount: how many elements an append adds — "1" for a single element, "len(x)" for append(s, x...).
func appendAmount(cz *canonizer, ap *ssa.Call) (string, bool) {
	if appendsExactlyOne(ap) {
		return "1", true
	}
	if len(ap.Call.Args) == 2 {
		if _, isSl := ap.Call.Args[1].(*ssa.Slice); !isSl {
			return "len(" + cz.of(ap.Call.Args[1]) + ")", true
		}
	}
	return "", false
}

// incrementAmount: *cp + 1 or *cp + len(x).
func incrementAmount(cz *canonizer, v ssa.Value, cp ssa.Value) (string, bool) {
	bo, ok := v.(*ssa.BinOp)
	if !ok || bo.Op != token.ADD {
		return "", false
	}
	ld, ok := bo.X.(*ssa.UnOp)
	if !ok || ld.Op != token.MUL || ld.X != cp {
		return "", false
	}
	if k, isK := constInt(bo.Y); isK {
		if k == 1 {
			return "1", true
		}
		return "", false
	}
	if c, isC := bo.Y.(*ssa.Call); isC && isBuiltin(c, "len") {
		return "len(" + cz.of(c.Call.Args[0]) + ")", true
	}
	return "", false
}

// sameAmounts: within the block the appends to *rp and the advances of *cp add up to the same amounts.
func sameAmounts(cz *canonizer, b *ssa.BasicBlock, rp, cp ssa.Value) bool {
	var as, is []string
	for _, in := range b.Instrs {
		st, ok := in.(*ssa.Store)
		if !ok {
			continue
		}
		if st.Addr == rp {
			if ap, isC := st.Val.(*ssa.Call); isC {
				if amt, okA := appendAmount(cz, ap); okA {
					as = append(as, amt)
					continue
				}
			}
			return false
		}
		if st.Addr == cp {
			if amt, okI := incrementAmount(cz, st.Val, cp); okI {
				is = append(is, amt)
				continue
			}
			return false
		}
	}
	sort.Strings(as)
	sort.Strings(is)
	return len(as) > 0 && strings.Join(as, "+") == strings.Join(is, "+")
}

func appendsExactlyOne(ap *ssa.Call) bool {
	if len(ap.Call.Args) != 2 {
		return false
	}
	// variadic argument is a slice of a fresh 1-element array
	sl, ok := ap.Call.Args[1].(*ssa.Slice)
	if !ok {
		return false
	}
	a, ok := sl.X.(*ssa.Alloc)
	if !ok {
		return false
	}
	at, ok := derefType(a.Type()).Underlying().(*types.Array)
	return ok && at.Len() == 1
}

func isIncrementOf(v ssa.Value, cp ssa.Value) bool {
	bo, ok := v.(*ssa.BinOp)
	if !ok || bo.Op != token.ADD {
		return false
	}
	k, ok := constInt(bo.Y)
	if !ok || k != 1 {
		return false
	}
	ld, ok := bo.X.(*ssa.UnOp)
	return ok && ld.Op == token.MUL && ld.X == cp
}

func hasIncrement(b *ssa.BasicBlock, cp ssa.Value) bool { return countIncrements(b, cp) >= 1 }

func countIncrements(b *ssa.BasicBlock, cp ssa.Value) int {
	n := 0
	for _, in := range b.Instrs {
		if st, ok := in.(*ssa.Store); ok && st.Addr == cp && isIncrementOf(st.Val, cp) {
			n++
		}
	}
	return n
}

func countAppendStores(b *ssa.BasicBlock, rp ssa.Value) int {
	n := 0
	for _, in := range b.Instrs {
		if st, ok := in.(*ssa.Store); ok && st.Addr == rp {
			n++
		}
	}
	return n
}

// ---- B9: pretty.Outdent ----------------------------------------------------------------------------------------------

// outdentInvariant: p.padding[:len(p.padding)-len(p.indent)] under p.cnt > 0, given the representation invariant
// len(padding) >= cnt*len(indent), which holds because cnt/padding/indent are written only by Indent (append indent, cnt++),
// Outdent (under cnt > 0), whole-value construction from another pretty, and field initialisation of a fresh value before any Indent.
func (p *Prog) outdentInvariant(fn *ssa.Function, in ssa.Instruction) (bool, string) {
	if p.Name(fn) != "mxj.pretty.Outdent" {
		return false, ""
	}
	sl, ok := in.(*ssa.Slice)
	if !ok {
		return false, ""
	}
	// shape of the slice: x[: len(x) - len(indent)] with x = load padding, all loads before the first store of the block
	_ = p.canonFor(fn)
	if sl.Low != nil || sl.High == nil {
		return false, ""
	}
	recv := fn.Params[0]
	prettyT0 := derefType(recv.Type())
	loadOf := func(v ssa.Value, fname string) bool {
		if !isFieldLoad(v, fname, prettyT0) {
			return false
		}
		fa := v.(*ssa.UnOp).X.(*ssa.FieldAddr)
		if fa.X != ssa.Value(recv) {
			return false
		}
		// no store in the block before this load
		for _, i2 := range v.(*ssa.UnOp).Block().Instrs {
			if i2 == v.(ssa.Instruction) {
				return true
			}
			if _, isSt := i2.(*ssa.Store); isSt {
				return false
			}
			if ci, isCall := i2.(ssa.CallInstruction); isCall {
				if _, isB := ci.Common().Value.(*ssa.Builtin); !isB {
					return false
				}
			}
		}
		return false
	}
	lenOf := func(v ssa.Value, fname string) bool {
		c, ok := v.(*ssa.Call)
		if !ok {
			return false
		}
		bi, ok := c.Call.Value.(*ssa.Builtin)
		return ok && bi.Name() == "len" && loadOf(c.Call.Args[0], fname)
	}
	hb, ok := sl.High.(*ssa.BinOp)
	if !ok || hb.Op != token.SUB || !lenOf(hb.X, "padding") || !lenOf(hb.Y, "indent") || !loadOf(sl.X, "padding") {
		return false, ""
	}
	// guarded by cnt > 0
	guarded := false
	for _, g := range dominatingGuards(in.Block()) {
		ng := normGuard(g)
		if bo, ok := ng.Cond.(*ssa.BinOp); ok && isFieldLoad(bo.X, "cnt", prettyT0) {
			if k, ok := constInt(bo.Y); ok && ((bo.Op == token.GTR && k == 0 && ng.Pol) || (bo.Op == token.GEQ && k == 1 && ng.Pol) || (bo.Op == token.NEQ && k == 0 && ng.Pol) ||
				(bo.Op == token.LEQ && k == 0 && !ng.Pol) || (bo.Op == token.LSS && k == 1 && !ng.Pol) || (bo.Op == token.EQL && k == 0 && !ng.Pol)) {
				guarded = true
			}
		}
	}
	if !guarded {
		return false, ""
	}
	// field writers
	prettyT := derefType(fn.Params[0].Type())
	problems := []string{}
	for _, f := range p.allFuncsWithInit() {
		eachInstr(f, func(b *ssa.BasicBlock, i2 ssa.Instruction) {
			st, ok := i2.(*ssa.Store)
			if !ok {
				return
			}
			fa, ok := st.Addr.(*ssa.FieldAddr)
			if !ok || !types.Identical(derefType(fa.X.Type()), prettyT) {
				if types.Identical(derefType(st.Addr.Type()), prettyT) {
					// c := *p — a whole-value copy of another pretty into a fresh local carries the invariant with it
					if ld, isLd := st.Val.(*ssa.UnOp); isLd && ld.Op == token.MUL && types.Identical(derefType(ld.X.Type()), prettyT) && rootAlloc(st.Addr) != nil {
						return
					}
					problems = append(problems, "whole-struct store in "+p.Name(f))
				}
				return
			}
			fname := fieldName(fa.X.Type(), fa.Field)
			if fname != "cnt" && fname != "padding" && fname != "indent" {
				return
			}
			switch p.Name(f) {
			case "mxj.pretty.Indent":
				c := p.canonFor(f)
				v := c.of(st.Val)
				bo, _ := st.Val.(*ssa.BinOp)
				switch fname {
				case "padding":
					if bo == nil || bo.Op != token.ADD || !isFieldLoad(bo.X, "padding", prettyT) || !isFieldLoad(bo.Y, "indent", prettyT) {
						problems = append(problems, "Indent stores padding = "+v)
					}
				case "cnt":
					if k, isK := int64(0), false; bo != nil {
						k, isK = constInt(bo.Y)
						if bo.Op != token.ADD || !isFieldLoad(bo.X, "cnt", prettyT) || !isK || k != 1 {
							problems = append(problems, "Indent stores cnt = "+v)
						}
					} else {
						problems = append(problems, "Indent stores cnt = "+v)
					}
				default:
					problems = append(problems, "Indent writes "+fname)
				}
			case "mxj.pretty.Outdent":
				c := p.canonFor(f)
				v := c.of(st.Val)
				switch fname {
				case "padding":
					if st.Val != ssa.Value(sl) {
						problems = append(problems, "Outdent stores padding = "+v)
					}
				case "cnt":
					bo, _ := st.Val.(*ssa.BinOp)
					k, isK := int64(0), false
					if bo != nil {
						k, isK = constInt(bo.Y)
					}
					if bo == nil || bo.Op != token.SUB || !isFieldLoad(bo.X, "cnt", prettyT) || !isK || k != 1 || !st.Block().Dominates(st.Block()) || st.Block() != sl.Block() {
						problems = append(problems, "Outdent stores cnt = "+v)
					}
				default:
					problems = append(problems, "Outdent writes "+fname)
				}
			default:
				// construction of a fresh value: the target is a local Alloc/new of this function
				a := rootAlloc(fa.X)
				if a == nil {
					problems = append(problems, "field "+fname+" of a non-local pretty written in "+p.Name(f))
					return
				}
				if fname == "cnt" {
					// only copies of another pretty's cnt together with its padding/indent (whole-value copy)
					if !isFieldLoad(st.Val, "cnt", prettyT) {
						problems = append(problems, "cnt of a fresh pretty set to a non-copied value in "+p.Name(f))
					}
				} else {
					// padding/indent of a fresh value: either a copy of the same field (whole-value copy) or initialisation while cnt is still 0:
					if isFieldLoad(st.Val, fname, prettyT) {
						return
					}
					// initialisation: no Indent call on this alloc may precede the store
					if indentCalledBefore(p, a, st) {
						problems = append(problems, fname+" re-assigned after Indent in "+p.Name(f))
					}
					if copiesCnt(a, prettyT) {
						problems = append(problems, fname+" initialised on a value whose cnt is copied in "+p.Name(f))
					}
				}
			}
		})
	}
	if len(problems) > 0 {
		return false, "representation invariant of pretty not established: " + strings.Join(uniq(problems), "; ")
	}
	return true, "representation invariant len(padding) >= cnt*len(indent): the three fields are written only by Indent (+indent, cnt++), Outdent (under cnt > 0), whole-value copies and initialisation of fresh values before any Indent"
}

func isFieldLoad(v ssa.Value, fname string, T types.Type) bool {
	u, ok := v.(*ssa.UnOp)
	if !ok || u.Op != token.MUL {
		return false
	}
	fa, ok := u.X.(*ssa.FieldAddr)
	return ok && types.Identical(derefType(fa.X.Type()), T) && fieldName(fa.X.Type(), fa.Field) == fname
}

func copiesCnt(a *ssa.Alloc, T types.Type) bool {
	found := false
	for _, ref := range *a.Referrers() {
		if fa, ok := ref.(*ssa.FieldAddr); ok && fieldName(fa.X.Type(), fa.Field) == "cnt" {
			for _, r2 := range *fa.Referrers() {
				if _, ok := r2.(*ssa.Store); ok {
					found = true
				}
			}
		}
	}
	return found
}

// indentCalledBefore: some call of Indent with receiver a can execute before st.
func indentCalledBefore(p *Prog, a *ssa.Alloc, st *ssa.Store) bool {
	for _, ref := range *a.Referrers() {
		ci, ok := ref.(ssa.CallInstruction)
		if !ok {
			continue
		}
		g := staticCallee(ci.Common())
		if g == nil || g.Name() != "Indent" {
			continue
		}
		cb := ci.(ssa.Instruction).Block()
		if cb == st.Block() {
			if indexIn(ci.(ssa.Instruction)) < indexIn(st) {
				return true
			}
			if reachableFromSuccs(cb)[cb] {
				return true
			}
			continue
		}
		if reachableFromSuccs(cb)[st.Block()] {
			return true
		}
	}
	return false
}

// ---- B11: inductive length precondition of a slice parameter ------------------------------------------------------------

// paramLenPre: for an unexported function, the largest c in {1} such that len(param) >= c holds at every call site
// (recursive sites checked under the same assumption). Returns parameter -> minimum length.
func (p *Prog) paramLenPre(fn *ssa.Function) map[*ssa.Parameter]int64 {
	key := fmt.Sprintf("plp:%p", fn)
	if v, ok := p.facts[key]; ok {
		return v.(map[*ssa.Parameter]int64)
	}
	out := map[*ssa.Parameter]int64{}
	p.facts[key] = out
	if p.Exported(fn) || fn.Parent() != nil {
		return out
	}
	sites := p.CG().sites[fn]
	if len(sites) == 0 {
		return out
	}
	for pi, prm := range fn.Params {
		if _, ok := prm.Type().Underlying().(*types.Slice); !ok {
			continue
		}
		ok := true
		for _, site := range sites {
			caller := site.Parent()
			args := site.Common().Args
			if site.Common().IsInvoke() || pi >= len(args) {
				ok = false
				break
			}
			arg := args[pi]
			at := site.(ssa.Instruction)
			// a call made inside a local closure with a captured, never re-assigned variable as the argument: the variable holds
			// what it was given in the defining function; judge the length there, where the value is computed
			if cv := p.CellValue(arg); cv != nil {
				if cin, isIn := cv.(ssa.Instruction); isIn && cv.Parent() != nil {
					arg, caller, at = cv, cv.Parent(), cin
					// facts about a value hold after the instruction that defines it
					if blk := cin.Block(); blk != nil {
						if i := indexIn(cin); i+1 < len(blk.Instrs) {
							at = blk.Instrs[i+1]
						}
					}
				}
			}
			var assume []zdefSpec
			if caller == fn {
				assume = []zdefSpec{{prm, 1}}
			}
			z := p.zoneFlowOf(caller, assume)
			lt := z.lenTerm(arg)
			if !z.leq(at, zterm{0, 1, true}, lt) {
				// a field every store of which is a made slice of constant length >= 1 (the invariant of B8)
				if k, isK := p.constBufLen(caller, arg); isK && k >= 1 {
					continue
				}
				ok = false
				break
			}
		}
		if ok {
			out[prm] = 1
		}
	}
	return out
}

// tableConstIndex (B12): x[k] with constant k where x is component c of an element of the escape table — a package variable that
// is a literal of constant (pattern, replacement) pairs and is written nowhere but in its initialiser — and every entry's
// component c is at least k+1 bytes long.
func (p *Prog) tableConstIndex(fn *ssa.Function, in ssa.Instruction) (bool, string) {
	ia, ok := in.(*ssa.IndexAddr)
	if !ok {
		return false, ""
	}
	k, isK := constInt(ia.Index)
	if !isK || k < 0 {
		return false, ""
	}
	g := p.Globals["mxj."+p.escapeTableVar()]
	if g == nil || !p.stableGlobal(g) {
		return false, ""
	}
	tab, _, kind := p.escapeTable()
	if kind != "pairs" || len(tab) == 0 {
		return false, ""
	}
	// ia.X = load(&E[c]) with E the element (or a local copy of it) of the table
	ld, ok := ia.X.(*ssa.UnOp)
	if !ok {
		return false, ""
	}
	ca, ok := ld.X.(*ssa.IndexAddr)
	if !ok {
		return false, ""
	}
	c, isC := constInt(ca.Index)
	if !isC || c < 0 || c > 1 {
		return false, ""
	}
	fromTable := func(base ssa.Value) bool {
		if al, isA := base.(*ssa.Alloc); isA {
			all, n := true, 0
			for _, ref := range *al.Referrers() {
				if st, isSt := ref.(*ssa.Store); isSt && st.Addr == ssa.Value(al) {
					n++
					l2, isLd := st.Val.(*ssa.UnOp)
					if !isLd {
						all = false
						continue
					}
					e, isE := l2.X.(*ssa.IndexAddr)
					if !isE || globalOf(e.X) != g {
						all = false
					}
				}
			}
			return all && n > 0
		}
		if e, isE := base.(*ssa.IndexAddr); isE {
			return globalOf(e.X) == g
		}
		return false
	}
	if !fromTable(ca.X) {
		return false, ""
	}
	for _, pr := range tab {
		if int64(len(pr[c])) <= k {
			return false, ""
		}
	}
	return true, fmt.Sprintf("table constant (B12): component %d of every entry of the escape table literal is longer than %d bytes, and the table is written only by its initialiser", c, k)
}

// paramContainsPre: the strings.Split(prm, sep) calls of an unexported function (constant sep, prm a string parameter) for which
// every call site of the function is dominated by a successful test that the argument contains sep: the split has at least two parts.
func (p *Prog) paramContainsPre(fn *ssa.Function) []ssa.Value {
	key := fmt.Sprintf("pcp:%p", fn)
	if v, ok := p.facts[key]; ok {
		return v.([]ssa.Value)
	}
	var out []ssa.Value
	p.facts[key] = out
	if p.Exported(fn) || fn.Parent() != nil || len(fn.Blocks) == 0 {
		return out
	}
	sites := p.CG().sites[fn]
	if len(sites) == 0 {
		return out
	}
	eachInstr(fn, func(b *ssa.BasicBlock, in ssa.Instruction) {
		c, ok := in.(*ssa.Call)
		if !ok || !isCallTo(&c.Call, "strings.Split") {
			return
		}
		sep, isS := constString(c.Call.Args[1])
		if !isS || sep == "" {
			return
		}
		pi := -1
		for i, prm := range fn.Params {
			if c.Call.Args[0] == ssa.Value(prm) {
				pi = i
			}
		}
		if pi < 0 {
			return
		}
		all := true
		for _, site := range sites {
			args := site.Common().Args
			caller := site.Parent()
			if site.Common().IsInvoke() || pi >= len(args) || caller == fn {
				all = false
				break
			}
			cz := p.canonFor(caller)
			want := cz.of(args[pi])
			okSite := false
			for _, g := range expandAndGuards(dominatingGuards(site.Block())) {
				ng := normGuard(g)
				switch x := ng.Cond.(type) {
				case *ssa.Call:
					if ng.Pol && isCallTo(&x.Call, "strings.Contains") && cz.of(x.Call.Args[0]) == want {
						if s2, ok2 := constString(x.Call.Args[1]); ok2 && s2 == sep {
							okSite = true
						}
					}
				case *ssa.BinOp:
					ic, isC := x.X.(*ssa.Call)
					if !isC || !isCallTo(&ic.Call, "strings.Index", "strings.LastIndex", "strings.IndexByte", "strings.LastIndexByte") || cz.of(ic.Call.Args[0]) != want {
						continue
					}
					if s2, ok2 := constString(ic.Call.Args[1]); !ok2 || s2 != sep {
						if bv, isB := constInt(ic.Call.Args[1]); !isB || len(sep) != 1 || int64(sep[0]) != bv {
							continue
						}
					}
					k, isK := constInt(x.Y)
					if !isK {
						continue
					}
					switch {
					case x.Op == token.GEQ && k == 0 && ng.Pol, x.Op == token.LSS && k == 0 && !ng.Pol,
						x.Op == token.NEQ && k == -1 && ng.Pol, x.Op == token.EQL && k == -1 && !ng.Pol,
						x.Op == token.GTR && k == -1 && ng.Pol, x.Op == token.LEQ && k == -1 && !ng.Pol:
						okSite = true
					}
				}
			}
			if !okSite {
				all = false
				break
			}
		}
		if all {
			out = append(out, c)
		}
	})
	p.facts[key] = out
	return out
}
